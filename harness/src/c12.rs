//! C12 — loading any model text yields a usable model or an error, never a crash.
//!
//! Validation part (the property's quantifier is a fault enumeration): every single structural
//! fault — delete / duplicate / empty / swap an element, an attribute or a text node; retarget
//! an `href` (or a `typeRef`) to a missing, to its own, to an ancestor or to another element —
//! at every position of the example models shipped under `/repo/examples` (the `.dmn` files and
//! the `EX_*` decision tables of `examples/src/examples/valid.rs`, read as text at run time and
//! rendered as one-decision models) and of generated models; pairs of faults and byte-level
//! corruption in the thorough tier.  Each case runs `parse → ModelEvaluator::new →
//! evaluate_invocable` for every invocable, inside child processes of this executable
//! (`vharness child c12`, batches of cases, every case under `catch_unwind`), so that a stack
//! overflow or abort is an observation: the batch is resumed after the case that killed it.
//!
//! Scale families (`scale`): texts the fault enumeration never reaches because they are big, generated from
//! a few parameters (the replay names the generator and its parameters) — *deep-nesting*: boxed contexts,
//! boxed function definitions and item components nested thousands of levels deep, chains of thousands of
//! decisions each requiring the next (the answer must be a model, an error or a value, not the death of the
//! process); *diamond*: layers of two decisions / knowledge models / item definitions that both refer to both
//! elements of the next layer, at most 64 elements (the answer must come within an explicit wall-clock
//! budget, `DIAMOND_BUDGET_MS`, for loading and for evaluating an invocable: "never … a hang").
//!
//! Model part: `Dmn.MB` (decision-table builder index pairing, fuel-bounded traversals) through
//! the driver, compared with the implementation on generated table shapes and requirement graphs.
//!
//! XML layer (`c12xml.rs`): `dmntk_model::parse` against `Dmn.Xml.parse`, the Lean model of
//! `model/src/model/parser.rs`, on every base text and on a seeded sample of the faulted texts; the
//! generated tables and graphs also go text → tree → `Dmn.Xml.parse` → `toTableS` / `toDefs` → builder
//! model, so that the abstraction functions between the two models are tied as well.

use crate::model::Model;
use crate::report::{Kind, Report};
use crate::rng::Rng;
use crate::sexp::Sexp;
use crate::util;
use crate::Cfg;
use dmntk_feel::context::FeelContext;
use dmntk_feel::values::Value;
use dmntk_feel::Name;
use dmntk_model_evaluator::ModelEvaluator;
use serde_json::{json, Value as J};
use std::sync::Mutex;

#[path = "c12xml.rs"]
pub mod xml;

// ------------------------------------------------------------------------------------------
// a small XML scanner (element / attribute / text positions in the original text)
// ------------------------------------------------------------------------------------------

#[derive(Debug, Clone)]
pub struct Attr {
  pub name: String,
  /// start of the blank(s) before the name
  pub full_start: usize,
  /// value without quotes
  pub val_start: usize,
  pub val_end: usize,
  /// after the closing quote
  pub full_end: usize,
}

#[derive(Debug, Clone)]
pub struct Elem {
  pub name: String,
  pub start: usize,
  /// after `>` of the start tag
  pub open_end: usize,
  /// start of `</name>` (== open_end for `<x/>`)
  pub close_start: usize,
  /// after the end tag
  pub end: usize,
  pub attrs: Vec<Attr>,
  pub parent: Option<usize>,
  pub children: Vec<usize>,
  pub self_closing: bool,
}

#[derive(Debug, Clone)]
pub struct Text {
  pub start: usize,
  pub end: usize,
  pub parent: usize,
}

pub struct Doc {
  pub elems: Vec<Elem>,
  pub texts: Vec<Text>,
}

fn local(name: &str) -> &str {
  name.rsplit(':').next().unwrap_or(name)
}

pub fn scan(xml: &str) -> Option<Doc> {
  let b = xml.as_bytes();
  let mut elems: Vec<Elem> = vec![];
  let mut texts: Vec<Text> = vec![];
  let mut stack: Vec<usize> = vec![];
  let mut i = 0;
  while i < b.len() {
    if b[i] == b'<' {
      if xml[i..].starts_with("<?") {
        i = i + xml[i..].find("?>")? + 2;
      } else if xml[i..].starts_with("<!--") {
        i = i + xml[i..].find("-->")? + 3;
      } else if xml[i..].starts_with("<![CDATA[") {
        let e = i + xml[i..].find("]]>")? + 3;
        if let Some(&p) = stack.last() {
          texts.push(Text { start: i, end: e, parent: p });
        }
        i = e;
      } else if xml[i..].starts_with("<!") {
        i = i + xml[i..].find('>')? + 1;
      } else if xml[i..].starts_with("</") {
        let e = i + xml[i..].find('>')? + 1;
        let idx = stack.pop()?;
        elems[idx].close_start = i;
        elems[idx].end = e;
        i = e;
      } else {
        // start tag
        let mut j = i + 1;
        while j < b.len() && !b[j].is_ascii_whitespace() && b[j] != b'>' && b[j] != b'/' {
          j += 1;
        }
        let name = xml[i + 1..j].to_string();
        let mut attrs = vec![];
        let mut self_closing = false;
        loop {
          let ws = j;
          while j < b.len() && b[j].is_ascii_whitespace() {
            j += 1;
          }
          if j >= b.len() {
            return None;
          }
          if b[j] == b'>' {
            j += 1;
            break;
          }
          if b[j] == b'/' {
            if j + 1 < b.len() && b[j + 1] == b'>' {
              self_closing = true;
              j += 2;
              break;
            }
            return None;
          }
          let ns = j;
          while j < b.len() && b[j] != b'=' && !b[j].is_ascii_whitespace() {
            j += 1;
          }
          let an = xml[ns..j].to_string();
          while j < b.len() && b[j].is_ascii_whitespace() {
            j += 1;
          }
          if j >= b.len() || b[j] != b'=' {
            return None;
          }
          j += 1;
          while j < b.len() && b[j].is_ascii_whitespace() {
            j += 1;
          }
          if j >= b.len() || (b[j] != b'"' && b[j] != b'\'') {
            return None;
          }
          let q = b[j];
          let vs = j + 1;
          let mut k = vs;
          while k < b.len() && b[k] != q {
            k += 1;
          }
          if k >= b.len() {
            return None;
          }
          attrs.push(Attr { name: an, full_start: ws, val_start: vs, val_end: k, full_end: k + 1 });
          j = k + 1;
        }
        let idx = elems.len();
        let parent = stack.last().copied();
        if let Some(p) = parent {
          elems[p].children.push(idx);
        }
        elems.push(Elem { name, start: i, open_end: j, close_start: j, end: j, attrs, parent, children: vec![], self_closing });
        if !self_closing {
          stack.push(idx);
        }
        i = j;
      }
    } else {
      let mut j = i;
      while j < b.len() && b[j] != b'<' {
        j += 1;
      }
      if let Some(&p) = stack.last() {
        let t = &xml[i..j];
        if !t.trim().is_empty() {
          let lead = t.len() - t.trim_start().len();
          let trail = t.len() - t.trim_end().len();
          texts.push(Text { start: i + lead, end: j - trail, parent: p });
        }
      }
      i = j;
    }
  }
  if !stack.is_empty() || elems.is_empty() {
    return None;
  }
  Some(Doc { elems, texts })
}

// ------------------------------------------------------------------------------------------
// faults
// ------------------------------------------------------------------------------------------

#[derive(Debug, Clone)]
pub struct Fault {
  /// e.g. `element:delete`, `href:own`
  pub kind: String,
  /// where (element name / attribute name and offset)
  pub at: String,
  /// non-overlapping replacements `(start, end, text)` on the base text
  pub edits: Vec<(usize, usize, String)>,
}

pub fn apply(base: &str, edits: &[(usize, usize, String)]) -> String {
  let mut es: Vec<&(usize, usize, String)> = edits.iter().collect();
  es.sort_by_key(|e| e.0);
  let mut out = String::with_capacity(base.len() + 64);
  let mut pos = 0;
  for (s, e, r) in es {
    if *s < pos || *e < *s || *e > base.len() {
      continue; // overlapping pair: the later edit is dropped
    }
    out.push_str(&base[pos..*s]);
    out.push_str(r);
    pos = *e;
  }
  out.push_str(&base[pos..]);
  out
}

const DRG: [&str; 5] = ["decision", "businessKnowledgeModel", "decisionService", "inputData", "knowledgeSource"];

pub fn faults(xml: &str, doc: &Doc) -> Vec<Fault> {
  let mut fs = vec![];
  let ids: Vec<String> = doc
    .elems
    .iter()
    .filter_map(|e| e.attrs.iter().find(|a| a.name == "id").map(|a| xml[a.val_start..a.val_end].to_string()))
    .collect();
  let item_names: Vec<String> = doc
    .elems
    .iter()
    .filter(|e| local(&e.name) == "itemDefinition")
    .filter_map(|e| e.attrs.iter().find(|a| a.name == "name").map(|a| xml[a.val_start..a.val_end].to_string()))
    .collect();
  for (ei, e) in doc.elems.iter().enumerate() {
    let at = format!("<{}>@{}", e.name, e.start);
    let whole = xml[e.start..e.end].to_string();
    fs.push(Fault { kind: "element:delete".into(), at: at.clone(), edits: vec![(e.start, e.end, String::new())] });
    fs.push(Fault { kind: "element:duplicate".into(), at: at.clone(), edits: vec![(e.end, e.end, whole.clone())] });
    if !e.self_closing && e.close_start > e.open_end {
      fs.push(Fault { kind: "element:empty".into(), at: at.clone(), edits: vec![(e.open_end, e.close_start, String::new())] });
    }
    if let Some(p) = e.parent {
      let sibs = &doc.elems[p].children;
      if let Some(pos) = sibs.iter().position(|&c| c == ei) {
        if pos + 1 < sibs.len() {
          let n = &doc.elems[sibs[pos + 1]];
          fs.push(Fault {
            kind: "element:swap".into(),
            at: at.clone(),
            edits: vec![(e.start, e.end, xml[n.start..n.end].to_string()), (n.start, n.end, whole.clone())],
          });
        }
      }
    }
    for (ai, a) in e.attrs.iter().enumerate() {
      let aat = format!("<{}> {}@{}", e.name, a.name, a.full_start);
      fs.push(Fault { kind: "attribute:delete".into(), at: aat.clone(), edits: vec![(a.full_start, a.full_end, String::new())] });
      fs.push(Fault { kind: "attribute:duplicate".into(), at: aat.clone(), edits: vec![(a.full_end, a.full_end, xml[a.full_start..a.full_end].to_string())] });
      fs.push(Fault { kind: "attribute:empty".into(), at: aat.clone(), edits: vec![(a.val_start, a.val_end, String::new())] });
      if ai + 1 < e.attrs.len() {
        let n = &e.attrs[ai + 1];
        fs.push(Fault {
          kind: "attribute:swap".into(),
          at: aat.clone(),
          edits: vec![(a.val_start, a.val_end, xml[n.val_start..n.val_end].to_string()), (n.val_start, n.val_end, xml[a.val_start..a.val_end].to_string())],
        });
      }
      if a.name == "href" {
        fs.push(Fault { kind: "href:missing".into(), at: aat.clone(), edits: vec![(a.val_start, a.val_end, "#_no_such_element_".into())] });
        // references that are not of the form `#id`: other shapes of URI references, well-formed and not
        for odd in [":alfa", "::", "1:b", "a:b", "#a#b", "%", "a b", "http://[", "", "//host/path#frag", "?q#", "urn:x:y", "a/b:c", "./:a"] {
          fs.push(Fault { kind: "href:odd".into(), at: aat.clone(), edits: vec![(a.val_start, a.val_end, odd.to_string())] });
        }
        // ancestors that carry an id: the nearest DRG element is "its own" element
        let mut anc = e.parent;
        let mut own_done = false;
        while let Some(p) = anc {
          let pe = &doc.elems[p];
          if let Some(ida) = pe.attrs.iter().find(|x| x.name == "id") {
            let id = &xml[ida.val_start..ida.val_end];
            let kind = if !own_done && DRG.contains(&local(&pe.name)) {
              own_done = true;
              "href:own"
            } else {
              "href:ancestor"
            };
            fs.push(Fault { kind: kind.into(), at: aat.clone(), edits: vec![(a.val_start, a.val_end, format!("#{}", id))] });
          }
          anc = pe.parent;
        }
        let cur = &xml[a.val_start..a.val_end];
        for id in &ids {
          if format!("#{}", id) != cur {
            fs.push(Fault { kind: "href:other".into(), at: aat.clone(), edits: vec![(a.val_start, a.val_end, format!("#{}", id))] });
          }
        }
      }
      if a.name == "typeRef" {
        fs.push(Fault { kind: "typeRef:missing".into(), at: aat.clone(), edits: vec![(a.val_start, a.val_end, "tNoSuchType".into())] });
        for n in &item_names {
          if n != &xml[a.val_start..a.val_end] {
            fs.push(Fault { kind: "typeRef:other".into(), at: aat.clone(), edits: vec![(a.val_start, a.val_end, n.clone())] });
          }
        }
      }
    }
  }
  for (ti, t) in doc.texts.iter().enumerate() {
    let p = &doc.elems[t.parent];
    let at = format!("text of <{}>@{}", p.name, t.start);
    let s = xml[t.start..t.end].to_string();
    fs.push(Fault { kind: "text:delete".into(), at: at.clone(), edits: vec![(t.start, t.end, String::new())] });
    fs.push(Fault { kind: "text:duplicate".into(), at: at.clone(), edits: vec![(t.end, t.end, s.clone())] });
    fs.push(Fault { kind: "text:empty".into(), at: at.clone(), edits: vec![(t.start, t.end, " ".into())] });
    if ti + 1 < doc.texts.len() {
      let n = &doc.texts[ti + 1];
      fs.push(Fault {
        kind: "text:swap".into(),
        at: at.clone(),
        edits: vec![(t.start, t.end, xml[n.start..n.end].to_string()), (n.start, n.end, s.clone())],
      });
    }
    if local(&p.name) == "typeRef" {
      fs.push(Fault { kind: "typeRef:missing".into(), at: at.clone(), edits: vec![(t.start, t.end, "tNoSuchType".into())] });
      // the enclosing item definition's own name (self reference) and every other one
      let mut anc = p.parent;
      let mut own: Option<String> = None;
      while let Some(q) = anc {
        let qe = &doc.elems[q];
        if local(&qe.name) == "itemDefinition" {
          own = qe.attrs.iter().find(|x| x.name == "name").map(|x| xml[x.val_start..x.val_end].to_string());
        }
        anc = qe.parent;
      }
      if let Some(o) = &own {
        fs.push(Fault { kind: "typeRef:own".into(), at: at.clone(), edits: vec![(t.start, t.end, o.clone())] });
        // the same reference laid out on a line of its own (white space around the text of an element is layout)
        fs.push(Fault { kind: "typeRef:own-padded".into(), at: at.clone(), edits: vec![(t.start, t.end, format!("\n      {}\n    ", o))] });
      }
      fs.push(Fault { kind: "typeRef:padded".into(), at: at.clone(), edits: vec![(t.start, t.end, format!("\n      {}\n    ", s.trim()))] });
      for n in &item_names {
        if Some(n) != own.as_ref() && n != &s {
          fs.push(Fault { kind: "typeRef:other".into(), at: at.clone(), edits: vec![(t.start, t.end, n.clone())] });
          fs.push(Fault { kind: "typeRef:other-padded".into(), at: at.clone(), edits: vec![(t.start, t.end, format!(" {} ", n))] });
        }
      }
    }
  }
  fs
}

// ------------------------------------------------------------------------------------------
// the child: runs a batch of cases on one base text
// ------------------------------------------------------------------------------------------

static LAST_PANIC: Mutex<String> = Mutex::new(String::new());

fn strip_site(file: &str, line: u32) -> String {
  let f = file.strip_prefix("/repo/").unwrap_or(file);
  // registry / toolchain paths: keep the crate-relative tail
  let f = match f.find("/src/") {
    Some(p) if f.starts_with('/') => {
      let head = &f[..p];
      let krate = head.rsplit('/').next().unwrap_or("");
      format!("{}{}", krate, &f[p..])
    }
    _ => f.to_string(),
  };
  format!("{}:{}", f, line)
}

/// Input contexts used for every invocable: empty, and every input-data / parameter name
/// bound to a value of its declared built-in type (a number otherwise).
fn contexts(defs: &dmntk_model::model::Definitions) -> Vec<FeelContext> {
  use dmntk_model::model::{NamedElement, RequiredVariable};
  let scope = dmntk_feel::Scope::default();
  let ev = |t: &str| -> Value {
    match dmntk_feel_parser::parse_expression(&scope, t, false).ok().and_then(|n| dmntk_feel_evaluator::evaluate(&scope, &n).ok()) {
      Some(v) => v,
      None => Value::Null(None),
    }
  };
  let mut typed = FeelContext::default();
  let mut nums = FeelContext::default();
  // values of the wrong shape for any declared type: empty and nested-empty collections and contexts, nulls
  let odd_texts = ["[]", "{}", "[[]]", "{a: {}, b: []}", "[null]", "null"];
  let mut odd: Vec<FeelContext> = odd_texts.iter().map(|_| FeelContext::default()).collect();
  for id in defs.input_data() {
    for (k, t) in odd_texts.iter().enumerate() {
      odd[k].set_entry(&id.name().into(), ev(t));
    }
    let name: Name = id.name().into();
    let v = match id.variable().type_ref().as_deref() {
      Some("string") => ev("\"a\""),
      Some("boolean") => ev("true"),
      Some("date") => ev("date(\"2020-01-02\")"),
      Some("time") => ev("time(\"10:11:12\")"),
      Some("dateTime") => ev("date and time(\"2020-01-02T10:11:12\")"),
      Some("dayTimeDuration") => ev("duration(\"P1D\")"),
      Some("yearMonthDuration") => ev("duration(\"P1Y\")"),
      _ => ev("1"),
    };
    typed.set_entry(&name, v);
    nums.set_entry(&name, ev("[1, 2]"));
  }
  let mut all = vec![FeelContext::default(), typed, nums];
  all.extend(odd);
  all
}

fn run_one(text: &str, only: Option<&str>, progress: &mut dyn FnMut(&str)) -> String {
  use dmntk_model::model::NamedElement;
  *LAST_PANIC.lock().unwrap() = String::new();
  progress("parse");
  let parsed = util::guarded(|| dmntk_model::parse(text));
  let defs = match parsed {
    Err(_) => return format!("panic-parse\t{}", LAST_PANIC.lock().unwrap()),
    Ok(Err(_)) => return "parse-error\t".to_string(),
    Ok(Ok(d)) => d,
  };
  progress("build");
  let built = util::guarded(|| ModelEvaluator::new(&defs));
  let me = match built {
    Err(_) => return format!("panic-build\t{}", LAST_PANIC.lock().unwrap()),
    Ok(Err(_)) => return "build-error\t".to_string(),
    Ok(Ok(m)) => m,
  };
  let mut names: Vec<String> = vec![];
  for d in defs.decisions() {
    names.push(d.name().to_string());
  }
  for d in defs.business_knowledge_models() {
    names.push(d.name().to_string());
  }
  for d in defs.decision_services() {
    names.push(d.name().to_string());
  }
  let ctxs = contexts(&defs);
  let mut n = 0;
  if let Some(o) = only {
    names.retain(|x| x == o);
  }
  for name in &names {
    progress(&format!("eval {}", name.replace(['\t', '\n'], " ")));
    for c in &ctxs {
      let r = util::guarded(|| me.evaluate_invocable(name, c));
      match r {
        Ok(_) => n += 1,
        Err(_) => return format!("panic-eval\t{}", LAST_PANIC.lock().unwrap()),
      }
    }
  }
  format!("ok\t{}", n)
}

/// `vharness child c12 <progress-file>`: stdin = JSON lines; first `{"base": text}`, then
/// `{"id": n, "edits": [[start, end, text]…]}`. Progress goes to the file, one line per step
/// (`start id`, `stage id <stage>`, `done id <stage> <detail>`), flushed before the step runs,
/// so that the parent knows the case and the stage at which the process died.
pub fn child(args: &[String], input: &str) -> i32 {
  use std::io::Write;
  std::panic::set_hook(Box::new(|info| {
    if let Some(l) = info.location() {
      if let Ok(mut g) = LAST_PANIC.lock() {
        *g = strip_site(l.file(), l.line());
      }
    }
  }));
  let path = match args.get(1) {
    Some(p) => p.clone(),
    None => return 2,
  };
  let mut out = match std::fs::File::create(&path) {
    Ok(f) => f,
    Err(_) => return 2,
  };
  let mut lines = input.lines();
  let base: String = match lines.next().and_then(|l| serde_json::from_str::<J>(l).ok()) {
    Some(j) => j["base"].as_str().unwrap_or("").to_string(),
    None => return 2,
  };
  for l in lines {
    let j: J = match serde_json::from_str(l) {
      Ok(j) => j,
      Err(_) => continue,
    };
    let id = j["id"].as_u64().unwrap_or(0);
    let edits: Vec<(usize, usize, String)> = j["edits"]
      .as_array()
      .map(|a| a.iter().map(|e| (e[0].as_u64().unwrap_or(0) as usize, e[1].as_u64().unwrap_or(0) as usize, e[2].as_str().unwrap_or("").to_string())).collect())
      .unwrap_or_default();
    let text = apply(&base, &edits);
    let only: Option<String> = j["only"].as_str().map(|s| s.to_string());
    let _ = writeln!(out, "start\t{}", id);
    let _ = out.flush();
    let t0 = std::time::Instant::now();
    let r = run_one(&text, only.as_deref(), &mut |stage: &str| {
      // `time` lines: milliseconds since the start of the case at which a stage begins (read by the scale families)
      let _ = writeln!(out, "time\t{}\t{}\t{}", id, t0.elapsed().as_millis(), stage);
      let _ = writeln!(out, "stage\t{}\t{}", id, stage);
      let _ = out.flush();
    });
    let _ = writeln!(out, "time\t{}\t{}\tend", id, t0.elapsed().as_millis());
    let _ = writeln!(out, "done\t{}\t{}", id, r);
    let _ = out.flush();
  }
  0
}

// ------------------------------------------------------------------------------------------
// the parent: batches, resumption after a crash
// ------------------------------------------------------------------------------------------

#[derive(Debug, Clone)]
pub struct Obs {
  pub stage: String,
  pub detail: String,
}

/// Runs the cases `(id, edits)` on `base` in child processes; a case that kills the child is
/// recorded as `abort:<how>` and the batch resumes after it; a batch that times out is split.
pub fn run_cases(base: &str, cases: &[(usize, Vec<(usize, usize, String)>)], out: &mut Vec<(usize, Obs)>) {
  run_cases_only(base, cases, &[], out)
}

/// As `run_cases`; `only[k]` (when given) restricts case `k` to one invocable name (`-`: none).
pub fn run_cases_only(base: &str, cases: &[(usize, Vec<(usize, usize, String)>)], only: &[String], out: &mut Vec<(usize, Obs)>) {
  run_cases_timed(base, cases, only, None, out, &mut vec![])
}

/// As `run_cases_only` with an explicit wall-clock limit per child (milliseconds); `times` receives the
/// `time` lines of the children: (case, milliseconds since the start of the case, stage that begins).
pub fn run_cases_timed(base: &str, cases: &[(usize, Vec<(usize, usize, String)>)], only: &[String], limit_ms: Option<u64>, out: &mut Vec<(usize, Obs)>, times: &mut Vec<(usize, u64, String)>) {
  const BATCH: usize = 400;
  let mut queue: Vec<Vec<(usize, Vec<(usize, usize, String)>)>> = cases.chunks(BATCH).map(|c| c.to_vec()).collect();
  queue.reverse();
  while let Some(batch) = queue.pop() {
    if batch.is_empty() {
      continue;
    }
    let mut stdin = String::new();
    stdin.push_str(&json!({ "base": base }).to_string());
    stdin.push('\n');
    for (id, edits) in &batch {
      let es: Vec<J> = edits.iter().map(|(s, e, r)| json!([s, e, r])).collect();
      match only.get(*id) {
        Some(o) => stdin.push_str(&json!({"id": id, "edits": es, "only": o}).to_string()),
        None => stdin.push_str(&json!({"id": id, "edits": es}).to_string()),
      }
      stdin.push('\n');
    }
    let timeout = limit_ms.unwrap_or(20_000 + 150 * batch.len() as u64);
    let pfile = progress_file();
    let (desc, _) = util::child(&["c12", &pfile], &stdin, timeout);
    let progress = std::fs::read_to_string(&pfile).unwrap_or_default();
    let _ = std::fs::remove_file(&pfile);
    let mut done = std::collections::HashSet::new();
    let mut started: Option<(usize, String)> = None;
    for l in progress.lines() {
      let parts: Vec<&str> = l.split('\t').collect();
      match parts.as_slice() {
        ["start", id] => started = id.parse().ok().map(|i| (i, "start".to_string())),
        ["time", id, ms, st] => {
          if let (Ok(id), Ok(ms)) = (id.parse::<usize>(), ms.parse::<u64>()) {
            times.push((id, ms, st.to_string()));
          }
        }
        ["stage", id, st] => started = id.parse().ok().map(|i| (i, st.to_string())),
        ["done", id, stage, detail] => {
          if let Ok(id) = id.parse::<usize>() {
            done.insert(id);
            out.push((id, Obs { stage: stage.to_string(), detail: detail.to_string() }));
            started = None;
          }
        }
        ["done", id, stage] => {
          if let Ok(id) = id.parse::<usize>() {
            done.insert(id);
            out.push((id, Obs { stage: stage.to_string(), detail: String::new() }));
            started = None;
          }
        }
        _ => {}
      }
    }
    if desc != "ok" {
      // the child died (or hung) while running `started`
      let crashed = started.clone().or_else(|| batch.iter().map(|c| c.0).find(|id| !done.contains(id)).map(|i| (i, "start".to_string())));
      if let Some((cid, st)) = crashed {
        let stage = if desc == "timeout" { "timeout" } else { "abort" };
        out.push((cid, Obs { stage: stage.into(), detail: format!("{} during {}", desc, st) }));
        done.insert(cid);
      }
      let rest: Vec<_> = batch.iter().filter(|c| !done.contains(&c.0)).cloned().collect();
      if !rest.is_empty() && rest.len() < batch.len() {
        queue.push(rest);
      } else if !rest.is_empty() {
        for c in rest {
          out.push((c.0, Obs { stage: "abort".into(), detail: format!("{} (batch could not be resumed)", desc) }));
        }
      }
    }
  }
}

fn progress_file() -> String {
  static N: std::sync::atomic::AtomicUsize = std::sync::atomic::AtomicUsize::new(0);
  let n = N.fetch_add(1, std::sync::atomic::Ordering::SeqCst);
  let mut dir = std::env::current_dir().unwrap_or_else(|_| std::env::temp_dir());
  dir.push(".build");
  dir.push("c12-tmp");
  if std::fs::create_dir_all(&dir).is_err() {
    dir = std::env::temp_dir();
  }
  dir.push(format!("{}-{}.progress", std::process::id(), n));
  dir.to_string_lossy().to_string()
}

// ------------------------------------------------------------------------------------------
// sources of base models
// ------------------------------------------------------------------------------------------

fn collect_dmn(dir: &std::path::Path, out: &mut Vec<(String, String)>) {
  if let Ok(rd) = std::fs::read_dir(dir) {
    let mut entries: Vec<_> = rd.filter_map(|e| e.ok()).collect();
    entries.sort_by_key(|e| e.path());
    for e in entries {
      let p = e.path();
      if p.is_dir() {
        collect_dmn(&p, out);
      } else if p.extension().map(|x| x == "dmn").unwrap_or(false) {
        if let Ok(t) = std::fs::read_to_string(&p) {
          out.push((p.to_string_lossy().to_string(), t));
        }
      }
    }
  }
}

/// The `EX_*` decision tables of `valid.rs` (box-drawing text), recognised and rendered as
/// one-decision XML models.
fn ex_tables() -> Vec<(String, String)> {
  let mut res = vec![];
  let src = match std::fs::read_to_string("/repo/examples/src/examples/valid.rs") {
    Ok(s) => s,
    Err(_) => return res,
  };
  let mut rest = src.as_str();
  while let Some(p) = rest.find("pub const EX_") {
    let tail = &rest[p..];
    let name_end = tail.find(':').unwrap_or(0);
    let name = tail[10..name_end].to_string();
    let (open, close) = match tail.find("r#\"") {
      Some(o) => match tail[o + 3..].find("\"#") {
        Some(c) => (o + 3, o + 3 + c),
        None => break,
      },
      None => break,
    };
    let text = &tail[open..close];
    if let Ok(Ok(dt)) = util::guarded(|| dmntk_recognizer::build(text)) {
      res.push((format!("valid.rs:{}", name), decision_table_model_xml(&dt)));
    }
    rest = &tail[close..];
  }
  res
}

fn esc(s: &str) -> String {
  crate::c03::xml_escape(s)
}

/// Renders a recognised `DecisionTable` as a model with one decision and typed-less inputs.
fn decision_table_model_xml(dt: &dmntk_model::model::DecisionTable) -> String {
  use dmntk_model::model::{BuiltinAggregator, HitPolicy};
  let mut s = String::new();
  s.push_str(r#"<?xml version="1.0" encoding="UTF-8"?><definitions namespace="ns" name="m" id="_m" xmlns="https://www.omg.org/spec/DMN/20191111/MODEL/">"#);
  s.push_str(r#"<decision name="D" id="_d"><variable name="D"/>"#);
  let (hp, agg) = match dt.hit_policy {
    HitPolicy::Unique => ("UNIQUE", None),
    HitPolicy::Any => ("ANY", None),
    HitPolicy::Priority => ("PRIORITY", None),
    HitPolicy::First => ("FIRST", None),
    HitPolicy::RuleOrder => ("RULE ORDER", None),
    HitPolicy::OutputOrder => ("OUTPUT ORDER", None),
    HitPolicy::Collect(a) => (
      "COLLECT",
      match a {
        BuiltinAggregator::List => None,
        BuiltinAggregator::Count => Some("COUNT"),
        BuiltinAggregator::Sum => Some("SUM"),
        BuiltinAggregator::Min => Some("MIN"),
        BuiltinAggregator::Max => Some("MAX"),
      },
    ),
  };
  s.push_str(&format!("<decisionTable hitPolicy=\"{}\"", hp));
  if let Some(a) = agg {
    s.push_str(&format!(" aggregation=\"{}\"", a));
  }
  s.push('>');
  for c in &dt.input_clauses {
    s.push_str(&format!("<input><inputExpression><text>{}</text></inputExpression>", esc(&c.input_expression)));
    if let Some(v) = &c.input_values {
      s.push_str(&format!("<inputValues><text>{}</text></inputValues>", esc(v)));
    }
    s.push_str("</input>");
  }
  for c in &dt.output_clauses {
    s.push_str("<output");
    if let Some(n) = &c.name {
      s.push_str(&format!(" name=\"{}\"", esc(n)));
    }
    s.push('>');
    if let Some(v) = &c.output_values {
      s.push_str(&format!("<outputValues><text>{}</text></outputValues>", esc(v)));
    }
    if let Some(v) = &c.default_output_entry {
      s.push_str(&format!("<defaultOutputEntry><text>{}</text></defaultOutputEntry>", esc(v)));
    }
    s.push_str("</output>");
  }
  for r in &dt.rules {
    s.push_str("<rule>");
    for e in &r.input_entries {
      s.push_str(&format!("<inputEntry><text>{}</text></inputEntry>", esc(&e.text)));
    }
    for e in &r.output_entries {
      s.push_str(&format!("<outputEntry><text>{}</text></outputEntry>", esc(&e.text)));
    }
    s.push_str("</rule>");
  }
  s.push_str("</decisionTable></decision></definitions>");
  s
}

fn model(body: &str) -> String {
  crate::c17::model_xml("ns", "n", body)
}

/// Corpus: the witnesses of F11 / F12 (always run first).
fn corpus() -> Vec<(String, String)> {
  vec![
    (
      "corpus:F11 rule with fewer input entries than input clauses".into(),
      model(
        r##"
  <decision name="T" id="_t"><variable name="T"/>
    <informationRequirement id="_r1"><requiredInput href="#_i"/></informationRequirement>
    <decisionTable hitPolicy="UNIQUE"><input><inputExpression><text>X</text></inputExpression></input><input><inputExpression><text>X</text></inputExpression></input>
      <output/><rule><inputEntry><text>1</text></inputEntry><outputEntry><text>2</text></outputEntry></rule></decisionTable></decision>
  <inputData name="X" id="_i"><variable typeRef="number" name="X"/></inputData>"##,
      ),
    ),
    (
      "corpus:F11 rule with fewer output entries than output clauses".into(),
      model(
        r##"
  <decision name="T" id="_t"><variable name="T"/>
    <informationRequirement id="_r1"><requiredInput href="#_i"/></informationRequirement>
    <decisionTable hitPolicy="UNIQUE"><input><inputExpression><text>X</text></inputExpression></input>
      <output name="a"/><output name="b"/><rule><inputEntry><text>1</text></inputEntry><outputEntry><text>2</text></outputEntry></rule></decisionTable></decision>
  <inputData name="X" id="_i"><variable typeRef="number" name="X"/></inputData>"##,
      ),
    ),
    (
      "corpus:F11 decision table without output clause".into(),
      model(
        r##"
  <decision name="T" id="_t"><variable name="T"/>
    <informationRequirement id="_r1"><requiredInput href="#_i"/></informationRequirement>
    <decisionTable hitPolicy="UNIQUE"><input><inputExpression><text>X</text></inputExpression></input>
      <rule><inputEntry><text>1</text></inputEntry></rule></decisionTable></decision>
  <inputData name="X" id="_i"><variable typeRef="number" name="X"/></inputData>"##,
      ),
    ),
    // well-formed bases of which *every* single fault is enumerated also in the quick tier (corpus bases are not
    // sampled): a compound-output table whose rules match any input, and a small requirement graph
    (
      "corpus:table with compound output, output values and defaults; every input matches".into(),
      model(
        r##"
  <decision name="T" id="_t"><variable name="T"/>
    <informationRequirement id="_r1"><requiredInput href="#_i"/></informationRequirement>
    <informationRequirement id="_r2"><requiredInput href="#_j"/></informationRequirement>
    <decisionTable hitPolicy="PRIORITY" outputLabel="T">
      <input id="_in1" label="X"><inputExpression typeRef="number"><text>X</text></inputExpression><inputValues><text>[-100..100], null</text></inputValues></input>
      <input id="_in2" label="Y"><inputExpression typeRef="string"><text>Y</text></inputExpression></input>
      <output id="_o1" name="a" typeRef="string"><outputValues><text>"hi", "lo"</text></outputValues><defaultOutputEntry><text>"lo"</text></defaultOutputEntry></output>
      <output id="_o2" name="b" typeRef="number"><defaultOutputEntry><text>0</text></defaultOutputEntry></output>
      <output id="_o3" name="c"/>
      <rule id="_ru1"><inputEntry><text>-</text></inputEntry><inputEntry><text>-</text></inputEntry><outputEntry><text>"lo"</text></outputEntry><outputEntry><text>1</text></outputEntry><outputEntry><text>X</text></outputEntry></rule>
      <rule id="_ru2"><inputEntry><text>-</text></inputEntry><inputEntry><text>-</text></inputEntry><outputEntry><text>"hi"</text></outputEntry><outputEntry><text>2</text></outputEntry><outputEntry><text>Y</text></outputEntry></rule>
      <rule id="_ru3"><inputEntry><text>&gt; 1000</text></inputEntry><inputEntry><text>"never"</text></inputEntry><outputEntry><text>"hi"</text></outputEntry><outputEntry><text>3</text></outputEntry><outputEntry><text>null</text></outputEntry></rule>
    </decisionTable></decision>
  <inputData name="X" id="_i"><variable typeRef="number" name="X"/></inputData>
  <inputData name="Y" id="_j"><variable typeRef="string" name="Y"/></inputData>"##,
      ),
    ),
    (
      "corpus:graph with a decision service, a knowledge model, a boxed context and an item definition".into(),
      model(
        r##"
  <itemDefinition name="tP"><itemComponent name="n"><typeRef>number</typeRef></itemComponent><itemComponent name="tags" isCollection="true"><typeRef>string</typeRef></itemComponent></itemDefinition>
  <inputData name="P" id="_p"><variable typeRef="tP" name="P"/></inputData>
  <inputData name="X" id="_i"><variable typeRef="number" name="X"/></inputData>
  <businessKnowledgeModel name="F" id="_f"><variable name="F"/><encapsulatedLogic><formalParameter name="a" typeRef="number"/><formalParameter name="b"/><literalExpression><text>a + b</text></literalExpression></encapsulatedLogic></businessKnowledgeModel>
  <decision name="A" id="_a"><variable name="A" typeRef="number"/><informationRequirement id="_r1"><requiredInput href="#_i"/></informationRequirement><knowledgeRequirement id="_k1"><requiredKnowledge href="#_f"/></knowledgeRequirement><literalExpression><text>F(X, 1)</text></literalExpression></decision>
  <decision name="B" id="_b"><variable name="B"/><informationRequirement id="_r2"><requiredDecision href="#_a"/></informationRequirement><informationRequirement id="_r3"><requiredInput href="#_p"/></informationRequirement><context><contextEntry><variable name="u"/><literalExpression><text>A * 2</text></literalExpression></contextEntry><contextEntry><variable name="v"/><literalExpression><text>count(P.tags) + u</text></literalExpression></contextEntry><contextEntry><literalExpression><text>u + v + P.n</text></literalExpression></contextEntry></context></decision>
  <decision name="C" id="_c"><variable name="C"/><informationRequirement id="_r4"><requiredDecision href="#_b"/></informationRequirement><knowledgeRequirement id="_k2"><requiredKnowledge href="#_s"/></knowledgeRequirement><literalExpression><text>B + S(5)</text></literalExpression></decision>
  <decisionService name="S" id="_s"><variable name="S"/><outputDecision href="#_a"/><inputData href="#_i"/></decisionService>"##,
      ),
    ),
    (
      "corpus:F12 two decisions requiring each other".into(),
      model(
        r##"
  <decision name="A" id="_a"><variable name="A"/><informationRequirement id="_r1"><requiredDecision href="#_b"/></informationRequirement><literalExpression><text>B + 1</text></literalExpression></decision>
  <decision name="B" id="_b"><variable name="B"/><informationRequirement id="_r2"><requiredDecision href="#_a"/></informationRequirement><literalExpression><text>A + 1</text></literalExpression></decision>"##,
      ),
    ),
    (
      "corpus:F12 two knowledge models requiring each other".into(),
      model(
        r##"
  <decision name="A" id="_a"><variable name="A"/><knowledgeRequirement id="_k0"><requiredKnowledge href="#_f"/></knowledgeRequirement><literalExpression><text>F(1)</text></literalExpression></decision>
  <businessKnowledgeModel name="F" id="_f"><variable name="F"/><encapsulatedLogic><formalParameter name="x"/><literalExpression><text>G(x)</text></literalExpression></encapsulatedLogic><knowledgeRequirement id="_k1"><requiredKnowledge href="#_g"/></knowledgeRequirement></businessKnowledgeModel>
  <businessKnowledgeModel name="G" id="_g"><variable name="G"/><encapsulatedLogic><formalParameter name="x"/><literalExpression><text>F(x)</text></literalExpression></encapsulatedLogic><knowledgeRequirement id="_k2"><requiredKnowledge href="#_f"/></knowledgeRequirement></businessKnowledgeModel>"##,
      ),
    ),
    (
      "corpus:F12 two decisions requiring each other, one sharing its identifier with a knowledge model".into(),
      model(
        r##"
  <decision name="A" id="_a"><variable name="A"/><informationRequirement id="_r1"><requiredDecision href="#_b"/></informationRequirement><literalExpression><text>B</text></literalExpression></decision>
  <decision name="B" id="_b"><variable name="B"/><informationRequirement id="_r2"><requiredDecision href="#_a"/></informationRequirement><literalExpression><text>A</text></literalExpression></decision>
  <businessKnowledgeModel name="F" id="_a"><variable name="F"/><encapsulatedLogic><formalParameter name="x"/><literalExpression><text>x</text></literalExpression></encapsulatedLogic></businessKnowledgeModel>"##,
      ),
    ),
    (
      "corpus:F12 two decisions requiring each other, one sharing its identifier with a decision service".into(),
      model(
        r##"
  <decision name="A" id="_a"><variable name="A"/><informationRequirement id="_r1"><requiredDecision href="#_b"/></informationRequirement><literalExpression><text>B</text></literalExpression></decision>
  <decision name="B" id="_b"><variable name="B"/><informationRequirement id="_r2"><requiredDecision href="#_a"/></informationRequirement><literalExpression><text>A</text></literalExpression></decision>
  <decision name="C" id="_c"><variable name="C"/><literalExpression><text>1</text></literalExpression></decision>
  <decisionService name="S" id="_b"><variable name="S"/><outputDecision href="#_c"/></decisionService>"##,
      ),
    ),
    (
      "corpus:F12 two item definitions of one name, the later one referring to itself".into(),
      model(
        r##"
  <itemDefinition name="tA"><typeRef>string</typeRef></itemDefinition>
  <itemDefinition name="tA"><typeRef>tA</typeRef></itemDefinition>
  <decision name="A" id="_a"><variable name="A"/><informationRequirement id="_r1"><requiredInput href="#_i"/></informationRequirement><literalExpression><text>X</text></literalExpression></decision>
  <inputData name="X" id="_i"><variable typeRef="tA" name="X"/></inputData>"##,
      ),
    ),
    (
      "corpus:F12 two item definitions of one name, the earlier one referring to itself".into(),
      model(
        r##"
  <itemDefinition name="tA"><typeRef>tA</typeRef></itemDefinition>
  <itemDefinition name="tA"><typeRef>string</typeRef></itemDefinition>
  <decision name="A" id="_a"><variable name="A"/><informationRequirement id="_r1"><requiredInput href="#_i"/></informationRequirement><literalExpression><text>X</text></literalExpression></decision>
  <inputData name="X" id="_i"><variable typeRef="tA" name="X"/></inputData>"##,
      ),
    ),
    (
      "corpus:F12 item definition whose typeRef is itself".into(),
      model(
        r##"
  <itemDefinition name="tA"><typeRef>tA</typeRef></itemDefinition>
  <decision name="A" id="_a"><variable name="A"/><informationRequirement id="_r1"><requiredInput href="#_i"/></informationRequirement><literalExpression><text>X</text></literalExpression></decision>
  <inputData name="X" id="_i"><variable typeRef="tA" name="X"/></inputData>"##,
      ),
    ),
  ]
}

/// The family of a base model: generated kind, corpus, or the directory of an example file.
fn family_of(bname: &str) -> String {
  if let Some(p) = bname.find('#') {
    bname[..p].to_string()
  } else if let Some(p) = bname.rfind('/') {
    bname[..p].to_string()
  } else {
    bname.split(':').next().unwrap_or("").to_string()
  }
}

/// The class of a fault: its kind and where it applies, without the position.
fn class_of(f: &Fault) -> String {
  let at = match f.at.rfind('@') {
    Some(p) => &f.at[..p],
    None => f.at.as_str(),
  };
  format!("{} {}", f.kind, at)
}

/// Finds a cycle in a directed graph given as adjacency lists over node names.
fn has_cycle(edges: &std::collections::BTreeMap<String, Vec<String>>) -> bool {
  fn visit(n: &str, edges: &std::collections::BTreeMap<String, Vec<String>>, state: &mut std::collections::HashMap<String, u8>) -> bool {
    match state.get(n) {
      Some(1) => return true,
      Some(2) => return false,
      _ => {}
    }
    state.insert(n.to_string(), 1);
    if let Some(ns) = edges.get(n) {
      for m in ns {
        if edges.contains_key(m) && visit(m, edges, state) {
          return true;
        }
      }
    }
    state.insert(n.to_string(), 2);
    false
  }
  let mut state = std::collections::HashMap::new();
  edges.keys().any(|k| visit(k, edges, &mut state))
}

/// Which requirement cycle the (parseable) faulted text contains; computed in the parent only
/// for cases that killed the child after parsing succeeded there.
fn diagnose(text: &str, build_stage: bool) -> String {
  use dmntk_model::model::{DmnElement, NamedElement};
  use std::collections::BTreeMap;
  let defs = match util::guarded(|| dmntk_model::parse(text)) {
    Ok(Ok(d)) => d,
    _ => return "text does not parse".into(),
  };
  let mut found = vec![];
  let mut dec: BTreeMap<String, Vec<String>> = BTreeMap::new();
  for d in defs.decisions() {
    if let Some(id) = d.id() {
      let mut v = vec![];
      for r in d.information_requirements() {
        if let Some(h) = r.required_decision() {
          let h: &str = h.into();
          v.push(h.to_string());
        }
      }
      dec.entry(id.clone()).or_default().extend(v);
    }
  }
  if has_cycle(&dec) {
    found.push("cyclic required decisions");
  }
  let mut know: BTreeMap<String, Vec<String>> = BTreeMap::new();
  for b in defs.business_knowledge_models() {
    if let Some(id) = b.id() {
      let mut v = vec![];
      for r in b.knowledge_requirements() {
        if let Some(h) = r.required_knowledge() {
          let h: &str = h.into();
          v.push(h.to_string());
        }
      }
      know.entry(id.clone()).or_default().extend(v);
    }
  }
  if has_cycle(&know) {
    found.push("cyclic knowledge requirements");
  }
  let mut items: BTreeMap<String, Vec<String>> = BTreeMap::new();
  fn refs(i: &dmntk_model::model::ItemDefinition, out: &mut Vec<String>) {
    use dmntk_model::model::Expression;
    if let Some(t) = i.type_ref() {
      out.push(t.clone());
    }
    for c in i.item_components() {
      refs(c, out);
    }
  }
  for i in defs.item_definitions() {
    let mut v = vec![];
    refs(i, &mut v);
    items.entry(i.name().to_string()).or_default().extend(v);
  }
  if has_cycle(&items) {
    found.push("cyclic item definition references");
  }
  // a decision service whose output/encapsulated decision requires the service as knowledge
  let mut svc: BTreeMap<String, Vec<String>> = BTreeMap::new();
  for sv in defs.decision_services() {
    if let Some(id) = sv.id() {
      let mut v = vec![];
      for h in sv.output_decisions().iter().chain(sv.encapsulated_decisions().iter()).chain(sv.input_decisions().iter()) {
        let h: &str = h.into();
        v.push(h.to_string());
      }
      svc.entry(id.clone()).or_default().extend(v);
    }
  }
  for d in defs.decisions() {
    if let Some(id) = d.id() {
      let mut v = dec.get(id).cloned().unwrap_or_default();
      for r in d.knowledge_requirements() {
        if let Some(h) = r.required_knowledge() {
          let h: &str = h.into();
          v.push(h.to_string());
        }
      }
      svc.entry(id.clone()).or_default().extend(v);
    }
  }
  for (k, v) in &know {
    svc.entry(k.clone()).or_default().extend(v.clone());
  }
  if has_cycle(&svc) && !has_cycle(&dec) && !has_cycle(&know) {
    found.push("cycle through a decision service");
  }
  // one cause per signature: the first that the stage can run into
  let order: [&str; 4] = if build_stage {
    ["cyclic knowledge requirements", "cyclic item definition references", "cyclic required decisions", "cycle through a decision service"]
  } else {
    ["cyclic required decisions", "cycle through a decision service", "cyclic knowledge requirements", "cyclic item definition references"]
  };
  for o in order {
    if found.contains(&o) {
      return o.to_string();
    }
  }
  "no requirement cycle found".into()
}

/// Classifies a crash: specific and stable signature (panic site; for a dead process the stage
/// it died in and the requirement cycle the faulted text contains).
fn signature(kind: &str, obs: &Obs, faulted: &str) -> Option<String> {
  match obs.stage.as_str() {
    "panic-parse" => Some(format!("panic in dmntk_model::parse at {}", obs.detail)),
    "panic-build" => Some(format!("panic in ModelEvaluator::new at {}", obs.detail)),
    "panic-eval" => Some(format!("panic in evaluate_invocable at {}", obs.detail)),
    "abort" | "timeout" => {
      let (how, during) = match obs.detail.split_once(" during ") {
        Some((h, d)) => (h.to_string(), d.to_string()),
        None => (obs.detail.clone(), "?".to_string()),
      };
      let stage = if during.starts_with("eval") {
        "evaluate_invocable"
      } else if during == "build" {
        "ModelEvaluator::new"
      } else {
        "dmntk_model::parse"
      };
      let diag = if stage == "dmntk_model::parse" { "while parsing".to_string() } else { diagnose(faulted, stage == "ModelEvaluator::new") };
      let family = kind.split(':').next().unwrap_or(kind);
      if diag == "no requirement cycle found" && stage == "evaluate_invocable" {
        // requirements are acyclic (cyclic ones are rejected by ModelEvaluator::new): the
        // recursion is inside the FEEL expressions (a function body invoking itself)
        Some(format!("process {} ({}) in {}: {}, unbounded recursion in FEEL expressions", obs.stage, how, stage, diag))
      } else if diag == "no requirement cycle found" {
        Some(format!("process {} ({}) in {}: {} (fault family '{}')", obs.stage, how, stage, diag, family))
      } else {
        Some(format!("process {} ({}) in {}: {}", obs.stage, how, stage, diag))
      }
    }
    _ => None,
  }
}

pub fn run(cfg: &Cfg) -> Report {
  let mut rep = Report::new(
    "C12",
    "single structural faults (delete/duplicate/empty/swap of every element, attribute and text node; href and typeRef retargeted to missing/own/ancestor/other) at every position of the shipped example models (/repo/examples/**/*.dmn, EX_* tables of valid.rs rendered as models) and of generated models; each case parse → ModelEvaluator::new → evaluate_invocable for every invocable with three input contexts, in child processes. Quick: seeded ~3 % sample + corpus; thorough: every fault, pairs, byte corruption. Scale families: generated texts with thousands of nesting levels / chained decisions (no process death) and diamond-shaped graphs of at most 64 elements (answer within 10 s for loading and for evaluating). Non-trivial: the faulted text differs from the base text; distinct by (base, fault kind, position).",
  );
  let thorough = cfg.tier == "thorough";
  let mut rng = Rng::new(cfg.seed);
  let mut bases: Vec<(String, String)> = corpus();
  // further minimised past failures: corpus/C12/*.dmn next to the working directory
  {
    let mut extra = vec![];
    collect_dmn(std::path::Path::new("corpus/C12"), &mut extra);
    for (n, t) in extra {
      if !bases.iter().any(|b| b.1 == t) {
        bases.push((format!("corpus:{}", n), t));
      }
    }
  }
  let n_corpus = bases.len();
  let mut files = vec![];
  collect_dmn(std::path::Path::new("/repo/examples"), &mut files);
  rep.extra.insert("example_dmn_files".into(), json!(files.len()));
  bases.append(&mut files);
  let mut ex = ex_tables();
  rep.extra.insert("example_ex_tables".into(), json!(ex.len()));
  bases.append(&mut ex);
  // generated models: decision tables (C03's generator), typed inputs (C11's generator),
  // acyclic requirement graphs
  let n_gen = if thorough { 60 } else { 12 };
  let mut gen_rng = rng.fork();
  for k in 0..n_gen {
    bases.push((format!("generated:table#{}", k), crate::c03::sample_model_xml(&mut gen_rng)));
    bases.push((format!("generated:types#{}", k), crate::c11::sample_model_xml(&mut gen_rng)));
    bases.push((format!("generated:graph#{}", k), gen_graph(&mut gen_rng, true).xml));
  }
  rep.extra.insert("generated_bases".into(), json!(3 * n_gen));
  rep.extra.insert("bases".into(), json!(bases.len()));

  // work items: (base index, fault) — sampled in quick
  struct Work {
    base: usize,
    cases: Vec<(usize, Vec<(usize, usize, String)>)>,
    meta: Vec<(String, String)>,
  }
  let mut works: Vec<Work> = vec![];
  let mut total_faults = 0usize;
  // the unfaulted bases first: faults are enumerated only on bases that load and evaluate
  let n_threads = std::thread::available_parallelism().map(|n| n.get()).unwrap_or(4).min(16);
  let base_obs: Mutex<Vec<Option<Obs>>> = Mutex::new(vec![None; bases.len()]);
  {
    let next = std::sync::atomic::AtomicUsize::new(0);
    std::thread::scope(|s| {
      for _ in 0..n_threads {
        s.spawn(|| loop {
          let k = next.fetch_add(1, std::sync::atomic::Ordering::SeqCst);
          if k >= bases.len() {
            break;
          }
          let mut out = vec![];
          run_cases(&bases[k].1, &[(0, vec![])], &mut out);
          if let Some((_, o)) = out.pop() {
            base_obs.lock().unwrap()[k] = Some(o);
          }
        });
      }
    });
  }
  let base_obs = base_obs.into_inner().unwrap();
  // how many faults of each class every family of bases has (for the stratified quick sample)
  let mut class_counts: std::collections::HashMap<(String, String), u64> = std::collections::HashMap::new();
  if !thorough {
    for (bi, (bname, text)) in bases.iter().enumerate() {
      let loads = matches!(&base_obs[bi], Some(o) if matches!(o.stage.as_str(), "ok" | "parse-error" | "build-error"));
      if !loads {
        continue;
      }
      if let Some(doc) = scan(text) {
        let family = family_of(bname);
        for f in faults(text, &doc).iter() {
          *class_counts.entry((family.clone(), class_of(f))).or_insert(0) += 1;
        }
      }
    }
  }
  rep.extra.insert("fault_classes".into(), json!(class_counts.len()));
  for (bi, (bname, text)) in bases.iter().enumerate() {
    let crashing = match &base_obs[bi] {
      Some(o) => !matches!(o.stage.as_str(), "ok" | "parse-error" | "build-error"),
      None => true,
    };
    if crashing {
      let o = base_obs[bi].clone().unwrap_or(Obs { stage: "abort".into(), detail: "no observation".into() });
      rep.case(&format!("{}|none|base", bname), false);
      rep.hit(&format!("base → {}", o.stage));
      if let Some(sig) = signature("none", &o, text) {
        rep.disagree(Kind::ImplVsSpec, "base", &sig, &format!("{} | {}", bname, text), &format!("{} {}", o.stage, o.detail), "a model, or an error");
      }
      continue;
    }
    let doc = match scan(text) {
      Some(d) => d,
      None => {
        rep.notes.push(format!("the XML scanner of the harness cannot read {}; skipped", bname));
        continue;
      }
    };
    let fs = faults(text, &doc);
    total_faults += fs.len();
    let mut w = Work { base: bi, cases: vec![], meta: vec![] };
    // the unfaulted base itself
    w.cases.push((0, vec![]));
    w.meta.push(("none".into(), "base".into()));
    let family = family_of(bname);
    for f in fs.iter() {
      // quick: a 3 % sample, plus about three instances of every class of fault (kind × element × attribute)
      // within every family of bases, so that no structural shape depends on the luck of the draw
      let class_n = *class_counts.get(&(family.clone(), class_of(f))).unwrap_or(&1);
      let keep = thorough || bi < n_corpus || rng.chance(3, 100) || rng.chance(3, class_n.max(3));
      if keep {
        w.cases.push((w.cases.len(), f.edits.clone()));
        w.meta.push((f.kind.clone(), f.at.clone()));
      }
    }
    if thorough && !fs.is_empty() {
      // pairs of faults and byte-level corruption
      for _ in 0..40 {
        let a = rng.pick(&fs).clone();
        let b = rng.pick(&fs).clone();
        let mut edits = a.edits.clone();
        edits.extend(b.edits.clone());
        w.cases.push((w.cases.len(), edits));
        w.meta.push((format!("pair:{}+{}", a.kind, b.kind), format!("{} + {}", a.at, b.at)));
      }
    }
    let n_bytes = if thorough { 60 } else { 2 };
    for _ in 0..n_bytes {
      let mut pos = rng.below(text.len() as u64) as usize;
      while !text.is_char_boundary(pos) {
        pos -= 1;
      }
      let mut end = (pos + 1 + rng.below(3) as usize).min(text.len());
      while !text.is_char_boundary(end) {
        end += 1;
      }
      let rep_text = match rng.below(4) {
        0 => String::new(),
        1 => rng.pick(&["<", ">", "&", "\"", "'", "/", "=", "#", " ", "</", "<!--"]).to_string(),
        2 => text[pos..end].repeat(2),
        _ => "\u{0}".to_string(),
      };
      w.cases.push((w.cases.len(), vec![(pos, end, rep_text)]));
      w.meta.push(("bytes:corrupt".into(), format!("@{}", pos)));
    }
    works.push(w);
  }
  rep.extra.insert("single_faults_enumerated".into(), json!(total_faults));

  // ---- XML layer: parser.rs against its Lean model, in-process (a panic is an observation; texts that
  // abort the process are the business of the child runs below)
  {
    let mut xrng = Rng::new(cfg.seed ^ 0x786d_6c31_32);
    let mut cases: Vec<(String, String)> = vec![];
    for w in &works {
      let (bname, btext) = &bases[w.base];
      cases.push((format!("{}|none|base", bname), btext.clone()));
      // a sample of the faulted texts of this base: at most `per_base`, small texts preferred
      let per_base = if thorough { 200 } else if w.base < n_corpus { 20 } else { 30 };
      let n = w.cases.len();
      if n > 1 && btext.len() < 200_000 {
        let mut picked = std::collections::BTreeSet::new();
        for _ in 0..per_base.min(n - 1) {
          picked.insert(1 + xrng.below((n - 1) as u64) as usize);
        }
        for id in picked {
          let (kind, at) = &w.meta[id];
          cases.push((format!("{}|{}|{}", bname, kind, at), apply(btext, &w.cases[id].1)));
        }
      }
    }
    // generated documents over the vocabulary of parser.rs (order, multiplicity, odd attribute values)
    let n_gen_docs = if thorough { 20_000 } else { 2_500 };
    for k in 0..n_gen_docs {
      cases.push((format!("generated:document#{}", k), xml::gen_document(&mut xrng)));
    }
    rep.extra.insert("xml_layer_generated_documents".into(), json!(n_gen_docs));
    let t0 = std::time::Instant::now();
    let mut model = Model::start(&cfg.driver);
    xml_layer(&cases, &mut model, &mut rep);
    rep.extra.insert("xml_layer_cases".into(), json!(cases.len()));
    rep.extra.insert("xml_layer_bytes".into(), json!(cases.iter().map(|c| c.1.len()).sum::<usize>()));
    rep.extra.insert("xml_layer_seconds".into(), json!(t0.elapsed().as_secs()));
    rep.model_requests += model.requests;
  }

  // run: one thread per core, each running batches in child processes
  let results: Mutex<Vec<(usize, Vec<(usize, Obs)>)>> = Mutex::new(vec![]);
  let next = std::sync::atomic::AtomicUsize::new(0);
  std::thread::scope(|s| {
    for _ in 0..n_threads {
      s.spawn(|| loop {
        let k = next.fetch_add(1, std::sync::atomic::Ordering::SeqCst);
        if k >= works.len() {
          break;
        }
        let w = &works[k];
        let mut out = vec![];
        run_cases(&bases[w.base].1, &w.cases, &mut out);
        results.lock().unwrap().push((k, out));
      });
    }
  });
  let mut results = results.into_inner().unwrap();
  results.sort_by_key(|r| r.0);
  // texts that were read as a model (whether it builds or not): candidates of the family `deploy-isolation`
  let mut loaded: Vec<(String, String, bool)> = vec![];
  for (k, out) in results {
    let w = &works[k];
    let (bname, btext) = &bases[w.base];
    for (id, obs) in out {
      let (kind, at) = &w.meta[id];
      let key = format!("{}|{}|{}", bname, kind, at);
      if (obs.stage == "ok" || obs.stage == "build-error") && btext.len() < 40_000 {
        loaded.push((key.clone(), apply(btext, &w.cases[id].1), obs.stage == "ok"));
      }
      rep.case(&key, id != 0);
      let family = kind.split(':').next().unwrap_or(kind).to_string();
      rep.hit(&format!("fault {} → {}", if kind.starts_with("pair:") { "pair" } else { kind }, obs.stage));
      if id == 0 {
        rep.hit(&format!("base → {}", obs.stage));
        if obs.stage != "ok" {
          rep.notes.push(format!("base {} → {}", bname, obs.stage));
        }
      }
      let faulted = apply(btext, &w.cases[id].1);
      if let Some(sig) = signature(kind, &obs, &faulted) {
        let input = format!("{} | fault {} at {} | {}", bname, kind, at, if faulted.len() < 6000 { faulted } else { format!("(faulted text of {} bytes; edits {:?})", faulted.len(), w.cases[id].1) });
        rep.disagree(Kind::ImplVsSpec, &family, &sig, &input, &format!("{} {}", obs.stage, obs.detail), "a model, or an error");
        rep.sample(json!({"base": bname, "fault": kind, "at": at, "observation": format!("{} {}", obs.stage, obs.detail)}));
      }
    }
  }
  degenerate(cfg, &mut rep);
  multibyte(cfg, &mut rep, &bases, n_corpus);
  related(cfg, &mut rep, &bases, n_corpus);
  deploy_isolation(cfg, &mut rep, &loaded);
  scale(cfg, &mut rep);
  let mut model = Model::start(&cfg.driver);
  shapes(cfg, &mut rng, &mut model, &mut rep);
  rep.model_requests += model.requests;
  rep.exhaustive = thorough;
  rep
}

// ------------------------------------------------------------------------------------------
// scale families: deep nesting / long chains (stack depth) and diamonds (time)
// ------------------------------------------------------------------------------------------

const XML_HEAD: &str = r#"<?xml version="1.0" encoding="UTF-8"?><definitions namespace="ns" name="m" id="_m" xmlns="https://www.omg.org/spec/DMN/20191111/MODEL/">"#;

/// One decision whose logic is `levels` boxed contexts (or boxed function definitions) inside each other.
fn gen_nested_expression(levels: usize, function: bool) -> String {
  let (open, close) = if function { ("<functionDefinition>", "</functionDefinition>") } else { ("<context><contextEntry>", "</contextEntry></context>") };
  let mut s = String::from(XML_HEAD);
  s.push_str(r#"<decision name="D" id="_d"><variable name="D"/>"#);
  s.push_str(&open.repeat(levels));
  s.push_str("<literalExpression><text>1</text></literalExpression>");
  s.push_str(&close.repeat(levels));
  s.push_str("</decision></definitions>");
  s
}

/// One item definition with `levels` item components inside each other, the type of an input.
fn gen_nested_components(levels: usize) -> String {
  let mut s = String::from(XML_HEAD);
  s.push_str(r#"<itemDefinition name="t">"#);
  for i in 0..levels {
    s.push_str(&format!("<itemComponent name=\"c{}\">", i));
  }
  s.push_str("<typeRef>number</typeRef>");
  s.push_str(&"</itemComponent>".repeat(levels));
  s.push_str(r##"</itemDefinition><inputData name="X" id="_i"><variable typeRef="t" name="X"/></inputData><decision name="D" id="_d"><variable name="D"/><informationRequirement id="_r1"><requiredInput href="#_i"/></informationRequirement><literalExpression><text>1</text></literalExpression></decision></definitions>"##);
  s
}

/// `n` decisions, each requiring the next one; the invocable is the first.
fn gen_decision_chain(n: usize) -> String {
  let mut s = String::from(XML_HEAD);
  for l in 0..n {
    s.push_str(&format!("<decision name=\"d{}\" id=\"_d{}\"><variable name=\"d{}\"/>", l, l, l));
    if l + 1 < n {
      s.push_str(&format!("<informationRequirement id=\"_r{}\"><requiredDecision href=\"#_d{}\"/></informationRequirement>", l, l + 1));
    }
    s.push_str("<literalExpression><text>1</text></literalExpression></decision>");
  }
  s.push_str("</definitions>");
  s
}

/// `layers` layers of two decisions; both decisions of a layer require both decisions of the next layer.
fn gen_diamond_decisions(layers: usize) -> String {
  let mut s = String::from(XML_HEAD);
  for l in 0..layers {
    for k in 0..2 {
      s.push_str(&format!("<decision name=\"d{}_{}\" id=\"_d{}_{}\"><variable name=\"d{}_{}\"/>", l, k, l, k, l, k));
      if l + 1 < layers {
        for j in 0..2 {
          s.push_str(&format!("<informationRequirement id=\"_r{}_{}_{}\"><requiredDecision href=\"#_d{}_{}\"/></informationRequirement>", l, k, j, l + 1, j));
        }
      }
      s.push_str("<literalExpression><text>1</text></literalExpression></decision>");
    }
  }
  s.push_str("</definitions>");
  s
}

/// `n` decisions, each requiring the next one through two `informationRequirement` elements that say the same
/// (what a pair of "duplicate" faults makes of a chain; `Dmn.MB.dupChainDecisions`); the invocable is the first.
fn gen_dup_chain(n: usize) -> String {
  let mut s = String::from(XML_HEAD);
  for l in 0..n {
    s.push_str(&format!("<decision name=\"d{}\" id=\"_d{}\"><variable name=\"d{}\"/>", l, l, l));
    if l + 1 < n {
      for j in 0..2 {
        s.push_str(&format!("<informationRequirement id=\"_r{}_{}\"><requiredDecision href=\"#_d{}\"/></informationRequirement>", l, j, l + 1));
      }
    }
    s.push_str("<literalExpression><text>1</text></literalExpression></decision>");
  }
  s.push_str("</definitions>");
  s
}

/// The same with knowledge models, and one decision `D` requiring the first knowledge model.
fn gen_diamond_knowledge(layers: usize) -> String {
  let mut s = String::from(XML_HEAD);
  for l in 0..layers {
    for k in 0..2 {
      s.push_str(&format!(
        "<businessKnowledgeModel name=\"b{}_{}\" id=\"_b{}_{}\"><variable name=\"b{}_{}\"/><encapsulatedLogic><formalParameter name=\"x\"/><literalExpression><text>x</text></literalExpression></encapsulatedLogic>",
        l, k, l, k, l, k
      ));
      if l + 1 < layers {
        for j in 0..2 {
          s.push_str(&format!("<knowledgeRequirement id=\"_k{}_{}_{}\"><requiredKnowledge href=\"#_b{}_{}\"/></knowledgeRequirement>", l, k, j, l + 1, j));
        }
      }
      s.push_str("</businessKnowledgeModel>");
    }
  }
  s.push_str(r##"<decision name="D" id="_d"><variable name="D"/><knowledgeRequirement id="_kd"><requiredKnowledge href="#_b0_0"/></knowledgeRequirement><literalExpression><text>b0_0(1)</text></literalExpression></decision></definitions>"##);
  s
}

/// `n` item definitions, each with two components that both refer to the next item definition; the
/// input `X` of the decision `D` has the first one as its type when `used`.
fn gen_diamond_items(n: usize, used: bool) -> String {
  let mut s = String::from(XML_HEAD);
  for l in 0..n {
    s.push_str(&format!("<itemDefinition name=\"t{}\">", l));
    for k in 0..2 {
      let r = if l + 1 < n { format!("t{}", l + 1) } else { "number".to_string() };
      s.push_str(&format!("<itemComponent name=\"c{}\"><typeRef>{}</typeRef></itemComponent>", k, r));
    }
    s.push_str("</itemDefinition>");
  }
  s.push_str(&format!(
    r##"<inputData name="X" id="_i"><variable typeRef="{}" name="X"/></inputData><decision name="D" id="_d"><variable name="D"/><informationRequirement id="_r1"><requiredInput href="#_i"/></informationRequirement><literalExpression><text>1</text></literalExpression></decision></definitions>"##,
    if used { "t0" } else { "number" }
  ));
  s
}

struct Big {
  family: &'static str,
  /// generator and parameters (the replay: the text is regenerated from them)
  name: String,
  /// what the model is, for the signature
  noun: &'static str,
  text: String,
  invocable: &'static str,
}

/// The wall-clock budget of the diamond family: a model of at most 64 elements loads within this time
/// and each invocable evaluates within this time ("never ... a hang").
const DIAMOND_BUDGET_MS: u64 = 10_000;
/// The limit of the deep-nesting family (only the answer matters there, not the time).
const DEEP_LIMIT_MS: u64 = 120_000;

fn big_cases(thorough: bool) -> Vec<Big> {
  let mut v = vec![];
  let mut deep = |name: String, noun: &'static str, text: String, invocable: &'static str| v.push(Big { family: "deep-nesting", name, noun, text, invocable });
  for levels in if thorough { vec![100, 600, 800, 2_000, 5_000, 20_000] } else { vec![100, 600, 5_000] } {
    deep(format!("gen_nested_expression(levels={}, boxed contexts)", levels), "deeply nested boxed contexts", gen_nested_expression(levels, false), "D");
  }
  for levels in if thorough { vec![100, 2_000, 5_000, 20_000] } else { vec![100, 5_000] } {
    deep(format!("gen_nested_expression(levels={}, boxed function definitions)", levels), "deeply nested boxed function definitions", gen_nested_expression(levels, true), "D");
  }
  for levels in if thorough { vec![100, 1_000, 10_000, 20_000, 50_000] } else { vec![100, 1_000, 20_000] } {
    deep(format!("gen_nested_components(levels={})", levels), "deeply nested item components", gen_nested_components(levels), "D");
  }
  for n in if thorough { vec![100, 2_000, 6_000, 13_000, 20_000] } else { vec![100, 2_000, 13_000] } {
    deep(format!("gen_decision_chain(decisions={})", n), "a long chain of required decisions", gen_decision_chain(n), "d0");
  }
  let mut dia = |name: String, noun: &'static str, text: String, invocable: &'static str| v.push(Big { family: "diamond", name, noun, text, invocable });
  for layers in if thorough { vec![2, 6, 12, 16, 20, 24, 28, 32] } else { vec![2, 6, 24, 32] } {
    dia(format!("gen_diamond_decisions(layers={}): {} decisions", layers, 2 * layers), "diamond requirement graph of decisions", gen_diamond_decisions(layers), "d0_0");
  }
  for n in if thorough { vec![2, 6, 12, 16, 20, 24, 40, 64] } else { vec![2, 6, 40] } {
    dia(format!("gen_dup_chain(decisions={}): every requirement written twice", n), "chain of decisions with every requirement written twice", gen_dup_chain(n), "d0");
  }
  for layers in if thorough { vec![2, 6, 12, 16, 20, 31] } else { vec![2, 6, 31] } {
    dia(format!("gen_diamond_knowledge(layers={}): {} knowledge models and a decision", layers, 2 * layers), "diamond requirement graph of knowledge models", gen_diamond_knowledge(layers), "D");
  }
  for n in if thorough { vec![2, 6, 16, 24, 32, 62] } else { vec![2, 6, 62] } {
    dia(format!("gen_diamond_items(definitions={}, used=false)", n), "diamond of item definitions", gen_diamond_items(n, false), "D");
    dia(format!("gen_diamond_items(definitions={}, used=true)", n), "diamond of item definitions that is the type of an input", gen_diamond_items(n, true), "D");
  }
  v
}

/// The stage a child died or timed out in, from the `during …` part of its observation.
fn stage_of(detail: &str) -> &'static str {
  let during = detail.split_once(" during ").map(|x| x.1).unwrap_or("?");
  if during.starts_with("eval") {
    "evaluate_invocable"
  } else if during == "build" {
    "ModelEvaluator::new"
  } else {
    "dmntk_model::parse"
  }
}

/// Deep nesting and long chains must be answered (a model, an error, a value) without the process dying;
/// diamonds must be answered within the budget.
fn scale(cfg: &Cfg, rep: &mut Report) {
  let cases = big_cases(cfg.tier == "thorough");
  let n_threads = std::thread::available_parallelism().map(|n| n.get()).unwrap_or(4).min(16);
  // (load observation, load milliseconds, evaluation observation, evaluation milliseconds)
  type R = (Option<Obs>, u64, Option<Obs>, u64);
  let results: Mutex<Vec<(usize, R)>> = Mutex::new(vec![]);
  let next = std::sync::atomic::AtomicUsize::new(0);
  std::thread::scope(|s| {
    for _ in 0..n_threads {
      s.spawn(|| loop {
        let k = next.fetch_add(1, std::sync::atomic::Ordering::SeqCst);
        if k >= cases.len() {
          break;
        }
        let c = &cases[k];
        let budget = if c.family == "diamond" { DIAMOND_BUDGET_MS } else { DEEP_LIMIT_MS };
        // child 1: parse and build only
        let mut out = vec![];
        let mut times = vec![];
        run_cases_timed(&c.text, &[(0, vec![])], &["-".to_string()], Some(budget + 1_000), &mut out, &mut times);
        let load = out.pop().map(|o| o.1);
        let load_ms = times.iter().filter(|t| t.2 == "end").map(|t| t.1).max().unwrap_or(0);
        let mut r: R = (load.clone(), load_ms, None, 0);
        if matches!(&load, Some(o) if o.stage == "ok") && load_ms <= budget {
          // child 2: parse, build and evaluate the invocable with every input context
          let mut out = vec![];
          let mut times = vec![];
          run_cases_timed(&c.text, &[(0, vec![])], &[c.invocable.to_string()], Some(load_ms + budget + 1_000), &mut out, &mut times);
          let from = times.iter().filter(|t| t.2.starts_with("eval")).map(|t| t.1).min().unwrap_or(0);
          let to = times.iter().filter(|t| t.2 == "end").map(|t| t.1).max().unwrap_or(from);
          r.2 = out.pop().map(|o| o.1);
          r.3 = to.saturating_sub(from);
        }
        results.lock().unwrap().push((k, r));
      });
    }
  });
  let mut results = results.into_inner().unwrap();
  results.sort_by_key(|r| r.0);
  for (k, (load, load_ms, eval, eval_ms)) in results {
    let c = &cases[k];
    rep.case(&format!("scale|{}|{}", c.family, c.name), true);
    let input = format!("generated:{} {} ({} bytes of text, regenerated by harness/src/c12.rs; invocable {})", c.family, c.name, c.text.len(), c.invocable);
    let diamond = c.family == "diamond";
    let mut verdict = |rep: &mut Report, what: &str, o: &Option<Obs>, ms: u64| -> bool {
      // `what`: "load" | "evaluate"; true when the answer is acceptable
      let o = match o {
        Some(o) => o.clone(),
        None => Obs { stage: "abort".into(), detail: "no observation".into() },
      };
      let answered = matches!(o.stage.as_str(), "ok" | "parse-error" | "build-error");
      let observed = if answered { format!("{} {} after {} ms", o.stage, o.detail, ms) } else { format!("{} {}", o.stage, o.detail) };
      if answered && (!diamond || ms <= DIAMOND_BUDGET_MS) {
        rep.hit(&format!("scale {} {} → {}", c.family, what, o.stage));
        return true;
      }
      let sig = if answered || o.stage == "timeout" {
        if diamond {
          format!("C12 {} time grows exponentially ({})", what, c.noun)
        } else {
          format!("C12 no answer within {} s in {} on {}", DEEP_LIMIT_MS / 1000, stage_of(&o.detail), c.noun)
        }
      } else if o.stage == "abort" {
        let how = o.detail.split(' ').next().unwrap_or("");
        let how = if how == "signal:6" || how == "signal:11" { "stack overflow".to_string() } else { format!("process death ({})", how) };
        format!("C12 {} in {} on {}", how, stage_of(&o.detail), c.noun)
      } else {
        format!("C12 {} in {} on {}", o.stage, if what == "load" { "loading" } else { "evaluate_invocable" }, c.noun)
      };
      rep.hit(&format!("scale {} {} → {}", c.family, what, if answered { "over budget" } else { o.stage.as_str() }));
      let expected = if diamond {
        format!("a model of at most 64 elements loads within {} s and each of its invocables evaluates within {} s", DIAMOND_BUDGET_MS / 1000, DIAMOND_BUDGET_MS / 1000)
      } else {
        "a model, an error or a value; not the death of the process".to_string()
      };
      rep.disagree(Kind::ImplVsSpec, c.family, &sig, &input, &observed, &expected);
      rep.sample(json!({"scale": c.name, "stage": what, "observation": observed}));
      false
    };
    if verdict(rep, "load", &load, load_ms) && matches!(&load, Some(o) if o.stage == "ok") {
      verdict(rep, "evaluate", &eval, eval_ms);
    }
  }
  rep.extra.insert("scale_cases".into(), json!(cases.len()));
}

/// `dmntk_model::parse(text)` against `(c12 parse <uri table> <tree>)`.
fn xml_layer(cases: &[(String, String)], model: &mut Model, rep: &mut Report) {
  let mut reqs = vec![];
  let mut idx = vec![];
  for (k, (key, text)) in cases.iter().enumerate() {
    rep.case(&format!("xml|{}", key), true);
    match xml::tree_of(text) {
      None => {
        // roxmltree rejects the text (not modelled): the implementation must report exactly that
        let o = xml::observe(text);
        rep.hit("xml layer → xml-error");
        if o != "xml-error" {
          let kind = if o == "(panic)" { Kind::ImplVsSpec } else { Kind::ImplVsModel };
          rep.disagree(kind, "xml", "XML layer: a text roxmltree rejects is not reported as XmlParsingModelFailed", &format!("{} | {}", key, text), &o, "xml-error");
        }
      }
      Some((table, tree)) => {
        reqs.push(format!("(c12 parse {} {})", table, tree));
        idx.push(k);
      }
    }
  }
  let answers = model.ask_batch(&reqs);
  for (k, ans) in idx.iter().zip(answers.iter()) {
    let (key, text) = &cases[*k];
    let o = xml::observe(text);
    let bucket = if o.starts_with("(ok") {
      "ok".to_string()
    } else if o.starts_with("(err ") {
      o.trim_start_matches("(err ").split(|c| c == ' ' || c == ')').next().unwrap_or("").to_string()
    } else {
      o.clone()
    };
    rep.hit(&format!("xml layer → {}", bucket));
    let shown = if text.len() < 6000 { text.clone() } else { format!("(text of {} bytes)", text.len()) };
    let cut = |s: &str| -> String {
      if s.len() < 3000 {
        s.to_string()
      } else {
        // the first difference is what matters
        let p = o.bytes().zip(ans.bytes()).position(|(a, b)| a != b).unwrap_or(0);
        let from = p.saturating_sub(200);
        let to = (p + 400).min(s.len());
        let mut from = from.min(s.len());
        while !s.is_char_boundary(from) {
          from -= 1;
        }
        let mut to = to;
        while !s.is_char_boundary(to) {
          to -= 1;
        }
        format!("… {} …", &s[from..to])
      }
    };
    if o == "(panic)" {
      rep.disagree(Kind::ImplVsSpec, "xml", "XML layer: dmntk_model::parse panics", &format!("{} | {}", key, shown), &o, "a model, or an error");
    }
    if &o != ans {
      let sig = if o.starts_with("(ok") && ans.starts_with("(ok") {
        "XML layer: parsed definitions differ from the parser model".to_string()
      } else {
        format!("XML layer: outcome differs from the parser model ({} vs {})", bucket, ans.trim_start_matches('(').split(|c| c == ' ' || c == ')').take(2).collect::<Vec<_>>().join(" "))
      };
      rep.disagree(Kind::ImplVsModel, "xml", &sig, &format!("{} | {}", key, shown), &cut(&o), &cut(ans));
    }
  }
}

struct G {
  xml: String,
  req: String,
  names: Vec<String>,
}

/// A random requirement graph (item definitions, input data, knowledge models, decisions, a
/// decision service) as DMN XML and as the request for the driver.
fn gen_graph(rng: &mut Rng, force_acyclic: bool) -> G {
  let n_items = rng.below(4) as usize;
  let n_inputs = rng.below(3) as usize;
  let n_bkms = rng.below(4) as usize;
  let n_decs = 1 + rng.below(3) as usize;
  let n_svcs = rng.below(2) as usize;
  let cyclic = !force_acyclic && rng.chance(1, 2);
  let item_id = |k: usize| k;
  let input_id = |k: usize| 10 + k;
  let bkm_id = |k: usize| 20 + k;
  let dec_id = |k: usize| 30 + k;
  let svc_id = |k: usize| 40 + k;
  let mut x = String::new();
  x.push_str(r#"<?xml version="1.0" encoding="UTF-8"?><definitions namespace="ns" name="m" id="_m" xmlns="https://www.omg.org/spec/DMN/20191111/MODEL/">"#);
  // item definitions: references go to lower numbers unless `cyclic`
  fn gen_item(rng: &mut Rng, me: usize, n_items: usize, cyclic: bool, depth: usize, sx: &mut String, xml: &mut String) {
    let pick_ref = |rng: &mut Rng| -> usize {
      if cyclic || me == 0 {
        if rng.chance(1, 8) {
          7
        } else {
          rng.below(n_items as u64) as usize
        }
      } else {
        rng.below(me as u64) as usize
      }
    };
    let can_ref = cyclic || me > 0;
    match rng.below(if depth < 2 { 6 } else { 4 }) {
      0 => {
        sx.push_str("simple");
        xml.push_str("<typeRef>number</typeRef>");
      }
      1 => {
        sx.push_str("collSimple");
        xml.push_str("<typeRef>string</typeRef>");
      }
      2 | 3 if can_ref => {
        let r = pick_ref(rng);
        sx.push_str(&format!("(ref {})", r));
        xml.push_str(&format!("<typeRef>t{}</typeRef>", r));
      }
      2 | 3 => {
        sx.push_str("simple");
        xml.push_str("<typeRef>number</typeRef>");
      }
      _ => {
        let n = 1 + rng.below(2) as usize;
        sx.push_str("(comp");
        for c in 0..n {
          sx.push(' ');
          let coll = rng.chance(1, 3);
          let mut inner_sx = String::new();
          let mut inner_xml = String::new();
          gen_item(rng, me, n_items, cyclic, depth + 1, &mut inner_sx, &mut inner_xml);
          let (inner_sx, coll) = collify(&inner_sx, coll);
          sx.push_str(&inner_sx);
          xml.push_str(&format!("<itemComponent name=\"c{}\"{}>{}</itemComponent>", c, if coll { " isCollection=\"true\"" } else { "" }, inner_xml));
        }
        sx.push(')');
      }
    }
  }
  // turns a generated kind into its collection variant when `coll`
  fn collify(sx: &str, coll: bool) -> (String, bool) {
    if sx == "collSimple" {
      return (sx.to_string(), true);
    }
    if !coll {
      return (sx.to_string(), false);
    }
    if sx == "simple" {
      ("collSimple".to_string(), true)
    } else if let Some(r) = sx.strip_prefix("(ref ") {
      (format!("(collRef {}", r), true)
    } else if let Some(r) = sx.strip_prefix("(comp") {
      (format!("(collComp{}", r), true)
    } else {
      (sx.to_string(), false)
    }
  }
  let mut items_sx = vec![];
  for k in 0..n_items {
    let mut sx = String::new();
    let mut inner = String::new();
    gen_item(rng, k, n_items, cyclic, 0, &mut sx, &mut inner);
    let (sx, coll) = collify(&sx, rng.chance(1, 4));
    x.push_str(&format!("<itemDefinition name=\"t{}\"{}>{}</itemDefinition>", item_id(k), if coll { " isCollection=\"true\"" } else { "" }, inner));
    items_sx.push(format!("({} {})", item_id(k), sx));
  }
  let type_ref = |rng: &mut Rng| -> (String, String) {
    match rng.below(4) {
      0 => ("none".to_string(), String::new()),
      1 => ("builtin".to_string(), " typeRef=\"number\"".to_string()),
      _ => {
        if n_items == 0 || rng.chance(1, 10) {
          ("(named 7)".to_string(), " typeRef=\"t7\"".to_string())
        } else {
          let r = rng.below(n_items as u64) as usize;
          (format!("(named {})", r), format!(" typeRef=\"t{}\"", r))
        }
      }
    }
  };
  let mut inputs_sx = vec![];
  for k in 0..n_inputs {
    let (mut sx, mut attr) = type_ref(rng);
    if sx == "none" && !rng.chance(1, 6) {
      sx = "builtin".to_string();
      attr = " typeRef=\"string\"".to_string();
    }
    x.push_str(&format!("<inputData name=\"in{}\" id=\"_{}\"><variable name=\"in{}\"{}/></inputData>", input_id(k), input_id(k), input_id(k), attr));
    inputs_sx.push(format!("({} {})", input_id(k), sx));
  }
  // knowledge models: requirements to lower numbers unless cyclic
  let mut bkms_sx = vec![];
  let mut names = vec![];
  let mut body = String::new();
  for k in 0..n_bkms {
    let mut reqs = vec![];
    for j in 0..n_bkms {
      let allowed = cyclic || j < k;
      if allowed && rng.chance(1, 3) {
        reqs.push(bkm_id(j));
      }
    }
    if n_svcs > 0 && rng.chance(1, 8) {
      reqs.push(svc_id(0));
    }
    if rng.chance(1, 12) {
      reqs.push(99);
    }
    let (vt_sx, vt_attr) = type_ref(rng);
    let mut pts = vec![];
    let mut params = String::new();
    for pi in 0..rng.below(3) {
      let (p_sx, p_attr) = type_ref(rng);
      if p_sx != "none" {
        pts.push(p_sx.clone());
      }
      params.push_str(&format!("<formalParameter name=\"p{}\"{}/>", pi, p_attr));
    }
    body.push_str(&format!("<businessKnowledgeModel name=\"bkm{}\" id=\"_{}\"><variable name=\"bkm{}\"{}/><encapsulatedLogic>{}<literalExpression><text>1</text></literalExpression></encapsulatedLogic>", bkm_id(k), bkm_id(k), bkm_id(k), vt_attr, params));
    for (ri, r) in reqs.iter().enumerate() {
      body.push_str(&format!("<knowledgeRequirement id=\"_kb{}_{}\"><requiredKnowledge href=\"#_{}\"/></knowledgeRequirement>", k, ri, r));
    }
    body.push_str("</businessKnowledgeModel>");
    bkms_sx.push(format!("({} ({}) ({}) {})", bkm_id(k), reqs.iter().map(|r| r.to_string()).collect::<Vec<_>>().join(" "), pts.join(" "), vt_sx));
    names.push(format!("bkm{}", bkm_id(k)));
  }
  let mut decs_sx = vec![];
  let mut dec_xml = String::new();
  for k in 0..n_decs {
    let (vt_sx, vt_attr) = type_ref(rng);
    let mut kn = vec![];
    for j in 0..n_bkms {
      if rng.chance(1, 3) {
        kn.push(bkm_id(j));
      }
    }
    if n_svcs > 0 && rng.chance(1, 6) {
      kn.push(svc_id(0));
    }
    if rng.chance(1, 15) {
      kn.push(98);
    }
    let mut info = vec![];
    for j in 0..n_decs {
      let allowed = cyclic || j < k;
      if allowed && rng.chance(1, 3) {
        info.push((Some(dec_id(j)), None));
      }
    }
    for j in 0..n_inputs {
      if rng.chance(1, 2) {
        info.push((None, Some(input_id(j))));
      }
    }
    if rng.chance(1, 12) {
      info.push((Some(97), Some(96)));
    }
    dec_xml.push_str(&format!("<decision name=\"dec{}\" id=\"_{}\"><variable name=\"dec{}\"{}/>", dec_id(k), dec_id(k), dec_id(k), vt_attr));
    for (ri, (a, b)) in info.iter().enumerate() {
      dec_xml.push_str(&format!("<informationRequirement id=\"_ir{}_{}\">", k, ri));
      if let Some(a) = a {
        dec_xml.push_str(&format!("<requiredDecision href=\"#_{}\"/>", a));
      }
      if let Some(b) = b {
        dec_xml.push_str(&format!("<requiredInput href=\"#_{}\"/>", b));
      }
      dec_xml.push_str("</informationRequirement>");
    }
    for (ri, r) in kn.iter().enumerate() {
      dec_xml.push_str(&format!("<knowledgeRequirement id=\"_kd{}_{}\"><requiredKnowledge href=\"#_{}\"/></knowledgeRequirement>", k, ri, r));
    }
    dec_xml.push_str("<literalExpression><text>1</text></literalExpression></decision>");
    let o = |v: &Option<usize>| v.map(|n| n.to_string()).unwrap_or_else(|| "none".to_string());
    decs_sx.push(format!(
      "({} {} ({}) ({}))",
      dec_id(k),
      vt_sx,
      kn.iter().map(|r| r.to_string()).collect::<Vec<_>>().join(" "),
      info.iter().map(|(a, b)| format!("({} {})", o(a), o(b))).collect::<Vec<_>>().join(" ")
    ));
    names.push(format!("dec{}", dec_id(k)));
  }
  let mut svcs_sx = vec![];
  let mut svc_xml = String::new();
  for k in 0..n_svcs {
    let (vt_sx, vt_attr) = type_ref(rng);
    let pick = |rng: &mut Rng, n: usize, f: &dyn Fn(usize) -> usize| -> Vec<usize> { (0..n).filter(|_| rng.chance(1, 3)).map(f).collect() };
    let ind = pick(rng, n_inputs, &input_id);
    let inp = pick(rng, n_decs, &dec_id);
    let enc = pick(rng, n_decs, &dec_id);
    let mut out = pick(rng, n_decs, &dec_id);
    if out.is_empty() {
      out.push(dec_id(0));
    }
    svc_xml.push_str(&format!("<decisionService name=\"svc{}\" id=\"_{}\"><variable name=\"svc{}\"{}/>", svc_id(k), svc_id(k), svc_id(k), vt_attr));
    for r in &out {
      svc_xml.push_str(&format!("<outputDecision href=\"#_{}\"/>", r));
    }
    for r in &enc {
      svc_xml.push_str(&format!("<encapsulatedDecision href=\"#_{}\"/>", r));
    }
    for r in &inp {
      svc_xml.push_str(&format!("<inputDecision href=\"#_{}\"/>", r));
    }
    for r in &ind {
      svc_xml.push_str(&format!("<inputData href=\"#_{}\"/>", r));
    }
    svc_xml.push_str("</decisionService>");
    let l = |v: &Vec<usize>| v.iter().map(|r| r.to_string()).collect::<Vec<_>>().join(" ");
    svcs_sx.push(format!("({} {} ({}) ({}) ({}) ({}))", svc_id(k), vt_sx, l(&ind), l(&inp), l(&enc), l(&out)));
    names.push(format!("svc{}", svc_id(k)));
  }
  // document order by kind does not matter to the parser (it collects kind by kind)
  x.push_str(&dec_xml);
  x.push_str(&body);
  x.push_str(&svc_xml);
  x.push_str("</definitions>");
  let req = format!("(c12 graph ({}) ({}) ({}) ({}) ({}))", items_sx.join(" "), inputs_sx.join(" "), bkms_sx.join(" "), decs_sx.join(" "), svcs_sx.join(" "));
  G { xml: x, req, names }
}

/// Model part: generated decision-table shapes and requirement graphs, implementation
/// against `Dmn.MB` / `Dmn.DT` through the driver.
fn shapes(cfg: &Cfg, rng: &mut Rng, model: &mut Model, rep: &mut Report) {
  let thorough = cfg.tier == "thorough";
  // the hook of `main` is silent; record the panic site for in-process cases
  std::panic::set_hook(Box::new(|info| {
    if let Some(l) = info.location() {
      if let Ok(mut g) = LAST_PANIC.lock() {
        *g = strip_site(l.file(), l.line());
      }
    }
  }));
  // ---- decision-table shapes
  let policies: [(&str, Option<&str>); 11] = [
    ("UNIQUE", None),
    ("ANY", None),
    ("PRIORITY", None),
    ("FIRST", None),
    ("RULE ORDER", None),
    ("OUTPUT ORDER", None),
    ("COLLECT", None),
    ("COLLECT", Some("SUM")),
    ("COLLECT", Some("MIN")),
    ("COLLECT", Some("MAX")),
    ("COLLECT", Some("COUNT")),
  ];
  let n_dt = if thorough { 20_000 } else { 2_000 };
  let mut reqs = vec![];
  let mut obs = vec![];
  let mut inputs = vec![];
  let mut xml_dt_reqs = vec![];
  let mut xml_dt_idx = vec![];
  for k in 0..n_dt {
    let (hp, agg) = policies[k % policies.len()];
    let n_in = rng.below(4) as usize;
    let n_out = rng.below(4) as usize;
    let n_rules = rng.below(4) as usize;
    let exact = rng.chance(1, 3);
    let rules: Vec<(usize, usize)> = (0..n_rules)
      .map(|_| if exact { (n_in, n_out) } else { (rng.below(5) as usize, rng.below(5) as usize) })
      .collect();
    let mut x = String::new();
    x.push_str(r#"<?xml version="1.0" encoding="UTF-8"?><definitions namespace="ns" name="m" id="_m" xmlns="https://www.omg.org/spec/DMN/20191111/MODEL/">"#);
    x.push_str(r##"<decision name="D" id="_d"><variable name="D"/><informationRequirement id="_r1"><requiredInput href="#_i1"/></informationRequirement>"##);
    x.push_str(&format!("<decisionTable hitPolicy=\"{}\"", hp));
    if let Some(a) = agg {
      x.push_str(&format!(" aggregation=\"{}\"", a));
    }
    x.push('>');
    for _ in 0..n_in {
      x.push_str("<input><inputExpression><text>i1</text></inputExpression></input>");
    }
    for i in 0..n_out {
      x.push_str(&format!("<output name=\"o{}\"/>", i + 1));
    }
    for (a, b) in &rules {
      x.push_str("<rule>");
      for _ in 0..*a {
        x.push_str("<inputEntry><text>-</text></inputEntry>");
      }
      for _ in 0..*b {
        x.push_str("<outputEntry><text>1</text></outputEntry>");
      }
      x.push_str("</rule>");
    }
    x.push_str(r#"</decisionTable></decision><inputData name="i1" id="_i1"><variable typeRef="number" name="i1"/></inputData></definitions>"#);
    let req = format!(
      "(c12 dt {} {} {} {} ({}))",
      Sexp::str(hp),
      match agg {
        Some(a) => Sexp::str(a).to_string(),
        None => "none".to_string(),
      },
      n_in,
      n_out,
      rules.iter().map(|(a, b)| format!("({} {})", a, b)).collect::<Vec<_>>().join(" ")
    );
    // implementation, in-process
    *LAST_PANIC.lock().unwrap() = String::new();
    let short = |s: String| s.rsplit('/').next().unwrap_or("").to_string();
    let o = match util::guarded(|| dmntk_model::parse(&x)) {
      Err(_) => format!("((panic-parse {}) -)", short(LAST_PANIC.lock().unwrap().clone())),
      Ok(Err(_)) => "(parse-error -)".to_string(),
      Ok(Ok(d)) => match util::guarded(|| ModelEvaluator::new(&d)) {
        Err(_) => format!("((panic {}) -)", short(LAST_PANIC.lock().unwrap().clone())),
        Ok(Err(_)) => "(error -)".to_string(),
        Ok(Ok(me)) => {
          let ctx = dmntk_feel_evaluator::evaluate_context(&dmntk_feel::Scope::default(), "{i1: 1}").unwrap_or_default();
          match util::guarded(|| me.evaluate_invocable("D", &ctx)) {
            Err(_) => format!("(ok (panic {}))", short(LAST_PANIC.lock().unwrap().clone())),
            Ok(v) => match crate::c03::value_sexp(&v) {
              Some(sx) => format!("(ok (ok {}))", sx),
              None => format!("(ok (unsupported {}))", v),
            },
          }
        }
      },
    };
    // the same text through the parser model and `toTableS` (every fourth table)
    if k % 4 == 0 {
      if let Some((table, tree)) = xml::tree_of(&x) {
        xml_dt_reqs.push(format!("(c12 parse-dt {} {})", table, tree));
        xml_dt_idx.push(reqs.len());
      }
    }
    reqs.push(req);
    obs.push(o);
    inputs.push(x);
  }
  let answers = model.ask_batch(&reqs);
  let xml_dt_answers = model.ask_batch(&xml_dt_reqs);
  for (i, ans) in xml_dt_idx.iter().zip(xml_dt_answers.iter()) {
    let o = &obs[*i];
    rep.case(&format!("xml-dt|{}", reqs[*i]), true);
    let class = if o.starts_with("(ok") {
      "ok"
    } else if o.starts_with("(error") {
      "error"
    } else if o.starts_with("((panic-parse") {
      "panic-parse"
    } else if o.starts_with("((panic") {
      "(panic"
    } else {
      "parse-error"
    };
    rep.hit(&format!("xml table shape → {}", class.trim_start_matches('(')));
    if !(ans == class || (class == "(panic" && ans.starts_with("(panic"))) {
      rep.disagree(Kind::ImplVsModel, "xml-dt", "XML layer: text → parser model → table shape → builder model differs from the implementation's build outcome", &format!("{} | {}", reqs[*i], inputs[*i]), o, ans);
    }
  }
  for ((req, o), (ans, x)) in reqs.iter().zip(obs.iter()).zip(answers.iter().zip(inputs.iter())) {
    rep.case(req, true);
    let stage = if o.starts_with("((panic") {
      "panic in ModelEvaluator::new"
    } else if o.contains("(ok (panic") {
      "panic in evaluate_invocable"
    } else if o.starts_with("(error") {
      "build error"
    } else {
      "value"
    };
    rep.hit(&format!("table shape → {}", stage));
    if o != ans {
      rep.disagree(Kind::ImplVsModel, "dt-shape", "decision-table shape: implementation outcome differs from the builder model", &format!("{} | {}", req, x), o, ans);
    }
    if o.contains("panic") {
      // the property itself: no panic
      let site = Sexp::parse(o).map(|s| s.to_string()).unwrap_or_default();
      let site = site.split("decision_table.rs:").nth(1).map(|t| t.chars().take_while(|c| c.is_ascii_digit()).collect::<String>()).unwrap_or_default();
      let sig = format!("{} at model-evaluator/src/builders/decision_table.rs:{}", stage, site);
      rep.disagree(Kind::ImplVsSpec, "dt-shape", &sig, &format!("{} | {}", req, x), o, "a model, or an error");
    }
  }

  // ---- requirement graphs
  let n_graphs = if thorough { 6_000 } else { 500 };
  let mut graphs: Vec<G> = vec![];
  for _ in 0..n_graphs {
    graphs.push(gen_graph(rng, false));
  }
  let greqs: Vec<String> = graphs.iter().map(|g| g.req.clone()).collect();
  let ganswers = model.ask_batch(&greqs);
  // the same graphs as XML text through the parser model and `toDefs`: the answers must be those of the
  // generator's own abstract graph (identifiers aside: `toDefs` numbers them by position)
  {
    let xreqs: Vec<String> = graphs
      .iter()
      .map(|g| match xml::tree_of(&g.xml) {
        Some((table, tree)) => format!("(c12 parse-graph {} {})", table, tree),
        None => "(c12 parse-graph () (p))".to_string(),
      })
      .collect();
    let xanswers = model.ask_batch(&xreqs);
    for ((g, direct), via_xml) in graphs.iter().zip(ganswers.iter()).zip(xanswers.iter()) {
      rep.case(&format!("xml-graph|{}", g.req), true);
      let stripped = match Sexp::parse(direct).as_ref().and_then(|p| p.as_list()) {
        Some([b, d, bk, sv]) => {
          let res = |grp: &Sexp| -> String {
            grp.as_list().map(|l| l.iter().filter_map(|e| e.as_list().and_then(|p| p.get(1)).map(|r| r.to_string())).collect::<Vec<_>>().join(" ")).unwrap_or_default()
          };
          format!("({} ({}) ({}) ({}))", b, res(d), res(bk), res(sv))
        }
        _ => direct.clone(),
      };
      rep.hit(&format!("xml graph → {}", via_xml.trim_start_matches('(').split(' ').next().unwrap_or("")));
      if &stripped != via_xml {
        rep.disagree(Kind::ImplVsModel, "xml-graph", "XML layer: text → parser model → requirement graph differs from the generator's graph", &format!("{} | {}", g.req, g.xml), &stripped, via_xml);
      }
    }
  }
  // implementation: one child batch per graph; case 0 builds only, case k evaluates invocable k
  let n_threads = std::thread::available_parallelism().map(|n| n.get()).unwrap_or(4).min(16);
  let results: Mutex<Vec<(usize, Vec<(usize, Obs)>)>> = Mutex::new(vec![]);
  let next = std::sync::atomic::AtomicUsize::new(0);
  std::thread::scope(|s| {
    for _ in 0..n_threads {
      s.spawn(|| loop {
        let k = next.fetch_add(1, std::sync::atomic::Ordering::SeqCst);
        if k >= graphs.len() {
          break;
        }
        let g = &graphs[k];
        let mut cases = vec![(0usize, vec![])];
        let mut only = vec!["-".to_string()];
        for (i, n) in g.names.iter().enumerate() {
          cases.push((i + 1, vec![]));
          only.push(n.clone());
        }
        let mut out = vec![];
        run_cases_only(&g.xml, &cases, &only, &mut out);
        out.sort_by_key(|o| o.0);
        results.lock().unwrap().push((k, out));
      });
    }
  });
  let mut results = results.into_inner().unwrap();
  results.sort_by_key(|r| r.0);
  for (k, out) in results {
    let g = &graphs[k];
    let ans = &ganswers[k];
    rep.case(&g.req, true);
    let parsed = Sexp::parse(ans);
    let parts = match parsed.as_ref().and_then(|p| p.as_list()) {
      Some([b, d, bk, sv]) => (b.to_string(), d.clone(), bk.clone(), sv.clone()),
      _ => {
        rep.disagree(Kind::ImplVsModel, "graph", "driver-error", &g.req, "", ans);
        continue;
      }
    };
    let build_obs = out.iter().find(|o| o.0 == 0).map(|o| o.1.clone());
    let impl_build = match &build_obs {
      Some(o) if o.stage == "ok" => "ok",
      Some(o) if o.stage == "build-error" => "error",
      Some(o) if o.stage == "abort" && o.detail.contains("during build") => "diverge",
      Some(o) if o.stage == "parse-error" => "parse-error",
      _ => "other",
    };
    rep.hit(&format!("graph build → {}", impl_build));
    let input = format!("{} | {}", g.req, g.xml);
    if impl_build != parts.0 {
      rep.disagree(Kind::ImplVsModel, "graph", "requirement graph: ModelEvaluator::new outcome differs from the traversal model", &input, &format!("{:?}", build_obs), &parts.0);
    }
    if impl_build == "diverge" {
      let sig = signature("graph", build_obs.as_ref().unwrap(), &g.xml).unwrap_or_default();
      rep.disagree(Kind::ImplVsSpec, "graph", &sig, &input, &format!("{:?}", build_obs), "a model, or an error");
    }
    if impl_build != "ok" {
      continue;
    }
    // evaluation per invocable
    let mut expected: std::collections::HashMap<String, String> = std::collections::HashMap::new();
    for (grp, prefix) in [(&parts.1, "dec"), (&parts.2, "bkm"), (&parts.3, "svc")] {
      if let Some(l) = grp.as_list() {
        for e in l {
          if let Some([id, r]) = e.as_list() {
            expected.insert(format!("{}{}", prefix, id), r.to_string());
          }
        }
      }
    }
    for (i, n) in g.names.iter().enumerate() {
      let o = out.iter().find(|o| o.0 == i + 1).map(|o| o.1.clone());
      let impl_eval = match &o {
        Some(o) if o.stage == "ok" => "ok",
        Some(o) if o.stage == "abort" && o.detail.contains("during eval") => "diverge",
        _ => "other",
      };
      rep.hit(&format!("graph eval → {}", impl_eval));
      let exp = expected.get(n).cloned().unwrap_or_default();
      if impl_eval != exp {
        rep.disagree(Kind::ImplVsModel, "graph", "requirement graph: evaluate_invocable outcome differs from the traversal model", &format!("invocable {} | {}", n, input), &format!("{:?}", o), &exp);
      }
      if impl_eval != "ok" {
        if let Some(o) = &o {
          let sig = signature("graph", o, &g.xml).unwrap_or_else(|| format!("unexpected outcome {:?}", o));
          rep.disagree(Kind::ImplVsSpec, "graph", &sig, &format!("invocable {} | {}", n, input), &format!("{:?}", o), "a value");
        }
      }
    }
  }
}

// ------------------------------------------------------------------------------------------
// family `degenerate`: documents with nothing (or next to nothing) in them, through every loading entry point
// ------------------------------------------------------------------------------------------

#[derive(Clone, Copy, PartialEq, Debug)]
enum Want {
  /// no model can be read from the text: an error, never a model
  Error,
  /// a complete (if empty) model: it loads, builds, can be stored, deployed and asked
  Usable,
  /// a model or an error
  Either,
}

/// A valid model with its own namespace and name; its decision `D` is `42` (written out).
const VALID_NS: &str = "https://verif.example/c12/valid";
const VALID_NAME: &str = "c12-valid";
fn valid_model(ns: &str, name: &str, value: &str) -> String {
  crate::c17::model_xml(ns, name, &format!(r##"<decision name="D" id="_d"><variable typeRef="number" name="D"/><literalExpression><text>{}</text></literalExpression></decision>"##, value))
}

/// Degenerate documents: the empty text, white space only, a byte order mark only, only a prolog, only a comment /
/// processing instruction / document type, fragments of markup, a lone root element with nothing inside (of another
/// name; `definitions` without its mandatory attributes; `definitions` with them) — each wrapped in every combination
/// of a leading byte order mark / line break / blank / prolog and a trailing line break (LF, CRLF), blank, comment.
fn degenerate_texts(thorough: bool) -> Vec<(String, String, Want)> {
  const PROLOG: &str = r#"<?xml version="1.0" encoding="UTF-8"?>"#;
  let mut cores: Vec<(String, Want)> = vec![];
  for t in [
    "", " ", "\n", "\r\n", "\r", "\t", "  \n \n", "\u{a0}", "\u{2028}", PROLOG, "<?xml version=\"1.0\"?>", "<?xml version=\"1.1\"?>", "<!-- no model here -->", "<!---->", "<?pi x?>", "<!DOCTYPE definitions>",
    "<!DOCTYPE definitions [ <!ENTITY a \"b\"> ]>", "<", ">", "<?", "<?xml", "<?xml version=\"1.0\"", "<!--", "<!-- a", "<!DOCTYPE", "<![CDATA[x]]>", "x", "&amp;", "&", "</a>", "</definitions>", "<a", "<a/><b/>", "<a/>x", "\u{0}", "<definitions",
    "<definitions namespace=\"ns\" name=\"m\"", "<definitions namespace=\"ns\" name=\"m\"/", "<definitions namespace=\"ns\" name=\"m\"></definition>", "<a/>", "<a></a>", "<model namespace=\"ns\" name=\"m\"/>", "<Definitions namespace=\"ns\" name=\"m\"/>",
    "<definitions/>", "<definitions></definitions>", "<definitions> </definitions>", "<definitions>\n</definitions>", "<definitions><!-- c --></definitions>", "<definitions xmlns=\"https://www.omg.org/spec/DMN/20191111/MODEL/\"/>",
    "<definitions namespace=\"ns\"/>", "<definitions name=\"m\"/>", "<definitions id=\"_1\"/>",
  ] {
    cores.push((t.to_string(), Want::Error));
  }
  cores.push((format!("{}<!-- c -->", PROLOG), Want::Error));
  cores.push((format!("{}\n<!DOCTYPE definitions>\n<!-- c -->", PROLOG), Want::Error));
  for t in [
    "<definitions namespace=\"ns\" name=\"m\"/>",
    "<definitions namespace=\"ns\" name=\"m\"></definitions>",
    "<definitions namespace=\"ns\" name=\"m\"> </definitions>",
    "<definitions namespace=\"ns\" name=\"m\">\n</definitions>",
    "<definitions namespace=\"ns\" name=\"m\"><!-- c --></definitions>",
    "<definitions namespace=\"ns\" name=\"m\" id=\"_1\"/>",
    "<definitions namespace=\"ns\" name=\"m\" xmlns=\"https://www.omg.org/spec/DMN/20191111/MODEL/\"/>",
    "<dmn:definitions namespace=\"ns\" name=\"m\" xmlns:dmn=\"https://www.omg.org/spec/DMN/20191111/MODEL/\"></dmn:definitions>",
  ] {
    cores.push((t.to_string(), Want::Usable));
  }
  for t in ["<definitions namespace=\"\" name=\"\"/>", "<definitions namespace=\" \" name=\" \"/>", "<definitions namespace=\"ns\" name=\"m\">", "<definitions namespace=\"ns\" name=\"m\">x</definitions>", "<definitions namespace=\"ns\" name=\"m\"><![CDATA[]]></definitions>"] {
    cores.push((t.to_string(), Want::Either));
  }
  let prefixes: Vec<&str> = vec!["", "\u{feff}", "\n", " ", "<?xml version=\"1.0\" encoding=\"UTF-8\"?>\n", "\u{feff}<?xml version=\"1.0\" encoding=\"UTF-8\"?>"];
  let suffixes: Vec<&str> = vec!["", "\n", "\r\n", "\r", " ", "\n\n", "\n<!-- end -->", "\n<!-- end -->\n"];
  let mut out = vec![];
  let mut seen = std::collections::HashSet::new();
  for (core, want) in &cores {
    for (pi, p) in prefixes.iter().enumerate() {
      for (si, s) in suffixes.iter().enumerate() {
        if !thorough && pi != 0 && si != 0 && (pi + si) % 3 != 0 {
          continue; // quick: every prefix alone, every suffix alone, a third of the combinations
        }
        let text = format!("{}{}{}", p, core, s);
        if !seen.insert(text.clone()) {
          continue;
        }
        // a prolog is only a prolog at the very start of the text, and only once
        let starts_with_decl = core.starts_with("<?xml");
        let want = match want {
          Want::Usable if (p.contains("<?xml") && starts_with_decl) => Want::Error,
          Want::Usable if p.starts_with('\u{feff}') => Want::Either, // a byte order mark in front of a complete model: the XML reader's business
          w => *w,
        };
        out.push((format!("{:?} + {:?} + {:?}", p, core, s), text, want));
      }
    }
  }
  out
}

fn degenerate(cfg: &Cfg, rep: &mut Report) {
  use dmntk_workspace::Workspace;
  let thorough = cfg.tier == "thorough";
  let texts = degenerate_texts(thorough);
  rep.extra.insert("degenerate_texts".into(), json!(texts.len()));
  // (a) dmntk_model::parse → ModelEvaluator::new → evaluate_invocable, in child processes
  let cases: Vec<(usize, Vec<(usize, usize, String)>)> = texts.iter().enumerate().map(|(i, t)| (i, vec![(0, 0, t.1.clone())])).collect();
  let mut out = vec![];
  run_cases("", &cases, &mut out);
  let mut stage_of_text: Vec<String> = vec![String::new(); texts.len()];
  for (id, obs) in out {
    let (label, text, want) = &texts[id];
    rep.case(&format!("degenerate|parse|{}", label), true);
    rep.hit(&format!("degenerate {:?} → {}", want, obs.stage));
    stage_of_text[id] = obs.stage.clone();
    let input = format!("degenerate document {} = {:?}", label, text);
    if let Some(sig) = signature("degenerate", &obs, text) {
      rep.disagree(Kind::ImplVsSpec, "degenerate", &sig, &input, &format!("{} {}", obs.stage, obs.detail), "a model, or an error");
      continue;
    }
    match (want, obs.stage.as_str()) {
      (Want::Error, "ok") | (Want::Error, "build-error") => rep.disagree(Kind::ImplVsSpec, "degenerate", "degenerate: a text in which there is no model is read as a model", &input, &obs.stage, "an error of dmntk_model::parse"),
      (Want::Usable, "parse-error") | (Want::Usable, "build-error") => rep.disagree(Kind::ImplVsSpec, "degenerate", "degenerate: a lone definitions element with namespace and name is not a usable model", &input, &obs.stage, "a model that builds"),
      _ => {}
    }
  }
  // (b) the workspace: add / replace / deploy / evaluate with a valid model stored next to the document; a directory
  // of such files read by Workspace::new. Only texts whose child run ended (no process death).
  let ctx = FeelContext::default();
  for (i, (label, text, want)) in texts.iter().enumerate() {
    if !matches!(stage_of_text[i].as_str(), "ok" | "build-error" | "parse-error") {
      continue;
    }
    rep.case(&format!("degenerate|workspace|{}", label), true);
    let r = util::guarded(|| -> Result<(), (String, String, String)> {
      let mut w = Workspace::new(None);
      let v = dmntk_model::parse(&valid_model(VALID_NS, VALID_NAME, "42")).map_err(|e| ("the valid model is not read".to_string(), e.to_string(), "Ok".to_string()))?;
      w.add(v).map_err(|e| ("the valid model is not stored".to_string(), e.to_string(), "Ok".to_string()))?;
      for round in 0..2 {
        if let Ok(d) = dmntk_model::parse(text) {
          let r = if round == 0 { w.add(d) } else { w.replace(d) };
          if let Err(e) = r {
            return Err((format!("degenerate: Workspace::{} refuses a model read from a lone definitions element although nothing of its namespace or name is stored", if round == 0 { "add" } else { "replace" }), e.to_string(), "Ok".to_string()));
          }
        } else if *want == Want::Usable {
          return Err(("degenerate: a lone definitions element with namespace and name is not a usable model".to_string(), "Err".to_string(), "Ok".to_string()));
        }
        let _ = w.deploy();
        match w.evaluate_invocable(VALID_NAME, "D", &ctx) {
          Ok(v) if v.to_string() == "42" => {}
          other => return Err(("degenerate: a valid model stored next to a degenerate document cannot be evaluated after deploy".to_string(), format!("{:?}", other.map(|v| v.to_string()).map_err(|e| e.to_string())), "42".to_string())),
        }
        if *want == Want::Usable {
          // usable: asking the stored model for an invocable answers with a value
          if let Err(e) = w.evaluate_invocable("m", "no such invocable", &ctx) {
            return Err(("degenerate: a model read from a lone definitions element is not deployed".to_string(), e.to_string(), "a value".to_string()));
          }
        }
      }
      Ok(())
    });
    let input = format!("degenerate document {} = {:?} ;; Workspace: add(valid model), add(document), deploy, evaluate, replace(document), deploy, evaluate", label, text);
    match r {
      Err(_) => rep.disagree(Kind::ImplVsSpec, "degenerate", "degenerate: a workspace operation panics on a degenerate document", &input, "panic", "an answer"),
      Ok(Err((sig, got, want))) => rep.disagree(Kind::ImplVsSpec, "degenerate", &sig, &input, &got, &want),
      Ok(Ok(())) => {}
    }
  }
  // a directory of `.dmn` files, every one a degenerate document, and the valid model: Workspace::new(Some(dir))
  {
    let mut dir = std::env::current_dir().unwrap_or_else(|_| std::env::temp_dir());
    dir.push(".build");
    dir.push("c12-tmp");
    dir.push(format!("{}-degenerate", std::process::id()));
    let _ = std::fs::remove_dir_all(&dir);
    if std::fs::create_dir_all(&dir).is_ok() {
      let mut n = 0;
      for (i, (_, text, _)) in texts.iter().enumerate() {
        if matches!(stage_of_text[i].as_str(), "ok" | "build-error" | "parse-error") && std::fs::write(dir.join(format!("{:04}.dmn", i)), text.as_bytes()).is_ok() {
          n += 1;
        }
      }
      let _ = std::fs::write(dir.join("valid.dmn"), valid_model(VALID_NS, VALID_NAME, "42"));
      rep.case("degenerate|directory", true);
      let d2 = dir.clone();
      let r = util::guarded(move || {
        let w = Workspace::new(Some(d2));
        w.evaluate_invocable(VALID_NAME, "D", &FeelContext::default()).map(|v| v.to_string()).map_err(|e| e.to_string())
      });
      let input = format!("Workspace::new(Some(dir)) with dir holding {} degenerate documents (files NNNN.dmn, NNNN the index in the list of the family) and valid.dmn", n);
      match r {
        Err(_) => rep.disagree(Kind::ImplVsSpec, "degenerate", "degenerate: loading a directory that holds degenerate documents panics", &input, "panic", "a workspace"),
        Ok(Ok(v)) if v == "42" => {}
        Ok(other) => rep.disagree(Kind::ImplVsSpec, "degenerate", "degenerate: a valid model in a directory that also holds degenerate documents cannot be evaluated after loading", &input, &format!("{:?}", other), "42"),
      }
      let _ = std::fs::remove_dir_all(&dir);
    }
  }
  // (c) the service: POST /definitions/add and /definitions/replace carrying the document
  {
    use crate::c18::{http, Server};
    let mut server = match Server::start() {
      Ok(s) => s,
      Err(e) => {
        rep.disagree(Kind::ImplVsSpec, "degenerate", "the service does not start on a loopback port", "start_server(127.0.0.1, free port)", &e, "a listening service");
        return;
      }
    };
    let port = server.port;
    let js = Some("application/json");
    let post = |path: &str, body: &str| -> Result<J, String> {
      let a = http(port, "POST", path, js, body.as_bytes())?;
      serde_json::from_slice::<J>(&a.body).map_err(|e| format!("the answer is not JSON ({}): {}", e, String::from_utf8_lossy(&a.body)))
    };
    let content = |t: &str| json!({"content": base64::encode(t)}).to_string();
    // the valid model, stored and deployed, must stay answerable whatever is sent
    let alive = |post: &dyn Fn(&str, &str) -> Result<J, String>| -> Result<(), String> {
      post("/definitions/replace", &content(&valid_model(VALID_NS, VALID_NAME, "42")))?;
      post("/definitions/deploy", "")?;
      let a = http(port, "POST", &format!("/evaluate/{}/D", VALID_NAME), Some("text/plain"), b"{}")?;
      let j = serde_json::from_slice::<J>(&a.body).map_err(|e| format!("not JSON: {}", e))?;
      if j.get("data").map(|d| d.to_string()) == Some("42".to_string()) {
        Ok(())
      } else {
        Err(format!("evaluate answers {}", j))
      }
    };
    if let Err(e) = alive(&post) {
      rep.disagree(Kind::ImplVsSpec, "degenerate", "degenerate: the service does not store, deploy and evaluate a valid model", "replace(valid model), deploy, evaluate", &e, "{\"data\":42}");
      return;
    }
    let mut n_http = 0u64;
    for (i, (label, text, want)) in texts.iter().enumerate() {
      for path in ["/definitions/add", "/definitions/replace"] {
        rep.case(&format!("degenerate|POST {}|{}", path, label), true);
        n_http += 1;
        let input = format!("degenerate document {} = {:?} ;; POST {} {{\"content\": base64 of the document}}", label, text, path);
        match post(path, &content(text)) {
          Err(e) => {
            rep.disagree(Kind::ImplVsSpec, "degenerate", "degenerate: the service does not answer a definitions request carrying a degenerate document with a JSON document", &input, &format!("{} (process alive: {})", e, server.alive()), "a JSON document");
            if let Err(e2) = alive(&post) {
              rep.disagree(Kind::ImplVsSpec, "degenerate", "degenerate: after a definitions request carrying a degenerate document the service no longer answers the requests that follow", &input, &e2, "{\"data\":42}");
              return;
            }
          }
          Ok(j) => {
            let is_data = j.get("data").is_some();
            let is_err = j.get("errors").and_then(|e| e.as_array()).map(|a| !a.is_empty()).unwrap_or(false);
            if *want == Want::Error && !is_err {
              rep.disagree(Kind::ImplVsSpec, "degenerate", "degenerate: the service stores a text in which there is no model", &input, &j.to_string(), "an answer with the errors member");
            } else if *want == Want::Usable && !is_data {
              rep.disagree(Kind::ImplVsSpec, "degenerate", "degenerate: the service refuses a lone definitions element with namespace and name", &input, &j.to_string(), "an answer with the data member");
            }
            if is_data {
              let _ = post("/definitions/remove", &json!({"namespace": "ns", "name": "m"}).to_string());
              let _ = post("/definitions/remove", &json!({"namespace": "", "name": ""}).to_string());
              let _ = post("/definitions/remove", &json!({"namespace": " ", "name": " "}).to_string());
            }
          }
        }
      }
      if i % 64 == 63 || i + 1 == texts.len() {
        if let Err(e) = alive(&post) {
          rep.disagree(Kind::ImplVsSpec, "degenerate", "degenerate: after definitions requests carrying degenerate documents the service no longer answers the requests that follow", &format!("the documents up to {}", label), &e, "{\"data\":42}");
          return;
        }
      }
    }
    rep.extra.insert("degenerate_http_requests".into(), json!(n_http));
  }
}

// ------------------------------------------------------------------------------------------
// family `multibyte`: characters of 2, 3 and 4 bytes in every attribute value and text the XML layer reads
// ------------------------------------------------------------------------------------------

const MB: [&str; 3] = ["\u{df}", "\u{3042}", "\u{1d49c}"];

/// Variants of a string with a multi-byte character placed so that it covers a byte offset code might slice at:
/// inserted at every byte offset 0..=8 from the start and 1..=4 from the end (where that is a character boundary),
/// in widths 2, 3 and 4; the string replaced by `k` ASCII characters and one multi-byte character (k = 0..=8); the
/// same with blanks around (trimmed before it is sliced).
fn mb_variants(s: &str) -> Vec<(String, String)> {
  let mut out = vec![];
  let mut offsets: Vec<usize> = (0..=8usize).filter(|k| *k <= s.len()).collect();
  for k in 1..=4usize {
    if s.len() > k + 8 {
      offsets.push(s.len() - k);
    }
  }
  for k in offsets {
    if !s.is_char_boundary(k) {
      continue;
    }
    for (wi, ch) in MB.iter().enumerate() {
      out.push((format!("insert@{}/{}", k, wi + 2), format!("{}{}{}", &s[..k], ch, &s[k..])));
    }
  }
  for k in 0..=8usize {
    let ch = MB[k % 3];
    out.push((format!("replace@{}/{}", k, k % 3 + 2), format!("{}{}e", "a".repeat(k), ch)));
    if k >= 3 && k <= 6 {
      out.push((format!("replace-padded@{}/{}", k, (k + 1) % 3 + 2), format!(" {}{}e ", "a".repeat(k), MB[(k + 1) % 3])));
    }
  }
  out
}

fn multibyte(cfg: &Cfg, rep: &mut Report, bases: &[(String, String)], n_corpus: usize) {
  let thorough = cfg.tier == "thorough";
  // bases: the two well-formed corpus models, and for every construct of the vocabulary the smallest shipped example
  // that has it (thorough: every base up to 60 kB)
  let mut chosen: Vec<usize> = vec![];
  for (i, (n, _)) in bases.iter().enumerate().take(n_corpus) {
    if n.contains("compound output") || n.contains("graph with a decision service") {
      chosen.push(i);
    }
  }
  if thorough {
    for (i, (_, t)) in bases.iter().enumerate().skip(n_corpus) {
      if t.len() < 60_000 {
        chosen.push(i);
      }
    }
  } else {
    for key in ["DMNShape", "<invocation", "<relation", "<list", "<functionDefinition", "<import ", "<decisionService", "allowedValues", "<itemComponent", "<knowledgeSource", "<outputValues", "<context>", "<authorityRequirement", "typeLanguage", "<description"] {
      let best = bases.iter().enumerate().skip(n_corpus).filter(|(_, (n, t))| n.ends_with(".dmn") && t.contains(key) && t.len() < 30_000).min_by_key(|(_, (_, t))| t.len());
      if let Some((i, _)) = best {
        if !chosen.contains(&i) {
          chosen.push(i);
        }
      }
    }
  }
  struct W {
    base: usize,
    cases: Vec<(usize, Vec<(usize, usize, String)>)>,
    meta: Vec<String>,
  }
  let mut works: Vec<W> = vec![];
  for &bi in &chosen {
    let text = &bases[bi].1;
    let doc = match scan(text) {
      Some(d) => d,
      None => continue,
    };
    let mut w = W { base: bi, cases: vec![], meta: vec![] };
    let push = |w: &mut W, at: String, start: usize, end: usize| {
      for (label, v) in mb_variants(&text[start..end]) {
        w.cases.push((w.cases.len(), vec![(start, end, v)]));
        w.meta.push(format!("multibyte:{}|{}", label, at));
      }
    };
    for e in &doc.elems {
      for a in &e.attrs {
        if a.name.starts_with("xmlns") {
          continue;
        }
        push(&mut w, format!("<{}> {}@{}", e.name, a.name, a.full_start), a.val_start, a.val_end);
      }
    }
    for t in &doc.texts {
      if text[t.start..].starts_with("<![CDATA[") {
        continue;
      }
      push(&mut w, format!("text of <{}>@{}", doc.elems[t.parent].name, t.start), t.start, t.end);
    }
    works.push(w);
  }
  rep.extra.insert("multibyte_bases".into(), json!(works.len()));
  rep.extra.insert("multibyte_cases".into(), json!(works.iter().map(|w| w.cases.len()).sum::<usize>()));
  let n_threads = std::thread::available_parallelism().map(|n| n.get()).unwrap_or(4).min(16);
  let results: Mutex<Vec<(usize, Vec<(usize, Obs)>)>> = Mutex::new(vec![]);
  let next = std::sync::atomic::AtomicUsize::new(0);
  // pieces of 400 cases, so that one big base does not keep a single thread busy
  let mut pieces: Vec<(usize, usize, usize)> = vec![];
  for (k, w) in works.iter().enumerate() {
    let mut s = 0;
    while s < w.cases.len() {
      let e = (s + 400).min(w.cases.len());
      pieces.push((k, s, e));
      s = e;
    }
  }
  std::thread::scope(|s| {
    for _ in 0..n_threads {
      s.spawn(|| loop {
        let p = next.fetch_add(1, std::sync::atomic::Ordering::SeqCst);
        if p >= pieces.len() {
          break;
        }
        let (k, a, b) = pieces[p];
        let w = &works[k];
        let mut out = vec![];
        run_cases(&bases[w.base].1, &w.cases[a..b], &mut out);
        results.lock().unwrap().push((k, out));
      });
    }
  });
  let mut results = results.into_inner().unwrap();
  results.sort_by_key(|r| r.0);
  for (k, out) in results {
    let w = &works[k];
    let (bname, btext) = &bases[w.base];
    for (id, obs) in out {
      let meta = &w.meta[id];
      rep.case(&format!("{}|{}", bname, meta), true);
      rep.hit(&format!("multibyte → {}", obs.stage));
      let faulted = apply(btext, &w.cases[id].1);
      if let Some(sig) = signature("multibyte", &obs, &faulted) {
        let input = format!("{} | {} | replacement {:?} | {}", bname, meta, w.cases[id].1[0].2, if faulted.len() < 6000 { faulted } else { format!("(text of {} bytes; edits {:?})", faulted.len(), w.cases[id].1) });
        rep.disagree(Kind::ImplVsSpec, "multibyte", &sig, &input, &format!("{} {}", obs.stage, obs.detail), "a model, or an error");
      }
    }
  }
  // valid models whose names, type references and identifiers carry multi-byte characters, consistently: the model is
  // usable and its decisions have the value written out here (42)
  let mut type_names: Vec<String> = vec![];
  for k in 0..=8usize {
    for ch in MB {
      type_names.push(format!("{}{}e", "a".repeat(k), ch));
    }
  }
  for n in ["Gr\u{f6}\u{df}e", "Za\u{17c}\u{f3}\u{142}\u{107}", "tGr\u{f6}\u{df}e", "L\u{e4}nge", "Wysoko\u{15b}\u{107}", "\u{df}", "\u{1d49c}\u{1d49c}", "feel\u{df}number", "FEEL\u{3042}"] {
    type_names.push(n.to_string());
  }
  let scope = dmntk_feel::Scope::default();
  for (ti, t) in type_names.iter().enumerate() {
    for (ii, input_name) in ["Len", "L\u{e4}nge"].iter().enumerate() {
      for (di, id) in ["_i1", "_\u{ef}1", "_\u{3042}\u{1d49c}"].iter().enumerate() {
        if !thorough && (ti + ii + di) % 2 == 1 && ti >= 27 + 5 {
          continue;
        }
        let pad = if (ti + di) % 3 == 0 { " " } else { "" };
        let xml = crate::c17::model_xml(
          "https://verif.example/c12/multibyte",
          "c12-multibyte",
          &format!(
            r##"
  <itemDefinition name="{t}"><typeRef>{pad}number{pad}</typeRef></itemDefinition>
  <itemDefinition name="{t}s" isCollection="true"><typeRef>{pad}{t}{pad}</typeRef></itemDefinition>
  <inputData name="{i}" id="{id}"><variable name="{i}" typeRef="{t}"/></inputData>
  <businessKnowledgeModel name="F" id="{id}f"><variable name="F"/><encapsulatedLogic><formalParameter name="a" typeRef="{t}"/><literalExpression typeRef="{t}"><text>a * 2</text></literalExpression></encapsulatedLogic></businessKnowledgeModel>
  <decision name="D1" id="{id}d1"><variable name="D1" typeRef="{pad}{t}{pad}"/><informationRequirement><requiredInput href="#{id}"/></informationRequirement><literalExpression><text>{i} * 2</text></literalExpression></decision>
  <decision name="D2" id="{id}d2"><variable name="D2" typeRef="{t}"/><informationRequirement><requiredInput href="#{id}"/></informationRequirement><knowledgeRequirement><requiredKnowledge href="#{id}f"/></knowledgeRequirement><literalExpression><text>F({i})</text></literalExpression></decision>
  <decision name="D3" id="{id}d3"><variable name="D3" typeRef="{t}"/><informationRequirement><requiredInput href="#{id}"/></informationRequirement>
    <decisionTable hitPolicy="UNIQUE"><input><inputExpression typeRef="{t}"><text>{i}</text></inputExpression></input><output typeRef="{t}"/><rule><inputEntry><text>-</text></inputEntry><outputEntry><text>{i} * 2</text></outputEntry></rule></decisionTable></decision>
  <decision name="D4" id="{id}d4"><variable name="D4" typeRef="{t}s"/><informationRequirement><requiredDecision href="#{id}d1"/></informationRequirement><literalExpression><text>[D1]</text></literalExpression></decision>"##,
            t = t,
            i = input_name,
            id = id,
            pad = pad
          ),
        );
        rep.case(&format!("multibyte|valid|{}|{}|{}|{:?}", t, input_name, id, pad), true);
        let r = util::guarded(|| -> Result<Vec<String>, String> {
          let defs = dmntk_model::parse(&xml).map_err(|e| format!("parse: {}", e))?;
          let me = ModelEvaluator::new(&defs).map_err(|e| format!("build: {}", e))?;
          let mut ctx = FeelContext::default();
          let v = dmntk_feel_parser::parse_expression(&scope, "21", false).and_then(|n| dmntk_feel_evaluator::evaluate(&scope, &n)).map_err(|e| e.to_string())?;
          ctx.set_entry(&Name::from(*input_name), v);
          Ok(["D1", "D2", "D3", "D4"].iter().map(|d| me.evaluate_invocable(d, &ctx).to_string()).collect())
        });
        let input = format!("type name {:?}, input name {:?}, identifier {:?}, blanks around type references {:?} ;; {}", t, input_name, id, pad, xml);
        match r {
          Err(_) => rep.disagree(Kind::ImplVsSpec, "multibyte", "multibyte: loading or evaluating a valid model whose names carry multi-byte characters panics", &input, "panic", "D1 = D2 = D3 = 42, D4 = [42]"),
          // an identifier outside ASCII makes `#id` a reference that is not a URI reference in the strict sense: an error is an answer
          Ok(Err(_)) if !id.is_ascii() => rep.hit("multibyte: identifier outside ASCII → error"),
          Ok(Err(e)) => rep.disagree(Kind::ImplVsSpec, "multibyte", "multibyte: a valid model whose names carry multi-byte characters is not usable", &input, &e, "D1 = D2 = D3 = 42, D4 = [42]"),
          Ok(Ok(vs)) => {
            if vs != vec!["42".to_string(), "42".to_string(), "42".to_string(), "[42]".to_string()] {
              rep.disagree(Kind::ImplVsSpec, "multibyte", "multibyte: a valid model whose names carry multi-byte characters evaluates to other values than written", &input, &format!("{:?}", vs), "D1 = D2 = D3 = 42, D4 = [42]");
            }
          }
        }
      }
    }
  }
}

// ------------------------------------------------------------------------------------------
// family `related`: pairs of faults on related attributes — a value the XML layer reads is replaced by a value
// derived from OTHER attributes of the same document
// ------------------------------------------------------------------------------------------

/// A small written-out base with every kind of reference (the shipped examples supply the rest).
fn related_base() -> String {
  r##"<?xml version="1.0" encoding="UTF-8"?>
<definitions namespace="https://verif.example/c12/related" name="c12-related" id="_defs" xmlns="https://www.omg.org/spec/DMN/20191111/MODEL/">
  <import namespace="https://verif.example/c12/imported" name="imp" importType="https://www.omg.org/spec/DMN/20191111/MODEL/"/>
  <itemDefinition name="tNum" id="_t"><typeRef>number</typeRef></itemDefinition>
  <inputData name="In" id="_in"><variable name="In" typeRef="tNum"/></inputData>
  <knowledgeSource name="Src" id="_src"/>
  <businessKnowledgeModel name="F" id="_f"><variable name="F"/><encapsulatedLogic><formalParameter name="a" typeRef="number"/><literalExpression><text>a + 1</text></literalExpression></encapsulatedLogic></businessKnowledgeModel>
  <decision name="Base" id="_base"><variable name="Base" typeRef="number"/><informationRequirement><requiredInput href="#_in"/></informationRequirement><literalExpression><text>In + 40</text></literalExpression></decision>
  <decision name="Answer" id="_answer"><variable name="Answer" typeRef="tNum"/><informationRequirement><requiredDecision href="#_base"/></informationRequirement><knowledgeRequirement><requiredKnowledge href="#_f"/></knowledgeRequirement><authorityRequirement><requiredAuthority href="#_src"/></authorityRequirement><literalExpression><text>F(Base)</text></literalExpression></decision>
  <decisionService name="Svc" id="_svc"><variable name="Svc"/><outputDecision href="#_answer"/><encapsulatedDecision href="#_base"/><inputData href="#_in"/></decisionService>
</definitions>"##
    .to_string()
}

/// The values derived from the other attributes of a document whose namespace is `ns`: the namespace, the name, the
/// identifiers, other names, type references, references and import namespaces, bare and in every combination with
/// `#` and the namespace a reader of references might split at (`#v`, `ns#v`, `ns#ns#v`, `v#`, `v#ns`, `ns#`, `#ns`),
/// and the texts without any content (empty, `#`, `##`).
fn related_values(ns: &str, name: &str, ids: &[String], names: &[String], type_refs: &[String], hrefs: &[String], imports: &[String]) -> Vec<(String, String)> {
  let mut vs: Vec<(String, String)> = vec![("empty".into(), String::new()), ("#".into(), "#".into()), ("##".into(), "##".into())];
  vs.push(("ns".into(), ns.to_string()));
  vs.push(("ns#".into(), format!("{}#", ns)));
  vs.push(("#ns".into(), format!("#{}", ns)));
  vs.push(("ns#ns".into(), format!("{}#{}", ns, ns)));
  vs.push(("ns#ns#".into(), format!("{}#{}#", ns, ns)));
  let mut derived = |kind: &str, v: &str, full: bool| {
    vs.push((kind.to_string(), v.to_string()));
    vs.push((format!("#{}", kind), format!("#{}", v)));
    vs.push((format!("ns#{}", kind), format!("{}#{}", ns, v)));
    if full {
      vs.push((format!("{}#", kind), format!("{}#", v)));
      vs.push((format!("ns#ns#{}", kind), format!("{}#{}#{}", ns, ns, v)));
      vs.push((format!("{}#ns", kind), format!("{}#{}", v, ns)));
    }
  };
  derived("name", name, false);
  for (k, id) in ids.iter().enumerate() {
    derived(&format!("id{}", k), id, true);
  }
  for (k, n) in names.iter().enumerate() {
    derived(&format!("name{}", k), n, false);
  }
  for (k, t) in type_refs.iter().enumerate() {
    derived(&format!("typeRef{}", k), t, false);
  }
  for (k, i) in imports.iter().enumerate() {
    derived(&format!("import{}", k), i, true);
  }
  for (k, h) in hrefs.iter().enumerate() {
    vs.push((format!("href{}", k), h.clone()));
    vs.push((format!("ns+href{}", k), format!("{}{}", ns, h)));
    vs.push((format!("href{}-without-#", k), h.replace('#', "")));
    vs.push((format!("href{}-before-#", k), h.split('#').next().unwrap_or("").to_string()));
  }
  let mut seen = std::collections::HashSet::new();
  vs.retain(|(_, v)| seen.insert(v.clone()));
  vs
}

/// For every attribute value the XML layer reads (`href`, `typeRef` — attribute or element text —, `id`, `name`,
/// `namespace` of the document and of its imports, `locationURI`; one position per class element × attribute × parent,
/// thorough: three) every value derived from the other attributes of the same document (`related_values`), alone and
/// together with a second fault on the document's namespace (emptied, removed, `#`, set to the text of a reference, to
/// that text up to `#`, to the name, to an identifier, to an import's namespace — the derived values then follow the
/// new namespace), and sampled pairs of two such replacements; over the written-out base, the two well-formed corpus
/// models and the smallest shipped example per construct.  Oracle: the standard of C12 (a model, or an error).
fn related(cfg: &Cfg, rep: &mut Report, bases: &[(String, String)], n_corpus: usize) {
  let thorough = cfg.tier == "thorough";
  let mut rng = Rng::new(cfg.seed ^ 0x0072_656c_6174_6564);
  let mut chosen: Vec<(String, String)> = vec![("written:related".to_string(), related_base())];
  for (n, t) in bases.iter().take(n_corpus) {
    if n.contains("compound output") || n.contains("graph with a decision service") {
      chosen.push((n.clone(), t.clone()));
    }
  }
  for key in [
    "<requiredDecision",
    "<requiredInput",
    "<requiredKnowledge",
    "<requiredAuthority",
    "<encapsulatedDecision",
    "<inputDecision",
    "<outputDecision",
    "<import ",
    "<decisionService",
    "<itemComponent",
    "<invocation",
    "<functionDefinition",
    "<knowledgeSource",
    "<relation",
    "<list",
    "<context>",
    "DMNShape",
    "allowedValues",
    "<outputValues",
    "typeLanguage",
  ] {
    let limit = if thorough { 60_000 } else { 30_000 };
    let best = bases.iter().skip(n_corpus).filter(|(n, t)| n.ends_with(".dmn") && t.contains(key) && t.len() < limit).min_by_key(|(_, t)| t.len());
    if let Some((n, t)) = best {
      if !chosen.iter().any(|c| &c.0 == n) {
        chosen.push((n.clone(), t.clone()));
      }
    }
  }
  const READ: [&str; 6] = ["href", "typeRef", "id", "name", "namespace", "locationURI"];
  struct W {
    base: usize,
    cases: Vec<(usize, Vec<(usize, usize, String)>)>,
    meta: Vec<String>,
  }
  let mut works: Vec<W> = vec![];
  for (bi, (_, text)) in chosen.iter().enumerate() {
    let doc = match scan(text) {
      Some(d) => d,
      None => continue,
    };
    let root = match doc.elems.iter().find(|e| local(&e.name) == "definitions") {
      Some(r) => r,
      None => continue,
    };
    let val = |a: &Attr| text[a.val_start..a.val_end].to_string();
    let attr_of = |e: &Elem, n: &str| e.attrs.iter().find(|a| a.name == n).map(val);
    let ns0 = attr_of(root, "namespace").unwrap_or_default();
    let name0 = attr_of(root, "name").unwrap_or_default();
    let mut ids: Vec<String> = vec![];
    let mut names: Vec<String> = vec![];
    let mut type_refs: Vec<String> = vec![];
    let mut hrefs: Vec<String> = vec![];
    let mut imports: Vec<String> = vec![];
    let add = |v: &mut Vec<String>, x: String, max: usize| {
      if v.len() < max && !v.contains(&x) {
        v.push(x);
      }
    };
    // the identifier of the document, the identifiers that references point to, then the others
    if let Some(i) = attr_of(root, "id") {
      add(&mut ids, i, 4);
    }
    for e in &doc.elems {
      if let Some(h) = attr_of(e, "href") {
        add(&mut hrefs, h.clone(), 2);
        add(&mut ids, h.rsplit('#').next().unwrap_or("").to_string(), 3);
      }
      if local(&e.name) == "import" {
        if let Some(n) = attr_of(e, "namespace") {
          add(&mut imports, n, 2);
        }
      }
      if let Some(t) = attr_of(e, "typeRef") {
        add(&mut type_refs, t, 2);
      }
      if e.parent.is_some() {
        if let Some(n) = attr_of(e, "name") {
          add(&mut names, n, 2);
        }
      }
    }
    for e in &doc.elems {
      if let Some(i) = attr_of(e, "id") {
        add(&mut ids, i, 4);
      }
    }
    // positions: one per class (element, attribute, parent element); thorough: three
    let per_class = if thorough { 3 } else { 1 };
    let mut class_n: std::collections::HashMap<String, usize> = std::collections::HashMap::new();
    let mut slots: Vec<(String, usize, usize)> = vec![];
    for e in &doc.elems {
      let parent = e.parent.map(|p| local(&doc.elems[p].name).to_string()).unwrap_or_default();
      for a in &e.attrs {
        if !READ.contains(&a.name.as_str()) || (std::ptr::eq(e, root) && a.name == "namespace") {
          continue;
        }
        let class = format!("<{}> {} in <{}>", local(&e.name), a.name, parent);
        let n = class_n.entry(class.clone()).or_insert(0);
        if *n < per_class {
          *n += 1;
          slots.push((format!("{}@{}", class, a.full_start), a.val_start, a.val_end));
        }
      }
    }
    for t in &doc.texts {
      let p = &doc.elems[t.parent];
      if local(&p.name) == "typeRef" && !text[t.start..].starts_with("<![CDATA[") {
        let class = format!("text of <typeRef> in <{}>", p.parent.map(|q| local(&doc.elems[q].name).to_string()).unwrap_or_default());
        let n = class_n.entry(class.clone()).or_insert(0);
        if *n < per_class {
          *n += 1;
          slots.push((format!("{}@{}", class, t.start), t.start, t.end));
        }
      }
    }
    // the first fault: the namespace of the document (`None`: left as it is)
    let ns_attr = root.attrs.iter().find(|a| a.name == "namespace");
    let mut ns_faults: Vec<(String, Option<(usize, usize, String)>, String)> = vec![("as-is".into(), None, ns0.clone())];
    let mut ns_values: Vec<(String, String)> = vec![("empty".into(), String::new()), ("#".into(), "#".into()), ("name".into(), name0.clone())];
    if let Some(h) = hrefs.first() {
      ns_values.push(("href".into(), h.clone()));
      ns_values.push(("href-before-#".into(), h.split('#').next().unwrap_or("").to_string()));
      ns_values.push(("href-without-#".into(), h.replace('#', "")));
    }
    if let Some(i) = ids.get(1).or(ids.first()) {
      ns_values.push(("id".into(), i.clone()));
    }
    if let Some(i) = imports.first() {
      ns_values.push(("import".into(), i.clone()));
    }
    let mut seen_ns = std::collections::HashSet::new();
    seen_ns.insert(ns0.clone());
    if let Some(a) = ns_attr {
      ns_faults.push(("removed".into(), Some((a.full_start, a.full_end, String::new())), String::new()));
    }
    for (label, v) in ns_values {
      if !seen_ns.insert(v.clone()) {
        continue;
      }
      let edit = match ns_attr {
        Some(a) => (a.val_start, a.val_end, v.clone()),
        None => match root.attrs.first() {
          Some(f) => (f.full_start, f.full_start, format!(" namespace=\"{}\"", v)),
          None => continue,
        },
      };
      ns_faults.push((label, Some(edit), v));
    }
    let mut w = W { base: bi, cases: vec![], meta: vec![] };
    for (nlabel, nedit, ns) in &ns_faults {
      let values = related_values(ns, &name0, &ids, &names, &type_refs, &hrefs, &imports);
      if let Some(e) = nedit {
        w.cases.push((w.cases.len(), vec![e.clone()]));
        w.meta.push(format!("related:namespace {}", nlabel));
      }
      for (at, s, e) in &slots {
        for (vlabel, v) in &values {
          if &text[*s..*e] == v.as_str() {
            continue;
          }
          let mut edits = vec![(*s, *e, v.clone())];
          if let Some(ne) = nedit {
            edits.push(ne.clone());
          }
          w.cases.push((w.cases.len(), edits));
          w.meta.push(format!("related:namespace {} + {} := {}", nlabel, at, vlabel));
        }
      }
    }
    // two replacements at two positions (the namespace as it is)
    let values = related_values(&ns0, &name0, &ids, &names, &type_refs, &hrefs, &imports);
    if slots.len() >= 2 {
      for _ in 0..(if thorough { 4000 } else { 300 }) {
        let a = rng.below(slots.len() as u64) as usize;
        let mut b = rng.below(slots.len() as u64 - 1) as usize;
        if b >= a {
          b += 1;
        }
        let (va, vb) = (rng.pick(&values), rng.pick(&values));
        w.cases.push((w.cases.len(), vec![(slots[a].1, slots[a].2, va.1.clone()), (slots[b].1, slots[b].2, vb.1.clone())]));
        w.meta.push(format!("related:{} := {} + {} := {}", slots[a].0, va.0, slots[b].0, vb.0));
      }
    }
    works.push(w);
  }
  rep.extra.insert("related_bases".into(), json!(works.len()));
  rep.extra.insert("related_cases".into(), json!(works.iter().map(|w| w.cases.len()).sum::<usize>()));
  let t0 = std::time::Instant::now();
  let n_threads = std::thread::available_parallelism().map(|n| n.get()).unwrap_or(4).min(16);
  let results: Mutex<Vec<(usize, Vec<(usize, Obs)>)>> = Mutex::new(vec![]);
  let next = std::sync::atomic::AtomicUsize::new(0);
  let mut pieces: Vec<(usize, usize, usize)> = vec![];
  for (k, w) in works.iter().enumerate() {
    let mut s = 0;
    while s < w.cases.len() {
      let e = (s + 400).min(w.cases.len());
      pieces.push((k, s, e));
      s = e;
    }
  }
  std::thread::scope(|s| {
    for _ in 0..n_threads {
      s.spawn(|| loop {
        let p = next.fetch_add(1, std::sync::atomic::Ordering::SeqCst);
        if p >= pieces.len() {
          break;
        }
        let (k, a, b) = pieces[p];
        let w = &works[k];
        let mut out = vec![];
        run_cases(&chosen[w.base].1, &w.cases[a..b], &mut out);
        results.lock().unwrap().push((k, out));
      });
    }
  });
  rep.extra.insert("related_seconds".into(), json!(t0.elapsed().as_secs()));
  let mut results = results.into_inner().unwrap();
  results.sort_by_key(|r| r.0);
  for (k, out) in results {
    let w = &works[k];
    let (bname, btext) = &chosen[w.base];
    for (id, obs) in out {
      let meta = &w.meta[id];
      rep.case(&format!("{}|{}", bname, meta), true);
      rep.hit(&format!("related → {}", obs.stage));
      let faulted = apply(btext, &w.cases[id].1);
      if let Some(sig) = signature("related", &obs, &faulted) {
        let input = format!(
          "{} | {} | replacements {:?} | {}",
          bname,
          meta,
          w.cases[id].1.iter().map(|e| e.2.as_str()).collect::<Vec<_>>(),
          if faulted.len() < 6000 { faulted } else { format!("(text of {} bytes; edits {:?})", faulted.len(), w.cases[id].1) }
        );
        rep.disagree(Kind::ImplVsSpec, "related", &sig, &input, &format!("{} {}", obs.stage, obs.detail), "a model, or an error");
      }
    }
  }
}

// ------------------------------------------------------------------------------------------
// family `deploy-isolation`: a loaded text stored next to a valid model
// ------------------------------------------------------------------------------------------

/// Every text the fault enumeration found to be read as a model — building or not — is stored in a workspace next to
/// a valid model, before it and after it, and is substituted by `replace`; after `deploy` the valid model answers
/// with its value (written out: 42, then 43 for the substituted version): "a model that fails to build does not
/// prevent the others from being deployed" (workspace.rs, `deploy`), seen from the loading side.
fn deploy_isolation(cfg: &Cfg, rep: &mut Report, loaded: &[(String, String, bool)]) {
  use dmntk_workspace::Workspace;
  let thorough = cfg.tier == "thorough";
  let mut rng = Rng::new(cfg.seed ^ 0x6465_706c_6f79);
  let cap_bad = if thorough { 20_000 } else { 500 };
  let cap_ok = if thorough { 2_000 } else { 100 };
  let mut pick: Vec<&(String, String, bool)> = vec![];
  let bad: Vec<&(String, String, bool)> = loaded.iter().filter(|l| !l.2).collect();
  let good: Vec<&(String, String, bool)> = loaded.iter().filter(|l| l.2).collect();
  for (pool, cap) in [(&bad, cap_bad), (&good, cap_ok)] {
    if pool.len() <= cap {
      pick.extend(pool.iter());
    } else {
      for _ in 0..cap {
        pick.push(*rng.pick(pool));
      }
    }
  }
  rep.extra.insert("deploy_isolation_texts".into(), json!(pick.len()));
  rep.extra.insert("deploy_isolation_texts_not_building".into(), json!(bad.len().min(cap_bad)));
  let ctx = FeelContext::default();
  let v42 = valid_model(VALID_NS, VALID_NAME, "42");
  let v43 = valid_model(VALID_NS, VALID_NAME, "43");
  for (key, text, builds) in pick {
    rep.case(&format!("deploy-isolation|{}", key), true);
    rep.hit(if *builds { "deploy-isolation: next to a model that builds" } else { "deploy-isolation: next to a model that does not build" });
    let r = util::guarded(|| -> Result<(), (String, String, String)> {
      let valid = |t: &str| dmntk_model::parse(t).map_err(|e| ("the valid model is not read".to_string(), e.to_string(), "Ok".to_string()));
      let other = || dmntk_model::parse(text).ok();
      let ask = |w: &Workspace, order: &str, want: &str| -> Result<(), (String, String, String)> {
        match w.evaluate_invocable(VALID_NAME, "D", &ctx) {
          Ok(v) if v.to_string() == want => Ok(()),
          r => Err((format!("deploy-isolation: a valid model stored next to another loaded text cannot be evaluated after deploy ({})", order), format!("{:?}", r.map(|v| v.to_string()).map_err(|e| e.to_string())), want.to_string())),
        }
      };
      // the text first
      let mut w = Workspace::new(None);
      if let Some(d) = other() {
        let _ = w.add(d);
      }
      w.add(valid(&v42)?).map_err(|e| ("the valid model is not stored".to_string(), e.to_string(), "Ok".to_string()))?;
      let _ = w.deploy();
      ask(&w, "the text stored first", "42")?;
      // substituted afterwards
      let _ = w.replace(valid(&v43)?);
      if let Some(d) = other() {
        let _ = w.replace(d);
      }
      let _ = w.deploy();
      ask(&w, "the valid model and the text substituted by replace", "43")?;
      // the valid model first
      let mut w = Workspace::new(None);
      w.add(valid(&v42)?).map_err(|e| ("the valid model is not stored".to_string(), e.to_string(), "Ok".to_string()))?;
      if let Some(d) = other() {
        let _ = w.add(d);
      }
      let _ = w.deploy();
      ask(&w, "the text stored last", "42")
    });
    let input = format!("{} ;; {}", key, if text.len() < 6000 { text.clone() } else { format!("(text of {} bytes)", text.len()) });
    match r {
      Err(_) => rep.disagree(Kind::ImplVsSpec, "deploy-isolation", "deploy-isolation: a workspace operation panics with a loaded text stored next to a valid model", &input, "panic", "42"),
      Ok(Err((sig, got, want))) => rep.disagree(Kind::ImplVsSpec, "deploy-isolation", &sig, &input, &got, &want),
      Ok(Ok(())) => {}
    }
  }
}
