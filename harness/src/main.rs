//! vharness — runs the implementation (linked from /repo's working tree) and the Lean
//! model (the compiled driver) on the same inputs and reports where they differ, and
//! where the implementation's own answers break a law of the property.

mod model;
mod report;
mod rng;
mod sexp;

mod c16;
mod c17;

pub struct Cfg {
  pub property: String,
  pub tier: String,
  pub seed: u64,
  pub driver: String,
  pub report: String,
  pub replay: Option<String>,
  pub extra: Vec<String>,
}

fn main() {
  let args: Vec<String> = std::env::args().collect();
  if args.len() < 2 {
    eprintln!("usage: vharness <property> [--tier quick|thorough] [--seed N] --driver PATH --report PATH [--replay FILE]");
    std::process::exit(2);
  }
  let mut cfg = Cfg {
    property: args[1].clone(),
    tier: "quick".into(),
    seed: 1,
    driver: "/verif/lean/.lake/build/bin/dmn_driver".into(),
    report: String::new(),
    replay: None,
    extra: vec![],
  };
  let mut i = 2;
  while i < args.len() {
    match args[i].as_str() {
      "--tier" => {
        cfg.tier = args[i + 1].clone();
        i += 2;
      }
      "--seed" => {
        cfg.seed = args[i + 1].parse().expect("seed");
        i += 2;
      }
      "--driver" => {
        cfg.driver = args[i + 1].clone();
        i += 2;
      }
      "--report" => {
        cfg.report = args[i + 1].clone();
        i += 2;
      }
      "--replay" => {
        cfg.replay = Some(args[i + 1].clone());
        i += 2;
      }
      other => {
        cfg.extra.push(other.to_string());
        i += 1;
      }
    }
  }
  // panics inside the implementation are observations, not crashes of the harness
  std::panic::set_hook(Box::new(|_| {}));
  let rep = match cfg.property.as_str() {
    "C16" => c16::run(&cfg),
    "C17" => c17::run(&cfg),
    p => {
      eprintln!("unknown property {}", p);
      std::process::exit(2);
    }
  };
  let text = serde_json::to_string_pretty(&rep.to_json()).unwrap();
  if cfg.report.is_empty() {
    println!("{}", text);
  } else {
    std::fs::write(&cfg.report, text).expect("write report");
  }
}
