//! vharness — runs the implementation (linked from /repo's working tree) and the Lean
//! model (the compiled driver) on the same inputs and reports where they differ, and
//! where the implementation's own answers break a law of the property.

pub mod model;
pub mod report;
pub mod rng;
pub mod sexp;
pub mod util;
pub mod vals;

mod c01;
mod c02;
mod c03;
mod c04;
mod c05;
mod c06;
mod c07;
mod c08;
mod c09;
mod c10;
mod c11;
mod c12;
mod c13;
mod c14;
mod c15;
mod c16;
mod c17;
mod c18;
mod c19;
mod c20;

pub struct Cfg {
  pub property: String,
  pub tier: String,
  pub seed: u64,
  pub driver: String,
  pub report: String,
  pub replay: Option<String>,
  pub extra: Vec<String>,
}

fn main() {
  let args: Vec<String> = std::env::args().collect();
  if args.len() < 2 {
    eprintln!("usage: vharness <property> [--tier quick|thorough] [--seed N] --driver PATH --report PATH [--replay FILE]");
    std::process::exit(2);
  }
  if args[1] == "feel" {
    // probe: one FEEL expression per stdin line, evaluated in an empty scope; prints `<text> => <value>`
    std::panic::set_hook(Box::new(|_| {}));
    let mut input = String::new();
    use std::io::Read;
    let _ = std::io::stdin().read_to_string(&mut input);
    for line in input.lines().filter(|l| !l.trim().is_empty()) {
      let r = std::panic::catch_unwind(|| {
        // `<context literal> ;; <expression>`: the expression is evaluated in the scope made of that context
        let (scope, line) = match line.split_once(" ;; ") {
          Some((ctx, rest)) => {
            let empty = dmntk_feel::Scope::default();
            let node = dmntk_feel_parser::parse_expression(&empty, ctx, false).expect("scope text");
            match dmntk_feel_evaluator::evaluate(&empty, &node) {
              Ok(dmntk_feel::values::Value::Context(c)) => (dmntk_feel::Scope::from(c), rest),
              other => panic!("scope is not a context: {:?}", other),
            }
          }
          None => (dmntk_feel::Scope::default(), line),
        };
        match dmntk_feel_parser::parse_expression(&scope, line, false) {
          Err(e) => format!("PARSE-ERROR {}", e),
          Ok(node) => match dmntk_feel_evaluator::evaluate(&scope, &node) {
            Ok(v) => format!("{:?}", v),
            Err(e) => format!("EVAL-ERROR {}", e),
          },
        }
      });
      println!("{} => {}", line, r.unwrap_or_else(|_| "PANIC".to_string()));
    }
    return;
  }
  if args[1] == "child" {
    // a case that may abort the process runs here, in a child of the harness
    std::panic::set_hook(Box::new(|_| {}));
    let rest: Vec<String> = args[2..].to_vec();
    let code = child_main(&rest);
    std::process::exit(code);
  }
  let mut cfg = Cfg {
    property: args[1].clone(),
    tier: "quick".into(),
    seed: 1,
    driver: "/verif/lean/.lake/build/bin/dmn_driver".into(),
    report: String::new(),
    replay: None,
    extra: vec![],
  };
  let mut i = 2;
  while i < args.len() {
    match args[i].as_str() {
      "--tier" => {
        cfg.tier = args[i + 1].clone();
        i += 2;
      }
      "--seed" => {
        cfg.seed = args[i + 1].parse().expect("seed");
        i += 2;
      }
      "--driver" => {
        cfg.driver = args[i + 1].clone();
        i += 2;
      }
      "--report" => {
        cfg.report = args[i + 1].clone();
        i += 2;
      }
      "--replay" => {
        cfg.replay = Some(args[i + 1].clone());
        i += 2;
      }
      other => {
        cfg.extra.push(other.to_string());
        i += 1;
      }
    }
  }
  // panics inside the implementation are observations, not crashes of the harness
  // (VHARNESS_PANICS=1 keeps the default hook, for debugging the harness itself)
  if std::env::var("VHARNESS_PANICS").is_err() {
    std::panic::set_hook(Box::new(|info| util::note_panic(info.to_string())));
  }
  // a call of the implementation that does not return within the limit ends the run with exit code 97
  // (`check` reports it as a violation, with the last input noted); the limit is far above any silent
  // stretch of a run on the unchanged tree
  let limit = std::env::var("VHARNESS_HANG_S").ok().and_then(|s| s.parse().ok()).unwrap_or(if cfg.tier == "thorough" { 7200 } else { 1200 });
  util::start_watchdog(limit);
  let rep = match std::panic::catch_unwind(std::panic::AssertUnwindSafe(|| run_property(&cfg))) {
    Ok(rep) => rep,
    Err(_) => {
      // the harness itself gave up: an assumption about the implementation that always holds on the
      // unchanged tree (a fixture builds, the base scope evaluates, the model driver answers) failed
      eprintln!("HARNESS-PANIC {}", util::last_panic());
      std::process::exit(98);
    }
  };
  let text = serde_json::to_string_pretty(&rep.to_json()).unwrap();
  if cfg.report.is_empty() {
    println!("{}", text);
  } else {
    std::fs::write(&cfg.report, text).expect("write report");
  }
}

fn run_property(cfg: &Cfg) -> report::Report {
  let cfg = cfg;
  match cfg.property.as_str() {
    "C01" => c01::run(&cfg),
    "C02" => c02::run(&cfg),
    "C03" => c03::run(&cfg),
    "C04" => c04::run(&cfg),
    "C05" => c05::run(&cfg),
    "C06" => c06::run(&cfg),
    "C07" => c07::run(&cfg),
    "C08" => c08::run(&cfg),
    "C09" => c09::run(&cfg),
    "C10" => c10::run(&cfg),
    "C11" => c11::run(&cfg),
    "C12" => c12::run(&cfg),
    "C13" => c13::run(&cfg),
    "C14" => c14::run(&cfg),
    "C15" => c15::run(&cfg),
    "C16" => c16::run(&cfg),
    "C17" => c17::run(&cfg),
    "C18" => c18::run(&cfg),
    "C19" => c19::run(&cfg),
    "C20" => c20::run(&cfg),
    p => {
      eprintln!("unknown property {}", p);
      std::process::exit(2);
    }
  }
}

/// `vharness child <family> <args…>`: reads its case from stdin, prints the observation.
fn child_main(args: &[String]) -> i32 {
  let mut input = String::new();
  use std::io::Read;
  let _ = std::io::stdin().read_to_string(&mut input);
  match args.first().map(|s| s.as_str()) {
    // C18: the HTTP service from the working tree on 127.0.0.1:<port>, until killed
    Some("c18-server") => c18::server_child(&args[1..], &input),
    // C05: a batch of parse / evaluate cases that may abort the process
    Some("c05") => c05::child(&args[1..], &input),
    // C12: a batch of model-loading cases that may abort the process
    Some("c12") => c12::child(args, &input),
    // C01: the recursive cases of family `crossargs` (a wrong argument value can make a recursion endless)
    Some("c01") => c01::crossargs::child(&args[1..], &input),
    // C17: one model text; prints whether it builds (`ok`), fails to build (`err`) or panics (`panic`)
    Some("c17-build") => c17::build_child(&input),
    _ => {
      eprintln!("unknown child family");
      2
    }
  }
}
