//! The Lean driver as a child process: one request line in, one answer line out.

use std::io::{BufRead, BufReader, Write};
use std::process::{Child, ChildStdin, ChildStdout, Command, Stdio};

pub struct Model {
  child: Child,
  stdin: ChildStdin,
  stdout: BufReader<ChildStdout>,
  pub requests: u64,
}

impl Model {
  pub fn start(driver: &str) -> Model {
    let mut child = Command::new(driver)
      .stdin(Stdio::piped())
      .stdout(Stdio::piped())
      .spawn()
      .unwrap_or_else(|e| panic!("cannot start the Lean driver {}: {}", driver, e));
    let stdin = child.stdin.take().unwrap();
    let stdout = BufReader::new(child.stdout.take().unwrap());
    Model { child, stdin, stdout, requests: 0 }
  }
  /// Sends all requests, then reads all answers (the driver flushes per line; the
  /// writer runs in its own thread so that neither pipe can fill up).
  pub fn ask_batch(&mut self, reqs: &[String]) -> Vec<String> {
    let mut answers = Vec::with_capacity(reqs.len());
    // Chunks of at most 8 KiB of request text: a chunk always fits into the pipe, so the
    // harness never blocks on writing while the driver blocks on writing its answers.
    let mut i = 0;
    while i < reqs.len() {
      let mut buf = String::new();
      let mut n = 0;
      while i + n < reqs.len() && (n == 0 || buf.len() + reqs[i + n].len() < 8192) {
        debug_assert!(!reqs[i + n].contains('\n'));
        buf.push_str(&reqs[i + n]);
        buf.push('\n');
        n += 1;
      }
      self.stdin.write_all(buf.as_bytes()).expect("driver stdin");
      self.stdin.flush().expect("driver flush");
      for _ in 0..n {
        let mut line = String::new();
        let k = self.stdout.read_line(&mut line).expect("driver stdout");
        if k == 0 {
          panic!("the Lean driver ended unexpectedly");
        }
        crate::util::beat();
        answers.push(line.trim_end().to_string());
      }
      i += n;
    }
    self.requests += reqs.len() as u64;
    answers
  }
  pub fn ask(&mut self, req: &str) -> String {
    self.ask_batch(&[req.to_string()]).pop().unwrap()
  }
}

impl Drop for Model {
  fn drop(&mut self) {
    let _ = self.child.kill();
    let _ = self.child.wait();
  }
}
