//! Family `dt-overlap` (C13, "evaluating … the same model repeatedly, in any order and interleaved with other
//! evaluations, returns the same value for the same inputs"): decision tables whose rules OVERLAP, for every hit
//! policy, built once (`ModelEvaluator::new`, `build_decision_table_evaluator`) and evaluated over histories in which
//! an input of the overlap region comes before and after inputs that one rule matches alone — overlap, alone, alone,
//! alone, overlap; alone first; three-way overlaps.  State kept between evaluations of a table (the rule that matched
//! last, a "hot rule", a cached verdict that the table is consistent) shows as an answer that depends on the history.
//!
//! Every answer is judged by the law itself (the same input earlier in the history: the same answer), by a freshly
//! built evaluator, and — for the single-hit policies, whose meaning over the matching rules is unambiguous — by the
//! value written out from the rules: UNIQUE: the output of the only matching rule, null when several match; ANY: the
//! common output of the matching rules, null when they differ; FIRST: the first matching rule; PRIORITY: the matching
//! rule whose output comes first in the list of output values.  Which rules match is computed here from the numbers.

use super::{xe, MHEAD};
use crate::report::{Kind, Report};
use crate::util::guarded;
use crate::vals::value_sexp;
use crate::Cfg;
use dmntk_feel::context::FeelContext;
use dmntk_feel::values::Value;
use dmntk_feel::{Name, Scope};
use serde_json::json;
use std::collections::BTreeMap;

struct Rule {
  entry: &'static str,
  matches: fn(i64) -> bool,
  text_out: &'static str,
  num_out: i64,
}

fn rules() -> Vec<Rule> {
  vec![
    Rule { entry: "< 30", matches: |a| a < 30, text_out: "young", num_out: 1 },
    Rule { entry: ">= 18", matches: |a| a >= 18, text_out: "adult", num_out: 2 },
    Rule { entry: "[25..35]", matches: |a| (25..=35).contains(&a), text_out: "mid", num_out: 4 },
  ]
}

struct Table {
  label: String,
  xml: String,
  /// the written-out answer for an input, when the policy is a single-hit one
  expected: Option<Box<dyn Fn(i64) -> Value>>,
}

fn table_xml(policy: &str, aggregation: Option<&str>, n_rules: usize, outputs: &[String], output_values: Option<&str>) -> String {
  let mut x = String::from(MHEAD);
  x.push_str("<inputData name=\"Age\" id=\"_age\"><variable name=\"Age\" typeRef=\"number\"/></inputData>");
  x.push_str("<decision name=\"D\" id=\"_d\"><variable name=\"D\"/><informationRequirement id=\"_d_age\"><requiredInput href=\"#_age\"/></informationRequirement>");
  x.push_str(&format!("<decisionTable hitPolicy=\"{}\"{}>", policy, aggregation.map(|a| format!(" aggregation=\"{}\"", a)).unwrap_or_default()));
  x.push_str("<input><inputExpression><text>Age</text></inputExpression></input>");
  match output_values {
    Some(v) => x.push_str(&format!("<output><outputValues><text>{}</text></outputValues></output>", xe(v))),
    None => x.push_str("<output/>"),
  }
  for (i, r) in rules().iter().take(n_rules).enumerate() {
    x.push_str(&format!("<rule><inputEntry><text>{}</text></inputEntry><outputEntry><text>{}</text></outputEntry></rule>", xe(r.entry), xe(&outputs[i])));
  }
  x.push_str("</decisionTable></decision></definitions>");
  x
}

fn tables() -> Vec<Table> {
  let mut out = vec![];
  let s = |t: &str| Value::String(t.to_string());
  for n_rules in [2usize, 3] {
    let texts: Vec<String> = rules().iter().map(|r| format!("\"{}\"", r.text_out)).collect();
    let same: Vec<String> = rules().iter().map(|_| "\"x\"".to_string()).collect();
    let nums: Vec<String> = rules().iter().map(|r| r.num_out.to_string()).collect();
    let matching = move |a: i64| -> Vec<usize> { rules().iter().take(n_rules).enumerate().filter(|(_, r)| (r.matches)(a)).map(|(i, _)| i).collect() };
    // UNIQUE
    out.push(Table {
      label: format!("UNIQUE, {} overlapping rules", n_rules),
      xml: table_xml("UNIQUE", None, n_rules, &texts, None),
      expected: Some(Box::new(move |a| {
        let m = matching(a);
        if m.len() == 1 {
          s(rules()[m[0]].text_out)
        } else {
          Value::Null(None)
        }
      })),
    });
    // ANY, different outputs
    out.push(Table {
      label: format!("ANY, {} overlapping rules with different outputs", n_rules),
      xml: table_xml("ANY", None, n_rules, &texts, None),
      expected: Some(Box::new(move |a| {
        let m = matching(a);
        if m.len() == 1 {
          s(rules()[m[0]].text_out)
        } else {
          Value::Null(None)
        }
      })),
    });
    // ANY, equal outputs
    out.push(Table {
      label: format!("ANY, {} overlapping rules with equal outputs", n_rules),
      xml: table_xml("ANY", None, n_rules, &same, None),
      expected: Some(Box::new(move |a| if matching(a).is_empty() { Value::Null(None) } else { s("x") })),
    });
    // FIRST
    out.push(Table {
      label: format!("FIRST, {} overlapping rules", n_rules),
      xml: table_xml("FIRST", None, n_rules, &texts, None),
      expected: Some(Box::new(move |a| matching(a).first().map(|i| s(rules()[*i].text_out)).unwrap_or(Value::Null(None)))),
    });
    // PRIORITY: the order of the output values decides
    let order = ["mid", "adult", "young"];
    out.push(Table {
      label: format!("PRIORITY, {} overlapping rules", n_rules),
      xml: table_xml("PRIORITY", None, n_rules, &texts, Some("\"mid\", \"adult\", \"young\"")),
      expected: Some(Box::new(move |a| {
        let m = matching(a);
        order.iter().find(|o| m.iter().any(|i| rules()[*i].text_out == **o)).map(|o| s(o)).unwrap_or(Value::Null(None))
      })),
    });
    // the multiple-hit policies: judged by the law and by a fresh evaluator
    out.push(Table { label: format!("RULE ORDER, {} overlapping rules", n_rules), xml: table_xml("RULE ORDER", None, n_rules, &texts, None), expected: None });
    out.push(Table { label: format!("OUTPUT ORDER, {} overlapping rules", n_rules), xml: table_xml("OUTPUT ORDER", None, n_rules, &texts, Some("\"mid\", \"adult\", \"young\"")), expected: None });
    out.push(Table { label: format!("COLLECT, {} overlapping rules", n_rules), xml: table_xml("COLLECT", None, n_rules, &nums, None), expected: None });
    for agg in ["SUM", "MIN", "MAX", "COUNT"] {
      out.push(Table { label: format!("COLLECT {}, {} overlapping rules", agg, n_rules), xml: table_xml("COLLECT", Some(agg), n_rules, &nums, None), expected: None });
    }
  }
  out
}

fn histories() -> Vec<Vec<i64>> {
  vec![
    // the demonstration of the seeded change C13-19: overlap, alone (rule 2), alone (rule 1), alone (rule 2), overlap
    vec![20, 40, 10, 40, 20],
    // alone first
    vec![40, 20, 10, 20, 40],
    vec![10, 20, 40, 20, 10],
    // the three-way overlap between the two-way ones
    vec![27, 40, 27, 10, 27, 32, 20, 32, 27],
    vec![32, 40, 32, 20, 10, 20, 27, 32],
    // every input twice in a row
    vec![10, 10, 20, 20, 40, 40, 27, 27, 20, 10],
  ]
}

fn canon(v: &Value) -> String {
  value_sexp(v).map(|s| s.to_string()).unwrap_or_else(|| v.to_string())
}

pub fn dt_overlap_family(_cfg: &Cfg, rep: &mut Report) {
  use dmntk_model_evaluator::ModelEvaluator;
  let mut calls = 0u64;
  let mut judged_tables = 0u64;
  for t in tables() {
    crate::util::note_case(&t.xml);
    let defs = match guarded(|| dmntk_model::parse(&t.xml)) {
      Ok(Ok(d)) => d,
      _ => {
        rep.disagree(Kind::ImplVsSpec, "dt-overlap", "a decision table with overlapping rules is rejected by the model parser", &t.xml, "error", "a model");
        continue;
      }
    };
    let build = || match guarded(|| ModelEvaluator::new(&defs)) {
      Ok(Ok(me)) => Some(me),
      _ => None,
    };
    if build().is_none() {
      // a hit policy / aggregation the builder does not take in this spelling: counted, not judged
      rep.hit(&format!("dt-overlap:not-judged(the builder rejects the table): {}", t.label));
      continue;
    }
    judged_tables += 1;
    let ctx_of = |age: i64| {
      let mut c = FeelContext::default();
      c.set_entry(&Name::from("Age"), Value::Number(age.into()));
      c
    };
    let dt = defs.decisions().iter().find_map(|d| match d.decision_logic() {
      Some(dmntk_model::model::ExpressionInstance::DecisionTable(dt)) => Some(dt.clone()),
      _ => None,
    });
    for (hi, history) in histories().iter().enumerate() {
      // route 0: the model evaluator; route 1: the table prepared through build_decision_table_evaluator
      for route in 0..2 {
        let shared_me = build();
        let shared_ev = match (&dt, route) {
          (Some(dt), 1) => {
            let scope: Scope = ctx_of(history[0]).into();
            match guarded(|| dmntk_model_evaluator::build_decision_table_evaluator(&scope, dt)) {
              Ok(Ok(ev)) => Some(ev),
              _ => None,
            }
          }
          _ => None,
        };
        if route == 1 && shared_ev.is_none() {
          continue;
        }
        let eval_shared = |age: i64| -> String {
          let ctx = ctx_of(age);
          if route == 0 {
            match guarded(|| shared_me.as_ref().unwrap().evaluate_invocable("D", &ctx)) {
              Ok(v) => canon(&v),
              Err(p) => format!("(panic {})", p.chars().take(80).collect::<String>()),
            }
          } else {
            let scope: Scope = ctx.into();
            match guarded(|| shared_ev.as_ref().unwrap()(&scope)) {
              Ok(v) => canon(&v),
              Err(p) => format!("(panic {})", p.chars().take(80).collect::<String>()),
            }
          }
        };
        let eval_fresh = |age: i64| -> Option<String> {
          let ctx = ctx_of(age);
          if route == 0 {
            let me = build()?;
            guarded(|| me.evaluate_invocable("D", &ctx)).ok().map(|v| canon(&v))
          } else {
            let scope: Scope = ctx.into();
            let ev = guarded(|| dmntk_model_evaluator::build_decision_table_evaluator(&scope, dt.as_ref()?).ok()).ok()??;
            guarded(|| ev(&scope)).ok().map(|v| canon(&v))
          }
        };
        let via = if route == 0 { "ModelEvaluator::evaluate_invocable" } else { "build_decision_table_evaluator" };
        let mut seen: BTreeMap<i64, String> = BTreeMap::new();
        let mut reported = false;
        for (k, &age) in history.iter().enumerate() {
          let got = eval_shared(age);
          calls += 1;
          rep.evaluations += 1;
          rep.case(&format!("dt-overlap|{}|{}|{}|{}", t.label, route, hi, k), k > 0);
          rep.hit(&format!("dt-overlap:{}; {}", t.label, via));
          if reported {
            continue;
          }
          let shown = || format!("{} ;; {} ;; ONE evaluator ({}), Age in this order: {:?}", t.label, t.xml, via, &history[..=k]);
          if let Some(prev) = seen.get(&age) {
            if *prev != got {
              reported = true;
              rep.disagree(Kind::ImplVsSpec, "dt-overlap", "a decision table with overlapping rules answers the same input differently after other inputs have been evaluated", &shown(), &got, prev);
              continue;
            }
          }
          seen.entry(age).or_insert_with(|| got.clone());
          if let Some(f) = eval_fresh(age) {
            if f != got {
              reported = true;
              rep.disagree(Kind::ImplVsSpec, "dt-overlap", "a decision table with overlapping rules answers differently on an evaluator with a history than on a freshly built one", &shown(), &got, &f);
              continue;
            }
          }
          if let Some(e) = &t.expected {
            let want = canon(&e(age));
            if want != got {
              reported = true;
              rep.disagree(Kind::ImplVsSpec, "dt-overlap", "a decision table with overlapping rules does not answer what its hit policy prescribes for the matching rules", &shown(), &got, &want);
            }
          }
        }
      }
    }
  }
  rep.extra.insert("dt_overlap".into(), json!({"tables": judged_tables, "histories": histories().len(), "evaluations_on_shared_evaluators": calls}));
}
