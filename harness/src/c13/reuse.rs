//! Family `reuse` (C13, second clause): ONE prepared evaluator (`dmntk_feel_evaluator::prepare`) evaluated over a
//! sequence of scopes A, B, A, C, B that bind the names of the expression differently — bound / unbound, bound to a
//! number / a string / a list / a context / a list of contexts / a date / a range / a function value / another
//! function value, in the top / in the bottom context.  A prepared evaluator is a pure function of (tree, scope):
//! state kept inside it between calls (a name resolved once, a callee remembered, the kind of an operand pinned, a
//! compiled path or filter specialised to the first value met) shows as an answer that depends on the history.
//!
//! Every answer is judged four ways:
//! 1. the law of the property itself — the same evaluator, the same scope, an earlier position of the sequence: the
//!    same value;
//! 2. the answer of an evaluator prepared afresh from the same tree and evaluated only in this scope;
//! 3. the Lean model of the evaluator (`(c01 eval …)` / `(c01 evalin …)`, a function of tree and scope by construction);
//! 4. where the expectation can be written out (the `builtin` part: the bound function is
//!    `function (p, q) 1000 + p * 10 + q` or `function (p, q) 2000 + p + q`, a value that is no function makes the
//!    invocation null, the bare name is the bound value), the written-out value.
//!
//! Two parts.  `builtin`: for EVERY name of the table of built-in functions regenerated from feel/src/bif.rs, the
//! name invoked by position, by name, through a list, nested, and read as an operand, over sequences drawn from
//! {unbound, function F, function G, a number, bound underneath only}.  `kinds`: for every node kind that looks
//! something up or dispatches on the kind of an operand (names, qualified names in interval end points and unary
//! tests, invocations by position and by name, paths over contexts / lists of contexts / dates, filters with an
//! index / a predicate / over a scalar, type tests, in over list / range / scalar, for / some / every over list /
//! scalar / null, if, arithmetic over numbers / strings / dates and durations, comparison, between, context
//! literals, typed parameters) targeted texts plus texts of the typed generator of C01, each with the bindings of
//! the names it reads permuted over the value kinds.

use crate::c01::{base_scope, corpus, scope_sexp, Gen, Vars};
use crate::model::Model;
use crate::report::{Kind, Report};
use crate::rng::Rng;
use crate::sexp::Sexp;
use crate::util::guarded;
use crate::vals::{ast_sexp, value_sexp};
use crate::Cfg;
use dmntk_feel::context::FeelContext;
use dmntk_feel::values::Value;
use dmntk_feel::{AstNode, Name, Scope};
use serde_json::json;
use std::collections::BTreeMap;

const FUN_F: &str = "function (p, q) 1000 + p * 10 + q";
const FUN_G: &str = "function (p, q) 2000 + p + q";

/// A scope of the sequence: its contexts (bottom first) without the function-valued bindings, and those.
#[derive(Clone)]
struct RScope {
  label: String,
  ctxs: Vec<FeelContext>,
  funs: Vec<(usize, String, &'static str)>,
}

fn fun_value(text: &str) -> Option<(AstNode, Value)> {
  let empty = Scope::default();
  let node = guarded(|| dmntk_feel_parser::parse_expression(&empty, text, false)).ok()?.ok()?;
  let v = guarded(|| dmntk_feel_evaluator::evaluate(&empty, &node)).ok()?.ok()?;
  Some((node, v))
}

impl RScope {
  fn scope(&self) -> Scope {
    let mut full = self.ctxs.clone();
    for (i, n, t) in &self.funs {
      if let Some((_, v)) = fun_value(t) {
        full[*i].set_entry(&Name::from(n.as_str()), v);
      }
    }
    let s = Scope::new();
    for c in full {
      s.push(c);
    }
    s
  }
  fn request(&self, ast: &str, fuel: u32) -> Option<String> {
    if self.funs.is_empty() {
      Some(format!("(c01 eval {} {} {})", fuel, ast, scope_sexp(&self.ctxs)?))
    } else {
      let mut binds = vec![];
      for (i, n, t) in &self.funs {
        let (node, _) = fun_value(t)?;
        binds.push(format!("({} {} {})", i, Sexp::str(n), ast_sexp(&node)));
      }
      Some(format!("(c01 evalin {} {} {} ({}))", fuel, ast, scope_sexp(&self.ctxs)?, binds.join(" ")))
    }
  }
  fn show(&self) -> String {
    let mut parts: Vec<String> = self.ctxs.iter().map(|c| c.to_string()).collect();
    for (i, n, t) in &self.funs {
      parts.push(format!("{} = {} in context {}", n, t, i));
    }
    format!("{} = {}", self.label, parts.join(" / "))
  }
}

fn canon(v: &Value) -> String {
  match value_sexp(v) {
    Some(s) => s.to_string(),
    None => "(unencodable)".to_string(),
  }
}

struct Job {
  part: &'static str,
  /// what is varied (for the hit bucket and the signature)
  what: String,
  text: String,
  node: AstNode,
  ast: String,
  scopes: Vec<RScope>, // A, B, C
  order: Vec<usize>,
  /// written-out values per scope (None: not written out)
  expected: Vec<Option<Value>>,
  with_model: bool,
}

fn num(n: i64) -> Value {
  Value::Number(n.into())
}

fn run_jobs(rep: &mut Report, model: &mut Model, jobs: Vec<Job>) -> (u64, u64) {
  // the model's answers for every (job, scope)
  let mut reqs: Vec<String> = vec![];
  let mut req_at: Vec<Vec<Option<usize>>> = vec![];
  for j in &jobs {
    let mut at = vec![];
    for s in &j.scopes {
      match (j.with_model, s.request(&j.ast, 10)) {
        (true, Some(r)) => {
          at.push(Some(reqs.len()));
          reqs.push(r);
        }
        _ => at.push(None),
      }
    }
    req_at.push(at);
  }
  let answers = model.ask_batch(&reqs);
  let mut evaluations = 0u64;
  let mut scope_sensitive = 0u64;
  for (ji, j) in jobs.iter().enumerate() {
    crate::util::note_case(&j.text);
    let shared = match guarded(|| dmntk_feel_evaluator::prepare(&j.node)) {
      Ok(Ok(ev)) => ev,
      _ => {
        rep.hit("reuse:not-judged(the tree is rejected by the builder)");
        continue;
      }
    };
    let built: Vec<Scope> = j.scopes.iter().map(|s| s.scope()).collect();
    let mut seen: BTreeMap<usize, String> = BTreeMap::new();
    let mut reported = false;
    let mut distinct: Vec<String> = vec![];
    for (k, &si) in j.order.iter().enumerate() {
      let scope = &built[si];
      let before = scope.to_string();
      let got = match guarded(|| shared(scope)) {
        Ok(v) => canon(&v),
        Err(p) => format!("(panic {})", p.chars().take(80).collect::<String>()),
      };
      let after = scope.to_string();
      evaluations += 1;
      rep.evaluations += 1;
      rep.case(&format!("reuse|{}|{}|{}", j.text, j.scopes[si].show(), k), k > 0);
      if !distinct.contains(&got) {
        distinct.push(got.clone());
      }
      let history = || j.order[..=k].iter().map(|&i| j.scopes[i].show()).collect::<Vec<_>>().join(" ; then ");
      let shown = || format!("{} ;; ONE prepared evaluator, scopes in this order: {}", j.text, history());
      if after != before {
        rep.disagree(Kind::ImplVsSpec, "reuse", "evaluating a prepared expression changed the caller's scope", &shown(), &after, &before);
      }
      if reported {
        continue;
      }
      // 1. the law: the same scope earlier in the sequence
      if let Some(prev) = seen.get(&si) {
        if *prev != got {
          reported = true;
          rep.disagree(
            Kind::ImplVsSpec,
            "reuse",
            &format!("a prepared expression evaluated again in the same scope, after evaluations in other scopes, gives another value ({}: {})", j.part, j.what),
            &shown(),
            &got,
            prev,
          );
          continue;
        }
      }
      seen.entry(si).or_insert_with(|| got.clone());
      // 2. an evaluator prepared afresh
      let fresh = match guarded(|| dmntk_feel_evaluator::prepare(&j.node)) {
        Ok(Ok(ev)) => match guarded(|| ev(&j.scopes[si].scope())) {
          Ok(v) => canon(&v),
          Err(p) => format!("(panic {})", p.chars().take(80).collect::<String>()),
        },
        _ => continue,
      };
      if fresh != got {
        reported = true;
        rep.disagree(
          Kind::ImplVsSpec,
          "reuse",
          &format!("a prepared expression that has been evaluated in other scopes before answers differently than an evaluator prepared afresh from the same tree ({}: {})", j.part, j.what),
          &shown(),
          &got,
          &fresh,
        );
        continue;
      }
      // 4. the written-out value
      if let Some(Some(w)) = j.expected.get(si) {
        let want = canon(w);
        if want != got {
          reported = true;
          rep.disagree(
            Kind::ImplVsSpec,
            "reuse",
            &format!("a prepared expression does not have the value the bindings of the scope it is evaluated in give it ({}: {})", j.part, j.what),
            &shown(),
            &got,
            &want,
          );
          continue;
        }
      }
      // 3. the model
      if let Some(ri) = req_at[ji][si] {
        let both = &answers[ri];
        let ans = match Sexp::parse(both).as_ref().and_then(|x| x.as_list()) {
          Some([m, ..]) => m.to_string(),
          _ => both.clone(),
        };
        if ans == "(unsupported)" || ans == "(builderror)" {
          rep.hit("reuse:model-skipped(unsupported)");
        } else if ans != format!("(ok {} same)", got) {
          reported = true;
          let sig = if ans.starts_with("(error") { "driver-error".to_string() } else { format!("evaluation differs from model (reuse, {})", j.part) };
          rep.disagree(Kind::ImplVsModel, "reuse", &sig, &shown(), &format!("(ok {} same)", got), &ans);
        }
      }
    }
    if distinct.len() > 1 {
      scope_sensitive += 1;
    }
    rep.hit(&format!("reuse:{}: {}; {} distinct value(s) over the sequence", j.part, j.what, if distinct.len() >= 3 { "3+".to_string() } else { distinct.len().to_string() }));
  }
  (evaluations, scope_sensitive)
}

fn ctx_of(entries: &[(&str, Value)]) -> FeelContext {
  let mut c = FeelContext::default();
  for (k, v) in entries {
    c.set_entry(&Name::from(*k), v.clone());
  }
  c
}

fn parse_in(scope: &RScope, text: &str) -> Option<AstNode> {
  let s = scope.scope();
  let before = s.to_string();
  let r = guarded(|| dmntk_feel_parser::parse_expression(&s, text, false)).ok()?.ok();
  if s.to_string() != before {
    return None;
  }
  r
}

// ---------------------------------------------------------------------------------------------------------------
// part `builtin`
// ---------------------------------------------------------------------------------------------------------------

fn builtin_jobs(names: &[String], rng: &mut Rng, thorough: bool) -> (Vec<Job>, u64) {
  let mut jobs = vec![];
  let mut unparsable = 0u64;
  let others = || ctx_of(&[("n1", num(2)), ("w1", Value::String("a".into()))]);
  for nm in names {
    let p = rng.range(0, 9);
    let q = rng.range(0, 9);
    // how the name is bound: label, scope, value of an invocation (p, q) / of the bare name when written out
    let unbound = RScope { label: format!("{} unbound", nm), ctxs: vec![others(), ctx_of(&[("n2", num(10))])], funs: vec![] };
    let f_top = RScope { label: format!("{} = F (top context)", nm), ctxs: vec![others(), ctx_of(&[("n2", num(10))])], funs: vec![(1, nm.clone(), FUN_F)] };
    let g_bottom = RScope { label: format!("{} = G (bottom context)", nm), ctxs: vec![others(), ctx_of(&[("n2", num(10))])], funs: vec![(0, nm.clone(), FUN_G)] };
    let number = RScope { label: format!("{} = 7", nm), ctxs: vec![others(), ctx_of(&[("n2", num(10)), (nm.as_str(), num(7))])], funs: vec![] };
    let f_over_number = RScope { label: format!("{} = F above a number", nm), ctxs: vec![ctx_of(&[("n1", num(2)), (nm.as_str(), num(7))]), ctx_of(&[("n2", num(10))])], funs: vec![(1, nm.clone(), FUN_F)] };
    let one_context = RScope { label: format!("{} unbound, one context", nm), ctxs: vec![others()], funs: vec![] };
    let pool: Vec<(RScope, char)> = vec![(unbound, 'U'), (f_top, 'F'), (g_bottom, 'G'), (number, 'N'), (f_over_number, 'F'), (one_context, 'U')];
    let e_f = 1000 + p * 10 + q;
    let e_g = 2000 + p + q;
    // the uses: text, value under F, value under G, value under N (None: not written out)
    let uses: Vec<(&'static str, String, Option<Value>, Option<Value>, Option<Value>)> = vec![
      ("invoked by position", format!("{}({}, {})", nm, p, q), Some(num(e_f)), Some(num(e_g)), Some(Value::Null(None))),
      ("invoked by name", format!("{}(q: {}, p: {})", nm, q, p), Some(num(e_f)), Some(num(e_g)), Some(Value::Null(None))),
      ("invoked through a list", format!("[{}][1]({}, {})", nm, p, q), Some(num(e_f)), Some(num(e_g)), Some(Value::Null(None))),
      ("invoked twice in a list", format!("[{}({}, {}), {}({}, {})]", nm, q, p, nm, p, q), None, None, None),
      ("invoked in a for body", format!("for w9 in [1, 2] return {}(w9, {})", nm, q), None, None, None),
      ("invoked in a function body", format!("(function (w9) {}(w9, {}))({})", nm, q, p), Some(num(e_f)), Some(num(e_g)), Some(Value::Null(None))),
      ("invoked in a context entry", format!("{{r: {}({}, {})}}.r", nm, p, q), Some(num(e_f)), Some(num(e_g)), Some(Value::Null(None))),
      ("read as an operand", format!("[{}, 1]", nm), None, None, Some(Value::List(dmntk_feel::values::Values::new(vec![num(7), num(1)])))),
      // for the name `number` itself the variable shadows the TYPE name after `instance of` (finding F74-type-name-shadowed
      // of C01, judged there by the family feelsem); C13 speaks about history only: no written-out value for that name
      if nm == "number" {
        ("tested with instance of", format!("{} instance of number", nm), None, None, None)
      } else {
        ("tested with instance of", format!("{} instance of number", nm), Some(Value::Boolean(false)), Some(Value::Boolean(false)), Some(Value::Boolean(true)))
      },
    ];
    let n_uses = if thorough { uses.len() } else { 5 };
    let first_use = rng.below(uses.len() as u64) as usize;
    for uk in 0..n_uses {
      // the first three uses always, the others in rotation
      let (form, text, vf, vg, vn) = uses[if uk < 3 { uk } else { (first_use + uk) % uses.len() }].clone();
      // the tree: parsed where the name is bound (the lexer knows a name of several words), else where it is not
      let node = match parse_in(&pool[1].0, &text).or_else(|| parse_in(&pool[0].0, &text)) {
        Some(n) => n,
        None => {
          unparsable += 1;
          continue;
        }
      };
      // sequences A B A C B over three different bindings; both "unbound first" and "bound first"
      let mut triples: Vec<[usize; 3]> = vec![[0, 1, 3], [1, 0, 2], [3, 5, 4], [2, 0, 1]];
      if !thorough {
        let keep = rng.below(2) as usize;
        triples = vec![triples[keep].clone(), triples[2 + rng.below(2) as usize].clone()];
      }
      for t in triples {
        let scopes: Vec<RScope> = t.iter().map(|&i| pool[i].0.clone()).collect();
        let expected: Vec<Option<Value>> = t
          .iter()
          .map(|&i| match pool[i].1 {
            'F' => vf.clone(),
            'G' => vg.clone(),
            'N' => vn.clone(),
            _ => None,
          })
          .collect();
        // the model of this check has stubs for the built-in functions: it judges the scopes that bind the name
        jobs.push(Job {
          part: "builtin",
          what: format!("a name of a built-in function {}", form),
          text: text.clone(),
          ast: ast_sexp(&node).to_string(),
          node: node.clone(),
          scopes,
          order: vec![0, 1, 0, 2, 1],
          expected,
          with_model: false,
        });
      }
    }
  }
  (jobs, unparsable)
}

// ---------------------------------------------------------------------------------------------------------------
// part `kinds`
// ---------------------------------------------------------------------------------------------------------------

/// Texts aimed at the node kinds that look a name up or dispatch on the kind of a value.
fn targeted() -> Vec<&'static str> {
  vec![
    // names, negation, lists, contexts
    "n1",
    "-n1",
    "[n1, s1]",
    "{a: n1, b: a + 1}",
    "{a: n1}.a",
    // qualified names: interval end points, unary tests
    "[c1.a..10]",
    "5 in [c1.a..n2]",
    "5 in (c1.a..n2)",
    "[n1..n2]",
    "4 in (< n2)",
    "4 in (>= n1, < n2)",
    "n1 in (n2, 3)",
    // paths
    "c1.a",
    "c1.b",
    "lc.a",
    "lk.k2",
    "d1.year",
    "c1.a + 1",
    "lk[3].k3.k4",
    // filters
    "l1[n1]",
    "l1[-1]",
    "l1[b1]",
    "l1[item > n1]",
    "lc[a > n1]",
    "lc[b = 2].a",
    "li[item = 1]",
    "n1[item > 1]",
    "c1[a = 5]",
    "l1[item > 1][1]",
    // type tests
    "n1 instance of number",
    "l1 instance of list<number>",
    "c1 instance of context<a: number>",
    "s1 instance of string",
    "nn instance of Null",
    // in
    "n1 in l1",
    "n1 in r1",
    "n1 in [1..5]",
    "n1 in n2",
    "3 in l1",
    // iteration
    "for x in l1 return x + n1",
    "for x in l1, y in l2 return [x, y]",
    "for x in n1..n2 return x",
    "for x in l1 return partial",
    "some x in l1 satisfies x > n1",
    "every x in l1 satisfies x > nz",
    "some x in l1, y in l2 satisfies x < y",
    // if, logic
    "if b1 then n1 else s1",
    "if n1 > 2 then l1 else l0",
    "b1 and n1 > 2",
    "b1 or nn",
    // arithmetic and comparison over kinds
    "n1 + n2",
    "n1 - n2",
    "n1 * n2",
    "n1 / n2",
    "s1 + s1",
    "d1 + ym1",
    "dt1 - dd1",
    "n1 < n2",
    "n1 = n2",
    "n1 != nn",
    "s1 < s1",
    "n1 between nz and n2",
    "l1 = l2",
    "c1 = c1",
    // functions
    "(function (x) x + n1)(1)",
    "(function (x: number) x)(n1)",
    "(function (x: list<number>) x)(n1)",
    "(function (a, b) a - b)(b: n1, a: n2)",
    "{f: function (x) x + n1, r: f(n2)}.r",
    "(function (n1) n1 + n2)(1)",
    "function (x) x + n1",
    // nested
    "for x in lc return x.a + n1",
    "lc[a > n1].b",
    "{a: n1, b: {a: a + 1}}.b.a",
    "[for x in l1 return x, n1][1]",
    "if n1 in l1 then c1.a else lc[1].a",
  ]
}

/// Values of other kinds a name can be rebound to.
fn other_values() -> Vec<(&'static str, Value)> {
  let empty = Scope::default();
  let ev = |t: &str| crate::c09::eval_text(&empty, t);
  vec![
    ("a number", ev("42")),
    ("a small number", ev("1")),
    ("a string", ev("\"zz\"")),
    ("a boolean", ev("false")),
    ("true", ev("true")),
    ("null", ev("null")),
    ("a list", ev("[7, 8, 9]")),
    ("the empty list", ev("[]")),
    ("a context", ev("{a: 9, b: {a: 1}}")),
    ("a list of contexts", ev("[{a: 5, b: 2}, {a: 0}]")),
    ("a date", ev("date(\"2020-02-29\")")),
    ("a duration", ev("duration(\"P1D\")")),
    ("a range", ev("[1..9]")),
  ]
}

fn kinds_jobs(rng: &mut Rng, vars: &Vars, thorough: bool) -> (Vec<Job>, u64) {
  let (_, _, base) = base_scope();
  let a = RScope { label: "A".into(), ctxs: base.clone(), funs: vec![] };
  let others = other_values();
  let mut texts: Vec<String> = targeted().iter().map(|s| s.to_string()).collect();
  texts.extend(corpus().iter().map(|s| s.to_string()));
  {
    let mut g = Gen { rng, fresh: 0 };
    let n = if thorough { 12_000 } else { 900 };
    let max_depth = if thorough { 5 } else { 3 };
    for i in 0..n {
      texts.push(g.any(1 + (i as u32 % max_depth), vars));
    }
  }
  let all_names: Vec<String> = {
    let mut v: Vec<String> = vec![];
    for c in &base {
      for (k, _) in c.get_entries() {
        if !v.contains(&k.to_string()) {
          v.push(k.to_string());
        }
      }
    }
    v
  };
  let mut jobs = vec![];
  let mut unparsable = 0u64;
  let n_targeted = targeted().len();
  for (ti, t) in texts.iter().enumerate() {
    let node = match parse_in(&a, t) {
      Some(n) => n,
      None => {
        unparsable += 1;
        continue;
      }
    };
    let ast = ast_sexp(&node).to_string();
    let occurring: Vec<&String> = all_names.iter().filter(|n| t.contains(n.as_str())).collect();
    if occurring.is_empty() {
      continue;
    }
    // B and C: the names that occur rebound / removed / moved; the targeted texts get several rounds
    let rounds = if ti < n_targeted { if thorough { 12 } else { 4 } } else { 1 };
    for _ in 0..rounds {
      let mut scopes = vec![a.clone()];
      let mut whats = vec![];
      for label in ["B", "C"] {
        let mut ctxs = base.clone();
        let mut funs: Vec<(usize, String, &'static str)> = vec![];
        let mut changed = false;
        let single = rng.chance(1, 2);
        let one = rng.below(occurring.len() as u64) as usize;
        for (k, n) in occurring.iter().enumerate() {
          if !(if single { k == one } else { rng.chance(2, 3) }) {
            continue;
          }
          changed = true;
          let name = Name::from(n.as_str());
          // where the visible binding is
          let at = if ctxs[1].get_entry(&name).is_some() { 1 } else { 0 };
          match rng.below(10) {
            0 | 1 => {
              // unbound
              for c in ctxs.iter_mut() {
                *c = {
                  let mut d = FeelContext::default();
                  for (k2, v2) in c.get_entries() {
                    if *k2 != name {
                      d.set_entry(k2, v2.clone());
                    }
                  }
                  d
                };
              }
              whats.push("unbound");
            }
            2 => {
              // a function value
              funs.push((at, n.to_string(), if rng.chance(1, 2) { FUN_F } else { FUN_G }));
              whats.push("a function value");
            }
            3 => {
              // the binding moves to the other context (and another value stays underneath / above)
              let v = ctxs[at].get_entry(&name).cloned().unwrap_or(Value::Null(None));
              ctxs[1 - at].set_entry(&name, v);
              if at == 1 {
                // now visible from the bottom only
                let mut d = FeelContext::default();
                for (k2, v2) in ctxs[1].get_entries() {
                  if *k2 != name {
                    d.set_entry(k2, v2.clone());
                  }
                }
                ctxs[1] = d;
              }
              whats.push("moved to the other context");
            }
            _ => {
              let (w, v) = rng.pick(&others).clone();
              ctxs[at].set_entry(&name, v);
              whats.push(w);
            }
          }
        }
        if !changed {
          let name = Name::from(occurring[one].as_str());
          let at = if ctxs[1].get_entry(&name).is_some() { 1 } else { 0 };
          ctxs[at].set_entry(&name, others[0].1.clone());
          whats.push("a number");
        }
        scopes.push(RScope { label: label.into(), ctxs, funs });
      }
      whats.sort();
      whats.dedup();
      let what = if ti < n_targeted { format!("targeted text; a name rebound to {}", whats.join(", ")) } else { format!("generated text; a name rebound to {}", whats.join(", ")) };
      let order = if rng.chance(1, 2) { vec![0, 1, 0, 2, 1] } else { vec![1, 0, 1, 2, 0] };
      jobs.push(Job { part: "kinds", what, text: t.clone(), node: node.clone(), ast: ast.clone(), scopes, order, expected: vec![None, None, None], with_model: true });
    }
  }
  (jobs, unparsable)
}

pub fn reuse_family(cfg: &Cfg, rep: &mut Report) {
  let thorough = cfg.tier == "thorough";
  let mut rng = Rng::new(cfg.seed ^ 0x5e05_e13);
  let mut model = Model::start(&cfg.driver);
  let names: Vec<String> = Sexp::parse(&model.ask("(c01 bifnames)"))
    .and_then(|x| {
      x.as_list().map(|l| {
        l.iter()
          .filter_map(|s| {
            let xs = s.as_list()?;
            let mut out = String::new();
            for c in &xs[1..] {
              out.push(char::from_u32(c.as_atom()?.parse::<u32>().ok()?)?);
            }
            Some(out)
          })
          .collect()
      })
    })
    .unwrap_or_default();
  if names.len() < 20 {
    rep.disagree(Kind::ImplVsModel, "reuse", "the table of built-in function names is unreadable", "(c01 bifnames)", &format!("{:?}", names), "the names Bif::from_str accepts");
    return;
  }
  let usable: Vec<String> = names.iter().filter(|n| n.as_str() != "not").cloned().collect();
  let (bj, bu) = builtin_jobs(&usable, &mut rng, thorough);
  let n_builtin = bj.len();
  let (e1, s1) = run_jobs(rep, &mut model, bj);
  let (_, vars, _) = base_scope();
  let (kj, ku) = kinds_jobs(&mut rng, &vars, thorough);
  let n_kinds = kj.len();
  let (e2, s2) = run_jobs(rep, &mut model, kj);
  rep.extra.insert(
    "reuse".into(),
    json!({
      "builtin_names": usable.len(), "builtin_sequences": n_builtin, "builtin_texts_the_parser_rejects": bu,
      "kinds_sequences": n_kinds, "kinds_texts_the_parser_rejects": ku,
      "evaluations_on_shared_evaluators": e1 + e2,
      "sequences_whose_answers_differ_between_the_scopes": s1 + s2,
    }),
  );
  rep.model_requests += model.requests;
}
