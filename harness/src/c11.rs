//! C11 — typed inputs and outputs: conforming values pass unchanged, others become null.
//!
//! Implementation: generated models — item definitions (simple types with/without allowed
//! values, referenced, component, collection-of each, depth ≤ 3), an input data `X` of the type
//! and a decision `D` that echoes `X` (so the decision result shows what reached the logic);
//! decisions `O` with a typed output variable whose logic is a literal value (output coercion);
//! every typeRef / components / isCollection combination (classification).  All through
//! `dmntk_model::parse → ModelEvaluator::new → evaluate_invocable`.
//! Model: `Dmn.ID.varCheck`, `Dmn.ID.coerceOutput`, `Dmn.ID.classify`; specification:
//! `Dmn.ID.Spec.varProject` (all through the driver).

use crate::c03::{value_sexp, xml_escape};
use crate::model::Model;
use crate::report::{Kind, Report};
use crate::rng::Rng;
use crate::sexp::Sexp;
use crate::util::guarded;
use crate::Cfg;
use dmntk_feel::context::FeelContext;
use dmntk_feel::values::Value;
use dmntk_feel::Scope;
use dmntk_model_evaluator::ModelEvaluator;
use serde_json::json;

const SIMPLE: [(&str, &str); 8] = [
  ("string", "string"),
  ("number", "number"),
  ("boolean", "boolean"),
  ("date", "date"),
  ("time", "time"),
  ("dateTime", "dateTime"),
  ("dtDur", "dayTimeDuration"),
  ("ymDur", "yearMonthDuration"),
];

/// Literals (FEEL text) of each simple type.
fn lits(t: usize) -> Vec<&'static str> {
  match t {
    0 => vec!["\"a\"", "\"b\"", "\"c\""],
    1 => vec!["1", "2", "3"],
    2 => vec!["true", "false"],
    3 => vec!["date(\"2020-01-01\")", "date(\"2020-01-02\")", "date(\"2021-06-30\")"],
    4 => vec!["time(\"10:00:00\")", "time(\"11:30:00\")", "time(\"23:59:59\")"],
    5 => vec!["date and time(\"2020-01-01T10:00:00\")", "date and time(\"2020-01-02T11:30:00\")", "date and time(\"2021-06-30T00:00:00\")"],
    6 => vec!["duration(\"P1D\")", "duration(\"PT2H\")", "duration(\"P3DT4H\")"],
    _ => vec!["duration(\"P1Y\")", "duration(\"P2M\")", "duration(\"P1Y6M\")"],
  }
}

#[derive(Clone, Debug)]
enum Av {
  None,
  /// the first `n` literals of the type
  Lits(usize, usize),
  Cmp(&'static str, i64),
}

#[derive(Clone, Debug)]
enum Item {
  Simple(usize, Av),
  Ref(String, Av),
  Comp(Vec<(String, Item)>, Av),
  CollSimple(usize, Av),
  CollRef(String, Av),
  CollComp(Vec<(String, Item)>, Av),
}

fn eval(text: &str) -> Value {
  let s = Scope::default();
  match dmntk_feel_parser::parse_expression(&s, text, false).ok().and_then(|n| dmntk_feel_evaluator::evaluate(&s, &n).ok()) {
    Some(v) => v,
    None => Value::Null(None),
  }
}

impl Av {
  fn sexp(&self) -> Sexp {
    match self {
      Av::None => Sexp::atom("none"),
      Av::Lits(t, n) => Sexp::tagged("lits", lits(*t).iter().take(*n).map(|l| value_sexp(&eval(l)).unwrap_or(Sexp::atom("null"))).collect()),
      Av::Cmp(op, n) => Sexp::tagged("cmp", vec![Sexp::atom(*op), Sexp::int(*n)]),
    }
  }
  fn xml(&self) -> String {
    let text = match self {
      Av::None => return String::new(),
      Av::Lits(t, n) => lits(*t).iter().take(*n).cloned().collect::<Vec<_>>().join(","),
      Av::Cmp(op, n) => format!(
        "{} {}",
        match *op {
          "lt" => "<",
          "le" => "<=",
          "gt" => ">",
          _ => ">=",
        },
        n
      ),
    };
    format!("<allowedValues><text>{}</text></allowedValues>", xml_escape(&text))
  }
}

impl Item {
  fn sexp(&self) -> Sexp {
    let comps = |cs: &Vec<(String, Item)>| Sexp::list(cs.iter().map(|(n, i)| Sexp::list(vec![Sexp::str(n), i.sexp()])).collect());
    match self {
      Item::Simple(t, av) => Sexp::tagged("simple", vec![Sexp::atom(SIMPLE[*t].0), av.sexp()]),
      Item::Ref(n, av) => Sexp::tagged("ref", vec![Sexp::str(n), av.sexp()]),
      Item::Comp(cs, av) => Sexp::tagged("comp", vec![comps(cs), av.sexp()]),
      Item::CollSimple(t, av) => Sexp::tagged("collSimple", vec![Sexp::atom(SIMPLE[*t].0), av.sexp()]),
      Item::CollRef(n, av) => Sexp::tagged("collRef", vec![Sexp::str(n), av.sexp()]),
      Item::CollComp(cs, av) => Sexp::tagged("collComp", vec![comps(cs), av.sexp()]),
    }
  }
  /// `<itemDefinition name=…>` (top level) or `<itemComponent name=…>`.
  fn xml(&self, tag: &str, name: &str) -> String {
    let (coll, inner) = match self {
      Item::Simple(t, av) => (false, format!("<typeRef>{}</typeRef>{}", SIMPLE[*t].1, av.xml())),
      Item::CollSimple(t, av) => (true, format!("<typeRef>{}</typeRef>{}", SIMPLE[*t].1, av.xml())),
      Item::Ref(n, av) => (false, format!("<typeRef>{}</typeRef>{}", n, av.xml())),
      Item::CollRef(n, av) => (true, format!("<typeRef>{}</typeRef>{}", n, av.xml())),
      Item::Comp(cs, av) => (false, format!("{}{}", av.xml(), cs.iter().map(|(n, i)| i.xml("itemComponent", n)).collect::<String>())),
      Item::CollComp(cs, av) => (true, format!("{}{}", av.xml(), cs.iter().map(|(n, i)| i.xml("itemComponent", n)).collect::<String>())),
    };
    format!("<{} name=\"{}\"{}>{}</{}>", tag, name, if coll { " isCollection=\"true\"" } else { "" }, inner, tag)
  }
}

type Defs = Vec<(String, Item)>;

fn defs_sexp(defs: &Defs) -> Sexp {
  Sexp::list(defs.iter().map(|(n, i)| Sexp::list(vec![Sexp::str(n), i.sexp()])).collect())
}

fn defs_xml(defs: &Defs) -> String {
  defs.iter().map(|(n, i)| i.xml("itemDefinition", n)).collect()
}

const HEAD: &str = r#"<?xml version="1.0" encoding="UTF-8"?><definitions namespace="ns" name="m" id="_m" xmlns="https://www.omg.org/spec/DMN/20191111/MODEL/">"#;

/// Model whose decision `D` echoes its input `X` of type `type_ref`.
fn echo_model(defs: &Defs, type_ref: &str) -> String {
  format!(
    r##"{}{}<decision name="D" id="_d"><variable name="D"/><informationRequirement id="_r"><requiredInput href="#_x"/></informationRequirement><literalExpression><text>X</text></literalExpression></decision><inputData name="X" id="_x"><variable name="X" typeRef="{}"/></inputData></definitions>"##,
    HEAD,
    defs_xml(defs),
    type_ref
  )
}

/// Model whose invocable `O` — a decision, a knowledge model, a decision service with one output decision or with
/// two (`P` carrying the value, `Q` = 1; the typed result is the context of both) — has a typed output variable
/// and a literal value as logic.
fn output_model(defs: &Defs, type_ref: Option<&str>, value: &str, kind: &str) -> String {
  let ty = match type_ref {
    Some(t) => format!(" typeRef=\"{}\"", t),
    None => String::new(),
  };
  let v = xml_escape(value);
  let body = match kind {
    "bkm" => format!(
      r##"<businessKnowledgeModel name="O" id="_o"><variable name="O"{}/><encapsulatedLogic><literalExpression><text>{}</text></literalExpression></encapsulatedLogic></businessKnowledgeModel>"##,
      ty, v
    ),
    "service" => format!(
      r##"<decision name="P" id="_p"><variable name="P"/><literalExpression><text>{}</text></literalExpression></decision><decisionService name="O" id="_o"><variable name="O"{}/><outputDecision href="#_p"/></decisionService>"##,
      v, ty
    ),
    "service2" => format!(
      r##"<decision name="P" id="_p"><variable name="P"/><literalExpression><text>{}</text></literalExpression></decision><decision name="Q" id="_q"><variable name="Q"/><literalExpression><text>1</text></literalExpression></decision><decisionService name="O" id="_o"><variable name="O"{}/><outputDecision href="#_p"/><outputDecision href="#_q"/></decisionService>"##,
      v, ty
    ),
    _ => format!(r##"<decision name="O" id="_o"><variable name="O"{}/><literalExpression><text>{}</text></literalExpression></decision>"##, ty, v),
  };
  format!("{}{}{}</definitions>", HEAD, defs_xml(defs), body)
}

/// The value kinds of the matrix (FEEL text).
fn value_kinds() -> Vec<&'static str> {
  vec![
    "null",
    "true",
    "2",
    "7",
    "\"a\"",
    "\"z\"",
    "date(\"2020-01-01\")",
    "time(\"10:00:00\")",
    "date and time(\"2020-01-01T10:00:00\")",
    "duration(\"P1D\")",
    "duration(\"P1Y\")",
    "[]",
    "{}",
    "{a: 1}",
  ]
}

/// A value (FEEL text) that conforms to the item definition, when there is one.
fn conforming(item: &Item, defs: &Defs, rng: &mut Rng, depth: usize) -> String {
  let pick_lit = |t: usize, av: &Av, rng: &mut Rng| -> String {
    match av {
      Av::Lits(_, n) => lits(t)[rng.below(*n as u64) as usize].to_string(),
      Av::Cmp(op, n) => format!("{}", if *op == "lt" || *op == "le" { n - 1 } else { n + 1 }),
      Av::None => rng.pick(&lits(t)).to_string(),
    }
  };
  let comps = |cs: &Vec<(String, Item)>, rng: &mut Rng| -> String { format!("{{{}}}", cs.iter().map(|(n, i)| format!("{}: {}", n, conforming(i, defs, rng, depth + 1))).collect::<Vec<_>>().join(", ")) };
  match item {
    Item::Simple(t, av) => pick_lit(*t, av, rng),
    Item::CollSimple(t, _) => {
      let n = rng.below(3);
      format!("[{}]", (0..n).map(|_| rng.pick(&lits(*t)).to_string()).collect::<Vec<_>>().join(", "))
    }
    Item::Ref(n, _) => match defs.iter().find(|d| &d.0 == n) {
      Some((_, i)) if depth < 6 => conforming(i, defs, rng, depth + 1),
      _ => "null".to_string(),
    },
    Item::CollRef(n, _) => match defs.iter().find(|d| &d.0 == n) {
      Some((_, i)) if depth < 6 => {
        let k = rng.below(3);
        format!("[{}]", (0..k).map(|_| conforming(i, defs, rng, depth + 1)).collect::<Vec<_>>().join(", "))
      }
      _ => "[]".to_string(),
    },
    Item::Comp(cs, _) => comps(cs, rng),
    Item::CollComp(cs, _) => {
      let k = rng.below(3);
      format!("[{}]", (0..k).map(|_| comps(cs, rng)).collect::<Vec<_>>().join(", "))
    }
  }
}

/// Replaces one randomly chosen sub-value (at any position of the text's bracket structure)
/// by a value of another kind.
fn violate(text: &str, rng: &mut Rng) -> String {
  // positions where a value starts: after '[', ',', ':' or at 0 (outside strings)
  let b = text.as_bytes();
  let mut starts = vec![0usize];
  let mut in_str = false;
  for (i, c) in b.iter().enumerate() {
    if *c == b'"' {
      in_str = !in_str;
    }
    if !in_str && (*c == b'[' || *c == b',' || *c == b':') {
      let mut j = i + 1;
      while j < b.len() && b[j] == b' ' {
        j += 1;
      }
      if j < b.len() && b[j] != b']' && b[j] != b'}' {
        starts.push(j);
      }
    }
  }
  let s = *rng.pick(&starts);
  // the value ends at the matching ',' / ']' / '}' at depth 0
  let mut depth = 0i32;
  let mut e = s;
  in_str = false;
  while e < b.len() {
    let c = b[e];
    if c == b'"' {
      in_str = !in_str;
    }
    if !in_str {
      if c == b'[' || c == b'{' || c == b'(' {
        depth += 1;
      }
      if c == b']' || c == b'}' || c == b')' {
        if depth == 0 {
          break;
        }
        depth -= 1;
      }
      if c == b',' && depth == 0 {
        break;
      }
    }
    e += 1;
  }
  let rep = *rng.pick(&value_kinds());
  format!("{}{}{}", &text[..s], rep, &text[e..])
}

fn gen_av(t: usize, rng: &mut Rng) -> Av {
  match rng.below(5) {
    0 | 1 => Av::Lits(t, 1 + rng.below(2) as usize),
    2 if t == 1 => Av::Cmp(*rng.pick(&["lt", "le", "gt", "ge"]), 2),
    _ => Av::None,
  }
}

fn gen_item(rng: &mut Rng, defs: &Defs, depth: usize) -> Item {
  let k = rng.below(if depth >= 2 { 4 } else { 8 });
  let t = rng.below(8) as usize;
  let comps = |rng: &mut Rng| -> Vec<(String, Item)> {
    let n = 1 + rng.below(3) as usize;
    // declaration order need not be key order
    let names = if rng.chance(1, 2) { ["a", "b", "c"] } else { ["c", "a", "b"] };
    (0..n).map(|i| (names[i].to_string(), gen_item(rng, defs, depth + 1))).collect()
  };
  match k {
    0 | 1 => Item::Simple(t, gen_av(t, rng)),
    2 => Item::CollSimple(t, if rng.chance(1, 4) { Av::Lits(t, 2) } else { Av::None }),
    3 | 4 if !defs.is_empty() => {
      let n = rng.pick(defs).0.clone();
      let av = if rng.chance(1, 4) { Av::Lits(t, 2) } else { Av::None };
      if k == 3 {
        Item::Ref(n, av)
      } else {
        Item::CollRef(n, av)
      }
    }
    3 | 4 => Item::Simple(t, Av::None),
    5 | 6 => Item::Comp(comps(rng), if rng.chance(1, 10) { Av::Lits(1, 2) } else { Av::None }),
    _ => Item::CollComp(comps(rng), Av::None),
  }
}

/// A generated model with item definitions and an echo decision (used by C12 as a base for
/// fault enumeration).
pub fn sample_model_xml(rng: &mut Rng) -> String {
  let mut defs: Defs = vec![];
  let n_defs = 1 + rng.below(3) as usize;
  for k in 0..n_defs {
    let it = gen_item(rng, &defs, 0);
    defs.push((format!("t{}", k), it));
  }
  let top = defs.last().unwrap().0.clone();
  echo_model(&defs, &top)
}

// ---- families `order` and `names`: an expectation for typed results that is written out here (no model, no
// evaluator): the FEEL type an item definition stands for is resolved by name in the whole set of definitions —
// so it cannot depend on their order —, and a value of a small value language (literals of the eight simple types,
// non-empty lists of values of one shape, contexts) is returned unchanged when it conforms, wrapped into a list
// when the type is a list type and the value conforms to the item type, unwrapped when it is a list of one
// conforming item, and null otherwise.

#[derive(Clone, Debug)]
enum RT {
  S(usize),
  L(Box<RT>),
  C(Vec<(String, RT)>),
}

fn resolve_rt(defs: &Defs, item: &Item, fuel: usize) -> Option<RT> {
  if fuel == 0 {
    return None;
  }
  let by_name = |n: &String| -> Option<RT> { defs.iter().find(|d| &d.0 == n).and_then(|d| resolve_rt(defs, &d.1, fuel - 1)) };
  let comps = |cs: &Vec<(String, Item)>| -> Option<RT> { cs.iter().map(|(n, i)| resolve_rt(defs, i, fuel - 1).map(|t| (n.clone(), t))).collect::<Option<Vec<_>>>().map(RT::C) };
  match item {
    Item::Simple(t, _) => Some(RT::S(*t)),
    Item::CollSimple(t, _) => Some(RT::L(Box::new(RT::S(*t)))),
    Item::Ref(n, _) => by_name(n),
    Item::CollRef(n, _) => by_name(n).map(|t| RT::L(Box::new(t))),
    Item::Comp(cs, _) => comps(cs),
    Item::CollComp(cs, _) => comps(cs).map(|t| RT::L(Box::new(t))),
  }
}

#[derive(Clone, Debug)]
enum OV {
  Lit(usize, usize),
  List(Vec<OV>),
  Ctx(Vec<(String, OV)>),
}

impl OV {
  fn text(&self) -> String {
    match self {
      OV::Lit(t, i) => lits(*t)[*i].to_string(),
      OV::List(xs) => format!("[{}]", xs.iter().map(|x| x.text()).collect::<Vec<_>>().join(", ")),
      OV::Ctx(es) => format!("{{{}}}", es.iter().map(|(n, x)| format!("{}: {}", n, x.text())).collect::<Vec<_>>().join(", ")),
    }
  }
}

fn ov_conf(v: &OV, t: &RT) -> bool {
  match (v, t) {
    (OV::Lit(a, _), RT::S(b)) => a == b,
    (OV::List(xs), RT::L(it)) => !xs.is_empty() && xs.iter().all(|x| ov_conf(x, it)),
    (OV::Ctx(es), RT::C(fs)) => fs.iter().all(|(n, ft)| es.iter().any(|(m, x)| m == n && ov_conf(x, ft))),
    _ => false,
  }
}

/// `None`: null
fn ov_expected(v: &OV, t: &RT) -> Option<OV> {
  if ov_conf(v, t) {
    return Some(v.clone());
  }
  if let RT::L(it) = t {
    if ov_conf(v, it) {
      return Some(OV::List(vec![v.clone()]));
    }
  }
  if let OV::List(xs) = v {
    if xs.len() == 1 && ov_conf(&xs[0], t) {
      return Some(xs[0].clone());
    }
  }
  None
}

fn ov_conforming(t: &RT, k: usize) -> OV {
  match t {
    RT::S(s) => OV::Lit(*s, k % 2),
    RT::L(it) => OV::List(vec![ov_conforming(it, k), ov_conforming(it, k + 1)]),
    RT::C(fs) => OV::Ctx(fs.iter().map(|(n, ft)| (n.clone(), ov_conforming(ft, k))).collect()),
  }
}

/// a scalar that does not conform to `t`
fn ov_wrong(t: &RT) -> OV {
  match t {
    RT::S(s) => OV::Lit((*s + 1) % 8, 0),
    _ => OV::Lit(1, 0),
  }
}

fn ov_values(t: &RT) -> Vec<OV> {
  let c0 = ov_conforming(t, 0);
  let c1 = ov_conforming(t, 1);
  let w = ov_wrong(t);
  let mut out = vec![c0.clone(), OV::List(vec![c0.clone()]), OV::List(vec![OV::List(vec![c0.clone()])]), OV::List(vec![c0.clone(), c1]), w.clone(), OV::List(vec![w.clone()]), OV::List(vec![c0.clone(), w])];
  match t {
    RT::C(fs) => {
      if let OV::Ctx(es) = &c0 {
        // a component missing; a component of another kind
        out.push(OV::Ctx(es[..es.len() - 1].to_vec()));
        let mut bad = es.clone();
        bad[0].1 = ov_wrong(&fs[0].1);
        out.push(OV::Ctx(bad.clone()));
        out.push(OV::List(vec![OV::Ctx(bad)]));
      }
    }
    RT::L(it) => {
      let i0 = ov_conforming(it, 0);
      out.push(i0.clone());
      out.push(OV::List(vec![i0.clone()]));
      out.push(OV::List(vec![i0, ov_wrong(it)]));
    }
    _ => {}
  }
  out
}

fn strip_av(defs: &Defs) -> Defs {
  fn item(i: &Item) -> Item {
    let cs = |cs: &Vec<(String, Item)>| cs.iter().map(|(n, c)| (n.clone(), item(c))).collect::<Vec<_>>();
    match i {
      Item::Simple(t, _) => Item::Simple(*t, Av::None),
      Item::CollSimple(t, _) => Item::CollSimple(*t, Av::None),
      Item::Ref(n, _) => Item::Ref(n.clone(), Av::None),
      Item::CollRef(n, _) => Item::CollRef(n.clone(), Av::None),
      Item::Comp(c, _) => Item::Comp(cs(c), Av::None),
      Item::CollComp(c, _) => Item::CollComp(cs(c), Av::None),
    }
  }
  defs.iter().map(|(n, i)| (n.clone(), item(i))).collect()
}

/// every arrangement of `0..n` (n ≤ 4), or `limit` arrangements drawn at random beside the identity and the reversal
fn arrangements(n: usize, limit: usize, rng: &mut Rng) -> Vec<Vec<usize>> {
  fn all(prefix: &mut Vec<usize>, n: usize, out: &mut Vec<Vec<usize>>) {
    if prefix.len() == n {
      out.push(prefix.clone());
      return;
    }
    for i in 0..n {
      if !prefix.contains(&i) {
        prefix.push(i);
        all(prefix, n, out);
        prefix.pop();
      }
    }
  }
  let mut out = vec![];
  if n <= 4 {
    all(&mut vec![], n, &mut out);
    return out;
  }
  out.push((0..n).collect());
  out.push((0..n).rev().collect());
  while out.len() < limit {
    let mut p: Vec<usize> = (0..n).collect();
    for i in (1..n).rev() {
      p.swap(i, rng.below(i as u64 + 1) as usize);
    }
    if !out.contains(&p) {
      out.push(p);
    }
  }
  out
}

/// Sets of item definitions that refer to each other — chains of references, components of referenced types,
/// collections of referenced types (also of collections), a reference with allowed values of its own — written in
/// an order in which every reference points forward; with the names the echo / output decisions are typed by.
fn order_library() -> Vec<(Defs, Vec<&'static str>)> {
  let s = |x: &str| x.to_string();
  vec![
    (
      vec![
        (s("tA"), Item::Ref(s("tB"), Av::None)),
        (s("tL"), Item::CollRef(s("tA"), Av::None)),
        (s("tB"), Item::Ref(s("tC"), Av::None)),
        (s("tC"), Item::Simple(1, Av::Cmp("ge", 2))),
      ],
      vec!["tA", "tL", "tB"],
    ),
    (
      vec![
        (s("tOrder"), Item::Comp(vec![(s("id"), Item::Simple(1, Av::None)), (s("customer"), Item::Ref(s("tCustomer"), Av::None))], Av::None)),
        (s("tCustomer"), Item::Comp(vec![(s("name"), Item::Simple(0, Av::None)), (s("level"), Item::Ref(s("tLevel"), Av::None))], Av::None)),
        (s("tPriority"), Item::Ref(s("tLevel"), Av::None)),
        (s("tLevel"), Item::Simple(1, Av::None)),
      ],
      vec!["tOrder", "tPriority", "tCustomer"],
    ),
    (
      vec![
        (s("tMatrix"), Item::CollRef(s("tRows"), Av::None)),
        (s("tRows"), Item::CollRef(s("tRow"), Av::None)),
        (s("tRow"), Item::Comp(vec![(s("a"), Item::Ref(s("tCell"), Av::None)), (s("b"), Item::CollRef(s("tCell"), Av::None))], Av::None)),
        (s("tCell"), Item::Simple(0, Av::Lits(0, 2))),
      ],
      vec!["tMatrix", "tRows", "tRow"],
    ),
    (
      vec![
        (s("tHolder"), Item::CollComp(vec![(s("x"), Item::Ref(s("tSmall"), Av::None)), (s("d"), Item::Ref(s("tDay"), Av::None))], Av::None)),
        (s("tSmalls"), Item::CollRef(s("tSmall"), Av::None)),
        (s("tSmall"), Item::Ref(s("tBase"), Av::Cmp("lt", 3))),
        (s("tDay"), Item::Simple(3, Av::None)),
        (s("tBase"), Item::Simple(1, Av::None)),
      ],
      vec!["tHolder", "tSmalls", "tSmall"],
    ),
  ]
}

/// Names of item definitions, after the name classes of property C10: words separated by blanks, words joined by the
/// additional symbols `. / - ' + *` with and without blanks around them, two blanks, words that are no ASCII
/// letters, words that are names of built-in types or keywords.
const DEF_NAMES: [&str; 22] = [
  "t Person",
  "Risk - Category",
  "Risk-Category",
  "a + b",
  "a+b",
  "a +b",
  "x . y",
  "x.y",
  "person's age",
  "person ' s age",
  "rate / 100",
  "p * q",
  "p*q",
  "t  Person",
  "żółw 日本",
  "Δx - n_1",
  "date and time of birth",
  "number of items",
  "list of numbers",
  "a - b - c",
  "for every item",
  "A-1 / B.2",
];


// ---- family `any`: the type reference `Any` in every position where an item definition can carry a type reference
// (a definition that only refers to `Any`, a definition referring to such a definition, a component, a component of
// a component, the item type of a collection, of a collection of collections, a component of the items of a
// collection, a component that is a collection of `Any`, `Any` restricted by allowed values; `Any` written with white
// space around it), on the input and on the output side.  The expectation is written out here from the one fact
// "every value conforms to Any": a value in an `Any` position is handed on as it is, whatever it is; the positions
// beside it (a number component, the list shape of a collection) keep their own rule.

/// the values put into an `Any` position (FEEL text)
fn any_values() -> Vec<&'static str> {
  vec![
    "null",
    "true",
    "2",
    "\"a\"",
    "date(\"2020-01-01\")",
    "time(\"10:00:00\")",
    "date and time(\"2020-01-01T10:00:00\")",
    "duration(\"P1D\")",
    "duration(\"P1Y\")",
    "[]",
    "[1, \"a\"]",
    "[null]",
    "[[1], {a: 1}]",
    "{}",
    "{a: 1}",
    "{b: {c: null}}",
  ]
}

struct AnyScenario {
  what: &'static str,
  defs: Defs,
  top: &'static str,
  /// (input value, value that must reach the decision logic), both FEEL text
  input: Vec<(String, String)>,
  /// (result of the logic, typed result that must be returned)
  output: Vec<(String, String)>,
  /// values compared with the model only (see the comment at the place of use)
  model_only: Vec<String>,
}

fn any_library() -> Vec<AnyScenario> {
  let s = |x: &str| x.to_string();
  let same = |f: &dyn Fn(&str) -> String| -> Vec<(String, String)> { any_values().iter().map(|v| (f(v), f(v))).collect() };
  let is_list = |v: &str| v.starts_with('[');
  let mut out = vec![];
  for any in ["Any", " Any ", "\n\tAny\n"] {
    let a = || Item::Ref(any.to_string(), Av::None);
    let la = || Item::CollRef(any.to_string(), Av::None);
    // a definition that is nothing but a reference to Any
    out.push(AnyScenario { what: "definition referring to Any", defs: vec![(s("tA"), a())], top: "tA", input: same(&|v| s(v)), output: same(&|v| s(v)), model_only: vec![] });
    // a definition referring to a definition referring to Any, written before it
    out.push(AnyScenario { what: "reference to a definition referring to Any", defs: vec![(s("tA2"), Item::Ref(s("tA"), Av::None)), (s("tA"), a())], top: "tA2", input: same(&|v| s(v)), output: same(&|v| s(v)), model_only: vec![] });
    // a component of the type Any beside a number
    {
      let defs = vec![(s("tC"), Item::Comp(vec![(s("a"), a()), (s("b"), Item::Simple(1, Av::None))], Av::None))];
      let mut input = same(&|v| format!("{{a: {}, b: 2}}", v));
      let mut output = same(&|v| format!("{{a: {}, b: 2}}", v));
      for v in any_values() {
        input.push((format!("{{a: {}, b: \"x\"}}", v), format!("{{a: {}, b: null}}", v)));
        output.push((format!("{{a: {}, b: \"x\"}}", v), s("null")));
        output.push((format!("[{{a: {}, b: 2}}]", v), format!("{{a: {}, b: 2}}", v)));
      }
      input.push((s("{b: 2}"), s("null")));
      input.push((s("1"), s("null")));
      output.push((s("{b: 2}"), s("null")));
      output.push((s("1"), s("null")));
      out.push(AnyScenario { what: "component of the type Any", defs, top: "tC", input, output, model_only: vec![] });
    }
    // a component whose type is a definition referring to Any; a component of a component
    {
      let defs = vec![(s("tC"), Item::Comp(vec![(s("a"), Item::Ref(s("tA"), Av::None)), (s("b"), Item::Simple(0, Av::None))], Av::None)), (s("tA"), a())];
      let mut input = same(&|v| format!("{{a: {}, b: \"k\"}}", v));
      input.push((s("{a: 1, b: 1}"), s("{a: 1, b: null}")));
      out.push(AnyScenario { what: "component typed by a definition referring to Any", defs, top: "tC", input, output: same(&|v| format!("{{a: {}, b: \"k\"}}", v)), model_only: vec![] });
      let defs = vec![(s("tD"), Item::Comp(vec![(s("c"), Item::Comp(vec![(s("a"), a())], Av::None))], Av::None))];
      let mut input = same(&|v| format!("{{c: {{a: {}}}}}", v));
      input.push((s("{c: 1}"), s("{c: null}")));
      input.push((s("{c: {}}"), s("{c: null}")));
      out.push(AnyScenario { what: "component of a component of the type Any", defs, top: "tD", input, output: same(&|v| format!("{{c: {{a: {}}}}}", v)), model_only: vec![] });
    }
    // a collection of Any: every list passes, whatever its items; anything else is no collection
    {
      let defs = vec![(s("tL"), la())];
      let mut input: Vec<(String, String)> = vec![];
      let mut output: Vec<(String, String)> = vec![];
      for v in any_values() {
        input.push((format!("[{}]", v), format!("[{}]", v)));
        input.push((format!("[{}, 1]", v), format!("[{}, 1]", v)));
        input.push((format!("[\"z\", {}, null]", v), format!("[\"z\", {}, null]", v)));
        input.push((s(v), if is_list(v) { s(v) } else { s("null") }));
        output.push((format!("[{}, 1]", v), format!("[{}, 1]", v)));
        // a result that is no list is wrapped into a list of one item (null conforms as it is)
        output.push((s(v), if is_list(v) || v == "null" { s(v) } else { format!("[{}]", v) }));
      }
      out.push(AnyScenario { what: "collection of Any", defs, top: "tL", input, output, model_only: vec![] });
    }
    // a collection of a definition referring to Any; a collection of collections of Any
    {
      let defs = vec![(s("tLA"), Item::CollRef(s("tA"), Av::None)), (s("tA"), a())];
      let mut input: Vec<(String, String)> = vec![];
      for v in any_values().iter().filter(|v| **v != "null") {
        input.push((format!("[{}]", v), format!("[{}]", v)));
        input.push((format!("[1, {}]", v), format!("[1, {}]", v)));
      }
      input.push((s("[]"), s("[]")));
      input.push((s("7"), s("null")));
      // an item null: the loop over the items of a collection of a *referenced definition* takes an item that is
      // evaluated to null for one that does not conform (as a null item of a collection of number does not) and cannot
      // see that the definition stands for Any — the specification states it that way (items of such a collection
      // are not null); compared with the model and the specification of the driver only
      out.push(AnyScenario { what: "collection of a definition referring to Any", defs: defs.clone(), top: "tLA", input, output: vec![], model_only: vec![] });
      // since the seventh round asserted (finding F73-null-item-any-alias): every value conforms to Any, null is a
      // value, and a reference to a definition means what the definition means — a null item of a collection of a
      // definition that stands for Any (directly, or through a chain of references) conforms, the list reaches the
      // logic unchanged, as it does for the collection of Any itself
      let nulls: Vec<(String, String)> = ["[null]", "[1, null]", "[null, \"a\"]", "[null, null]", "[[1], null, {a: 1}]"].iter().map(|v| (s(v), s(v))).collect();
      out.push(AnyScenario { what: "null item of a collection of a definition standing for Any", defs, top: "tLA", input: nulls.clone(), output: vec![], model_only: vec![] });
      let defs = vec![(s("tLA2"), Item::CollRef(s("tA2"), Av::None)), (s("tA2"), Item::Ref(s("tA"), Av::None)), (s("tA"), a())];
      out.push(AnyScenario { what: "null item of a collection of a definition standing for Any", defs, top: "tLA2", input: nulls, output: vec![], model_only: vec![] });
      let defs = vec![(s("tM"), Item::CollRef(s("tL"), Av::None)), (s("tL"), la())];
      let mut input: Vec<(String, String)> = vec![];
      for v in any_values() {
        input.push((format!("[[{}], []]", v), format!("[[{}], []]", v)));
      }
      input.push((s("[[1], 2]"), s("null")));
      out.push(AnyScenario { what: "collection of collections of Any", defs, top: "tM", input, output: vec![], model_only: vec![] });
    }
    // the items of a collection have a component of the type Any; a component is a collection of Any
    {
      let defs = vec![(s("tLC"), Item::CollComp(vec![(s("a"), a()), (s("b"), Item::Simple(1, Av::None))], Av::None))];
      let mut input = same(&|v| format!("[{{a: {}, b: 1}}, {{a: 1, b: 2}}]", v));
      input.push((s("[{a: 1, b: 1}, {a: 1, b: \"x\"}]"), s("[{a: 1, b: 1}, {a: 1, b: null}]")));
      input.push((s("[{a: 1, b: 1}, 5]"), s("null")));
      out.push(AnyScenario { what: "component of the type Any in the items of a collection", defs, top: "tLC", input, output: vec![], model_only: vec![] });
      let defs = vec![(s("tCL"), Item::Comp(vec![(s("xs"), la()), (s("n"), Item::Simple(1, Av::None))], Av::None))];
      let mut input = same(&|v| format!("{{xs: [{}, 2], n: 1}}", v));
      let mut output = same(&|v| format!("{{xs: [{}, 2], n: 1}}", v));
      input.push((s("{xs: 5, n: 1}"), s("{xs: null, n: 1}")));
      input.push((s("{xs: [], n: true}"), s("{xs: [], n: null}")));
      output.push((s("{xs: [\"q\"], n: true}"), s("null")));
      out.push(AnyScenario { what: "component that is a collection of Any", defs, top: "tCL", input, output, model_only: vec![] });
    }
    // Any restricted by allowed values (the values 1, 2): the allowed values are the whole test
    {
      let defs = vec![(s("tAv"), Item::Ref(any.to_string(), Av::Lits(1, 2))), (s("tUseAv"), Item::Comp(vec![(s("a"), Item::Ref(s("tAv"), Av::None))], Av::None))];
      let input: Vec<(String, String)> = vec![(s("1"), s("1")), (s("2"), s("2")), (s("3"), s("null")), (s("\"a\""), s("null")), (s("[1]"), s("null")), (s("null"), s("null"))];
      out.push(AnyScenario { what: "Any with allowed values", defs: defs.clone(), top: "tAv", input, output: vec![], model_only: vec![] });
      let input: Vec<(String, String)> = vec![(s("{a: 1}"), s("{a: 1}")), (s("{a: 3}"), s("{a: null}")), (s("{a: \"a\"}"), s("{a: null}"))];
      out.push(AnyScenario { what: "Any with allowed values", defs, top: "tUseAv", input, output: vec![], model_only: vec![] });
    }
  }
  // names that are not the type Any: a reference to a definition that does not exist (no value conforms)
  for near in ["any", "ANY", "Anything", "An y", "Any1", "tAny"] {
    let defs = vec![(s("tN"), Item::Ref(near.to_string(), Av::None)), (s("tLN"), Item::CollRef(near.to_string(), Av::None))];
    let input: Vec<(String, String)> = any_values().iter().map(|v| (s(v), s("null"))).collect();
    out.push(AnyScenario { what: "a name that only resembles Any", defs: defs.clone(), top: "tN", input, output: vec![], model_only: vec![] });
    let input: Vec<(String, String)> = vec![(s("[1]"), s("null")), (s("[]"), s("null")), (s("1"), s("null"))];
    out.push(AnyScenario { what: "a name that only resembles Any", defs, top: "tLN", input, output: vec![], model_only: vec![] });
  }
  out
}


// ---- family `item-typeref-white-space`: white space (blanks, a tab, line breaks and indentation — element content
// written on a line of its own) around the name an item definition refers to is no part of the name: the definition
// means what it means without it.  Expectations written out for a number type `tB`.
fn ws_library() -> Vec<AnyScenario> {
  let s = |x: &str| x.to_string();
  let mut out = vec![];
  for (pre, post) in [(" ", " "), ("\n     ", "\n  "), ("\t", ""), ("", " "), ("\r\n", "\r\n")] {
    let p = |n: &str| format!("{}{}{}", pre, n, post);
    let defs: Defs = vec![
      (s("tR"), Item::Ref(p("tB"), Av::None)),
      (s("tL"), Item::CollRef(p("tB"), Av::None)),
      (s("tC"), Item::Comp(vec![(s("a"), Item::Ref(p("tB"), Av::None)), (s("b"), Item::CollRef(p("tB"), Av::None))], Av::None)),
      (s("tRR"), Item::Ref(p("tR"), Av::Cmp("lt", 3))),
      (s("tB"), Item::Simple(1, Av::None)),
    ];
    let v = |a: &str, b: &str| (s(a), s(b));
    out.push(AnyScenario { what: "reference", defs: defs.clone(), top: "tR", input: vec![v("1", "1"), v("\"a\"", "null"), v("null", "null"), v("[1]", "null")], output: vec![v("1", "1"), v("\"a\"", "null"), v("[1]", "1"), v("[1, 2]", "null")], model_only: vec![] });
    out.push(AnyScenario { what: "collection of a reference", defs: defs.clone(), top: "tL", input: vec![v("[1, 2]", "[1, 2]"), v("[1, \"a\"]", "null"), v("1", "null"), v("[]", "[]")], output: vec![v("1", "[1]"), v("[1, 2]", "[1, 2]"), v("\"a\"", "null")], model_only: vec![] });
    out.push(AnyScenario { what: "components", defs: defs.clone(), top: "tC", input: vec![v("{a: 1, b: [2]}", "{a: 1, b: [2]}"), v("{a: \"x\", b: [2]}", "{a: null, b: [2]}"), v("{a: 1, b: 2}", "{a: 1, b: null}")], output: vec![v("{a: 1, b: [2]}", "{a: 1, b: [2]}"), v("{a: \"x\", b: [2]}", "null")], model_only: vec![] });
    out.push(AnyScenario { what: "reference to a reference, with allowed values", defs: defs.clone(), top: "tRR", input: vec![v("1", "1"), v("5", "null"), v("true", "null")], output: vec![v("1", "1"), v("true", "null")], model_only: vec![] });
  }
  // a definition *named* with blanks around the name is registered under that very text; a reference is looked up
  // without the white space around it, so nothing refers to such a definition (compared with the model only)
  let defs: Defs = vec![(s(" tP "), Item::Simple(1, Av::None)), (s("tQ"), Item::Ref(s(" tP "), Av::None)), (s("tQ2"), Item::Ref(s("tP"), Av::None))];
  out.push(AnyScenario { what: "definition named with blanks around the name", defs: defs.clone(), top: "tQ", input: vec![], output: vec![], model_only: vec![s("1"), s("\"a\"")] });
  out.push(AnyScenario { what: "definition named with blanks around the name", defs, top: "tQ2", input: vec![], output: vec![], model_only: vec![s("1"), s("\"a\"")] });
  out
}

struct Case {
  family: &'static str,
  req: String,
  xml: String,
  value: String,
  obs: String,
}

pub fn run(cfg: &Cfg) -> Report {
  let mut rep = Report::new(
    "C11",
    "generated models: (matrix) 8 simple types × {simple, collection, referenced, collection-of-referenced} × {with, without allowed values} × 14 value kinds × {bare, [v], [conforming, v], {a: v}} at top level, inside a component, inside a collection of components and inside a component of a component; (random) item-definition trees of depth ≤ 3 with conforming values and values violated at one random position; (output) typed decision outputs; (classify) all typeRef/components/isCollection combinations. Non-trivial: the declared type is not `Any` and the value is not absent; distinct by (model XML, value).",
  );
  let thorough = cfg.tier == "thorough";
  let mut rng = Rng::new(cfg.seed);
  let mut cases: Vec<Case> = vec![];

  // evaluates a batch of values against one echo model
  let mut run_echo = |family: &'static str, defs: &Defs, type_ref: &str, vartype: Sexp, values: &[String], cases: &mut Vec<Case>, rep: &mut Report| {
    let xml = echo_model(defs, type_ref);
    let built = guarded(|| match dmntk_model::parse(&xml) {
      Ok(d) => ModelEvaluator::new(&d).map_err(|e| e.to_string()),
      Err(e) => Err(e.to_string()),
    });
    let me = match built {
      Ok(Ok(m)) => m,
      Ok(Err(e)) => {
        rep.disagree(Kind::ImplVsModel, family, "a generated model does not load", &xml, &e, "a built model");
        return;
      }
      Err(p) => {
        rep.disagree(Kind::ImplVsSpec, family, "panic while loading a generated model", &xml, &p, "a built model");
        return;
      }
    };
    for v in values {
      let (ctx, vs): (FeelContext, Sexp) = if v == "absent" {
        (FeelContext::default(), Sexp::atom("absent"))
      } else {
        let val = eval(v);
        let sx = match value_sexp(&val) {
          Some(s) => s,
          None => continue,
        };
        let mut c = FeelContext::default();
        c.set_entry(&"X".into(), val);
        (c, sx)
      };
      let obs = match guarded(|| me.evaluate_invocable("D", &ctx)) {
        Ok(r) => value_sexp(&r).map(|s| s.to_string()).unwrap_or_else(|| format!("(unsupported {})", r)),
        Err(p) => format!("(panic {})", p.replace(' ', "_")),
      };
      let req = Sexp::list(vec![Sexp::atom("c11"), Sexp::atom("input"), defs_sexp(defs), Sexp::str("X"), vartype.clone(), vs]).to_string();
      cases.push(Case { family, req, xml: xml.clone(), value: v.clone(), obs });
    }
  };

  // ---- the matrix
  for t in 0..8usize {
    for with_av in [false, true] {
      let av = if with_av { Av::Lits(t, 2) } else { Av::None };
      // the four variants of the declared type, as top-level definition `tV`
      let variants: Vec<(&str, Defs)> = vec![
        ("simple", vec![("tV".into(), Item::Simple(t, av.clone()))]),
        ("collection", vec![("tV".into(), Item::CollSimple(t, av.clone()))]),
        ("referenced", vec![("tB".into(), Item::Simple(t, Av::None)), ("tV".into(), Item::Ref("tB".into(), av.clone()))]),
        ("referenced-av-in-target", vec![("tB".into(), Item::Simple(t, av.clone())), ("tV".into(), Item::Ref("tB".into(), Av::None))]),
        ("collection-of-referenced", vec![("tB".into(), Item::Simple(t, av.clone())), ("tV".into(), Item::CollRef("tB".into(), Av::None))]),
      ];
      for (vname, base) in &variants {
        let l = lits(t);
        let mut shapes: Vec<String> = vec!["absent".into()];
        let mut kinds: Vec<String> = value_kinds().iter().map(|s| s.to_string()).collect();
        kinds.extend(l.iter().map(|s| s.to_string()));
        for v in &kinds {
          shapes.push(v.clone());
          shapes.push(format!("[{}]", v));
          shapes.push(format!("[{}, {}]", l[0], v));
          shapes.push(format!("[{}, {}]", v, l[1]));
        }
        // position 1: top level
        run_echo("matrix", base, "tV", Sexp::tagged("named", vec![Sexp::str("tV")]), &shapes, &mut cases, &mut rep);
        rep.hit(&format!("matrix {} {}", vname, if with_av { "with allowed values" } else { "without allowed values" }));
        // position 2: inside a component; 3: inside a collection of components; 4: component of a component
        let inner = base.last().unwrap().1.clone();
        let mut d2 = base.clone();
        d2.pop();
        let mut nested: Vec<(String, Item)> = vec![
          ("tC".into(), Item::Comp(vec![("b".into(), Item::Simple(1, Av::None)), ("a".into(), inner.clone())], Av::None)),
          ("tL".into(), Item::CollComp(vec![("a".into(), inner.clone())], Av::None)),
          ("tD".into(), Item::Comp(vec![("c".into(), Item::Comp(vec![("a".into(), inner.clone())], Av::None))], Av::None)),
        ];
        d2.append(&mut nested);
        let sub: Vec<&String> = shapes.iter().filter(|s| *s != "absent").collect();
        let stride = if thorough { 1 } else { 3 };
        let v2: Vec<String> = sub.iter().step_by(stride).map(|v| format!("{{a: {}, b: 1}}", v)).chain(["{b: 1}".to_string(), "{a: 1}".to_string(), "{a: 1, b: 1, z: 1}".to_string(), "1".to_string()]).collect();
        run_echo("matrix", &d2, "tC", Sexp::tagged("named", vec![Sexp::str("tC")]), &v2, &mut cases, &mut rep);
        let v3: Vec<String> = sub.iter().step_by(stride).map(|v| format!("[{{a: {}}}, {{a: {}}}]", l[0], v)).chain(["[1]".to_string(), "[{}]".to_string(), "{a: 1}".to_string()]).collect();
        run_echo("matrix", &d2, "tL", Sexp::tagged("named", vec![Sexp::str("tL")]), &v3, &mut cases, &mut rep);
        let v4: Vec<String> = sub.iter().step_by(stride).map(|v| format!("{{c: {{a: {}}}}}", v)).chain(["{c: 1}".to_string(), "{c: {}}".to_string()]).collect();
        run_echo("matrix", &d2, "tD", Sexp::tagged("named", vec![Sexp::str("tD")]), &v4, &mut cases, &mut rep);
      }
    }
    // the built-in type named directly by the variable (the nine closures of build_variable_evaluator)
    let mut shapes: Vec<String> = vec!["absent".into()];
    for v in value_kinds() {
      shapes.push(v.to_string());
      shapes.push(format!("[{}]", v));
    }
    shapes.extend(lits(t).iter().map(|s| s.to_string()));
    run_echo("variable", &vec![], SIMPLE[t].1, Sexp::tagged("simple", vec![Sexp::atom(SIMPLE[t].0)]), &shapes, &mut cases, &mut rep);
  }
  // white space around the name of a built-in type is not a part of the name; the type `Any` accepts every value
  // (`Variable::try_from` trims, the arm "Any" of build_variable_evaluator; the driver resolves the text of the
  // attribute with `VarType.ofRef`)
  for (t, pad) in [(1usize, " number "), (0, "string "), (2, "  boolean"), (3, " date ")] {
    let mut shapes: Vec<String> = vec!["absent".into()];
    shapes.extend(value_kinds().iter().map(|s| s.to_string()));
    shapes.extend(lits(t).iter().map(|s| s.to_string()));
    run_echo("variable", &vec![], pad, Sexp::tagged("ref", vec![Sexp::str(pad)]), &shapes, &mut cases, &mut rep);
  }
  for any in ["Any", " Any "] {
    let mut shapes: Vec<String> = vec!["absent".into()];
    for v in value_kinds() {
      shapes.push(v.to_string());
      shapes.push(format!("[{}]", v));
      shapes.push(format!("{{a: {}}}", v));
    }
    run_echo("variable", &vec![], any, Sexp::tagged("ref", vec![Sexp::str(any)]), &shapes, &mut cases, &mut rep);
  }
  // a variable whose type reference names nothing
  {
    let shapes: Vec<String> = value_kinds().iter().map(|s| s.to_string()).collect();
    run_echo("variable", &vec![], "tNoSuchType", Sexp::tagged("named", vec![Sexp::str("tNoSuchType")]), &shapes, &mut cases, &mut rep);
  }

  // ---- random trees
  let n_trees = if thorough { 6000 } else { 700 };
  for _ in 0..n_trees {
    let mut defs: Defs = vec![];
    let n_defs = 1 + rng.below(3) as usize;
    for k in 0..n_defs {
      let it = gen_item(&mut rng, &defs, 0);
      defs.push((format!("t{}", k), it));
    }
    let top = defs.last().unwrap().clone();
    let mut values = vec![];
    for _ in 0..3 {
      let c = conforming(&top.1, &defs, &mut rng, 0);
      values.push(c.clone());
      values.push(violate(&c, &mut rng));
      values.push(violate(&violate(&c, &mut rng), &mut rng));
    }
    values.push(rng.pick(&value_kinds()).to_string());
    run_echo("tree", &defs, &top.0, Sexp::tagged("named", vec![Sexp::str(&top.0)]), &values, &mut cases, &mut rep);
  }

  // ---- order: every arrangement of the item definitions of a model (references point forward, backward, through
  // chains, into collections); the definitions go to the driver in the arrangement the document has them in
  let mut order_sets: Vec<(Defs, Vec<String>)> = order_library().into_iter().map(|(d, tops)| (d, tops.iter().map(|t| t.to_string()).collect())).collect();
  for _ in 0..(if thorough { 60 } else { 8 }) {
    let mut defs: Defs = vec![];
    let n_defs = 3 + rng.below(2) as usize;
    for k in 0..n_defs {
      let it = gen_item(&mut rng, &defs, 0);
      defs.push((format!("t{}", k), it));
    }
    let tops = vec![defs[n_defs - 1].0.clone(), defs[n_defs - 2].0.clone()];
    order_sets.push((defs, tops));
  }
  for (defs, tops) in &order_sets {
    let mut per_top: Vec<(String, Vec<String>)> = vec![];
    for top in tops {
      let item = defs.iter().find(|d| &d.0 == top).unwrap().1.clone();
      let mut values = vec![];
      for _ in 0..2 {
        let c = conforming(&item, defs, &mut rng, 0);
        values.push(c.clone());
        values.push(violate(&c, &mut rng));
        values.push(format!("[{}]", c));
      }
      values.push(rng.pick(&value_kinds()).to_string());
      per_top.push((top.clone(), values));
    }
    for arr in arrangements(defs.len(), if thorough { 60 } else { 12 }, &mut rng) {
      let arranged: Defs = arr.iter().map(|i| defs[*i].clone()).collect();
      rep.hit(if arr.windows(2).all(|w| w[0] < w[1]) { "order: as written" } else { "order: another arrangement" });
      for (top, values) in &per_top {
        run_echo("order", &arranged, top, Sexp::tagged("named", vec![Sexp::str(top)]), values, &mut cases, &mut rep);
      }
    }
  }

  // ---- names: item definitions named with blanks and additional symbols — as the type of the input, referenced
  // by another definition, as the item type of a collection, as the type of a component; two definitions whose
  // names differ in the blanks around a symbol only are two definitions
  let name_defs = |name: &str, t: usize| -> Defs {
    vec![
      ("tUse".into(), Item::Ref(name.to_string(), Av::None)),
      ("tColl".into(), Item::CollRef(name.to_string(), Av::None)),
      ("tComp".into(), Item::Comp(vec![("v".into(), Item::Ref(name.to_string(), Av::None)), ("net amount".into(), Item::Simple(1, Av::None))], Av::None)),
      (name.to_string(), Item::Simple(t, Av::Lits(t, 2))),
    ]
  };
  for (k, name) in DEF_NAMES.iter().enumerate() {
    let t = k % 8;
    let mut defs = name_defs(name, t);
    if k % 2 == 1 {
      defs.rotate_right(1);
    }
    let l = lits(t);
    let other = lits((t + 1) % 8)[0];
    for (top, values) in [
      (name.to_string(), vec![l[0].to_string(), l[1].to_string(), other.to_string(), format!("[{}]", l[0]), "null".to_string(), "absent".to_string()]),
      ("tUse".to_string(), vec![l[0].to_string(), other.to_string(), "{}".to_string()]),
      ("tColl".to_string(), vec![format!("[{}, {}]", l[0], l[1]), format!("[{}, {}]", l[0], other), l[0].to_string(), "[]".to_string()]),
      ("tComp".to_string(), vec![format!("{{v: {}, net amount: 1}}", l[0]), format!("{{v: {}, net amount: 1}}", other), format!("{{v: {}}}", l[0]), "1".to_string()]),
    ] {
      run_echo("names", &defs, &top, Sexp::tagged("named", vec![Sexp::str(&top)]), &values, &mut cases, &mut rep);
    }
    rep.hit("names: definition name class");
  }
  for (n1, n2) in [("a + b", "a+b"), ("Risk - Category", "Risk-Category"), ("x . y", "x.y"), ("t  Person", "t Person"), ("p * q", "p*q")] {
    let defs: Defs = vec![(n1.to_string(), Item::Simple(0, Av::None)), (n2.to_string(), Item::Simple(1, Av::None)), ("tBoth".into(), Item::Comp(vec![("s".into(), Item::Ref(n1.to_string(), Av::None)), ("n".into(), Item::Ref(n2.to_string(), Av::None))], Av::None))];
    let values: Vec<String> = vec!["\"a\"".into(), "1".into(), "true".into()];
    run_echo("names", &defs, n1, Sexp::tagged("named", vec![Sexp::str(n1)]), &values, &mut cases, &mut rep);
    run_echo("names", &defs, n2, Sexp::tagged("named", vec![Sexp::str(n2)]), &values, &mut cases, &mut rep);
    let both: Vec<String> = vec!["{s: \"a\", n: 1}".into(), "{s: 1, n: \"a\"}".into(), "{s: \"a\", n: \"a\"}".into()];
    run_echo("names", &defs, "tBoth", Sexp::tagged("named", vec![Sexp::str("tBoth")]), &both, &mut cases, &mut rep);
    rep.hit("names: two definitions differing in the blanks around a symbol");
  }

  // ---- two definitions of one name: the later one is the one that is used (`HashMap::insert` in `build`; the
  // model's `lookup`, theorem `resolution_order_counterexample`) — outside the property (names are unique in a valid
  // document), compared so that the boundary of `resolution_order_independent` is the code's
  for (first, second) in [(1usize, 0usize), (0, 1), (1, 3), (2, 2)] {
    let defs: Defs = vec![("tD".into(), Item::Simple(first, Av::None)), ("tR".into(), Item::Ref("tD".into(), Av::None)), ("tD".into(), Item::Simple(second, Av::Lits(second, 1)))];
    let values: Vec<String> = vec![lits(first)[0].to_string(), lits(second)[0].to_string(), lits(second)[1].to_string(), "null".to_string()];
    run_echo("duplicate-name", &defs, "tD", Sexp::tagged("named", vec![Sexp::str("tD")]), &values, &mut cases, &mut rep);
    run_echo("duplicate-name", &defs, "tR", Sexp::tagged("named", vec![Sexp::str("tR")]), &values, &mut cases, &mut rep);
  }


  // ---- any: the type reference Any inside item definitions (input side); expectations written out in `any_library`
  let any_lib = any_library();
  // (index into `cases`, expected value as FEEL text)
  let mut any_expect: Vec<(usize, String, &'static str)> = vec![];
  for sc in &any_lib {
    for (v, expected) in &sc.input {
      let before = cases.len();
      run_echo("any", &sc.defs, sc.top, Sexp::tagged("named", vec![Sexp::str(sc.top)]), &[v.clone()], &mut cases, &mut rep);
      if cases.len() > before {
        any_expect.push((before, expected.clone(), sc.what));
      }
    }
    run_echo("any", &sc.defs, sc.top, Sexp::tagged("named", vec![Sexp::str(sc.top)]), &sc.model_only, &mut cases, &mut rep);
    rep.hit(&format!("any: {}", sc.what));
  }
  let ws_lib = ws_library();
  for sc in &ws_lib {
    for (v, expected) in &sc.input {
      let before = cases.len();
      run_echo("item-typeref-white-space", &sc.defs, sc.top, Sexp::tagged("named", vec![Sexp::str(sc.top)]), &[v.clone()], &mut cases, &mut rep);
      if cases.len() > before {
        any_expect.push((before, expected.clone(), "white space"));
      }
    }
    run_echo("item-typeref-white-space", &sc.defs, sc.top, Sexp::tagged("named", vec![Sexp::str(sc.top)]), &sc.model_only, &mut cases, &mut rep);
    rep.hit(&format!("item-typeref-white-space: {}", sc.what));
  }

  // ---- output coercion
  let mut out_cases: Vec<Case> = vec![];
  // (index into `out_cases`, expected value as FEEL text or `null`, signature): expectations written out in the harness
  let mut out_expect: Vec<(usize, String, &'static str)> = vec![];
  {
    let mut run_out_kind = |kind: &'static str, defs: &Defs, type_ref: Option<&str>, vartype: Sexp, value: &str, out_cases: &mut Vec<Case>, rep: &mut Report| {
      let xml = output_model(defs, type_ref, value, kind);
      let r = guarded(|| match dmntk_model::parse(&xml) {
        Ok(d) => match ModelEvaluator::new(&d) {
          Ok(me) => Ok(me.evaluate_invocable("O", &FeelContext::default())),
          Err(e) => Err(e.to_string()),
        },
        Err(e) => Err(e.to_string()),
      });
      // what the declared type is applied to
      let val = if kind == "service2" { eval(&format!("{{P: {}, Q: 1}}", value)) } else { eval(value) };
      let vs = match value_sexp(&val) {
        Some(s) => s,
        None => return,
      };
      rep.hit(&format!("output-of:{}", kind));
      let obs = match r {
        Ok(Ok(v)) => value_sexp(&v).map(|s| s.to_string()).unwrap_or_else(|| format!("(unsupported {})", v)),
        Ok(Err(e)) => {
          rep.disagree(Kind::ImplVsModel, "output", "a generated model does not load", &xml, &e, "a built model");
          return;
        }
        Err(p) => format!("(panic {})", p.replace(' ', "_")),
      };
      let req = Sexp::list(vec![Sexp::atom("c11"), Sexp::atom("output"), defs_sexp(defs), vartype, vs]).to_string();
      let typed_value = if kind == "service2" { format!("{{P: {}, Q: 1}}", value) } else { value.to_string() };
      out_cases.push(Case { family: "output", req, xml, value: typed_value, obs });
    };
    let mut run_out = |defs: &Defs, type_ref: Option<&str>, vartype: Sexp, value: &str, out_cases: &mut Vec<Case>, rep: &mut Report| {
      // the same typed variable on a decision, a knowledge model and a decision service
      for kind in ["decision", "bkm", "service"] {
        run_out_kind(kind, defs, type_ref, vartype.clone(), value, out_cases, rep);
      }
    };
    for t in 0..8usize {
      let l = lits(t);
      let mut vals: Vec<String> = vec![];
      for v in value_kinds().iter().map(|s| s.to_string()).chain(l.iter().map(|s| s.to_string())) {
        vals.push(v.clone());
        vals.push(format!("[{}]", v));
        vals.push(format!("[[{}]]", v));
        vals.push(format!("[{}, {}]", l[0], v));
      }
      let stride = if thorough { 1 } else { 2 };
      let defs: Defs = vec![
        ("tS".into(), Item::Simple(t, Av::Lits(t, 1))),
        ("tL".into(), Item::CollSimple(t, Av::None)),
        ("tR".into(), Item::Ref("tS".into(), Av::None)),
        ("tLR".into(), Item::CollRef("tS".into(), Av::None)),
        ("tC".into(), Item::Comp(vec![("a".into(), Item::Simple(t, Av::None)), ("b".into(), Item::Ref("tMissing".into(), Av::None))], Av::None)),
        ("tLC".into(), Item::CollComp(vec![("a".into(), Item::Simple(t, Av::None))], Av::None)),
      ];
      for v in vals.iter().step_by(stride) {
        run_out(&vec![], Some(SIMPLE[t].1), Sexp::tagged("simple", vec![Sexp::atom(SIMPLE[t].0)]), v, &mut out_cases, &mut rep);
        for n in ["tS", "tL", "tR", "tLR"] {
          run_out(&defs, Some(n), Sexp::tagged("named", vec![Sexp::str(n)]), v, &mut out_cases, &mut rep);
        }
      }
      for v in [format!("{{a: {}}}", l[0]), format!("{{a: {}, b: 1}}", l[0]), "{a: null}".to_string(), format!("[{{a: {}}}]", l[0]), "{}".to_string(), "1".to_string(), format!("{{a: {}, z: 2}}", l[0])] {
        for n in ["tC", "tLC"] {
          run_out(&defs, Some(n), Sexp::tagged("named", vec![Sexp::str(n)]), &v, &mut out_cases, &mut rep);
        }
      }
      // a decision service with two output decisions: its result, the context {P: …, Q: 1}, against a component
      // type naming both, a collection of it, a component type naming one and a third, and a simple type
      let defs2: Defs = vec![
        ("tPQ".into(), Item::Comp(vec![("P".into(), Item::Simple(t, Av::None)), ("Q".into(), Item::Simple(1, Av::None))], Av::None)),
        ("tLPQ".into(), Item::CollComp(vec![("P".into(), Item::Simple(t, Av::None)), ("Q".into(), Item::Simple(1, Av::None))], Av::None)),
        ("tPR".into(), Item::Comp(vec![("P".into(), Item::Simple(t, Av::None)), ("R".into(), Item::Simple(0, Av::None))], Av::None)),
        ("tS".into(), Item::Simple(t, Av::None)),
      ];
      for v in [l[0].to_string(), format!("[{}]", l[0]), "null".to_string(), lits((t + 1) % 8)[0].to_string(), "{}".to_string()] {
        for n in ["tPQ", "tLPQ", "tPR", "tS"] {
          run_out_kind("service2", &defs2, Some(n), Sexp::tagged("named", vec![Sexp::str(n)]), &v, &mut out_cases, &mut rep);
        }
        run_out_kind("service2", &defs2, None, Sexp::atom("none"), &v, &mut out_cases, &mut rep);
      }
    }
    for v in value_kinds() {
      run_out(&vec![], None, Sexp::atom("none"), v, &mut out_cases, &mut rep);
      run_out(&vec![], Some("tNoSuchType"), Sexp::tagged("named", vec![Sexp::str("tNoSuchType")]), v, &mut out_cases, &mut rep);
    }
    // order / names on the output side (the allowed values are left out: they do not count for results, finding
    // F63-result-allowed-values): every arrangement of the definitions, the result typed by each of the named
    // definitions, against the expectation written out above (`ov_expected`)
    let mut typed_results = |defs: &Defs, tops: &[String], arrs: &[Vec<usize>], kinds: &[&'static str], sig: &'static str, out_cases: &mut Vec<Case>, out_expect: &mut Vec<(usize, String, &'static str)>, rep: &mut Report| {
      let defs = strip_av(defs);
      for top in tops {
        let rt = match defs.iter().find(|d| &d.0 == top).and_then(|d| resolve_rt(&defs, &d.1, 16)) {
          Some(t) => t,
          None => continue,
        };
        let values = ov_values(&rt);
        for arr in arrs {
          let arranged: Defs = arr.iter().map(|i| defs[*i].clone()).collect();
          for v in &values {
            let expected = ov_expected(v, &rt).map_or("null".to_string(), |x| x.text());
            for kind in kinds {
              let before = out_cases.len();
              run_out_kind(kind, &arranged, Some(top), Sexp::tagged("named", vec![Sexp::str(top)]), &v.text(), out_cases, rep);
              if out_cases.len() > before {
                out_expect.push((before, expected.clone(), sig));
              }
            }
          }
        }
      }
    };
    let sig_order = "typed result: the value differs from the expectation written out (item definitions that refer to each other, in some order)";
    for (defs, tops) in &order_sets {
      let arrs = arrangements(defs.len(), if thorough { 60 } else { 12 }, &mut rng);
      typed_results(defs, tops, &arrs, &["decision"], sig_order, &mut out_cases, &mut out_expect, &mut rep);
      // the first and the last arrangement also for knowledge models and decision services
      let ends = vec![arrs[0].clone(), arrs[arrs.len() - 1].clone()];
      typed_results(defs, &tops[..1], &ends, &["bkm", "service"], sig_order, &mut out_cases, &mut out_expect, &mut rep);
    }
    let sig_names = "typed result: the value differs from the expectation written out (item definition named with blanks or additional symbols)";
    for (k, name) in DEF_NAMES.iter().enumerate() {
      let mut defs = name_defs(name, k % 8);
      if k % 2 == 1 {
        defs.rotate_right(1);
      }
      let tops: Vec<String> = vec![name.to_string(), "tUse".into(), "tColl".into(), "tComp".into()];
      let id: Vec<usize> = (0..defs.len()).collect();
      typed_results(&defs, &tops, &[id], &["decision"], sig_names, &mut out_cases, &mut out_expect, &mut rep);
    }
    // white space around the referenced name, on the output side
    let sig_ws = "typed result: white space around the name an item definition refers to changes the declared type of the result";
    for sc in &ws_lib {
      for (v, expected) in &sc.output {
        let before = out_cases.len();
        run_out_kind("decision", &sc.defs, Some(sc.top), Sexp::tagged("named", vec![Sexp::str(sc.top)]), v, &mut out_cases, &mut rep);
        if out_cases.len() > before {
          out_expect.push((before, expected.clone(), sig_ws));
        }
      }
    }
    // any on the output side: the result typed by each definition of `any_library`
    let sig_any = "typed result: a result whose declared type contains Any differs from the expectation written out";
    for sc in &any_lib {
      for (v, expected) in &sc.output {
        for kind in ["decision", "bkm", "service"] {
          let before = out_cases.len();
          run_out_kind(kind, &sc.defs, Some(sc.top), Sexp::tagged("named", vec![Sexp::str(sc.top)]), v, &mut out_cases, &mut rep);
          if out_cases.len() > before {
            out_expect.push((before, expected.clone(), sig_any));
          }
        }
      }
    }
  }

  // ---- classification: typeRef {absent, built-in, other} × components × isCollection
  let mut class_reqs = vec![];
  let mut class_obs = vec![];
  let mut class_xml = vec![];
  for tr in 0..3 {
    for comps in [false, true] {
      for coll in [false, true] {
        let tref = match tr {
          0 => "",
          1 => "<typeRef>number</typeRef>",
          _ => "<typeRef>tB</typeRef>",
        };
        let xml = format!(
          r##"{}<itemDefinition name="tB"><typeRef>string</typeRef></itemDefinition><itemDefinition name="tV"{}>{}{}</itemDefinition><decision name="D" id="_d"><variable name="D"/><informationRequirement id="_r"><requiredInput href="#_x"/></informationRequirement><literalExpression><text>X</text></literalExpression></decision><inputData name="X" id="_x"><variable name="X" typeRef="tV"/></inputData></definitions>"##,
          HEAD,
          if coll { " isCollection=\"true\"" } else { "" },
          tref,
          if comps { "<itemComponent name=\"a\"><typeRef>number</typeRef></itemComponent>" } else { "" }
        );
        // observed kind: build error, or how the echo treats distinguishing values
        let obs = match guarded(|| dmntk_model::parse(&xml).map_err(|e| e.to_string()).and_then(|d| ModelEvaluator::new(&d).map_err(|e| e.to_string()))) {
          Ok(Ok(me)) => {
            let probe = |t: &str| -> bool {
              let mut c = FeelContext::default();
              c.set_entry(&"X".into(), eval(t));
              !matches!(me.evaluate_invocable("D", &c), Value::Null(_))
            };
            // which of: number, string, {a: 1}, [1], ["s"], [{a: 1}] pass
            let sig: Vec<bool> = ["1", "\"s\"", "{a: 1}", "[1]", "[\"s\"]", "[{a: 1}]"].iter().map(|t| probe(t)).collect();
            match sig.as_slice() {
              [true, false, false, false, false, false] => "simpleType",
              [false, true, false, false, false, false] => "referencedType",
              [false, false, true, false, false, false] => "componentType",
              [false, false, false, true, false, false] => "collectionOfSimpleType",
              [false, false, false, _, true, _] => "collectionOfReferencedType",
              [false, false, false, false, false, true] => "collectionOfComponentType",
              _ => "unrecognised",
            }
            .to_string()
          }
          Ok(Err(_)) => "error".to_string(),
          Err(p) => format!("panic:{}", p),
        };
        class_reqs.push(format!("(c11 classify {} {} {} {})", tr != 0, tr == 1, comps, coll));
        class_obs.push(obs);
        class_xml.push(xml);
      }
    }
  }

  // ---- ask the model
  let mut model = Model::start(&cfg.driver);
  let reqs: Vec<String> = cases.iter().map(|c| c.req.clone()).collect();
  let answers = model.ask_batch(&reqs);
  for (c, ans) in cases.iter().zip(answers.iter()) {
    let key = format!("{}|{}", c.xml, c.value);
    rep.case(&key, c.value != "absent");
    let parsed = Sexp::parse(ans);
    let (m, s, conf) = match parsed.as_ref().and_then(|p| p.as_list()) {
      Some([m, s, c]) => (m.to_string(), s.to_string(), c.to_string() == "true"),
      _ => {
        rep.disagree(Kind::ImplVsModel, c.family, "driver-error", &c.req, &c.obs, ans);
        continue;
      }
    };
    rep.hit(&format!("{}: {}", c.family, if conf { "conforming value" } else if c.obs == "null" { "non-conforming value → null" } else { "non-conforming value → partly nulled" }));
    let input = format!("value {} | {} | {}", c.value, c.xml, c.req);
    if c.obs != m {
      rep.disagree(Kind::ImplVsModel, c.family, "typed input: implementation differs from the model", &input, &c.obs, &m);
    }
    if c.obs != s {
      // which known deviation the definitions contain (a referencing definition with allowed
      // values; a collection of a referenced type)
      let has_ref_av = {
        let mut found = false;
        let mut rest = c.req.as_str();
        while let Some(p) = rest.find("(ref (s") {
          let tail = &rest[p + 7..];
          if let Some(q) = tail.find(')') {
            if !tail[q + 1..].trim_start().starts_with("none") {
              found = true;
            }
          }
          rest = &rest[p + 7..];
        }
        found
      };
      let has_coll_ref = c.req.contains("(collRef ");
      let sig = if c.family == "order" {
        "typed input: result differs from the specification (item definitions that refer to each other, in some order)".to_string()
      } else if c.family == "names" {
        "typed input: result differs from the specification (item definition named with blanks or additional symbols)".to_string()
      } else if c.family == "item-typeref-white-space" {
        "typed input: result differs from the specification (white space around the name an item definition refers to)".to_string()
      } else if c.family == "any" {
        "typed input: result differs from the specification (the type reference Any inside an item definition)".to_string()
      } else if has_coll_ref && !has_ref_av {
        "collection of a referenced type: a non-conforming item is replaced by null inside the list instead of the list becoming null".to_string()
      } else if has_ref_av && !has_coll_ref {
        "allowed values of an item definition that references another item definition are ignored".to_string()
      } else if has_ref_av && has_coll_ref {
        "typed input: both known deviations present (referenced type with allowed values, collection of a referenced type)".to_string()
      } else {
        "typed input: result differs from the specification".to_string()
      };
      rep.disagree(Kind::ImplVsSpec, c.family, &sig, &input, &c.obs, &s);
    }
    // the law itself: conforming ⇒ unchanged
    if conf {
      let sent = value_sexp(&eval(&c.value)).map(|s| s.to_string()).unwrap_or_default();
      if c.obs != sent {
        let sig = "a conforming input value does not reach the decision logic unchanged";
        rep.disagree(Kind::ImplVsSpec, c.family, sig, &input, &c.obs, &sent);
      }
    }
    if c.family == "tree" && !conf && c.obs != "null" {
      rep.sample(json!({"value": c.value, "xml": c.xml, "implementation": c.obs, "model_spec_conforms": ans}));
    }
  }
  for (ix, expected, what) in &any_expect {
    let c = &cases[*ix];
    let exp = value_sexp(&eval(expected)).map(|s| s.to_string()).unwrap_or_default();
    rep.hit(&format!("any: against the written-out expectation ({})", if exp == "null" { "null" } else if c.value == *expected { "unchanged" } else { "partly nulled" }));
    if c.obs != exp {
      let sig = if what.contains("resembles") {
        "typed input: a type reference that only resembles Any is taken for a type"
      } else if what.starts_with("null item of a collection of a definition standing for Any") {
        "typed input: a null item of a collection of a definition that stands for Any makes the whole list null"
      } else if *what == "white space" {
        "typed input: white space around the name an item definition refers to makes the input null"
      } else {
        "typed input: a value in a position of the type Any (item definition, component or collection item) does not reach the decision logic as the written-out expectation says"
      };
      rep.disagree(Kind::ImplVsSpec, c.family, sig, &format!("value {} | {} | {}", c.value, c.xml, what), &c.obs, &exp);
    }
  }
  let reqs: Vec<String> = out_cases.iter().map(|c| c.req.clone()).collect();
  let answers = model.ask_batch(&reqs);
  for (c, ans) in out_cases.iter().zip(answers.iter()) {
    rep.case(&format!("{}|{}", c.xml, c.value), true);
    let m = match Sexp::parse(ans).as_ref().and_then(|p| p.as_list()) {
      Some([m]) => m.to_string(),
      _ => {
        rep.disagree(Kind::ImplVsModel, c.family, "driver-error", &c.req, &c.obs, ans);
        continue;
      }
    };
    let sent = value_sexp(&eval(&c.value)).map(|s| s.to_string()).unwrap_or_default();
    rep.hit(&format!("output: {}", if c.obs == sent { "unchanged" } else if c.obs == "null" { "null" } else if c.obs == format!("(l {})", sent) { "wrapped" } else { "unwrapped" }));
    if c.obs != m {
      rep.disagree(Kind::ImplVsModel, c.family, "typed output: implementation differs from the model", &format!("value {} | {} | {}", c.value, c.xml, c.req), &c.obs, &m);
    }
    // the law: unchanged, [v], the single item, or null
    let ok = c.obs == sent || c.obs == "null" || c.obs == format!("(l {})", sent) || sent == format!("(l {})", c.obs);
    if !ok {
      rep.disagree(Kind::ImplVsSpec, c.family, "typed output is neither the value, its singleton list, its single item nor null", &format!("value {} | {}", c.value, c.xml), &c.obs, &sent);
    }
  }
  for (ix, expected, sig) in &out_expect {
    let c = &out_cases[*ix];
    let exp = if expected == "null" { "null".to_string() } else { value_sexp(&eval(expected)).map(|s| s.to_string()).unwrap_or_default() };
    let family = if sig.contains("in some order") { "order" } else if sig.contains("contains Any") { "any" } else if sig.contains("white space around the name") { "item-typeref-white-space" } else { "names" };
    rep.hit(&format!("{}: typed result against the written-out expectation ({})", family, if exp == "null" { "null" } else { "a value" }));
    if c.obs != exp {
      rep.disagree(Kind::ImplVsSpec, family, sig, &format!("value {} | {}", c.value, c.xml), &c.obs, &exp);
    }
  }
  let answers = model.ask_batch(&class_reqs);
  for ((req, obs), (ans, xml)) in class_reqs.iter().zip(class_obs.iter()).zip(answers.iter().zip(class_xml.iter())) {
    rep.case(req, true);
    rep.hit(&format!("classify: {}", obs));
    if obs != ans {
      rep.disagree(Kind::ImplVsModel, "classify", "item definition classification differs from the model", &format!("{} | {}", req, xml), obs, ans);
    }
  }
  rep.model_requests = model.requests;
  crate::c04::run_expectations(&mut rep, &expectations());
  rep
}

/// Written-out expectations (see `c04::Expectation`): what the property text prescribes for small models, written
/// down by hand — the behaviours reviewers reported against the letter of the property.
fn expectations() -> Vec<crate::c04::Expectation> {
  use crate::c04::Expectation;
  let defs = concat!(
    "<itemDefinition name=\"tPerson\"><itemComponent name=\"name\"><typeRef>string</typeRef></itemComponent><itemComponent name=\"age\"><typeRef>number</typeRef></itemComponent></itemDefinition>",
    "<itemDefinition name=\"tPersons\" isCollection=\"true\"><typeRef>tPerson</typeRef></itemDefinition>",
    "<itemDefinition name=\"tNums\" isCollection=\"true\"><typeRef>number</typeRef></itemDefinition>",
    "<itemDefinition name=\"tSmall\"><typeRef>number</typeRef><allowedValues><text>[1..10]</text></allowedValues></itemDefinition>",
    "<itemDefinition name=\"tPick\" isCollection=\"true\"><typeRef>number</typeRef><allowedValues><text>1,2,3</text></allowedValues></itemDefinition>"
  );
  // `In` echoes the input `x` of the type, `Out` has an output variable of the type and the value as logic
  let echo = |type_ref: &str| -> String {
    format!(
      "{}<inputData name=\"x\" id=\"_x\"><variable name=\"x\" typeRef=\"{}\"/></inputData><decision name=\"In\" id=\"_in\"><variable name=\"In\"/><informationRequirement><requiredInput href=\"#_x\"/></informationRequirement><literalExpression><text>x</text></literalExpression></decision>",
      defs, type_ref
    )
  };
  let out = |type_ref: &str, value: &str| -> String {
    format!("{}<decision name=\"Out\" id=\"_out\"><variable name=\"Out\" typeRef=\"{}\"/><literalExpression><text>{}</text></literalExpression></decision>", defs, type_ref, value)
  };
  let mut v = vec![];
  let mut add = |family: &'static str, signature: &'static str, body: String, invocable: &'static str, input: &'static str, expected: &'static str| {
    v.push(Expectation { family, signature, body, invocable, input, expected });
  };
  // C11-a
  let sig = "white space around the type reference of an input variable makes the input null";
  add("expect-typeref-white-space", sig, echo(" number "), "In", "{x: 1}", "1");
  add("expect-typeref-white-space", sig, echo(" number "), "In", "{x: \"a\"}", "null");
  add("expect-typeref-white-space", sig, echo(" tSmall "), "In", "{x: 5}", "5");
  add("expect-typeref-white-space", sig, echo(" tSmall "), "In", "{x: 50}", "null");
  // C11-b
  let sig = "input data of the type Any is bound to null";
  add("expect-any-input", sig, echo("Any"), "In", "{x: 7}", "7");
  add("expect-any-input", sig, echo("Any"), "In", "{x: {a: [1, \"b\"]}}", "{a: [1, \"b\"]}");
  // C11-c: a list each of whose items is returned unchanged as a result of the item type
  let sig = "a list result is replaced by null although each of its items is returned unchanged as a result of the item type (items of different shapes)";
  add("expect-list-result", sig, out("tPerson", "{name: \"b\", age: 2, x: 1}"), "Out", "{}", "{name: \"b\", age: 2, x: 1}");
  add("expect-list-result", sig, out("tPersons", "[{name: \"a\", age: 1}, {name: \"b\", age: 2}]"), "Out", "{}", "[{name: \"a\", age: 1}, {name: \"b\", age: 2}]");
  add("expect-list-result", sig, out("tPersons", "[{name: \"a\", age: 1}, {name: \"b\", age: 2, x: 1}]"), "Out", "{}", "[{name: \"a\", age: 1}, {name: \"b\", age: 2, x: 1}]");
  // C11-d
  let sig = "the allowed values of the item definition of an output variable are not applied to the result";
  add("expect-result-allowed-values", sig, echo("tSmall"), "In", "{x: 100}", "null");
  add("expect-result-allowed-values", sig, out("tSmall", "5"), "Out", "{}", "5");
  add("expect-result-allowed-values", sig, out("tSmall", "100"), "Out", "{}", "null");
  // C11-e
  let sig = "the allowed values of a collection item definition are tested against the whole list instead of its items";
  add("expect-collection-allowed-values", sig, echo("tPick"), "In", "{x: [1, 5]}", "null");
  add("expect-collection-allowed-values", sig, echo("tPick"), "In", "{x: [1, 2]}", "[1, 2]");
  add("expect-collection-allowed-values", sig, echo("tPick"), "In", "{x: [1]}", "[1]");
  // C11-f: the same value, the same type: a result is returned unchanged, an input loses an entry
  let sig = "a component value with an additional entry is returned unchanged as a result but loses the entry as an input";
  add("expect-additional-entry", sig, out("tPerson", "{name: \"b\", age: 2, x: 1}"), "Out", "{}", "{name: \"b\", age: 2, x: 1}");
  add("expect-additional-entry", sig, echo("tPerson"), "In", "{x: {name: \"b\", age: 2, x: 1}}", "{name: \"b\", age: 2, x: 1}");
  v
}
