//! C11 — typed inputs and outputs: conforming values pass unchanged, others become null.
//!
//! Implementation: generated models — item definitions (simple types with/without allowed
//! values, referenced, component, collection-of each, depth ≤ 3), an input data `X` of the type
//! and a decision `D` that echoes `X` (so the decision result shows what reached the logic);
//! decisions `O` with a typed output variable whose logic is a literal value (output coercion);
//! every typeRef / components / isCollection combination (classification).  All through
//! `dmntk_model::parse → ModelEvaluator::new → evaluate_invocable`.
//! Model: `Dmn.ID.varCheck`, `Dmn.ID.coerceOutput`, `Dmn.ID.classify`; specification:
//! `Dmn.ID.Spec.varProject` (all through the driver).

use crate::c03::{value_sexp, xml_escape};
use crate::model::Model;
use crate::report::{Kind, Report};
use crate::rng::Rng;
use crate::sexp::Sexp;
use crate::util::guarded;
use crate::Cfg;
use dmntk_feel::context::FeelContext;
use dmntk_feel::values::Value;
use dmntk_feel::Scope;
use dmntk_model_evaluator::ModelEvaluator;
use serde_json::json;

const SIMPLE: [(&str, &str); 8] = [
  ("string", "string"),
  ("number", "number"),
  ("boolean", "boolean"),
  ("date", "date"),
  ("time", "time"),
  ("dateTime", "dateTime"),
  ("dtDur", "dayTimeDuration"),
  ("ymDur", "yearMonthDuration"),
];

/// Literals (FEEL text) of each simple type.
fn lits(t: usize) -> Vec<&'static str> {
  match t {
    0 => vec!["\"a\"", "\"b\"", "\"c\""],
    1 => vec!["1", "2", "3"],
    2 => vec!["true", "false"],
    3 => vec!["date(\"2020-01-01\")", "date(\"2020-01-02\")", "date(\"2021-06-30\")"],
    4 => vec!["time(\"10:00:00\")", "time(\"11:30:00\")", "time(\"23:59:59\")"],
    5 => vec!["date and time(\"2020-01-01T10:00:00\")", "date and time(\"2020-01-02T11:30:00\")", "date and time(\"2021-06-30T00:00:00\")"],
    6 => vec!["duration(\"P1D\")", "duration(\"PT2H\")", "duration(\"P3DT4H\")"],
    _ => vec!["duration(\"P1Y\")", "duration(\"P2M\")", "duration(\"P1Y6M\")"],
  }
}

#[derive(Clone, Debug)]
enum Av {
  None,
  /// the first `n` literals of the type
  Lits(usize, usize),
  Cmp(&'static str, i64),
}

#[derive(Clone, Debug)]
enum Item {
  Simple(usize, Av),
  Ref(String, Av),
  Comp(Vec<(String, Item)>, Av),
  CollSimple(usize, Av),
  CollRef(String, Av),
  CollComp(Vec<(String, Item)>, Av),
}

fn eval(text: &str) -> Value {
  let s = Scope::default();
  match dmntk_feel_parser::parse_expression(&s, text, false).ok().and_then(|n| dmntk_feel_evaluator::evaluate(&s, &n).ok()) {
    Some(v) => v,
    None => Value::Null(None),
  }
}

impl Av {
  fn sexp(&self) -> Sexp {
    match self {
      Av::None => Sexp::atom("none"),
      Av::Lits(t, n) => Sexp::tagged("lits", lits(*t).iter().take(*n).map(|l| value_sexp(&eval(l)).unwrap_or(Sexp::atom("null"))).collect()),
      Av::Cmp(op, n) => Sexp::tagged("cmp", vec![Sexp::atom(*op), Sexp::int(*n)]),
    }
  }
  fn xml(&self) -> String {
    let text = match self {
      Av::None => return String::new(),
      Av::Lits(t, n) => lits(*t).iter().take(*n).cloned().collect::<Vec<_>>().join(","),
      Av::Cmp(op, n) => format!(
        "{} {}",
        match *op {
          "lt" => "<",
          "le" => "<=",
          "gt" => ">",
          _ => ">=",
        },
        n
      ),
    };
    format!("<allowedValues><text>{}</text></allowedValues>", xml_escape(&text))
  }
}

impl Item {
  fn sexp(&self) -> Sexp {
    let comps = |cs: &Vec<(String, Item)>| Sexp::list(cs.iter().map(|(n, i)| Sexp::list(vec![Sexp::str(n), i.sexp()])).collect());
    match self {
      Item::Simple(t, av) => Sexp::tagged("simple", vec![Sexp::atom(SIMPLE[*t].0), av.sexp()]),
      Item::Ref(n, av) => Sexp::tagged("ref", vec![Sexp::str(n), av.sexp()]),
      Item::Comp(cs, av) => Sexp::tagged("comp", vec![comps(cs), av.sexp()]),
      Item::CollSimple(t, av) => Sexp::tagged("collSimple", vec![Sexp::atom(SIMPLE[*t].0), av.sexp()]),
      Item::CollRef(n, av) => Sexp::tagged("collRef", vec![Sexp::str(n), av.sexp()]),
      Item::CollComp(cs, av) => Sexp::tagged("collComp", vec![comps(cs), av.sexp()]),
    }
  }
  /// `<itemDefinition name=…>` (top level) or `<itemComponent name=…>`.
  fn xml(&self, tag: &str, name: &str) -> String {
    let (coll, inner) = match self {
      Item::Simple(t, av) => (false, format!("<typeRef>{}</typeRef>{}", SIMPLE[*t].1, av.xml())),
      Item::CollSimple(t, av) => (true, format!("<typeRef>{}</typeRef>{}", SIMPLE[*t].1, av.xml())),
      Item::Ref(n, av) => (false, format!("<typeRef>{}</typeRef>{}", n, av.xml())),
      Item::CollRef(n, av) => (true, format!("<typeRef>{}</typeRef>{}", n, av.xml())),
      Item::Comp(cs, av) => (false, format!("{}{}", av.xml(), cs.iter().map(|(n, i)| i.xml("itemComponent", n)).collect::<String>())),
      Item::CollComp(cs, av) => (true, format!("{}{}", av.xml(), cs.iter().map(|(n, i)| i.xml("itemComponent", n)).collect::<String>())),
    };
    format!("<{} name=\"{}\"{}>{}</{}>", tag, name, if coll { " isCollection=\"true\"" } else { "" }, inner, tag)
  }
}

type Defs = Vec<(String, Item)>;

fn defs_sexp(defs: &Defs) -> Sexp {
  Sexp::list(defs.iter().map(|(n, i)| Sexp::list(vec![Sexp::str(n), i.sexp()])).collect())
}

fn defs_xml(defs: &Defs) -> String {
  defs.iter().map(|(n, i)| i.xml("itemDefinition", n)).collect()
}

const HEAD: &str = r#"<?xml version="1.0" encoding="UTF-8"?><definitions namespace="ns" name="m" id="_m" xmlns="https://www.omg.org/spec/DMN/20191111/MODEL/">"#;

/// Model whose decision `D` echoes its input `X` of type `type_ref`.
fn echo_model(defs: &Defs, type_ref: &str) -> String {
  format!(
    r##"{}{}<decision name="D" id="_d"><variable name="D"/><informationRequirement id="_r"><requiredInput href="#_x"/></informationRequirement><literalExpression><text>X</text></literalExpression></decision><inputData name="X" id="_x"><variable name="X" typeRef="{}"/></inputData></definitions>"##,
    HEAD,
    defs_xml(defs),
    type_ref
  )
}

/// Model whose invocable `O` — a decision, a knowledge model, a decision service with one output decision or with
/// two (`P` carrying the value, `Q` = 1; the typed result is the context of both) — has a typed output variable
/// and a literal value as logic.
fn output_model(defs: &Defs, type_ref: Option<&str>, value: &str, kind: &str) -> String {
  let ty = match type_ref {
    Some(t) => format!(" typeRef=\"{}\"", t),
    None => String::new(),
  };
  let v = xml_escape(value);
  let body = match kind {
    "bkm" => format!(
      r##"<businessKnowledgeModel name="O" id="_o"><variable name="O"{}/><encapsulatedLogic><literalExpression><text>{}</text></literalExpression></encapsulatedLogic></businessKnowledgeModel>"##,
      ty, v
    ),
    "service" => format!(
      r##"<decision name="P" id="_p"><variable name="P"/><literalExpression><text>{}</text></literalExpression></decision><decisionService name="O" id="_o"><variable name="O"{}/><outputDecision href="#_p"/></decisionService>"##,
      v, ty
    ),
    "service2" => format!(
      r##"<decision name="P" id="_p"><variable name="P"/><literalExpression><text>{}</text></literalExpression></decision><decision name="Q" id="_q"><variable name="Q"/><literalExpression><text>1</text></literalExpression></decision><decisionService name="O" id="_o"><variable name="O"{}/><outputDecision href="#_p"/><outputDecision href="#_q"/></decisionService>"##,
      v, ty
    ),
    _ => format!(r##"<decision name="O" id="_o"><variable name="O"{}/><literalExpression><text>{}</text></literalExpression></decision>"##, ty, v),
  };
  format!("{}{}{}</definitions>", HEAD, defs_xml(defs), body)
}

/// The value kinds of the matrix (FEEL text).
fn value_kinds() -> Vec<&'static str> {
  vec![
    "null",
    "true",
    "2",
    "7",
    "\"a\"",
    "\"z\"",
    "date(\"2020-01-01\")",
    "time(\"10:00:00\")",
    "date and time(\"2020-01-01T10:00:00\")",
    "duration(\"P1D\")",
    "duration(\"P1Y\")",
    "[]",
    "{}",
    "{a: 1}",
  ]
}

/// A value (FEEL text) that conforms to the item definition, when there is one.
fn conforming(item: &Item, defs: &Defs, rng: &mut Rng, depth: usize) -> String {
  let pick_lit = |t: usize, av: &Av, rng: &mut Rng| -> String {
    match av {
      Av::Lits(_, n) => lits(t)[rng.below(*n as u64) as usize].to_string(),
      Av::Cmp(op, n) => format!("{}", if *op == "lt" || *op == "le" { n - 1 } else { n + 1 }),
      Av::None => rng.pick(&lits(t)).to_string(),
    }
  };
  let comps = |cs: &Vec<(String, Item)>, rng: &mut Rng| -> String { format!("{{{}}}", cs.iter().map(|(n, i)| format!("{}: {}", n, conforming(i, defs, rng, depth + 1))).collect::<Vec<_>>().join(", ")) };
  match item {
    Item::Simple(t, av) => pick_lit(*t, av, rng),
    Item::CollSimple(t, _) => {
      let n = rng.below(3);
      format!("[{}]", (0..n).map(|_| rng.pick(&lits(*t)).to_string()).collect::<Vec<_>>().join(", "))
    }
    Item::Ref(n, _) => match defs.iter().find(|d| &d.0 == n) {
      Some((_, i)) if depth < 6 => conforming(i, defs, rng, depth + 1),
      _ => "null".to_string(),
    },
    Item::CollRef(n, _) => match defs.iter().find(|d| &d.0 == n) {
      Some((_, i)) if depth < 6 => {
        let k = rng.below(3);
        format!("[{}]", (0..k).map(|_| conforming(i, defs, rng, depth + 1)).collect::<Vec<_>>().join(", "))
      }
      _ => "[]".to_string(),
    },
    Item::Comp(cs, _) => comps(cs, rng),
    Item::CollComp(cs, _) => {
      let k = rng.below(3);
      format!("[{}]", (0..k).map(|_| comps(cs, rng)).collect::<Vec<_>>().join(", "))
    }
  }
}

/// Replaces one randomly chosen sub-value (at any position of the text's bracket structure)
/// by a value of another kind.
fn violate(text: &str, rng: &mut Rng) -> String {
  // positions where a value starts: after '[', ',', ':' or at 0 (outside strings)
  let b = text.as_bytes();
  let mut starts = vec![0usize];
  let mut in_str = false;
  for (i, c) in b.iter().enumerate() {
    if *c == b'"' {
      in_str = !in_str;
    }
    if !in_str && (*c == b'[' || *c == b',' || *c == b':') {
      let mut j = i + 1;
      while j < b.len() && b[j] == b' ' {
        j += 1;
      }
      if j < b.len() && b[j] != b']' && b[j] != b'}' {
        starts.push(j);
      }
    }
  }
  let s = *rng.pick(&starts);
  // the value ends at the matching ',' / ']' / '}' at depth 0
  let mut depth = 0i32;
  let mut e = s;
  in_str = false;
  while e < b.len() {
    let c = b[e];
    if c == b'"' {
      in_str = !in_str;
    }
    if !in_str {
      if c == b'[' || c == b'{' || c == b'(' {
        depth += 1;
      }
      if c == b']' || c == b'}' || c == b')' {
        if depth == 0 {
          break;
        }
        depth -= 1;
      }
      if c == b',' && depth == 0 {
        break;
      }
    }
    e += 1;
  }
  let rep = *rng.pick(&value_kinds());
  format!("{}{}{}", &text[..s], rep, &text[e..])
}

fn gen_av(t: usize, rng: &mut Rng) -> Av {
  match rng.below(5) {
    0 | 1 => Av::Lits(t, 1 + rng.below(2) as usize),
    2 if t == 1 => Av::Cmp(*rng.pick(&["lt", "le", "gt", "ge"]), 2),
    _ => Av::None,
  }
}

fn gen_item(rng: &mut Rng, defs: &Defs, depth: usize) -> Item {
  let k = rng.below(if depth >= 2 { 4 } else { 8 });
  let t = rng.below(8) as usize;
  let comps = |rng: &mut Rng| -> Vec<(String, Item)> {
    let n = 1 + rng.below(3) as usize;
    // declaration order need not be key order
    let names = if rng.chance(1, 2) { ["a", "b", "c"] } else { ["c", "a", "b"] };
    (0..n).map(|i| (names[i].to_string(), gen_item(rng, defs, depth + 1))).collect()
  };
  match k {
    0 | 1 => Item::Simple(t, gen_av(t, rng)),
    2 => Item::CollSimple(t, if rng.chance(1, 4) { Av::Lits(t, 2) } else { Av::None }),
    3 | 4 if !defs.is_empty() => {
      let n = rng.pick(defs).0.clone();
      let av = if rng.chance(1, 4) { Av::Lits(t, 2) } else { Av::None };
      if k == 3 {
        Item::Ref(n, av)
      } else {
        Item::CollRef(n, av)
      }
    }
    3 | 4 => Item::Simple(t, Av::None),
    5 | 6 => Item::Comp(comps(rng), if rng.chance(1, 10) { Av::Lits(1, 2) } else { Av::None }),
    _ => Item::CollComp(comps(rng), Av::None),
  }
}

/// A generated model with item definitions and an echo decision (used by C12 as a base for
/// fault enumeration).
pub fn sample_model_xml(rng: &mut Rng) -> String {
  let mut defs: Defs = vec![];
  let n_defs = 1 + rng.below(3) as usize;
  for k in 0..n_defs {
    let it = gen_item(rng, &defs, 0);
    defs.push((format!("t{}", k), it));
  }
  let top = defs.last().unwrap().0.clone();
  echo_model(&defs, &top)
}

struct Case {
  family: &'static str,
  req: String,
  xml: String,
  value: String,
  obs: String,
}

pub fn run(cfg: &Cfg) -> Report {
  let mut rep = Report::new(
    "C11",
    "generated models: (matrix) 8 simple types × {simple, collection, referenced, collection-of-referenced} × {with, without allowed values} × 14 value kinds × {bare, [v], [conforming, v], {a: v}} at top level, inside a component, inside a collection of components and inside a component of a component; (random) item-definition trees of depth ≤ 3 with conforming values and values violated at one random position; (output) typed decision outputs; (classify) all typeRef/components/isCollection combinations. Non-trivial: the declared type is not `Any` and the value is not absent; distinct by (model XML, value).",
  );
  let thorough = cfg.tier == "thorough";
  let mut rng = Rng::new(cfg.seed);
  let mut cases: Vec<Case> = vec![];

  // evaluates a batch of values against one echo model
  let mut run_echo = |family: &'static str, defs: &Defs, type_ref: &str, vartype: Sexp, values: &[String], cases: &mut Vec<Case>, rep: &mut Report| {
    let xml = echo_model(defs, type_ref);
    let built = guarded(|| match dmntk_model::parse(&xml) {
      Ok(d) => ModelEvaluator::new(&d).map_err(|e| e.to_string()),
      Err(e) => Err(e.to_string()),
    });
    let me = match built {
      Ok(Ok(m)) => m,
      Ok(Err(e)) => {
        rep.disagree(Kind::ImplVsModel, family, "a generated model does not load", &xml, &e, "a built model");
        return;
      }
      Err(p) => {
        rep.disagree(Kind::ImplVsSpec, family, "panic while loading a generated model", &xml, &p, "a built model");
        return;
      }
    };
    for v in values {
      let (ctx, vs): (FeelContext, Sexp) = if v == "absent" {
        (FeelContext::default(), Sexp::atom("absent"))
      } else {
        let val = eval(v);
        let sx = match value_sexp(&val) {
          Some(s) => s,
          None => continue,
        };
        let mut c = FeelContext::default();
        c.set_entry(&"X".into(), val);
        (c, sx)
      };
      let obs = match guarded(|| me.evaluate_invocable("D", &ctx)) {
        Ok(r) => value_sexp(&r).map(|s| s.to_string()).unwrap_or_else(|| format!("(unsupported {})", r)),
        Err(p) => format!("(panic {})", p.replace(' ', "_")),
      };
      let req = Sexp::list(vec![Sexp::atom("c11"), Sexp::atom("input"), defs_sexp(defs), Sexp::str("X"), vartype.clone(), vs]).to_string();
      cases.push(Case { family, req, xml: xml.clone(), value: v.clone(), obs });
    }
  };

  // ---- the matrix
  for t in 0..8usize {
    for with_av in [false, true] {
      let av = if with_av { Av::Lits(t, 2) } else { Av::None };
      // the four variants of the declared type, as top-level definition `tV`
      let variants: Vec<(&str, Defs)> = vec![
        ("simple", vec![("tV".into(), Item::Simple(t, av.clone()))]),
        ("collection", vec![("tV".into(), Item::CollSimple(t, av.clone()))]),
        ("referenced", vec![("tB".into(), Item::Simple(t, Av::None)), ("tV".into(), Item::Ref("tB".into(), av.clone()))]),
        ("referenced-av-in-target", vec![("tB".into(), Item::Simple(t, av.clone())), ("tV".into(), Item::Ref("tB".into(), Av::None))]),
        ("collection-of-referenced", vec![("tB".into(), Item::Simple(t, av.clone())), ("tV".into(), Item::CollRef("tB".into(), Av::None))]),
      ];
      for (vname, base) in &variants {
        let l = lits(t);
        let mut shapes: Vec<String> = vec!["absent".into()];
        let mut kinds: Vec<String> = value_kinds().iter().map(|s| s.to_string()).collect();
        kinds.extend(l.iter().map(|s| s.to_string()));
        for v in &kinds {
          shapes.push(v.clone());
          shapes.push(format!("[{}]", v));
          shapes.push(format!("[{}, {}]", l[0], v));
          shapes.push(format!("[{}, {}]", v, l[1]));
        }
        // position 1: top level
        run_echo("matrix", base, "tV", Sexp::tagged("named", vec![Sexp::str("tV")]), &shapes, &mut cases, &mut rep);
        rep.hit(&format!("matrix {} {}", vname, if with_av { "with allowed values" } else { "without allowed values" }));
        // position 2: inside a component; 3: inside a collection of components; 4: component of a component
        let inner = base.last().unwrap().1.clone();
        let mut d2 = base.clone();
        d2.pop();
        let mut nested: Vec<(String, Item)> = vec![
          ("tC".into(), Item::Comp(vec![("b".into(), Item::Simple(1, Av::None)), ("a".into(), inner.clone())], Av::None)),
          ("tL".into(), Item::CollComp(vec![("a".into(), inner.clone())], Av::None)),
          ("tD".into(), Item::Comp(vec![("c".into(), Item::Comp(vec![("a".into(), inner.clone())], Av::None))], Av::None)),
        ];
        d2.append(&mut nested);
        let sub: Vec<&String> = shapes.iter().filter(|s| *s != "absent").collect();
        let stride = if thorough { 1 } else { 3 };
        let v2: Vec<String> = sub.iter().step_by(stride).map(|v| format!("{{a: {}, b: 1}}", v)).chain(["{b: 1}".to_string(), "{a: 1}".to_string(), "{a: 1, b: 1, z: 1}".to_string(), "1".to_string()]).collect();
        run_echo("matrix", &d2, "tC", Sexp::tagged("named", vec![Sexp::str("tC")]), &v2, &mut cases, &mut rep);
        let v3: Vec<String> = sub.iter().step_by(stride).map(|v| format!("[{{a: {}}}, {{a: {}}}]", l[0], v)).chain(["[1]".to_string(), "[{}]".to_string(), "{a: 1}".to_string()]).collect();
        run_echo("matrix", &d2, "tL", Sexp::tagged("named", vec![Sexp::str("tL")]), &v3, &mut cases, &mut rep);
        let v4: Vec<String> = sub.iter().step_by(stride).map(|v| format!("{{c: {{a: {}}}}}", v)).chain(["{c: 1}".to_string(), "{c: {}}".to_string()]).collect();
        run_echo("matrix", &d2, "tD", Sexp::tagged("named", vec![Sexp::str("tD")]), &v4, &mut cases, &mut rep);
      }
    }
    // the built-in type named directly by the variable (the nine closures of build_variable_evaluator)
    let mut shapes: Vec<String> = vec!["absent".into()];
    for v in value_kinds() {
      shapes.push(v.to_string());
      shapes.push(format!("[{}]", v));
    }
    shapes.extend(lits(t).iter().map(|s| s.to_string()));
    run_echo("variable", &vec![], SIMPLE[t].1, Sexp::tagged("simple", vec![Sexp::atom(SIMPLE[t].0)]), &shapes, &mut cases, &mut rep);
  }
  // white space around the name of a built-in type is not a part of the name; the type `Any` accepts every value
  // (`Variable::try_from` trims, the arm "Any" of build_variable_evaluator; the driver resolves the text of the
  // attribute with `VarType.ofRef`)
  for (t, pad) in [(1usize, " number "), (0, "string "), (2, "  boolean"), (3, " date ")] {
    let mut shapes: Vec<String> = vec!["absent".into()];
    shapes.extend(value_kinds().iter().map(|s| s.to_string()));
    shapes.extend(lits(t).iter().map(|s| s.to_string()));
    run_echo("variable", &vec![], pad, Sexp::tagged("ref", vec![Sexp::str(pad)]), &shapes, &mut cases, &mut rep);
  }
  for any in ["Any", " Any "] {
    let mut shapes: Vec<String> = vec!["absent".into()];
    for v in value_kinds() {
      shapes.push(v.to_string());
      shapes.push(format!("[{}]", v));
      shapes.push(format!("{{a: {}}}", v));
    }
    run_echo("variable", &vec![], any, Sexp::tagged("ref", vec![Sexp::str(any)]), &shapes, &mut cases, &mut rep);
  }
  // a variable whose type reference names nothing
  {
    let shapes: Vec<String> = value_kinds().iter().map(|s| s.to_string()).collect();
    run_echo("variable", &vec![], "tNoSuchType", Sexp::tagged("named", vec![Sexp::str("tNoSuchType")]), &shapes, &mut cases, &mut rep);
  }

  // ---- random trees
  let n_trees = if thorough { 6000 } else { 700 };
  for _ in 0..n_trees {
    let mut defs: Defs = vec![];
    let n_defs = 1 + rng.below(3) as usize;
    for k in 0..n_defs {
      let it = gen_item(&mut rng, &defs, 0);
      defs.push((format!("t{}", k), it));
    }
    let top = defs.last().unwrap().clone();
    let mut values = vec![];
    for _ in 0..3 {
      let c = conforming(&top.1, &defs, &mut rng, 0);
      values.push(c.clone());
      values.push(violate(&c, &mut rng));
      values.push(violate(&violate(&c, &mut rng), &mut rng));
    }
    values.push(rng.pick(&value_kinds()).to_string());
    run_echo("tree", &defs, &top.0, Sexp::tagged("named", vec![Sexp::str(&top.0)]), &values, &mut cases, &mut rep);
  }

  // ---- output coercion
  let mut out_cases: Vec<Case> = vec![];
  {
    let mut run_out_kind = |kind: &'static str, defs: &Defs, type_ref: Option<&str>, vartype: Sexp, value: &str, out_cases: &mut Vec<Case>, rep: &mut Report| {
      let xml = output_model(defs, type_ref, value, kind);
      let r = guarded(|| match dmntk_model::parse(&xml) {
        Ok(d) => match ModelEvaluator::new(&d) {
          Ok(me) => Ok(me.evaluate_invocable("O", &FeelContext::default())),
          Err(e) => Err(e.to_string()),
        },
        Err(e) => Err(e.to_string()),
      });
      // what the declared type is applied to
      let val = if kind == "service2" { eval(&format!("{{P: {}, Q: 1}}", value)) } else { eval(value) };
      let vs = match value_sexp(&val) {
        Some(s) => s,
        None => return,
      };
      rep.hit(&format!("output-of:{}", kind));
      let obs = match r {
        Ok(Ok(v)) => value_sexp(&v).map(|s| s.to_string()).unwrap_or_else(|| format!("(unsupported {})", v)),
        Ok(Err(e)) => {
          rep.disagree(Kind::ImplVsModel, "output", "a generated model does not load", &xml, &e, "a built model");
          return;
        }
        Err(p) => format!("(panic {})", p.replace(' ', "_")),
      };
      let req = Sexp::list(vec![Sexp::atom("c11"), Sexp::atom("output"), defs_sexp(defs), vartype, vs]).to_string();
      let typed_value = if kind == "service2" { format!("{{P: {}, Q: 1}}", value) } else { value.to_string() };
      out_cases.push(Case { family: "output", req, xml, value: typed_value, obs });
    };
    let mut run_out = |defs: &Defs, type_ref: Option<&str>, vartype: Sexp, value: &str, out_cases: &mut Vec<Case>, rep: &mut Report| {
      // the same typed variable on a decision, a knowledge model and a decision service
      for kind in ["decision", "bkm", "service"] {
        run_out_kind(kind, defs, type_ref, vartype.clone(), value, out_cases, rep);
      }
    };
    for t in 0..8usize {
      let l = lits(t);
      let mut vals: Vec<String> = vec![];
      for v in value_kinds().iter().map(|s| s.to_string()).chain(l.iter().map(|s| s.to_string())) {
        vals.push(v.clone());
        vals.push(format!("[{}]", v));
        vals.push(format!("[[{}]]", v));
        vals.push(format!("[{}, {}]", l[0], v));
      }
      let stride = if thorough { 1 } else { 2 };
      let defs: Defs = vec![
        ("tS".into(), Item::Simple(t, Av::Lits(t, 1))),
        ("tL".into(), Item::CollSimple(t, Av::None)),
        ("tR".into(), Item::Ref("tS".into(), Av::None)),
        ("tLR".into(), Item::CollRef("tS".into(), Av::None)),
        ("tC".into(), Item::Comp(vec![("a".into(), Item::Simple(t, Av::None)), ("b".into(), Item::Ref("tMissing".into(), Av::None))], Av::None)),
        ("tLC".into(), Item::CollComp(vec![("a".into(), Item::Simple(t, Av::None))], Av::None)),
      ];
      for v in vals.iter().step_by(stride) {
        run_out(&vec![], Some(SIMPLE[t].1), Sexp::tagged("simple", vec![Sexp::atom(SIMPLE[t].0)]), v, &mut out_cases, &mut rep);
        for n in ["tS", "tL", "tR", "tLR"] {
          run_out(&defs, Some(n), Sexp::tagged("named", vec![Sexp::str(n)]), v, &mut out_cases, &mut rep);
        }
      }
      for v in [format!("{{a: {}}}", l[0]), format!("{{a: {}, b: 1}}", l[0]), "{a: null}".to_string(), format!("[{{a: {}}}]", l[0]), "{}".to_string(), "1".to_string(), format!("{{a: {}, z: 2}}", l[0])] {
        for n in ["tC", "tLC"] {
          run_out(&defs, Some(n), Sexp::tagged("named", vec![Sexp::str(n)]), &v, &mut out_cases, &mut rep);
        }
      }
      // a decision service with two output decisions: its result, the context {P: …, Q: 1}, against a component
      // type naming both, a collection of it, a component type naming one and a third, and a simple type
      let defs2: Defs = vec![
        ("tPQ".into(), Item::Comp(vec![("P".into(), Item::Simple(t, Av::None)), ("Q".into(), Item::Simple(1, Av::None))], Av::None)),
        ("tLPQ".into(), Item::CollComp(vec![("P".into(), Item::Simple(t, Av::None)), ("Q".into(), Item::Simple(1, Av::None))], Av::None)),
        ("tPR".into(), Item::Comp(vec![("P".into(), Item::Simple(t, Av::None)), ("R".into(), Item::Simple(0, Av::None))], Av::None)),
        ("tS".into(), Item::Simple(t, Av::None)),
      ];
      for v in [l[0].to_string(), format!("[{}]", l[0]), "null".to_string(), lits((t + 1) % 8)[0].to_string(), "{}".to_string()] {
        for n in ["tPQ", "tLPQ", "tPR", "tS"] {
          run_out_kind("service2", &defs2, Some(n), Sexp::tagged("named", vec![Sexp::str(n)]), &v, &mut out_cases, &mut rep);
        }
        run_out_kind("service2", &defs2, None, Sexp::atom("none"), &v, &mut out_cases, &mut rep);
      }
    }
    for v in value_kinds() {
      run_out(&vec![], None, Sexp::atom("none"), v, &mut out_cases, &mut rep);
      run_out(&vec![], Some("tNoSuchType"), Sexp::tagged("named", vec![Sexp::str("tNoSuchType")]), v, &mut out_cases, &mut rep);
    }
  }

  // ---- classification: typeRef {absent, built-in, other} × components × isCollection
  let mut class_reqs = vec![];
  let mut class_obs = vec![];
  let mut class_xml = vec![];
  for tr in 0..3 {
    for comps in [false, true] {
      for coll in [false, true] {
        let tref = match tr {
          0 => "",
          1 => "<typeRef>number</typeRef>",
          _ => "<typeRef>tB</typeRef>",
        };
        let xml = format!(
          r##"{}<itemDefinition name="tB"><typeRef>string</typeRef></itemDefinition><itemDefinition name="tV"{}>{}{}</itemDefinition><decision name="D" id="_d"><variable name="D"/><informationRequirement id="_r"><requiredInput href="#_x"/></informationRequirement><literalExpression><text>X</text></literalExpression></decision><inputData name="X" id="_x"><variable name="X" typeRef="tV"/></inputData></definitions>"##,
          HEAD,
          if coll { " isCollection=\"true\"" } else { "" },
          tref,
          if comps { "<itemComponent name=\"a\"><typeRef>number</typeRef></itemComponent>" } else { "" }
        );
        // observed kind: build error, or how the echo treats distinguishing values
        let obs = match guarded(|| dmntk_model::parse(&xml).map_err(|e| e.to_string()).and_then(|d| ModelEvaluator::new(&d).map_err(|e| e.to_string()))) {
          Ok(Ok(me)) => {
            let probe = |t: &str| -> bool {
              let mut c = FeelContext::default();
              c.set_entry(&"X".into(), eval(t));
              !matches!(me.evaluate_invocable("D", &c), Value::Null(_))
            };
            // which of: number, string, {a: 1}, [1], ["s"], [{a: 1}] pass
            let sig: Vec<bool> = ["1", "\"s\"", "{a: 1}", "[1]", "[\"s\"]", "[{a: 1}]"].iter().map(|t| probe(t)).collect();
            match sig.as_slice() {
              [true, false, false, false, false, false] => "simpleType",
              [false, true, false, false, false, false] => "referencedType",
              [false, false, true, false, false, false] => "componentType",
              [false, false, false, true, false, false] => "collectionOfSimpleType",
              [false, false, false, _, true, _] => "collectionOfReferencedType",
              [false, false, false, false, false, true] => "collectionOfComponentType",
              _ => "unrecognised",
            }
            .to_string()
          }
          Ok(Err(_)) => "error".to_string(),
          Err(p) => format!("panic:{}", p),
        };
        class_reqs.push(format!("(c11 classify {} {} {} {})", tr != 0, tr == 1, comps, coll));
        class_obs.push(obs);
        class_xml.push(xml);
      }
    }
  }

  // ---- ask the model
  let mut model = Model::start(&cfg.driver);
  let reqs: Vec<String> = cases.iter().map(|c| c.req.clone()).collect();
  let answers = model.ask_batch(&reqs);
  for (c, ans) in cases.iter().zip(answers.iter()) {
    let key = format!("{}|{}", c.xml, c.value);
    rep.case(&key, c.value != "absent");
    let parsed = Sexp::parse(ans);
    let (m, s, conf) = match parsed.as_ref().and_then(|p| p.as_list()) {
      Some([m, s, c]) => (m.to_string(), s.to_string(), c.to_string() == "true"),
      _ => {
        rep.disagree(Kind::ImplVsModel, c.family, "driver-error", &c.req, &c.obs, ans);
        continue;
      }
    };
    rep.hit(&format!("{}: {}", c.family, if conf { "conforming value" } else if c.obs == "null" { "non-conforming value → null" } else { "non-conforming value → partly nulled" }));
    let input = format!("value {} | {} | {}", c.value, c.xml, c.req);
    if c.obs != m {
      rep.disagree(Kind::ImplVsModel, c.family, "typed input: implementation differs from the model", &input, &c.obs, &m);
    }
    if c.obs != s {
      // which known deviation the definitions contain (a referencing definition with allowed
      // values; a collection of a referenced type)
      let has_ref_av = {
        let mut found = false;
        let mut rest = c.req.as_str();
        while let Some(p) = rest.find("(ref (s") {
          let tail = &rest[p + 7..];
          if let Some(q) = tail.find(')') {
            if !tail[q + 1..].trim_start().starts_with("none") {
              found = true;
            }
          }
          rest = &rest[p + 7..];
        }
        found
      };
      let has_coll_ref = c.req.contains("(collRef ");
      let sig = if has_coll_ref && !has_ref_av {
        "collection of a referenced type: a non-conforming item is replaced by null inside the list instead of the list becoming null".to_string()
      } else if has_ref_av && !has_coll_ref {
        "allowed values of an item definition that references another item definition are ignored".to_string()
      } else if has_ref_av && has_coll_ref {
        "typed input: both known deviations present (referenced type with allowed values, collection of a referenced type)".to_string()
      } else {
        "typed input: result differs from the specification".to_string()
      };
      rep.disagree(Kind::ImplVsSpec, c.family, &sig, &input, &c.obs, &s);
    }
    // the law itself: conforming ⇒ unchanged
    if conf {
      let sent = value_sexp(&eval(&c.value)).map(|s| s.to_string()).unwrap_or_default();
      if c.obs != sent {
        let sig = "a conforming input value does not reach the decision logic unchanged";
        rep.disagree(Kind::ImplVsSpec, c.family, sig, &input, &c.obs, &sent);
      }
    }
    if c.family == "tree" && !conf && c.obs != "null" {
      rep.sample(json!({"value": c.value, "xml": c.xml, "implementation": c.obs, "model_spec_conforms": ans}));
    }
  }
  let reqs: Vec<String> = out_cases.iter().map(|c| c.req.clone()).collect();
  let answers = model.ask_batch(&reqs);
  for (c, ans) in out_cases.iter().zip(answers.iter()) {
    rep.case(&format!("{}|{}", c.xml, c.value), true);
    let m = match Sexp::parse(ans).as_ref().and_then(|p| p.as_list()) {
      Some([m]) => m.to_string(),
      _ => {
        rep.disagree(Kind::ImplVsModel, c.family, "driver-error", &c.req, &c.obs, ans);
        continue;
      }
    };
    let sent = value_sexp(&eval(&c.value)).map(|s| s.to_string()).unwrap_or_default();
    rep.hit(&format!("output: {}", if c.obs == sent { "unchanged" } else if c.obs == "null" { "null" } else if c.obs == format!("(l {})", sent) { "wrapped" } else { "unwrapped" }));
    if c.obs != m {
      rep.disagree(Kind::ImplVsModel, c.family, "typed output: implementation differs from the model", &format!("value {} | {} | {}", c.value, c.xml, c.req), &c.obs, &m);
    }
    // the law: unchanged, [v], the single item, or null
    let ok = c.obs == sent || c.obs == "null" || c.obs == format!("(l {})", sent) || sent == format!("(l {})", c.obs);
    if !ok {
      rep.disagree(Kind::ImplVsSpec, c.family, "typed output is neither the value, its singleton list, its single item nor null", &format!("value {} | {}", c.value, c.xml), &c.obs, &sent);
    }
  }
  let answers = model.ask_batch(&class_reqs);
  for ((req, obs), (ans, xml)) in class_reqs.iter().zip(class_obs.iter()).zip(answers.iter().zip(class_xml.iter())) {
    rep.case(req, true);
    rep.hit(&format!("classify: {}", obs));
    if obs != ans {
      rep.disagree(Kind::ImplVsModel, "classify", "item definition classification differs from the model", &format!("{} | {}", req, xml), obs, ans);
    }
  }
  rep.model_requests = model.requests;
  crate::c04::run_expectations(&mut rep, &expectations());
  rep
}

/// Written-out expectations (see `c04::Expectation`): what the property text prescribes for small models, written
/// down by hand — the behaviours reviewers reported against the letter of the property.
fn expectations() -> Vec<crate::c04::Expectation> {
  use crate::c04::Expectation;
  let defs = concat!(
    "<itemDefinition name=\"tPerson\"><itemComponent name=\"name\"><typeRef>string</typeRef></itemComponent><itemComponent name=\"age\"><typeRef>number</typeRef></itemComponent></itemDefinition>",
    "<itemDefinition name=\"tPersons\" isCollection=\"true\"><typeRef>tPerson</typeRef></itemDefinition>",
    "<itemDefinition name=\"tNums\" isCollection=\"true\"><typeRef>number</typeRef></itemDefinition>",
    "<itemDefinition name=\"tSmall\"><typeRef>number</typeRef><allowedValues><text>[1..10]</text></allowedValues></itemDefinition>",
    "<itemDefinition name=\"tPick\" isCollection=\"true\"><typeRef>number</typeRef><allowedValues><text>1,2,3</text></allowedValues></itemDefinition>"
  );
  // `In` echoes the input `x` of the type, `Out` has an output variable of the type and the value as logic
  let echo = |type_ref: &str| -> String {
    format!(
      "{}<inputData name=\"x\" id=\"_x\"><variable name=\"x\" typeRef=\"{}\"/></inputData><decision name=\"In\" id=\"_in\"><variable name=\"In\"/><informationRequirement><requiredInput href=\"#_x\"/></informationRequirement><literalExpression><text>x</text></literalExpression></decision>",
      defs, type_ref
    )
  };
  let out = |type_ref: &str, value: &str| -> String {
    format!("{}<decision name=\"Out\" id=\"_out\"><variable name=\"Out\" typeRef=\"{}\"/><literalExpression><text>{}</text></literalExpression></decision>", defs, type_ref, value)
  };
  let mut v = vec![];
  let mut add = |family: &'static str, signature: &'static str, body: String, invocable: &'static str, input: &'static str, expected: &'static str| {
    v.push(Expectation { family, signature, body, invocable, input, expected });
  };
  // C11-a
  let sig = "white space around the type reference of an input variable makes the input null";
  add("expect-typeref-white-space", sig, echo(" number "), "In", "{x: 1}", "1");
  add("expect-typeref-white-space", sig, echo(" number "), "In", "{x: \"a\"}", "null");
  add("expect-typeref-white-space", sig, echo(" tSmall "), "In", "{x: 5}", "5");
  add("expect-typeref-white-space", sig, echo(" tSmall "), "In", "{x: 50}", "null");
  // C11-b
  let sig = "input data of the type Any is bound to null";
  add("expect-any-input", sig, echo("Any"), "In", "{x: 7}", "7");
  add("expect-any-input", sig, echo("Any"), "In", "{x: {a: [1, \"b\"]}}", "{a: [1, \"b\"]}");
  // C11-c: a list each of whose items is returned unchanged as a result of the item type
  let sig = "a list result is replaced by null although each of its items is returned unchanged as a result of the item type (items of different shapes)";
  add("expect-list-result", sig, out("tPerson", "{name: \"b\", age: 2, x: 1}"), "Out", "{}", "{name: \"b\", age: 2, x: 1}");
  add("expect-list-result", sig, out("tPersons", "[{name: \"a\", age: 1}, {name: \"b\", age: 2}]"), "Out", "{}", "[{name: \"a\", age: 1}, {name: \"b\", age: 2}]");
  add("expect-list-result", sig, out("tPersons", "[{name: \"a\", age: 1}, {name: \"b\", age: 2, x: 1}]"), "Out", "{}", "[{name: \"a\", age: 1}, {name: \"b\", age: 2, x: 1}]");
  // C11-d
  let sig = "the allowed values of the item definition of an output variable are not applied to the result";
  add("expect-result-allowed-values", sig, echo("tSmall"), "In", "{x: 100}", "null");
  add("expect-result-allowed-values", sig, out("tSmall", "5"), "Out", "{}", "5");
  add("expect-result-allowed-values", sig, out("tSmall", "100"), "Out", "{}", "null");
  // C11-e
  let sig = "the allowed values of a collection item definition are tested against the whole list instead of its items";
  add("expect-collection-allowed-values", sig, echo("tPick"), "In", "{x: [1, 5]}", "null");
  add("expect-collection-allowed-values", sig, echo("tPick"), "In", "{x: [1, 2]}", "[1, 2]");
  add("expect-collection-allowed-values", sig, echo("tPick"), "In", "{x: [1]}", "[1]");
  // C11-f: the same value, the same type: a result is returned unchanged, an input loses an entry
  let sig = "a component value with an additional entry is returned unchanged as a result but loses the entry as an input";
  add("expect-additional-entry", sig, out("tPerson", "{name: \"b\", age: 2, x: 1}"), "Out", "{}", "{name: \"b\", age: 2, x: 1}");
  add("expect-additional-entry", sig, echo("tPerson"), "In", "{x: {name: \"b\", age: 2, x: 1}}", "{name: \"b\", age: 2, x: 1}");
  v
}
