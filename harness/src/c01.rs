//! C01 / C13 — FEEL core expressions evaluate to the value the semantics assigns; evaluation
//! leaves the caller's scope untouched.
//!
//! Expression *text* is generated from a typed grammar of the core fragment, parsed by the
//! real parser against a generated scope, evaluated by the real evaluator, and the parsed
//! tree together with the scope is sent to the Lean model (`Dmn.Eval.eval`).

use crate::model::Model;
use crate::report::{Kind, Report};
use crate::rng::Rng;
use crate::sexp::Sexp;
use crate::util::guarded;
use crate::vals::{ast_sexp, value_sexp};
use crate::Cfg;
use dmntk_feel::context::FeelContext;
use dmntk_feel::values::Value;
use dmntk_feel::{AstNode, Name, Scope};
use serde_json::json;
use std::collections::BTreeSet;

pub mod crossargs;
pub mod folded;
pub mod positions;

#[derive(Clone, Copy, PartialEq, Eq, Debug)]
pub enum K {
  Num,
  Str,
  Bool,
  List,
  CtxList,
  Ctx,
  Any,
}

#[derive(Clone)]
pub struct Vars {
  pub vars: Vec<(String, K)>,
}

impl Vars {
  fn of(&self, k: K) -> Vec<&str> {
    self.vars.iter().filter(|(_, x)| *x == k).map(|(n, _)| n.as_str()).collect()
  }
  fn with(&self, n: &str, k: K) -> Vars {
    let mut v = self.clone();
    v.vars.retain(|(m, _)| m != n);
    v.vars.push((n.to_string(), k));
    v
  }
}

pub struct Gen<'a> {
  pub rng: &'a mut Rng,
  pub fresh: u32,
}

impl<'a> Gen<'a> {
  fn var(&mut self, base: &str) -> String {
    self.fresh += 1;
    format!("{}{}", base, self.fresh % 3)
  }
  fn pick_var(&mut self, vars: &Vars, k: K) -> Option<String> {
    let c = vars.of(k);
    if c.is_empty() {
      None
    } else {
      Some(self.rng.pick(&c).to_string())
    }
  }
  pub fn num(&mut self, d: u32, vars: &Vars) -> String {
    let leaf = d == 0 || self.rng.chance(1, 4);
    if leaf {
      return match self.rng.below(6) {
        0 | 1 => self.pick_var(vars, K::Num).unwrap_or_else(|| "1".into()),
        2 => format!("{}", self.rng.below(12)),
        3 => format!("{}.{}", self.rng.below(5), self.rng.below(100)),
        // long coefficients: sums and products need rounding to 34 digits
        5 if self.rng.chance(1, 3) => "9999999999999999999999999999999999".to_string(),
        5 if self.rng.chance(1, 2) => "1234567890123456789012345678901234.5".to_string(),
        4 => "0".into(),
        _ => format!("{}", self.rng.range(-3, 40)),
      };
    }
    match self.rng.below(15) {
      0 => format!("({} + {})", self.num(d - 1, vars), self.num(d - 1, vars)),
      1 => format!("({} - {})", self.num(d - 1, vars), self.num(d - 1, vars)),
      // `**`: literal operands whose power is exact within 34 digits (the model computes exact powers only; an
      // inexact one in the middle of an expression could not be told from a value)
      2 if self.rng.chance(1, 4) => {
        if self.rng.chance(1, 3) {
          format!("({} ** ({}))", *self.rng.pick(&["2", "0.5", "10", "(-2)", "4", "0.25", "0"]), self.rng.range(-3, 0))
        } else {
          format!("({} ** {})", *self.rng.pick(&["2", "3", "0.5", "1.5", "10", "(-2)", "4.75", "0", "(-0.3)", "12"]), *self.rng.pick(&["0", "1", "2", "3", "4", "2.0", "3.00"]))
        }
      }
      2 => format!("({} * {})", self.num(d - 1, vars), self.num(d - 1, vars)),
      3 => format!("(-{})", self.num(d - 1, vars)),
      4 => format!("(if {} then {} else {})", self.boolean(d - 1, vars), self.num(d - 1, vars), self.num(d - 1, vars)),
      5 => format!("{}[{}]", self.list(d - 1, vars), self.rng.range(-3, 4)),
      6 => format!("{}.a", self.ctx(d - 1, vars)),
      7 => {
        let x = self.var("p");
        format!("(function({}) {})({})", x, self.num(d - 1, &vars.with(&x, K::Num)), self.num(d - 1, vars))
      }
      8 => {
        let x = self.var("p");
        let y = self.var("q");
        let inner = vars.with(&x, K::Num).with(&y, K::Num);
        // parameters declared in either order (alphabetical or not), arguments named in either order
        let (d1, d2) = if self.rng.chance(1, 2) { (x.clone(), y.clone()) } else { (y.clone(), x.clone()) };
        let (a1, a2) = if self.rng.chance(1, 2) { (x.clone(), y.clone()) } else { (y.clone(), x.clone()) };
        let body = match self.rng.below(3) {
          0 => format!("({} - {})", x, y),
          1 => format!("[{}, {}]", y, x),
          _ => self.num(d - 1, &inner),
        };
        format!("(function({}, {}) {})({}: {}, {}: {})", d1, d2, body, a1, self.num(d - 1, vars), a2, self.num(d - 1, vars))
      }
      9 => {
        if self.rng.chance(1, 2) {
          format!("({} / {})", self.num(d - 1, vars), self.rng.pick(&["2", "3", "7", "8", "10", "0.5", "0", "0.3"]))
        } else {
          format!("({} / {})", self.num(d - 1, vars), self.num(d - 1, vars))
        }
      }
      13 => {
        // wrong arity: too few / too many positional arguments, a missing / an extra named one
        let x = self.var("p");
        let y = self.var("q");
        let inner = vars.with(&x, K::Num).with(&y, K::Num);
        let body = self.num(d - 1, &inner);
        let a = self.num(d - 1, vars);
        let b = self.num(d - 1, vars);
        let call = match self.rng.below(5) {
          0 => format!("({})", a),
          1 => "()".to_string(),
          2 => format!("({}, {}, {})", a, b, a),
          3 => format!("({}: {})", x, a),
          _ => format!("({}: {}, {}: {}, zz: 1)", y, a, x, b),
        };
        // followed by a use of the surrounding scope, so that a leaked context shows
        format!("[(function({}, {}) {}){}, {}, n1][{}]", x, y, body, call, self.num(d - 1, vars), self.rng.range(1, 3))
      }
      12 => {
        // typed parameters: the argument is coerced (null, singleton wrap / unwrap)
        let x = self.var("p");
        let (t, k) = *self.rng.pick(&[
          ("number", K::Num),
          ("string", K::Any),
          ("list<number>", K::List),
          ("Any", K::Num),
          ("list<Any>", K::List),
          ("list<list<number>>", K::List),
          ("context<a: number>", K::Any),
        ]);
        let body = if k == K::List && self.rng.chance(1, 2) {
          format!("{}[1]", x)
        } else if k == K::List || k == K::Any {
          x.clone()
        } else {
          self.num(d - 1, &vars.with(&x, k))
        };
        let arg = match self.rng.below(8) {
          0 => self.num(d - 1, vars),
          1 => format!("[{}]", self.num(d - 1, vars)),
          2 => "[]".to_string(),
          3 => "[null]".to_string(),
          4 => format!("[{}, \"a\"]", self.num(0, vars)),
          5 => "[[]]".to_string(),
          6 => format!("{{a: {}}}", self.any(0, vars)),
          _ => self.any(d - 1, vars),
        };
        if self.rng.chance(1, 2) {
          format!("(function({}: {}) {})({})", x, t, body, arg)
        } else {
          // the same through a named invocation
          format!("(function({}: {}) {})({}: {})", x, t, body, x, arg)
        }
      }
      10 => format!("{{a: {}, b: a + 1}}.b", self.num(d - 1, vars)),
      11 => format!("{}[{}]", self.list(d - 1, vars), self.num(d - 1, vars)),
      _ => format!("({})", self.num(d - 1, vars)),
    }
  }
  pub fn string(&mut self, d: u32, vars: &Vars) -> String {
    if d == 0 || self.rng.chance(1, 2) {
      return match self.rng.below(4) {
        0 => self.pick_var(vars, K::Str).unwrap_or_else(|| "\"a\"".into()),
        1 => "\"\"".into(),
        2 => "\"b\"".into(),
        _ => "\"ab\"".into(),
      };
    }
    match self.rng.below(3) {
      0 => format!("({} + {})", self.string(d - 1, vars), self.string(d - 1, vars)),
      1 => format!("(if {} then {} else {})", self.boolean(d - 1, vars), self.string(d - 1, vars), self.string(d - 1, vars)),
      _ => format!("{{a: {}}}.a", self.string(d - 1, vars)),
    }
  }
  pub fn boolean(&mut self, d: u32, vars: &Vars) -> String {
    if d == 0 || self.rng.chance(1, 5) {
      return match self.rng.below(5) {
        0 => self.pick_var(vars, K::Bool).unwrap_or_else(|| "true".into()),
        1 => "true".into(),
        2 => "false".into(),
        3 => "null".into(),
        _ => format!("{} < {}", self.num(0, vars), self.num(0, vars)),
      };
    }
    match self.rng.below(20) {
      0 => format!("({} and {})", self.boolean(d - 1, vars), self.boolean(d - 1, vars)),
      1 => format!("({} or {})", self.boolean(d - 1, vars), self.boolean(d - 1, vars)),
      2 => {
        let op = *self.rng.pick(&["<", "<=", ">", ">=", "=", "!="]);
        format!("({} {} {})", self.num(d - 1, vars), op, self.num(d - 1, vars))
      }
      3 => {
        let op = *self.rng.pick(&["<", "<=", ">", ">=", "=", "!="]);
        format!("({} {} {})", self.string(d - 1, vars), op, self.string(d - 1, vars))
      }
      4 => format!("({} between {} and {})", self.num(d - 1, vars), self.num(d - 1, vars), self.num(d - 1, vars)),
      5 => {
        let (l, r) = *self.rng.pick(&[("[", "]"), ("(", "]"), ("[", ")"), ("(", ")")]);
        format!("({} in {}{}..{}{})", self.num(d - 1, vars), l, self.num(d - 1, vars), self.num(d - 1, vars), r)
      }
      6 => format!("({} in {})", self.num(d - 1, vars), self.list(d - 1, vars)),
      7 => {
        let x = self.var("x");
        format!("(some {} in {} satisfies {})", x, self.list(d - 1, vars), self.boolean(d - 1, &vars.with(&x, K::Num)))
      }
      8 => {
        let x = self.var("x");
        format!("(every {} in {} satisfies {})", x, self.list(d - 1, vars), self.boolean(d - 1, &vars.with(&x, K::Num)))
      }
      9 => {
        let x = self.var("x");
        let y = self.var("y");
        let inner = vars.with(&x, K::Num).with(&y, K::Num);
        let q = *self.rng.pick(&["some", "every"]);
        format!("({} {} in {}, {} in {} satisfies {})", q, x, self.list(d - 1, vars), y, self.list(d - 1, vars), self.boolean(d - 1, &inner))
      }
      10 => {
        let t = *self.rng.pick(&[
          "number",
          "string",
          "boolean",
          "list<number>",
          "context<a: number>",
          "Any",
          "Null",
          "function<number>->number",
          "range<number>",
          "date",
          "time",
          "date and time",
          "years and months duration",
          "days and time duration",
          "list<Any>",
          "range<Any>",
        ]);
        format!("({} instance of {})", self.any(d - 1, vars), t)
      }
      11 => format!("({} = {})", self.any(d - 1, vars), self.any(d - 1, vars)),
      12 => format!("(if {} then {} else {})", self.boolean(d - 1, vars), self.boolean(d - 1, vars), self.boolean(d - 1, vars)),
      13 => format!("({} in ({}, {}))", self.num(d - 1, vars), self.num(d - 1, vars), self.num(d - 1, vars)),
      14 => {
        let (o1, o2) = *self.rng.pick(&[("<", ">"), ("<=", ">="), (">=", "<"), (">", "<=")]);
        format!("({} in ({} {}, {} {}))", self.num(d - 1, vars), o1, self.num(d - 1, vars), o2, self.num(d - 1, vars))
      }
      15 => format!("({} = {})", self.list(d - 1, vars), self.list(d - 1, vars)),
      // `in` with a list on the right: membership of a value, and of a list in a list of lists
      16 => format!("({} in {})", self.any(d - 1, vars), self.list(d - 1, vars)),
      17 => format!("({} in [{}, {}])", self.list(d - 1, vars), self.list(d - 1, vars), self.list(d - 1, vars)),
      18 => {
        // a list against lists sharing its items (in another order, with one more, with one less)
        let a = self.num(0, vars);
        let b = self.num(0, vars);
        let c = self.any(0, vars);
        let lhs = *self.rng.pick(&[0usize, 1, 2, 3]);
        let l = match lhs {
          0 => format!("[{}, {}]", a, b),
          1 => format!("[{}, {}, {}]", a, b, c),
          2 => format!("[{}, {}]", a, a),
          _ => "[]".to_string(),
        };
        let r = match self.rng.below(5) {
          0 => format!("[[{}, {}]]", b, a),
          1 => format!("[[{}], [{}, {}, {}]]", a, c, b, a),
          2 => format!("[[{}, {}], [{}]]", a, b, c),
          3 => format!("[[{}], [{}]]", a, b),
          _ => format!("[{}, [{}, {}]]", a, a, b),
        };
        format!("({} in {})", l, r)
      }
      _ => format!("({} in ({}, {}))", self.any(d - 1, vars), self.list(d - 1, vars), self.any(d - 1, vars)),
    }
  }
  pub fn list(&mut self, d: u32, vars: &Vars) -> String {
    if d == 0 || self.rng.chance(1, 4) {
      return match self.rng.below(6) {
        0 | 1 => self.pick_var(vars, K::List).unwrap_or_else(|| "[1,2,3]".into()),
        2 => "[]".into(),
        3 => format!("[{}]", self.num(0, vars)),
        4 => format!("[{}, {}, {}]", self.num(0, vars), self.num(0, vars), self.num(0, vars)),
        _ => "[3, 1, 2, 1]".into(),
      };
    }
    match self.rng.below(12) {
      0 => {
        let n = self.rng.below(4);
        let items: Vec<String> = (0..n).map(|_| self.num(d - 1, vars)).collect();
        format!("[{}]", items.join(", "))
      }
      1 => {
        let x = self.var("x");
        format!("(for {} in {} return {})", x, self.list(d - 1, vars), self.num(d - 1, &vars.with(&x, K::Num)))
      }
      2 => {
        let x = self.var("x");
        let y = self.var("y");
        let inner = vars.with(&x, K::Num).with(&y, K::Num);
        format!("(for {} in {}, {} in {} return {})", x, self.list(d - 1, vars), y, self.list(d - 1, vars), self.num(d - 1, &inner))
      }
      3 => {
        let i = self.var("i");
        // range ends written with fraction digits (1.0, 2.00: integral values) or with a fraction (1.5: not a range end)
        let suffix = |r: &mut Rng| -> &'static str {
          if r.chance(1, 4) {
            *r.pick(&[".0", ".00", ".5", ".000000000000000000000000000000000"])
          } else {
            ""
          }
        };
        let (s1, s2) = (suffix(&mut self.rng), suffix(&mut self.rng));
        format!("(for {} in {}{}..{}{} return {})", i, self.rng.range(-2, 4), s1, self.rng.range(-2, 4), s2, self.num(d - 1, &vars.with(&i, K::Num)))
      }
      4 => {
        let i = self.var("i");
        let x = self.var("x");
        let inner = vars.with(&i, K::Num).with(&x, K::Num);
        if self.rng.chance(1, 2) {
          format!("(for {} in {}..{}, {} in {} return {})", i, self.rng.range(0, 3), self.rng.range(0, 3), x, self.list(d - 1, vars), self.num(d - 1, &inner))
        } else {
          format!("(for {} in {}, {} in {}..{} return {})", x, self.list(d - 1, vars), i, self.rng.range(0, 3), self.rng.range(0, 3), self.num(d - 1, &inner))
        }
      }
      5 => format!("{}[{}]", self.list(d - 1, vars), self.boolean(d - 1, &vars.with("item", K::Num))),
      6 => {
        let x = self.var("x");
        format!("(for {} in {} return count-free-{}-free)", x, self.list(d - 1, vars), x).replace("count-free-", "").replace("-free", "")
      }
      7 => {
        let x = self.var("x");
        // `partial` is bound to the results so far
        format!("(for {} in {} return if {} then {} else {})", x, self.list(d - 1, vars), self.boolean(d - 1, &vars.with(&x, K::Num)), x, "partial[-1]")
      }
      8 => format!("{}.a", self.ctx_list(d - 1, vars)),
      9 => format!("(if {} then {} else {})", self.boolean(d - 1, vars), self.list(d - 1, vars), self.list(d - 1, vars)),
      10 => format!("[{}, {}]", self.list(d - 1, vars), self.num(d - 1, vars)),
      _ => format!("{}[item > {}]", self.list(d - 1, vars), self.num(d - 1, vars)),
    }
  }
  pub fn ctx_list(&mut self, d: u32, vars: &Vars) -> String {
    if d == 0 || self.rng.chance(1, 3) {
      return self.pick_var(vars, K::CtxList).unwrap_or_else(|| "[{a: 1, b: 2}, {a: 3, b: 4}]".into());
    }
    match self.rng.below(4) {
      0 => format!("[{}, {}]", self.ctx(d - 1, vars), self.ctx(d - 1, vars)),
      1 => format!("{}[a > {}]", self.ctx_list(d - 1, vars), self.num(d - 1, vars)),
      2 => {
        let x = self.var("x");
        format!("(for {} in {} return {{a: {}, b: {}}})", x, self.list(d - 1, vars), x, self.num(d - 1, &vars.with(&x, K::Num)))
      }
      _ => format!("{}[b = {}]", self.ctx_list(d - 1, vars), self.num(d - 1, vars)),
    }
  }
  pub fn ctx(&mut self, d: u32, vars: &Vars) -> String {
    if d == 0 || self.rng.chance(1, 3) {
      return match self.rng.below(3) {
        0 => self.pick_var(vars, K::Ctx).unwrap_or_else(|| "{a: 1}".into()),
        1 => "{a: 1, b: 2}".into(),
        _ => "{}".into(),
      };
    }
    match self.rng.below(5) {
      0 => format!("{{a: {}, b: {}}}", self.num(d - 1, vars), self.num(d - 1, &vars.with("a", K::Num))),
      1 => format!("{{a: {}, c: {{a: a + 1}}}}", self.num(d - 1, vars)),
      2 => format!("{{b: {}, a: {}}}", self.any(d - 1, vars), self.num(d - 1, &vars.with("b", K::Any))),
      3 => format!("{}[{}]", self.ctx_list(d - 1, vars), self.rng.range(-2, 3)),
      _ => format!("{{\"a\": {}, f: function(x) x + a, r: f({})}}", self.num(d - 1, vars), self.num(d - 1, vars)),
    }
  }
  pub fn any(&mut self, d: u32, vars: &Vars) -> String {
    match self.rng.below(9) {
      0 => self.num(d, vars),
      1 => self.string(d, vars),
      2 => self.boolean(d, vars),
      3 => self.list(d, vars),
      4 => self.ctx(d, vars),
      5 => "null".into(),
      6 => self.ctx_list(d, vars),
      7 => self.pick_var(vars, K::Any).unwrap_or_else(|| "null".into()),
      _ => {
        // ill-typed on purpose: the error paths
        let a = self.any(d.saturating_sub(1), vars);
        let b = self.any(d.saturating_sub(1), vars);
        let op = *self.rng.pick(&["+", "-", "*", "/", "<", "and", "or", "="]);
        format!("({} {} {})", a, op, b)
      }
    }
  }
}

/// The scope the generated expressions are parsed and evaluated in.
pub fn base_scope() -> (Scope, Vars, Vec<FeelContext>) {
  let empty = Scope::default();
  let ev = |t: &str| crate::c09::eval_text(&empty, t);
  let mut bottom = FeelContext::default();
  let mut top = FeelContext::default();
  let binds: Vec<(&str, K, &str, bool)> = vec![
    ("n1", K::Num, "2", false),
    ("n2", K::Num, "10", true),
    ("nz", K::Num, "0", true),
    ("s1", K::Str, "\"a\"", true),
    ("b1", K::Bool, "true", false),
    ("l1", K::List, "[1, 2, 3]", false),
    ("l0", K::List, "[]", true),
    ("l2", K::List, "[5]", true),
    ("lc", K::CtxList, "[{a: 1, b: 2}, {a: 2, b: 4}, {a: 3, b: 2}]", true),
    ("li", K::CtxList, "[{a: 1, item: 7}, {a: 9, item: 1}]", true),
    ("c1", K::Ctx, "{a: 5, b: \"x\"}", true),
    // a list of contexts whose items have different keys (a key of a later item only is a name of the scope too)
    ("lk", K::Any, "[{a: 1}, {a: 2, k2: 3}, {k3: {k4: 5}}]", true),
    ("nn", K::Any, "null", true),
    // values of the other kinds, reachable through `any` only (instance of, =, in, ill-typed operands)
    ("d1", K::Any, "date(\"2021-02-03\")", false),
    ("t1", K::Any, "time(\"10:11:12\")", true),
    ("dt1", K::Any, "date and time(\"2021-02-03T10:11:12\")", true),
    ("ym1", K::Any, "duration(\"P1Y2M\")", false),
    ("dd1", K::Any, "duration(\"P1DT2H\")", true),
    ("r1", K::Any, "[1..5]", true),
    ("n1", K::Num, "3", true), // shadows the bottom binding
  ];
  let mut vars = Vars { vars: vec![] };
  for (n, k, t, in_top) in binds {
    let v = ev(t);
    if in_top {
      top.set_entry(&Name::from(n), v);
    } else {
      bottom.set_entry(&Name::from(n), v);
    }
    vars = vars.with(n, k);
  }
  let scope = Scope::new();
  scope.push(bottom.clone());
  scope.push(top.clone());
  (scope, vars, vec![bottom, top])
}

/// Scopes with the same *visible bindings* as the base scope (for every name the top-down lookup
/// gives the same value) and other shapes: all entries in one context, split over two and over
/// three contexts, an empty context underneath, and shadowed entries underneath (other values
/// for the same names — among them contexts under names whose visible value is not a context,
/// and contexts with other keys under names whose visible value is a context).
pub fn shaped_scopes(rng: &mut Rng) -> Vec<(&'static str, Vec<FeelContext>)> {
  let (_, _, ctxs) = base_scope();
  let mut flat = FeelContext::default();
  for c in &ctxs {
    for (k, v) in c.get_entries() {
      flat.set_entry(k, v.clone());
    }
  }
  let entries: Vec<(Name, Value)> = flat.get_entries().into_iter().map(|(k, v)| (k.clone(), v.clone())).collect();
  let split = |rng: &mut Rng, n: u64| -> Vec<FeelContext> {
    let mut parts: Vec<FeelContext> = (0..n).map(|_| FeelContext::default()).collect();
    for (k, v) in &entries {
      parts[rng.below(n) as usize].set_entry(k, v.clone());
    }
    parts
  };
  let empty = Scope::default();
  let ev = |t: &str| crate::c09::eval_text(&empty, t);
  // shadowed entries: every visible name is bound again underneath, to the value of another name
  let mut under = FeelContext::default();
  for (i, (k, _)) in entries.iter().enumerate() {
    let (_, other) = &entries[(i + 7) % entries.len()];
    under.set_entry(k, other.clone());
  }
  // a context underneath a number, a context with other keys underneath a context
  under.set_entry(&Name::from("n2"), ev("{a: 77, b: {a: 78}}"));
  under.set_entry(&Name::from("c1"), ev("{a: 1, zz: 9}"));
  let mut shadowed = vec![under.clone()];
  shadowed.extend(split(rng, 2));
  let mut shadowed1 = vec![under];
  shadowed1.push(flat.clone());
  let mut over_empty = vec![FeelContext::default()];
  over_empty.extend(split(rng, 2));
  vec![
    ("one", vec![flat.clone()]),
    ("two", split(rng, 2)),
    ("three", split(rng, 3)),
    ("over-empty", over_empty),
    ("shadowed", shadowed),
    ("shadowed-one", shadowed1),
  ]
}

fn has_multi_segment_qualified_name(x: &Sexp) -> bool {
  if let Sexp::List(xs) = x {
    if let Some(Sexp::Atom(tag)) = xs.first() {
      if tag == "qualifiedName" && xs.len() > 2 {
        return true;
      }
    }
    return xs.iter().any(has_multi_segment_qualified_name);
  }
  false
}

/// Family `shape` (the last clause of the property: "the result depends only on the expression
/// text and on the values bound to its free names"): the same text is parsed and evaluated in
/// scopes that have the same visible bindings and different shapes; the values must be equal
/// (`Dmn.Eval.eval_depends_on_bindings_partial`; every evaluation is compared with the model too).
fn shape_family(cfg: &Cfg, rep: &mut Report, model: &mut Model, vars: &Vars) {
  let thorough = cfg.tier == "thorough";
  let mut rng = Rng::new(cfg.seed ^ 0x5ca9e5);
  let shapes = shaped_scopes(&mut rng);
  let mut texts: Vec<String> = corpus().iter().map(|s| s.to_string()).collect();
  for t in [
    // interval endpoints are *qualified names* (`Scope::search_deep`), not paths
    "[c1.a..10]",
    "7 in [c1.a..10]",
    "3 in (c1.a..c1.a]",
    "[n2.a..100]",
    "80 in [n2.a..100]",
    "[n2.b.a..100]",
    "[c1.zz..100]",
    "9 in [c1.zz..100]",
    "[1..c1.zz]",
    "c1.a",
    "c1.zz",
    "n2.a",
    "lk[3].k3.k4",
    "{c1: {a: 2}, r: [c1.a..9]}.r",
    "{c1: 1, r: [c1.a..9]}.r",
    "(function(c1) [c1.a..9])({a: 3})",
    "(function(c1) [c1.a..9])(4)",
    "for c1 in [{a: 1}, 2] return [c1.a..9]",
  ] {
    texts.push(t.to_string());
  }
  {
    let mut g = Gen { rng: &mut rng, fresh: 0 };
    let n = if thorough { 20_000 } else { 700 };
    let max_depth = if thorough { 5 } else { 3 };
    for i in 0..n {
      let d = 1 + (i as u32 % max_depth);
      texts.push(g.any(d, vars));
    }
  }
  let mut rows: Vec<(usize, usize, Case)> = vec![];
  for (ti, t) in texts.iter().enumerate() {
    for (si, (_, ctxs)) in shapes.iter().enumerate() {
      if let Some(c) = run_case(t, ctxs, 8) {
        rows.push((ti, si, c));
      }
    }
  }
  let reqs: Vec<String> = rows.iter().map(|(_, _, c)| c.request.clone()).collect();
  let answers = model.ask_batch(&reqs);
  // per text: the implementation's answer in the first shape that parsed it
  let mut first: std::collections::BTreeMap<usize, (usize, String, String)> = Default::default();
  for ((ti, si, c), both) in rows.iter().zip(answers.iter()) {
    let ans = match Sexp::parse(both).as_ref().and_then(|x| x.as_list()) {
      Some([m, ..]) => m.to_string(),
      _ => both.clone(),
    };
    let label = shapes[*si].0;
    rep.hit(&format!("shape:{}", label));
    if ans == "(unsupported)" {
      rep.hit("skipped:unsupported");
    } else {
      rep.case(&c.request, c.nontrivial);
      if c.implementation != ans {
        let sig = if ans.starts_with("(error") { "driver-error" } else { "evaluation differs from model (scope of another shape)" };
        rep.disagree(Kind::ImplVsModel, "shape", sig, &format!("{} @ scope shape {}", c.text, label), &c.implementation, &ans);
      }
    }
    match first.get(ti) {
      None => {
        first.insert(*ti, (*si, c.implementation.clone(), c.ast.clone()));
      }
      Some((s0, v0, ast0)) => {
        if *v0 != c.implementation {
          let qn = Sexp::parse(&c.request).map(|x| has_multi_segment_qualified_name(&x)).unwrap_or(false);
          let sig = if *ast0 != c.ast {
            // the two scopes do not even give the same syntax tree: the lexer decides where a name ends by the keys
            // it finds anywhere in the scope (Scope::flatten_keys), shadowed and nested ones included
            "the syntax tree of a text differs between two scopes with the same visible bindings (the lexer ends a name at a key found anywhere in the scope, shadowed entries included)"
          } else if qn && label.starts_with("shadowed") {
            "a qualified name (interval endpoint a.b) sees a shadowed binding of its first segment: the value depends on the shape of the scope"
          } else {
            "the value of an expression differs between two scopes with the same visible bindings"
          };
          rep.disagree(
            Kind::ImplVsSpec,
            "shape",
            sig,
            &format!("{} @ scope shapes {} / {}", c.text, shapes[*s0].0, label),
            &c.implementation,
            v0,
          );
        }
      }
    }
  }
  rep.extra.insert("shape_texts".into(), json!(texts.len()));
  rep.extra.insert("shape_scopes".into(), json!(shapes.iter().map(|(l, c)| format!("{}:{}", l, c.len())).collect::<Vec<String>>()));
}

/// A literal value written out by hand (the expectations of family `feelsem`): `null`, `true`,
/// `false`, integers, `"text"`, `[v, …]`, `{key: v, …}`. Built directly as a `Value` — neither the
/// parser nor the evaluator of the implementation takes part.
fn lit_value(text: &str) -> Option<Value> {
  fn ws(cs: &[char], i: &mut usize) {
    while *i < cs.len() && cs[*i] == ' ' {
      *i += 1;
    }
  }
  fn go(cs: &[char], i: &mut usize) -> Option<Value> {
    ws(cs, i);
    let c = *cs.get(*i)?;
    if c == '[' {
      *i += 1;
      let mut xs = vec![];
      loop {
        ws(cs, i);
        if *cs.get(*i)? == ']' {
          *i += 1;
          break;
        }
        xs.push(go(cs, i)?);
        ws(cs, i);
        match *cs.get(*i)? {
          ',' => *i += 1,
          ']' => {}
          _ => return None,
        }
      }
      return Some(Value::List(dmntk_feel::values::Values::new(xs)));
    }
    if c == '{' {
      *i += 1;
      let mut ctx = FeelContext::default();
      loop {
        ws(cs, i);
        if *cs.get(*i)? == '}' {
          *i += 1;
          break;
        }
        let mut k = String::new();
        while *cs.get(*i)? != ':' {
          k.push(cs[*i]);
          *i += 1;
        }
        *i += 1;
        let v = go(cs, i)?;
        ctx.set_entry(&Name::from(k.trim()), v);
        ws(cs, i);
        match *cs.get(*i)? {
          ',' => *i += 1,
          '}' => {}
          _ => return None,
        }
      }
      return Some(Value::Context(ctx));
    }
    if c == '"' {
      *i += 1;
      let mut t = String::new();
      while *cs.get(*i)? != '"' {
        t.push(cs[*i]);
        *i += 1;
      }
      *i += 1;
      return Some(Value::String(t));
    }
    let mut w = String::new();
    while *i < cs.len() && (cs[*i].is_ascii_alphanumeric() || cs[*i] == '-') {
      w.push(cs[*i]);
      *i += 1;
    }
    match w.as_str() {
      "null" => Some(Value::Null(None)),
      "true" => Some(Value::Boolean(true)),
      "false" => Some(Value::Boolean(false)),
      _ => w.parse::<i64>().ok().map(|n| Value::Number(n.into())),
    }
  }
  let cs: Vec<char> = text.chars().collect();
  let mut i = 0;
  let v = go(&cs, &mut i)?;
  ws(&cs, &mut i);
  if i == cs.len() {
    Some(v)
  } else {
    None
  }
}

/// (item of the signature, expression text, the value DMN 1.3 FEEL semantics assigns — written out by hand)
pub fn feelsem_table() -> Vec<(&'static str, &'static str, &'static str)> {
  const ARITY: &str = "an invocation with surplus positional or unknown named arguments is null";
  const CLOSURE: &str = "a function value is a lexical closure (its free names are those of its definition)";
  const DEPDOM: &str = "a later iteration domain may refer to an earlier iteration variable";
  const QUANT: &str = "some/every are the ternary disjunction/conjunction of the body values (a null body can make the result null)";
  const FORNULL: &str = "for over a null domain is null";
  const SCALARF: &str = "a filter on a non-list operand treats it as a one-item list (item is bound)";
  const PATHL: &str = "a path over a list of contexts maps over all items (null for a missing entry)";
  const DUPKEY: &str = "a context with a duplicate key is null";
  const INNULL: &str = "in over a list with a null item is the disjunction over the items";
  const INLIST: &str = "a list in a list of lists is equality with some item";
  const IFCOND: &str = "if with a null condition takes the else branch";
  const TYPENAME: &str = "a type name after instance of denotes the type, whatever the scope binds to a variable of that spelling";
  vec![
    // a. DMN 1.3 10.3.2.13.2/3: the arguments are matched with the formal parameters; a mismatch is null
    (ARITY, "(function(a) a)(1, 2)", "null"),
    (ARITY, "(function(a) a)(a: 1, zz: 2)", "null"),
    (ARITY, "(function(a, b) a + b)(1, 2, 3)", "null"),
    (ARITY, "(function() 1)(2)", "null"),
    (ARITY, "(function(a, b) a - b)(b: 1, a: 5, c: 0)", "null"),
    (ARITY, "{f: function(a) a, r: f(1, 2)}.r", "null"),
    (ARITY, "(function(a) a)(1)", "1"),
    (ARITY, "(function(a, b) a - b)(b: 1, a: 5)", "4"),
    (ARITY, "(function(a) a)()", "null"),
    (ARITY, "(function(a, b) a)(a: 1)", "null"),
    // b. DMN 1.3 10.3.2.13.1: a function definition closes over the scope of its definition
    (CLOSURE, "{x: 1, f: function() x, r: {x: 2, y: f()}.y}.r", "1"),
    (CLOSURE, "{mk: function(x) function(y) x + y, add1: mk(1), r: add1(2)}.r", "3"),
    (CLOSURE, "{x: 1, f: function() x, g: function(x) f(), r: g(2)}.r", "1"),
    (CLOSURE, "{k: function(x) function() x, c: k(7), r: c()}.r", "7"),
    // c. DMN 1.3 Table 62 (for / some / every): each domain is evaluated in the scope extended with the earlier variables
    (DEPDOM, "for x in [[1,2],[3]], y in x return y", "[1, 2, 3]"),
    (DEPDOM, "some x in [1,2], y in [x] satisfies y = 2", "true"),
    (DEPDOM, "every x in [1,2], y in [x] satisfies y = x", "true"),
    (DEPDOM, "for x in 1..2, y in 1..x return y", "[1, 1, 2]"),
    (DEPDOM, "for x in [1,2], y in [x, 10] return y", "[1, 10, 2, 10]"),
    // d. DMN 1.3 Table 62: some = false or b1 or b2 …, every = true and b1 and b2 … (Table 50 ternary logic)
    (QUANT, "every x in [1, null] satisfies x > 0", "null"),
    (QUANT, "some x in [1, null] satisfies x > 5", "null"),
    (QUANT, "every x in [1, null, -1] satisfies x > 0", "false"),
    (QUANT, "some x in [null, 9] satisfies x > 5", "true"),
    (QUANT, "every x in [null] satisfies x", "null"),
    (QUANT, "some x in [\"a\", false] satisfies x", "null"),
    (QUANT, "every x in [1, 2] satisfies x > 0", "true"),
    (QUANT, "some x in [1, 2] satisfies x > 5", "false"),
    (QUANT, "every x in [1, 2], y in [null, 3] satisfies x < y", "null"),
    // e. a null domain is not a list (null is no value of type list): the result is null
    (FORNULL, "for x in null return x", "null"),
    (FORNULL, "for x in null, y in [1] return y", "null"),
    (FORNULL, "for x in [1], y in null return x", "null"),
    (FORNULL, "for x in [null] return x", "[null]"),
    (FORNULL, "for x in 5 return x + 1", "[6]"),
    // f. DMN 1.3 10.3.2.5: "if e1 is not a list, it is converted to a singleton list [e1]"
    (SCALARF, "5[item > 3]", "[5]"),
    (SCALARF, "5[item > 7]", "[]"),
    (SCALARF, "5[true]", "[5]"),
    (SCALARF, "\"a\"[item = \"a\"]", "[\"a\"]"),
    (SCALARF, "{a: 1}[a = 1]", "[{a: 1}]"),
    (SCALARF, "{a: 1}[item.a = 2]", "[]"),
    (SCALARF, "true[item]", "[true]"),
    // g. DMN 1.3 10.3.2.6 / Table 62 path: e.name over a list of contexts is the list of the items' values of name
    (PATHL, "[{a:1},{b:2}].a", "[1, null]"),
    (PATHL, "[{a:1},{a:2}].a", "[1, 2]"),
    (PATHL, "[{b:1},{b:2}].a", "[null, null]"),
    (PATHL, "[{a:1},{b:2},{a:3}].a", "[1, null, 3]"),
    (PATHL, "([{a:{c:1}},{a:{d:2}}].a).c", "[1, null]"),
    // h. DMN 1.3 10.3.1.2 (grammar rule 59 note): the keys of a context must be distinct
    (DUPKEY, "{a:1, a:2}", "null"),
    (DUPKEY, "{a: 1, b: 2, a: 3}", "null"),
    (DUPKEY, "{\"a\": 1, a: 2}", "null"),
    (DUPKEY, "{a: 1, b: {a: 2}}", "{a: 1, b: {a: 2}}"),
    (DUPKEY, "[{a: 1}, {a: 2}]", "[{a: 1}, {a: 2}]"),
    // i. DMN 1.3 Table 55: e in [e1, e2, …] = e in e1 or e in e2 or …; e in e1 = (e = e1) for a value e1
    (INNULL, "1 in [null, 1]", "true"),
    (INNULL, "10 in (null, 10)", "true"),
    (INNULL, "10 in (10, null)", "true"),
    (INNULL, "1 in [null, 2]", "false"),
    (INNULL, "null in [1, null]", "true"),
    (INNULL, "\"a\" in [null, null, \"a\"]", "true"),
    // j. the same table with list values e, e1: equality with some item
    (INLIST, "[1,2] in [[1,2,3]]", "false"),
    (INLIST, "[2,1] in [[1,2]]", "false"),
    (INLIST, "[1,2] in [[3],[1,2]]", "true"),
    (INLIST, "[1,2] in [[1,2]]", "true"),
    (INLIST, "[] in [[1]]", "false"),
    (INLIST, "[1,2,3] in [[1,2,3,4], [1,2,3]]", "true"),
    // k. DMN 1.3 Table 62: if e1 then e2 else e3 = e2 if e1 is true, e3 if it is false or null. A condition that
    // is not Boolean (`if 1 then 2 else 3`) is left out: the table says "e1 is not true -> e3", the reference
    // implementations answer null with a type error — debatable, not judged here.
    (IFCOND, "if null then 2 else 3", "3"),
    (IFCOND, "if false then 2 else 3", "3"),
    (IFCOND, "if true then 2 else 3", "2"),
    (IFCOND, "if 1 > null then 2 else 3", "3"),
    // n. DMN 1.3 grammar rule 51 / 52: what follows `instance of` is a type, not an expression; a context entry spelled
    // like a built-in type does not change what the type is (found by C13's family reuse in the thorough tier)
    (TYPENAME, "{number: \"a\", r: 1 instance of number}.r", "true"),
    (TYPENAME, "{number: \"a\", r: \"x\" instance of number}.r", "false"),
    (TYPENAME, "{string: 5, r: \"x\" instance of string}.r", "true"),
    (TYPENAME, "{boolean: 5, r: 5 instance of boolean}.r", "false"),
    (TYPENAME, "{number: 5, r: 1 instance of number}.r", "true"),
    (TYPENAME, "{n: 5, r: 1 instance of number}.r", "true"),
  ]
}

/// Family `feelsem`: a table of expression texts with the value DMN 1.3 assigns, written out by
/// hand; evaluated in an empty scope by the implementation (and by the model of the code).
fn feelsem_family(rep: &mut Report, model: &mut Model) {
  let ctxs = vec![FeelContext::default()];
  let mut rows = vec![];
  for (item, text, expected) in feelsem_table() {
    let want = match lit_value(expected).as_ref().and_then(value_sexp) {
      Some(s) => format!("(ok {} same)", s),
      None => {
        rep.disagree(Kind::ImplVsModel, "feelsem", "driver-error", text, "-", &format!("unreadable expectation {}", expected));
        continue;
      }
    };
    match run_case(text, &ctxs, 8) {
      Some(c) => rows.push((item, c, want)),
      None => rep.disagree(Kind::ImplVsSpec, "feelsem", &format!("C01 FEEL semantics: {} (rejected by the parser)", item), text, "parse error", &want),
    }
  }
  let reqs: Vec<String> = rows.iter().map(|(_, c, _)| c.request.clone()).collect();
  let answers = model.ask_batch(&reqs);
  for ((item, c, want), both) in rows.iter().zip(answers.iter()) {
    let ans = match Sexp::parse(both).as_ref().and_then(|x| x.as_list()) {
      Some([m, ..]) => m.to_string(),
      _ => both.clone(),
    };
    rep.case(&c.request, true);
    rep.hit("feelsem");
    if ans != "(unsupported)" && c.implementation != ans {
      let sig = if ans.starts_with("(error") { "driver-error" } else { "evaluation differs from model (feelsem table)" };
      rep.disagree(Kind::ImplVsModel, "feelsem", sig, &c.text, &c.implementation, &ans);
    }
    if &c.implementation != want {
      rep.disagree(Kind::ImplVsSpec, "feelsem", &format!("C01 FEEL semantics: {}", item), &c.text, &c.implementation, want);
    }
  }
  rep.extra.insert("feelsem_cases".into(), json!(rows.len()));
}

// ------------------------------------------------------------------------------------------------------------------
// Family `bifshadow`: name resolution of the callee of an invocation (and of a bare name) when the name is also
// the name of a built-in function. FEEL resolves a name in the scope first; a built-in function is meant only when
// no binding of the name is visible (`build_name`: `scope.get_entry` first, `Bif::from_str` second). For EVERY
// name of the table regenerated from feel/src/bif.rs: the name is bound — in a context of the scope (top, bottom,
// shadowing another binding underneath), by an earlier context entry, as a formal parameter (argument given by
// position and by name), as a `for` / `some` / `every` variable, as a key of a filtered item — to a function value
// and to values that are no functions, and is invoked by position, by name, nested, with the wrong arity, or read
// as an operand. The expectations are written out: the bound function is `function (p, q) 1000 + p * 10 + q`, so
// an invocation with the integers p, q is the integer 1000 + 10 p + q (computed here with machine integers);
// invoking a value that is no function is null; the bare name is the bound value. No built-in answers any of
// these (they are two-argument calls with small integers whose built-in value, where there is one, is below 1000).
// Every case is evaluated by the Lean model too (scope bindings that are function values travel as the syntax tree of
// their definition: `(c01 evalin …)`).
// ------------------------------------------------------------------------------------------------------------------

const SHADOW_FUN: &str = "function (p, q) 1000 + p * 10 + q";

struct ShadowCase {
  /// what is bound: "function" or the kind of the non-function value
  what: &'static str,
  site: &'static str,
  form: &'static str,
  text: String,
  /// contexts of the scope, bottom first, without the function-valued bindings
  ctxs: Vec<FeelContext>,
  /// function-valued bindings of the scope: (index of the context, name)
  funs: Vec<(usize, String)>,
  expected: Value,
}

fn pv_num(n: i64) -> Value {
  Value::Number(n.into())
}

fn pv_list(xs: Vec<Value>) -> Value {
  Value::List(dmntk_feel::values::Values::new(xs))
}

fn run_case_in(text: &str, ctxs: &[FeelContext], funs: &[(usize, String)], fun_text: &str, fuel: u32) -> Option<Case> {
  if funs.is_empty() {
    return run_case(text, ctxs, fuel);
  }
  let empty = Scope::default();
  let fnode = match guarded(|| dmntk_feel_parser::parse_expression(&empty, fun_text, false)) {
    Ok(Ok(n)) => n,
    _ => return None,
  };
  let fval = match guarded(|| dmntk_feel_evaluator::evaluate(&empty, &fnode)) {
    Ok(Ok(v)) => v,
    _ => return None,
  };
  let mut full: Vec<FeelContext> = ctxs.to_vec();
  for (i, n) in funs {
    full[*i].set_entry(&Name::from(n.as_str()), fval.clone());
  }
  let mut c = run_case(text, &full, fuel)?;
  let fast = ast_sexp(&fnode);
  let binds: Vec<String> = funs.iter().map(|(i, n)| format!("({} {} {})", i, Sexp::str(n), fast)).collect();
  c.request = format!("(c01 evalin {} {} {} ({}))", fuel, c.ast, scope_sexp(ctxs)?, binds.join(" "));
  Some(c)
}

fn ctx_of(entries: &[(&str, Value)]) -> FeelContext {
  let mut c = FeelContext::default();
  for (k, v) in entries {
    c.set_entry(&Name::from(*k), v.clone());
  }
  c
}

fn bifshadow_cases(names: &[String], rng: &mut Rng) -> Vec<ShadowCase> {
  let mut out = vec![];
  let others = || ctx_of(&[("n1", pv_num(2)), ("w1", Value::String("a".into()))]);
  for nm in names {
    let p = rng.range(0, 9);
    let q = rng.range(0, 9);
    let e = 1000 + p * 10 + q;
    // the forms of a use of the name, with the value it has when the name denotes the bound function
    let uses: Vec<(&'static str, String, Value)> = vec![
      ("positional invocation", format!("{}({}, {})", nm, p, q), pv_num(e)),
      ("named invocation", format!("{}(p: {}, q: {})", nm, p, q), pv_num(e)),
      ("named invocation", format!("{}(q: {}, p: {})", nm, q, p), pv_num(e)),
      ("positional invocation", format!("{}({}({}, {}), 1)", nm, nm, p, q), pv_num(1000 + e * 10 + 1)),
      ("positional invocation", format!("[{}({}, {}), {}({}, {})]", nm, q, p, nm, p, q), pv_list(vec![pv_num(1000 + q * 10 + p), pv_num(e)])),
      ("operand", format!("[{}][1]({}, {})", nm, p, q), pv_num(e)),
      ("positional invocation with too few arguments", format!("{}({})", nm, p), Value::Null(None)),
      ("positional invocation with too many arguments", format!("{}({}, {}, 1)", nm, p, q), Value::Null(None)),
      ("named invocation with an unknown argument name", format!("{}(p: {}, zz: {})", nm, p, q), Value::Null(None)),
      ("positional invocation", format!("if {}({}, {}) = {} then \"y\" else \"n\"", nm, p, q, e), Value::String("y".into())),
      ("positional invocation", format!("(function () {}({}, {}))()", nm, p, q), pv_num(e)),
      ("positional invocation", format!("for w9 in [1, 2] return {}(w9, {})", nm, q), pv_list(vec![pv_num(1010 + q), pv_num(1020 + q)])),
    ];
    // -- the name bound in a context of the scope
    for (site, fun_at, under) in [("scope (top context)", 1usize, false), ("scope (bottom context)", 0usize, false), ("scope (top context, shadowing a number underneath)", 1usize, true)] {
      for (form, text, want) in &uses {
        let mut bottom = others();
        if under {
          bottom.set_entry(&Name::from(nm.as_str()), pv_num(7));
        }
        let top = ctx_of(&[("n2", pv_num(10))]);
        out.push(ShadowCase { what: "function", site, form, text: text.clone(), ctxs: vec![bottom, top], funs: vec![(fun_at, nm.clone())], expected: want.clone() });
      }
    }
    // -- the name introduced by the text itself
    let plain = || vec![others(), ctx_of(&[("n2", pv_num(10))])];
    // above a binding of the same name in the scope (a number): the inner binding wins
    let over = || vec![others(), ctx_of(&[(nm.as_str(), pv_num(7))])];
    for (form, text, want) in &uses {
      let intro: Vec<(&'static str, String, Value)> = vec![
        ("earlier context entry", format!("{{{}: {}, r: {}}}.r", nm, SHADOW_FUN, text), want.clone()),
        ("formal parameter, argument by position", format!("(function ({}) {})({})", nm, text, SHADOW_FUN), want.clone()),
        ("formal parameter, argument by name", format!("(function (k9, {}) {})({}: {}, k9: 1)", nm, text, nm, SHADOW_FUN), want.clone()),
        ("for variable", format!("for {} in [{}] return {}", nm, SHADOW_FUN, text), pv_list(vec![want.clone()])),
        // the second item binds the name to 0: the use is null there (an invocation of a number), kept only when null is wanted
        (
          "key of a filtered item",
          format!("[{{{}: {}, k9: 1}}, {{{}: 0, k9: 2}}][({}) = {}].k9", nm, SHADOW_FUN, nm, text, value_text(want)),
          if matches!(want, Value::Null(_)) { pv_list(vec![pv_num(1), pv_num(2)]) } else { pv_num(1) },
        ),
      ];
      for (site, t, w) in intro {
        out.push(ShadowCase { what: "function", site, form, text: t.clone(), ctxs: plain(), funs: vec![], expected: w.clone() });
        if rng.chance(1, 3) {
          out.push(ShadowCase { what: "function", site, form, text: t, ctxs: over(), funs: vec![], expected: w });
        }
      }
      if !matches!(want, Value::Null(_)) {
        for (site, t, w) in [
          ("some variable", format!("some {} in [{}] satisfies ({}) = {}", nm, SHADOW_FUN, text, value_text(want)), Value::Boolean(true)),
          ("every variable", format!("every {} in [{}, {}] satisfies ({}) = {}", nm, SHADOW_FUN, SHADOW_FUN, text, value_text(want)), Value::Boolean(true)),
        ] {
          out.push(ShadowCase { what: "function", site, form, text: t, ctxs: plain(), funs: vec![], expected: w });
        }
      }
    }
    // -- the name bound to a value that is no function: the binding still wins (an invocation is null, the name is the value)
    let values: Vec<(&'static str, &'static str, Value)> = vec![
      ("number", "7", pv_num(7)),
      ("string", "\"s\"", Value::String("s".into())),
      ("boolean", "true", Value::Boolean(true)),
      ("null", "null", Value::Null(None)),
      ("list", "[1, 2]", pv_list(vec![pv_num(1), pv_num(2)])),
      ("context", "{a: 1}", Value::Context(ctx_of(&[("a", pv_num(1))]))),
    ];
    let first = rng.below(values.len() as u64) as usize;
    for k in 0..3 {
      let (what, lit, val) = values[(first + k * 2 + (k / 2)) % values.len()].clone();
      let uses2: Vec<(&'static str, String, Value)> = vec![
        ("positional invocation", format!("{}({}, {})", nm, p, q), Value::Null(None)),
        ("named invocation", format!("{}(p: {}, q: {})", nm, p, q), Value::Null(None)),
        ("positional invocation", format!("{}([{}, {}])", nm, p, q), Value::Null(None)),
        ("positional invocation", format!("{}()", nm), Value::Null(None)),
        ("operand", format!("[{}, 1]", nm), pv_list(vec![val.clone(), pv_num(1)])),
        ("operand", format!("{} = {}", nm, lit), Value::Boolean(true)),
      ];
      for (form, text, want) in &uses2 {
        out.push(ShadowCase { what, site: "scope (top context)", form, text: text.clone(), ctxs: vec![others(), ctx_of(&[(nm.as_str(), val.clone())])], funs: vec![], expected: want.clone() });
        out.push(ShadowCase { what, site: "scope (bottom context)", form, text: text.clone(), ctxs: vec![ctx_of(&[(nm.as_str(), val.clone())]), others()], funs: vec![], expected: want.clone() });
        out.push(ShadowCase { what, site: "earlier context entry", form, text: format!("{{{}: {}, r: {}}}.r", nm, lit, text), ctxs: plain(), funs: vec![], expected: want.clone() });
        out.push(ShadowCase { what, site: "formal parameter, argument by position", form, text: format!("(function ({}) {})({})", nm, text, lit), ctxs: plain(), funs: vec![], expected: want.clone() });
        out.push(ShadowCase { what, site: "for variable", form, text: format!("for {} in [{}] return {}", nm, lit, text), ctxs: plain(), funs: vec![], expected: pv_list(vec![want.clone()]) });
      }
    }
  }
  out
}

/// the text of a written-out expectation (integers, strings, null, lists of them)
fn value_text(v: &Value) -> String {
  match v {
    Value::Number(n) => n.to_string(),
    Value::String(s) => format!("\"{}\"", s),
    Value::Boolean(b) => b.to_string(),
    Value::List(xs) => format!("[{}]", xs.as_vec().iter().map(value_text).collect::<Vec<_>>().join(", ")),
    _ => "null".to_string(),
  }
}

fn judge_written_out(rep: &mut Report, model: &mut Model, family: &str, rows: Vec<(String, String, Case, Value)>) {
  judge_written_out_with(rep, model, family, rows, &|_| true)
}

/// `with_model`: whether the case is compared with the Lean model too (the driver of this check has stubs for the
/// built-in functions: a text that calls one is judged by its written-out value only)
fn judge_written_out_with(rep: &mut Report, model: &mut Model, family: &str, rows: Vec<(String, String, Case, Value)>, with_model: &dyn Fn(&Case) -> bool) {
  // rows: (signature if the written-out value is missed, shown input, case, expectation)
  let reqs: Vec<String> = rows.iter().map(|(_, _, c, _)| if with_model(c) { c.request.clone() } else { "(c01 skip)".to_string() }).collect();
  let answers = model.ask_batch(&reqs);
  for ((sig, shown, c, expected), both) in rows.iter().zip(answers.iter()) {
    let both = &if with_model(c) { both.clone() } else { "((unsupported) (unsupported))".to_string() };
    let want = match value_sexp(expected) {
      Some(s) => format!("(ok {} same)", s),
      None => continue,
    };
    let (ans, spec) = match Sexp::parse(both).as_ref().and_then(|x| x.as_list()) {
      Some([m, d, ..]) => (m.to_string(), d.to_string()),
      _ => (both.clone(), both.clone()),
    };
    rep.case(&format!("{}|{}", family, c.request), true);
    if ans == "(unsupported)" {
      rep.hit(&format!("{}:model-skipped(unsupported)", family));
    } else if c.implementation != ans {
      let sig = if ans.starts_with("(error") { "driver-error".to_string() } else { format!("evaluation differs from model ({})", family) };
      rep.disagree(Kind::ImplVsModel, family, &sig, shown, &c.implementation, &ans);
    } else if spec != "(unsupported)" && spec != ans {
      rep.disagree(Kind::ImplVsModel, family, &format!("model of the code differs from the specification evaluator ({})", family), shown, &ans, &spec);
    }
    if c.implementation != want {
      rep.disagree(Kind::ImplVsSpec, family, sig, shown, &c.implementation, &want);
    }
  }
}

/// The exact value of `c·10^-scale ** n` for an integer `n`, by integer arithmetic: `Some(None)` = null
/// (`0 ** 0`, `0 ** -n`), `None` = not exact within 34 digits (not judged).
fn exact_pow(c: i128, scale: i32, n: i32) -> Option<Option<(i128, i32)>> {
  if c == 0 {
    return Some(if n > 0 { Some((0, 0)) } else { None });
  }
  if n == 0 {
    return Some(Some((1, 0)));
  }
  let k = n.unsigned_abs();
  let p = c.unsigned_abs().checked_pow(k)?;
  let limit: u128 = 10u128.pow(34);
  let neg = c < 0 && k % 2 == 1;
  let sign = |q: u128| if neg { -(q as i128) } else { q as i128 };
  if n > 0 {
    // strip trailing zeros so that the 34-digit test is about significant digits
    let (mut q, mut sc) = (p, scale.checked_mul(k as i32)?);
    while q % 10 == 0 {
      q /= 10;
      sc -= 1;
    }
    if q >= limit {
      return None;
    }
    Some(Some((sign(q), sc)))
  } else {
    if p >= limit {
      return None;
    }
    // 1 / p is a terminating decimal iff p divides a power of ten
    let mut t = 0u32;
    let mut ten = 1u128;
    while ten % p != 0 {
      ten = ten.checked_mul(10)?;
      t += 1;
    }
    let q = ten / p;
    if q >= limit {
      return None;
    }
    // (c·10^-scale)^-k = q·10^-t · 10^(scale·k)
    Some(Some((sign(q), t as i32 - scale.checked_mul(k as i32)?)))
  }
}

/// `**` with exponents of integral value: the exact power, by integer arithmetic in this harness.
fn pow_family(rep: &mut Report, model: &mut Model) {
  use dmntk_feel_number::FeelNumber;
  let ctxs = vec![FeelContext::default()];
  let mut bases: Vec<(i128, i32)> = (-12..=12).map(|c| (c as i128, 0)).collect();
  bases.extend([(5, 1), (15, 1), (25, 1), (1, 1), (-5, 1), (125, 2), (1, 3), (100, 0), (1000, 0), (20, 1), (75, 2), (-25, 2), (3, 1), (99, 0), (101, 0), (999999, 0), (16, 0), (625, 0), (2, 2)]);
  let dec = |c: i128, sc: i32| -> String {
    let a = c.unsigned_abs().to_string();
    let t = if sc <= 0 {
      format!("{}{}", a, "0".repeat((-sc) as usize))
    } else if (sc as usize) < a.len() {
      format!("{}.{}", &a[..a.len() - sc as usize], &a[a.len() - sc as usize..])
    } else {
      format!("0.{}{}", "0".repeat(sc as usize - a.len()), a)
    };
    if c < 0 { format!("-{}", t) } else { t }
  };
  let mut rows: Vec<(String, String, Case, Value)> = vec![];
  let sig = "`**` with an exponent of integral value is the exact power (exact within 34 digits)".to_string();
  for (c, sc) in bases.iter().copied() {
    for n in -6..=20i32 {
      let expected = match exact_pow(c, sc, n) {
        Some(e) => e,
        None => {
          rep.hit("pow:not-judged(not exact within 34 digits)");
          continue;
        }
      };
      let base = format!("({})", dec(c, sc));
      let exps: Vec<String> = match n.rem_euclid(3) {
        0 => vec![format!("({})", n)],
        1 => vec![format!("({}.0)", n)],
        _ => vec![format!("({}.00)", n), format!("({})", n)],
      };
      for e in exps {
        let pw = format!("{} ** {}", base, e);
        let num = expected.map(|(q, s)| Value::Number(FeelNumber::new(q, s)));
        let null = Value::Null(None);
        let v = num.clone().unwrap_or(null.clone());
        let list = |x: Value| Value::List(dmntk_feel::values::Values::new(vec![x]));
        let mut texts: Vec<(String, Value)> = vec![(pw.clone(), v.clone()), (format!("for i in [1] return {}", pw), list(v.clone())), (format!("{{a: {}}}.a", pw), v.clone())];
        if let Some((q, s)) = expected {
          texts.push((format!("({}) + 0", pw), v.clone()));
          texts.push((format!("[{}][item = {}]", dec(q, s), pw), v.clone()));
          texts.push((format!("(function(x) x ** {})({})", e, base), v.clone()));
        }
        for (text, want) in texts {
          match run_case(&text, &ctxs, 8) {
            Some(case) => rows.push((sig.clone(), text.clone(), case, want)),
            None => rep.disagree(Kind::ImplVsSpec, "pow", "a well-formed exponentiation is rejected by the parser", &text, "parse error", "a syntax tree"),
          }
          rep.hit("pow");
        }
      }
    }
  }
  judge_written_out_with(rep, model, "pow", rows, &|_| true);
}

/// `build_filter` evaluates the filter expression once more in the enclosing scope (the index probe): the same
/// filters with `item` / an entry name unbound outside and bound outside to a number, a boolean, a string.  Tie
/// only (implementation = model, theorem `filter_does_not_bind_item_counterexample`); whether the dependence on
/// the enclosing binding breaks the property is proposed finding F-C01-filter-index-probe, not judged here.
fn filter_probe_family(rep: &mut Report, model: &mut Model) {
  use dmntk_feel_number::FeelNumber;
  let outer: Vec<(&str, Option<Value>)> = vec![
    ("unbound", None),
    ("2", Some(Value::Number(FeelNumber::new(2, 0)))),
    ("-1", Some(Value::Number(FeelNumber::new(-1, 0)))),
    ("true", Some(Value::Boolean(true))),
    ("\"x\"", Some(Value::String("x".into()))),
  ];
  let texts = ["[true, false][item]", "[1, 2, 3][item > 1]", "[{a: true}, {a: false}][a]", "[{a: 2}, {a: 1}][a = 1]", "true[item]", "[[1, 2], [3]][item[1] = 3]"];
  let names = ["item", "a"];
  let mut rows = vec![];
  let mut seen: std::collections::BTreeMap<String, BTreeSet<String>> = Default::default();
  for text in texts {
    for name in names {
      for (label, v) in &outer {
        let mut ctx = FeelContext::default();
        if let Some(v) = v {
          ctx.set_entry(&Name::from(name), v.clone());
        }
        if let Some(c) = run_case(text, &[ctx], 8) {
          seen.entry(text.to_string()).or_default().insert(c.implementation.clone());
          rows.push((format!("{} @ {} = {}", text, name, label), c));
        }
        rep.hit("filter-probe");
      }
    }
  }
  let reqs: Vec<String> = rows.iter().map(|(_, c)| c.request.clone()).collect();
  let answers = model.ask_batch(&reqs);
  for ((shown, c), both) in rows.iter().zip(answers.iter()) {
    let ans = match Sexp::parse(both).as_ref().and_then(|x| x.as_list()) {
      Some([m, ..]) => m.to_string(),
      _ => both.clone(),
    };
    rep.case(&format!("filter-probe|{}", shown), true);
    if ans != "(unsupported)" && c.implementation != ans {
      rep.disagree(Kind::ImplVsModel, "filter-probe", "evaluation differs from model (filter-probe)", shown, &c.implementation, &ans);
    }
  }
  for (text, vals) in seen {
    if vals.len() > 1 {
      rep.hit(&format!("filter-probe:value depends on the enclosing binding ({})", text));
    }
  }
}

fn bifshadow_family(cfg: &Cfg, rep: &mut Report, model: &mut Model) {
  let names: Vec<String> = Sexp::parse(&model.ask("(c01 bifnames)"))
    .and_then(|x| x.as_list().map(|l| l.iter().filter_map(sexp_string).collect()))
    .unwrap_or_default();
  if names.len() < 20 {
    rep.disagree(Kind::ImplVsModel, "bifshadow", "the table of built-in function names is unreadable", "(c01 bifnames)", &format!("{:?}", names), "the names Bif::from_str accepts");
    return;
  }
  let mut rng = Rng::new(cfg.seed ^ 0xb1f5);
  // `not` is a keyword of the grammar (negation), not a name an expression can bind
  let usable: Vec<String> = names.iter().filter(|n| n.as_str() != "not").cloned().collect();
  let cases = bifshadow_cases(&usable, &mut rng);
  let mut rows = vec![];
  let mut unparsable: std::collections::BTreeMap<String, u64> = Default::default();
  let mut judged_names: BTreeSet<String> = BTreeSet::new();
  for sc in cases {
    let shown = if sc.funs.is_empty() {
      format!("{} @ scope {}", sc.text, sc.ctxs.iter().map(|c| c.to_string()).collect::<Vec<_>>().join(" / "))
    } else {
      format!("{} @ scope {} with {} = {} in context {}", sc.text, sc.ctxs.iter().map(|c| c.to_string()).collect::<Vec<_>>().join(" / "), sc.funs[0].1, SHADOW_FUN, sc.funs[0].0)
    };
    match run_case_in(&sc.text, &sc.ctxs, &sc.funs, SHADOW_FUN, 8) {
      Some(c) => {
        rep.hit(&format!("bifshadow:{} bound, {}, {}", if sc.what == "function" { "function" } else { "non-function" }, sc.site, sc.form));
        let sig = format!(
          "a name that is also the name of a built-in function, bound to a {}: {} does not have the value the binding gives it",
          if sc.what == "function" { "function value" } else { "value that is no function" },
          sc.form
        );
        if let Some(n) = usable.iter().find(|n| sc.text.contains(n.as_str())) {
          judged_names.insert(n.clone());
        }
        rows.push((sig, shown, c, sc.expected));
      }
      None => {
        // some names cannot be written in some positions (multi-word names as parameter / variable names,
        // the names the lexer hands out as date and time literal names): counted, not judged (C10 is about names)
        *unparsable.entry(sc.site.to_string()).or_insert(0) += 1;
        rep.hit("bifshadow:not-judged(the parser rejects the text)");
      }
    }
  }
  rep.extra.insert("bifshadow_cases".into(), json!(rows.len()));
  rep.extra.insert("bifshadow_names".into(), json!(usable.len()));
  rep.extra.insert("bifshadow_unparsable_by_site".into(), json!(unparsable));
  // every single-word name must have been judged at every site
  judge_written_out(rep, model, "bifshadow", rows);
}

fn sexp_string(x: &Sexp) -> Option<String> {
  let xs = x.as_list()?;
  if xs.first()?.as_atom()? != "s" {
    return None;
  }
  let mut s = String::new();
  for c in &xs[1..] {
    s.push(char::from_u32(c.as_atom()?.parse::<u32>().ok()?)?);
  }
  Some(s)
}

// ------------------------------------------------------------------------------------------------------------------
// Family `partial`: in the body of a `for`, the special variable `partial` is the list of the results of the
// iterations before the current one — the empty list in the first iteration — whatever an enclosing scope binds
// under that name. Expectations come from a small evaluator of its own over a value type of its own (`Pv`): the
// iteration tuples are the cartesian product of the written domains (first variable outermost), the result is the
// fold `results.push(body(tuple, results))`, and every body form has its meaning written as a Rust closure.
// ------------------------------------------------------------------------------------------------------------------

#[derive(Clone, PartialEq, Debug)]
enum Pv {
  Null,
  B(bool),
  N(i64),
  L(Vec<Pv>),
}

impl Pv {
  fn value(&self) -> Value {
    match self {
      Pv::Null => Value::Null(None),
      Pv::B(b) => Value::Boolean(*b),
      Pv::N(n) => pv_num(*n),
      Pv::L(xs) => pv_list(xs.iter().map(|x| x.value()).collect()),
    }
  }
}

struct PBody {
  name: &'static str,
  /// the text of the body over the first variable `i`
  text: fn(&str) -> String,
  /// its value from the value of the first variable and the results so far
  f: fn(i64, &[Pv]) -> Pv,
}

fn prefixes(p: &[Pv]) -> Vec<Pv> {
  // the results of `for x in p return partial`: item k is the list of the items before it
  let mut out: Vec<Pv> = vec![];
  for _ in p {
    let so_far = Pv::L(out.clone());
    out.push(so_far);
  }
  out
}

fn partial_bodies() -> Vec<PBody> {
  vec![
    PBody { name: "partial", text: |_| "partial".into(), f: |_, p| Pv::L(p.to_vec()) },
    PBody { name: "partial = []", text: |_| "partial = []".into(), f: |_, p| Pv::B(p.is_empty()) },
    PBody {
      name: "running sum",
      text: |i| format!("if partial = [] then {} else partial[-1] + {}", i, i),
      f: |i, p| match p.last() {
        None => Pv::N(i),
        Some(Pv::N(l)) => Pv::N(l + i),
        Some(_) => Pv::Null,
      },
    },
    PBody { name: "[i, partial[1]]", text: |i| format!("[{}, partial[1]]", i), f: |i, p| Pv::L(vec![Pv::N(i), p.first().cloned().unwrap_or(Pv::Null)]) },
    PBody { name: "partial[-1]", text: |_| "partial[-1]".into(), f: |_, p| p.last().cloned().unwrap_or(Pv::Null) },
    PBody {
      name: "inner for with its own partial",
      text: |_| "for j9 in [10, 20] return partial".into(),
      f: |_, _| Pv::L(vec![Pv::L(vec![]), Pv::L(vec![Pv::L(vec![])])]),
    },
    PBody { name: "for over partial", text: |_| "for p9 in partial return p9".into(), f: |_, p| Pv::L(p.to_vec()) },
    PBody {
      name: "some over partial",
      text: |i| format!("if (some p9 in partial satisfies p9 > 1) then 0 else {}", i),
      f: |i, p| if p.iter().any(|x| matches!(x, Pv::N(n) if *n > 1)) { Pv::N(0) } else { Pv::N(i) },
    },
    PBody { name: "context entry named partial inside the body", text: |_| "{partial: 5, r: partial}.r".into(), f: |_, _| Pv::N(5) },
    PBody { name: "partial in a context entry", text: |i| format!("{{a: partial, b: {}}}.a", i), f: |_, p| Pv::L(p.to_vec()) },
    PBody { name: "partial in a function body invoked in the body", text: |_| "(function () partial)()".into(), f: |_, p| Pv::L(p.to_vec()) },
    PBody { name: "[partial, i, partial]", text: |i| format!("[partial, {}, partial]", i), f: |i, p| Pv::L(vec![Pv::L(p.to_vec()), Pv::N(i), Pv::L(p.to_vec())]) },
    PBody { name: "inner for over the outer partial reading its own", text: |_| "for p9 in partial return partial".into(), f: |_, p| Pv::L(prefixes(p)) },
    PBody {
      name: "filter on partial",
      text: |i| format!("[{}, partial[item[1] = {}]]", i, i),
      f: |i, p| {
        // the earlier results whose first item is i: none -> [], one -> that result itself (a singleton is unwrapped), more -> the list
        let kept: Vec<Pv> = p.iter().filter(|x| matches!(x, Pv::L(v) if v.first() == Some(&Pv::N(i)))).cloned().collect();
        let r = if kept.len() == 1 { kept[0].clone() } else { Pv::L(kept) };
        Pv::L(vec![Pv::N(i), r])
      },
    },
    PBody { name: "body without partial", text: |i| format!("{} * 2", i), f: |i, _| Pv::N(i * 2) },
  ]
}

/// One written iteration domain: its text after `in` and the values it ranges over.
fn partial_domain(rng: &mut Rng) -> (String, Vec<i64>) {
  match rng.below(7) {
    0 => {
      let n = rng.range(1, 4);
      let xs: Vec<i64> = (0..n).map(|_| rng.range(0, 4)).collect();
      (format!("[{}]", xs.iter().map(|x| x.to_string()).collect::<Vec<_>>().join(", ")), xs)
    }
    1 => {
      let (a, b) = (rng.range(-1, 3), rng.range(-1, 3));
      let xs: Vec<i64> = if a <= b { (a..=b).collect() } else { (b..=a).rev().collect() };
      (format!("{}..{}", a, b), xs)
    }
    2 => {
      let a = rng.range(0, 5);
      (format!("{}..{}", a, a), vec![a])
    }
    3 => {
      let a = rng.range(0, 5);
      (format!("[{}]", a), vec![a])
    }
    4 => {
      // a value that is no list is iterated as a one-item list
      let a = rng.range(0, 5);
      (format!("{}", a), vec![a])
    }
    5 => ("l1".to_string(), vec![1, 2, 3]),
    _ => ("[]".to_string(), vec![]),
  }
}

fn partial_family(cfg: &Cfg, rep: &mut Report, model: &mut Model) {
  let thorough = cfg.tier == "thorough";
  let mut rng = Rng::new(cfg.seed ^ 0x9a27_1a1);
  let (_, _, base) = base_scope();
  let bodies = partial_bodies();
  let rounds = if thorough { 60 } else { 6 };
  let mut rows = vec![];
  for round in 0..rounds {
    for b in &bodies {
      // ---- the iteration form: one, two or three variables over lists / ranges / single values
      let nvars = if round == 0 { 1 } else { 1 + rng.below(3) as usize };
      let mut doms = vec![];
      for k in 0..nvars {
        let mut d = partial_domain(&mut rng);
        if round == 0 {
          d = ("[5, 6, 7]".to_string(), vec![5, 6, 7]);
        }
        doms.push((format!("{}9", ["i", "j", "k"][k]), d.0, d.1));
      }
      let any_empty = doms.iter().any(|d| d.2.is_empty());
      // the values of the first variable over the cartesian product, the first variable outermost
      let mut firsts: Vec<i64> = vec![];
      if !any_empty {
        let inner: usize = doms[1..].iter().map(|d| d.2.len()).product();
        for v in &doms[0].2 {
          for _ in 0..inner {
            firsts.push(*v);
          }
        }
      }
      // a body such as `partial` doubles the size of the result with every iteration: beyond seven iterations
      // the expectation (and the implementation's answer) would not fit into memory
      if firsts.len() > 7 {
        rep.hit("partial:form left out (more than seven iterations)");
        continue;
      }
      let mut results: Vec<Pv> = vec![];
      for v in &firsts {
        let r = (b.f)(*v, &results);
        results.push(r);
      }
      let e = Pv::L(results.clone());
      let body_text = (b.text)(&doms[0].0);
      let f = format!("for {} return {}", doms.iter().map(|d| format!("{} in {}", d.0, d.1)).collect::<Vec<_>>().join(", "), body_text);
      let iterations = if firsts.len() <= 1 { "one iteration or none" } else { "several iterations" };
      // ---- where the `for` stands: (name, text, expectation, does the scope bind a user variable `partial`)
      let sites: Vec<(&'static str, String, Pv, bool)> = vec![
        ("alone", f.clone(), e.clone(), false),
        ("under a scope variable named partial", format!("[partial, {}, partial]", f), Pv::L(vec![Pv::N(99), e.clone(), Pv::N(99)]), true),
        ("under a context entry named partial", format!("{{partial: 5, r: {}, q: partial}}", f), Pv::Null, false),
        ("under a formal parameter named partial", format!("(function (partial) [partial, {}])(7)", f), Pv::L(vec![Pv::N(7), e.clone()]), false),
        ("in the body of another for", format!("for k8 in [1, 2] return {}", f), Pv::L(vec![e.clone(), e.clone()]), false),
        (
          "in the body of another for that reads its own partial",
          format!("for k8 in [1, 2] return [partial, {}]", f),
          {
            let r1 = Pv::L(vec![Pv::L(vec![]), e.clone()]);
            let r2 = Pv::L(vec![Pv::L(vec![r1.clone()]), e.clone()]);
            Pv::L(vec![r1, r2])
          },
          false,
        ),
        ("in a some whose variable is named partial", format!("some partial in [3] satisfies ({}) = {}", f, pv_text(&e)), Pv::B(true), false),
      ];
      for (si, (site, text, want, user_var)) in sites.into_iter().enumerate() {
        let mut ctxs = base.clone();
        let mut note = "";
        if user_var {
          let top = ctxs.len() - 1;
          ctxs[top].set_entry(&Name::from("partial"), pv_num(99));
          note = " @ base scope with partial = 99 in the top context";
        } else if rng.chance(1, 4) {
          // a user variable named partial underneath changes nothing
          ctxs[0].set_entry(&Name::from("partial"), Value::String("user".into()));
          note = " @ base scope with partial = \"user\" in the bottom context";
        }
        let expected: Value = if si == 2 { Value::Context(ctx_of(&[("partial", pv_num(5)), ("r", e.value()), ("q", pv_num(5))])) } else { want.value() };
        // equality of a list with a written list containing null is not what the `some` site is about
        if site.starts_with("in a some") && pv_text(&e).contains("null") {
          continue;
        }
        match run_case(&text, &ctxs, 8) {
          Some(c) => {
            rep.hit(&format!("partial:{}; {}; {}", b.name, site, iterations));
            let sig = format!("for: the body does not see the results of the iterations before it as `partial` ({})", site);
            rows.push((sig, format!("{}{}", text, note), c, expected));
          }
          None => {
            rep.disagree(Kind::ImplVsSpec, "partial", "a for expression whose body reads partial is rejected by the parser", &text, "parse error", "a syntax tree");
          }
        }
      }
    }
  }
  rep.extra.insert("partial_cases".into(), json!(rows.len()));
  judge_written_out(rep, model, "partial", rows);
}

/// Family `partial-positions`: the implicit `partial` of a `for` occurring in every syntactic position of the body
/// (module `positions`: compositions of one wrapper per child slot of every node kind, the expectation from an
/// evaluator of its own; the node kinds reached are compared with `enum AstNode` of the source).
fn partial_positions_family(cfg: &Cfg, rep: &mut Report, model: &mut Model) {
  let sig = |pc: &positions::PosCase| {
    let outer = pc.position.split(" > ").next().unwrap_or("").to_string();
    format!("for: the body does not see the results of the iterations before it as `partial` when it occurs inside: {}", outer)
  };
  positions::run_positions(cfg, rep, model, "partial-positions", &[positions::Binder::Partial], &["partial"], &sig);
}

fn pv_text(v: &Pv) -> String {
  match v {
    Pv::Null => "null".into(),
    Pv::B(b) => b.to_string(),
    Pv::N(n) => n.to_string(),
    Pv::L(xs) => format!("[{}]", xs.iter().map(pv_text).collect::<Vec<_>>().join(", ")),
  }
}

// ------------------------------------------------------------------------------------------------------------------
// Family `freenames` (the last clause of the property in its free-names form; theorem
// `Dmn.Eval.eval_depends_on_free_names`): the same text is evaluated in the base scope and in scopes that bind the
// names occurring in the text alike and differ in everything else — bindings of other names removed, rebound to
// values of other kinds, moved to the other context, new names added. The value must be the same. A name "occurs"
// when the text contains it as a substring (an over-approximation of the names the expression looks up). The base
// scope binds no function values, so no function body reads a name the text does not contain. Rebound values are
// never contexts (a context value would add its keys to the names the lexer knows: known finding F70).
// ------------------------------------------------------------------------------------------------------------------
fn freenames_family(cfg: &Cfg, rep: &mut Report, model: &mut Model, vars: &Vars) {
  let thorough = cfg.tier == "thorough";
  let mut rng = Rng::new(cfg.seed ^ 0xf4ee_a3e5);
  let (_, _, base) = base_scope();
  let empty = Scope::default();
  let ev = |t: &str| crate::c09::eval_text(&empty, t);
  let others: Vec<Value> = vec![ev("41"), ev("\"zz\""), ev("false"), ev("null"), ev("[7, 8]"), ev("date(\"2000-01-01\")"), ev("[]"), ev("duration(\"P2D\")")];
  let mut texts: Vec<String> = corpus().iter().map(|s| s.to_string()).collect();
  {
    let mut g = Gen { rng: &mut rng, fresh: 0 };
    let n = if thorough { 20_000 } else { 900 };
    let max_depth = if thorough { 5 } else { 3 };
    for i in 0..n {
      let d = 1 + (i as u32 % max_depth);
      texts.push(g.any(d, vars));
    }
  }
  // texts in which a name of the scope is written without being looked up: a variable being declared, a parameter
  // name, a context key, the name after a path's dot, an argument name
  for t in [
    "for n2 in [1, 2] return nz",
    "for n2 in 1..2, s1 in [3] return nz + 1",
    "some n1 in [1] satisfies nz = 0",
    "every l1 in [1, 2] satisfies b1",
    "(function(n1) nz)(1)",
    "(function(n1, s1) nz + 1)(s1: 1, n1: 2)",
    "{n2: 5}.n2",
    "{n2: 5, r: nz}.r",
    "{r: {s1: 1}}.r.s1",
    "[{n2: 1}, {n2: 2}].n2",
    "[{n2: 1}, {n2: 2}][nz + 1].n2",
    "{f: function(l1) 7, r: f(l1: 0)}.r",
  ] {
    texts.push(t.to_string());
  }
  let all_names: Vec<String> = {
    let mut v: Vec<String> = vec![];
    for c in &base {
      for (k, _) in c.get_entries() {
        if !v.contains(&k.to_string()) {
          v.push(k.to_string());
        }
      }
    }
    v
  };
  // the keys the lexer learns from a binding: its name and every key nested in its value (FeelContext::flatten_keys).
  // A binding is changed only when none of them occurs in the text: which names the lexer recognises in the text is
  // then the same in both scopes (how the lexer's set of known names shapes the syntax tree is C10's matter: known
  // findings F70-lexer-known-names, F65-nested-key, F66-unbound-entry).
  fn nested_keys(v: &Value, out: &mut Vec<String>) {
    match v {
      Value::Context(c) => {
        for (k, x) in c.get_entries() {
          out.push(k.to_string());
          nested_keys(x, out);
        }
      }
      Value::List(xs) => {
        for x in xs.as_vec() {
          nested_keys(x, out);
        }
      }
      _ => {}
    }
  }
  let mut learnt: std::collections::BTreeMap<String, Vec<String>> = Default::default();
  for c in &base {
    for (k, v) in c.get_entries() {
      let e = learnt.entry(k.to_string()).or_default();
      e.push(k.to_string());
      nested_keys(v, e);
    }
  }
  let mut rows: Vec<(usize, &'static str, Case)> = vec![];
  let firsts: Vec<Option<Case>> = texts.iter().map(|t| run_case(t, &base, 8)).collect();
  // which of the scope's names the tree looks up is decided by the model's `namesIn` (the hypothesis of
  // `eval_depends_on_free_names`): a name occurring in the text is not looked up when the tree satisfies `namesIn`
  // for the set of all names but this one
  let mut asks: Vec<(usize, Option<String>, String)> = vec![];
  for (ti, t) in texts.iter().enumerate() {
    if let Some(f) = &firsts[ti] {
      let occurring: Vec<&String> = all_names.iter().filter(|n| t.contains(n.as_str())).collect();
      let absent: Vec<String> = all_names.iter().filter(|n| !t.contains(n.as_str())).map(|n| Sexp::str(n).to_string()).collect();
      // a name that does not occur in the text is not looked up (the substring rule is sound for the model's definition)
      asks.push((ti, None, format!("(c01 namesout {} ({}))", f.ast, absent.join(" "))));
      for n in &occurring {
        asks.push((ti, Some((*n).clone()), format!("(c01 namesout {} ({}))", f.ast, Sexp::str(n))));
      }
    }
  }
  let verdicts = model.ask_batch(&asks.iter().map(|a| a.2.clone()).collect::<Vec<_>>());
  let mut not_looked_up: Vec<Vec<String>> = vec![vec![]; texts.len()];
  for ((ti, name, _), v) in asks.iter().zip(verdicts.iter()) {
    match (name, v.as_str()) {
      (None, "true") => {}
      (None, other) => rep.disagree(Kind::ImplVsModel, "freenames", "namesIn: the tree looks up a name of the scope that does not occur in the text", &texts[*ti], other, "true"),
      (Some(n), "true") => {
        rep.hit("freenames:a name of the scope is written in the text without being looked up");
        not_looked_up[*ti].push(n.clone());
      }
      _ => {}
    }
  }
  for (ti, t) in texts.iter().enumerate() {
    // changed: the bindings of the names the tree does not look up, unless a key the lexer learns from the binding
    // (other than a declared name itself) occurs in the text
    let free: Vec<&String> = all_names
      .iter()
      .filter(|n| {
        let declared_only = not_looked_up[ti].contains(*n);
        (declared_only || !t.contains(n.as_str())) && learnt[n.as_str()].iter().all(|k| k == *n || !t.contains(k.as_str()))
      })
      .collect();
    rep.hit(&format!("freenames:{} of {} bindings changed", if free.len() >= 12 { "12+" } else if free.len() >= 6 { "6-11" } else { "0-5" }, all_names.len()));
    if firsts[ti].is_none() {
      continue;
    }
    for mutation in ["removed", "rebound", "moved", "added"] {
      let mut ctxs: Vec<FeelContext> = vec![FeelContext::default(), FeelContext::default()];
      for (ci, c) in base.iter().enumerate() {
        for (k, v) in c.get_entries() {
          let name = k.to_string();
          // a name bound in both contexts (n1) is visible through the top one; underneath it is not a binding of the name
          let is_free = free.iter().any(|n| **n == name);
          if !is_free {
            ctxs[ci].set_entry(k, v.clone());
            continue;
          }
          match mutation {
            "removed" => {
              if rng.chance(1, 2) {
                ctxs[ci].set_entry(k, v.clone());
              }
            }
            "rebound" => ctxs[ci].set_entry(k, rng.pick(&others).clone()),
            "moved" => ctxs[1 - ci].set_entry(k, v.clone()),
            _ => ctxs[ci].set_entry(k, v.clone()),
          }
        }
      }
      if mutation == "added" {
        for j in 0..3 {
          let n = format!("zq{}x", j);
          if !t.contains(&n) {
            ctxs[rng.below(2) as usize].set_entry(&Name::from(n.as_str()), rng.pick(&others).clone());
          }
        }
      }
      // `moved` may put a bottom binding over a top binding of the same name: keep the visible one (the top) for names that occur
      if let Some(c) = run_case(t, &ctxs, 8) {
        rows.push((ti, mutation, c));
      } else {
        rep.disagree(Kind::ImplVsSpec, "freenames", "a text that parses in the base scope is rejected in a scope that differs in the bindings of other names only", &format!("{} @ other names {}", t, mutation), "parse error", "a syntax tree");
      }
    }
  }
  let reqs: Vec<String> = rows.iter().map(|(_, _, c)| c.request.clone()).collect();
  let answers = model.ask_batch(&reqs);
  for ((ti, mutation, c), both) in rows.iter().zip(answers.iter()) {
    let ans = match Sexp::parse(both).as_ref().and_then(|x| x.as_list()) {
      Some([m, ..]) => m.to_string(),
      _ => both.clone(),
    };
    rep.hit(&format!("freenames:{}", mutation));
    if ans == "(unsupported)" {
      rep.hit("skipped:unsupported");
    } else {
      rep.case(&c.request, c.nontrivial);
      if c.implementation != ans {
        let sig = if ans.starts_with("(error") { "driver-error" } else { "evaluation differs from model (scope with other bindings of the names that do not occur)" };
        rep.disagree(Kind::ImplVsModel, "freenames", sig, &format!("{} @ other names {}", c.text, mutation), &c.implementation, &ans);
      }
    }
    if let Some(f) = &firsts[*ti] {
      if f.implementation != c.implementation {
        let sig = if f.ast != c.ast {
          "the syntax tree of a text changes with the bindings of names that do not occur in it"
        } else {
          "the value of an expression changes with the bindings of names that do not occur in it"
        };
        rep.disagree(Kind::ImplVsSpec, "freenames", sig, &format!("{} @ other names {} (scope {})", c.text, mutation, scope_text(&c.request)), &c.implementation, &f.implementation);
      }
    }
  }
  rep.extra.insert("freenames_texts".into(), json!(texts.len()));
  rep.extra.insert("freenames_cases".into(), json!(rows.len()));
}

fn scope_text(request: &str) -> String {
  // the scope part of a request line, shortened (for the shown input of a disagreement)
  let s: String = request.chars().rev().take(400).collect::<String>().chars().rev().collect();
  s
}

fn ast_kind(n: &AstNode) -> String {
  let s = format!("{:?}", n);
  s.split(|c| c == '(' || c == ' ' || c == '{').next().unwrap_or("").to_string()
}

fn children(n: &Sexp, out: &mut Vec<(String, String)>, depth: usize, max_depth: &mut usize) {
  if depth > *max_depth {
    *max_depth = depth;
  }
  if let Sexp::List(xs) = n {
    if let Some(Sexp::Atom(tag)) = xs.first() {
      for c in &xs[1..] {
        if let Sexp::List(ys) = c {
          if let Some(Sexp::Atom(ctag)) = ys.first() {
            if ctag != "s" {
              out.push((tag.clone(), ctag.clone()));
              children(c, out, depth + 1, max_depth);
            }
          }
        }
      }
    }
  }
}

pub fn scope_sexp(ctxs: &[FeelContext]) -> Option<String> {
  let mut parts = vec![];
  for c in ctxs {
    parts.push(value_sexp(&Value::Context(c.clone()))?.to_string());
  }
  Some(format!("({})", parts.join(" ")))
}

pub struct Case {
  pub text: String,
  pub request: String,
  pub ast: String,
  pub implementation: String,
  pub nontrivial: bool,
  pub pairs: Vec<(String, String)>,
}

/// Parses and evaluates `text` in (a fresh copy of) the base scope; returns the request line
/// for the model and the canonical implementation answer.
pub fn run_case(text: &str, ctxs: &[FeelContext], fuel: u32) -> Option<Case> {
  crate::util::note_case(text);
  let scope = Scope::new();
  for c in ctxs {
    scope.push(c.clone());
  }
  let before = scope.to_string();
  let node = match guarded(|| dmntk_feel_parser::parse_expression(&scope, text, false)) {
    Ok(Ok(n)) => n,
    _ => return None,
  };
  let after_parse = scope.to_string();
  let ast = ast_sexp(&node);
  let mut pairs = vec![];
  let mut max_depth = 0;
  children(&ast, &mut pairs, 1, &mut max_depth);
  let implementation = match guarded(|| dmntk_feel_evaluator::evaluate(&scope, &node)) {
    Ok(Ok(v)) => match value_sexp(&v) {
      Some(s) => {
        let after = scope.to_string();
        format!("(ok {} {})", s, if after == before && after_parse == before { "same" } else { "changed" })
      }
      None => "(unencodable)".to_string(),
    },
    Ok(Err(_)) => "(builderror)".to_string(),
    Err(m) => format!("(panic {})", Sexp::str(&m)),
  };
  let _ = ast_kind;
  Some(Case {
    text: text.to_string(),
    request: format!("(c01 eval {} {} {})", fuel, ast, scope_sexp(ctxs)?),
    ast: ast.to_string(),
    implementation,
    nontrivial: max_depth >= 3,
    pairs,
  })
}

pub fn corpus() -> Vec<&'static str> {
  vec![
    "for x in [], y in [1,2] return y",
    "for i in 1..2, x in [\"a\",\"b\"] return [i, x]",
    "for x in [1,2], y in [3,4] return x * y",
    "some x in [], y in [1] satisfies true",
    "every x in [], y in [1] satisfies false",
    "[1,2,3,4,5,6][item = 4]",
    "[1,2,3][item > 2]",
    "[1,2,3,4,5,6,7,8,9,10,11,12][5 + 5]",
    "[1,2,3][1.0]",
    "[1,2,3][-1]",
    "[1,2,3][0]",
    "{a: 1, b: a + 1, c: b * 2}",
    "{f: function(x) x + 1, r: f(2)}.r",
    "(function(a, b) a - b)(b: 1, a: 5)",
    "(function(b, a) b - a)(a: 1, b: 10)",
    "(function(loan amount, interest paid) loan amount - interest paid)(loan amount: 100, interest paid: 30)",
    "(function(z, y, x) [z, y, x])(x: 1, y: 2, z: 3)",
    "(function(x: list<number>) x)([])",
    "(function(x: list<number>) x)([null])",
    "(function(x: list<Any>) x)([1, 2])",
    "(function(x: list<list<number>>) x)([[]])",
    "{a: 1, b: 2} = {a: \"x\", c: 2}",
    "{a: 1, b: 2} != {a: \"x\", c: 2}",
    "{a: 1, b: 2} = {a: 1, c: 2}",
    "for x in [1,2,3] return if x = 1 then 1 else partial[-1] * x",
    "lc[b = 2].a",
    "li[item = 1]",
    "{a: 1}.b",
    "1 in [1..2]",
    "null = 1",
    "if null then 1 else 2",
    "for x in [1,2], x in [3,4] return x",
    "for i in 3..1 return i",
    "{f: function(a, b) external {java: {class: \"c\", method signature: \"m\"}}, r: 1}.r",
    // invoking a function whose body is external: there is nothing to call, the value is null
    "(function(x) external {java: {class: \"a\", method signature: \"b\"}})(1)",
    "{f: function(x) external {java: {class: \"a\", method signature: \"b\"}}, r: f(2)}.r",
    "{f: function() external {pmml: {document: \"d\", model: \"m\"}}, r: [f(), 1]}.r",
    "[function(a) external {java: {class: \"c\", method signature: \"m\"}}, 2][2]",
    "{f: function() external {pmml: {document: \"d\", model: \"m\"}}, g: function(x) x + 1, r: g(2)}.r",
    "lk[k2 - 1 > 0]",
    "(for e in lk return e.k2 - 1)[2]",
    "lk[k2 in [3, 4]]",
    "lk[3].k3.k4 - 1",
    "lk.k2",
    "{up: 100, rows: [{up: 1}, {up: 2}], r: rows[2].up + up}.r",
    "{up: 100, rows: [{up: 1}, {up: 2}], r: [rows[1].up, up, rows[-1].up, up]}.r",
    "{\"net value\": 10, gross: net value * 2}.gross",
    "{up: 100, inner: {up: null, echo: up}.echo}.inner",
    "{up: 100, inner: {up: 1/0, echo: up}}.inner.echo",
    "for i in 1.0..3.00 return i",
    "for i in 1.5..3 return i",
    "for i in -1.0..1 return i",
    "for i in -0.0..1 return i",
    "[[1,2],[3]][1][2]",
    "1 / 0",
    "n1 + nz",
    "{n1: 100, r: n1}.r",
    "(function(n1) n1 + n2)(1)",
    "(function(x: number) x)(x: \"a\")",
    "(function(x: number) x + 1)(x: [1])",
    "(function(l: list<number>) l)(l: 5)",
    "(function(a, b) a + b)(1)",
    "(function(a, b) a + b)(a: 1)",
    "[(function(n1, b) n1 + b)(1), n1]",
    "for i in 9223372036854775807..9223372036854775807 return 1",
    "for i in -9223372036854775808..-9223372036854775808 return 1",
    "for i in 9223372036854775806..9223372036854775807 return 1",
  ]
}

pub fn run_with(cfg: &Cfg, property: &str) -> Report {
  let mut rep = Report::new(
    property,
    "FEEL expression text generated from a typed grammar of the core fragment (arithmetic, comparison, and/or, if, between, in, lists, contexts, paths, filters, for/some/every with one and several variables over lists and ranges, function definition and positional/named invocation, instance of, ill-typed operands), depth ≤ 3 (quick) / ≤ 5 (thorough), parsed by the real parser in a two-context scope (with shadowing) that binds numbers, strings, booleans, nulls, lists, lists of contexts and contexts; a minimised corpus runs first. Non-trivial: the syntax tree has nesting depth ≥ 3; distinct by request line. Cases the exact-arithmetic model cannot compute (non-terminating division, results over 34 digits, built-in calls) are counted as `skipped_unsupported`.",
  );
  let (_, vars, ctxs) = base_scope();
  // debugging aid: VHARNESS_C01_PROBE="text;text;…" prints what the implementation answers in the base scope
  if let Ok(probe) = std::env::var("VHARNESS_C01_PROBE") {
    for t in probe.split(';') {
      eprintln!("PROBE {} => {}", t, run_case(t, &ctxs, 8).map(|c| c.implementation).unwrap_or_else(|| "(unparsable)".into()));
    }
  }
  let mut rng = Rng::new(cfg.seed);
  let thorough = cfg.tier == "thorough";
  if property == "C13" {
    // purity across evaluations: built-ins that could keep state between calls (compiled patterns)
    let mut r2 = Rng::new(cfg.seed ^ 0x5eed);
    crate::c08::regex_sequences(&mut rep, &mut r2, if thorough { 2000 } else { 200 });
  }
  let n_random = if thorough { 300_000 } else { 25_000 };
  let max_depth = if thorough { 5 } else { 3 };
  let mut texts: Vec<String> = corpus().iter().map(|s| s.to_string()).collect();
  let n_corpus = texts.len();
  // every kind of value against every kind of type, with `instance of`, `=` and `in` (a full matrix, every run)
  {
    let values = [
      "1", "\"a\"", "true", "null", "d1", "t1", "dt1", "ym1", "dd1", "r1", "[]", "[1]", "[1, \"a\"]", "[[1]]", "{}", "{a: 1}", "c1", "l1", "lc",
      "function(x) x", "function(x: number) x + 1", "[d1..d1]", "[\"a\"..\"b\")", "nn",
      "{a: 1, b: 2}", "{a: \"x\", c: 2}", "{a: \"x\", b: 2}", "{a: null}", "{A: 1}",
    ];
    let types = [
      "number", "string", "boolean", "date", "time", "date and time", "years and months duration", "days and time duration", "Any", "Null",
      "list<number>", "list<Any>", "list<list<number>>", "range<number>", "range<date>", "range<Any>", "context<a: number>", "context<a: Any>",
      "context<a: number, b: string>", "function<number>->number", "function<Any>->Any",
    ];
    for v in values {
      for t in types {
        texts.push(format!("({} instance of {})", v, t));
      }
    }
    for a in values {
      for b in values {
        texts.push(format!("({} = {})", a, b));
        texts.push(format!("({} in {})", a, b));
        texts.push(format!("({} in ({}, {}))", a, b, a));
      }
    }
  }
  {
    let mut g = Gen { rng: &mut rng, fresh: 0 };
    for i in 0..n_random {
      let d = 1 + (i as u32 % max_depth);
      texts.push(g.any(d, &vars));
    }
  }
  let mut model = Model::start(&cfg.driver);
  let mut pair_cov: BTreeSet<(String, String)> = BTreeSet::new();
  let mut cases = vec![];
  let mut unparsable = 0u64;
  for (ti, t) in texts.iter().enumerate() {
    match run_case(t, &ctxs, 8) {
      Some(c) => cases.push(c),
      None => {
        unparsable += 1;
        // every expression of the corpus is a well-formed expression over the base scope; generated ones are
        // built from the typed grammar and parse as well (counted, not judged: names glued by the generator)
        if ti < n_corpus {
          rep.disagree(Kind::ImplVsSpec, "parse", "a well-formed expression of the corpus is rejected by the parser", t, "parse error", "a syntax tree");
        }
      }
    }
  }
  let reqs: Vec<String> = cases.iter().map(|c| c.request.clone()).collect();
  let answers = model.ask_batch(&reqs);
  let mut skipped = 0u64;
  for (c, both) in cases.iter().zip(answers.iter()) {
    // the driver answers `(<model> <spec>)`
    let (ans, spec, why) = match Sexp::parse(both).as_ref().and_then(|x| x.as_list()) {
      Some([m, d]) => (m.to_string(), d.to_string(), String::new()),
      Some([m, d, w]) => (m.to_string(), d.to_string(), w.to_string()),
      _ => (both.clone(), both.clone(), String::new()),
    };
    let ans = &ans;
    if ans == "(unsupported)" || spec == "(unsupported)" {
      skipped += 1;
      rep.hit("skipped:unsupported");
      continue;
    }
    rep.case(&c.request, c.nontrivial);
    for p in &c.pairs {
      pair_cov.insert(p.clone());
    }
    let kind = c.implementation.split(' ').next().unwrap_or("").trim_start_matches('(').trim_end_matches(')').to_string();
    rep.hit(&format!("outcome:{}", kind));
    // ---- C13 on the implementation alone: scope untouched
    if c.implementation.ends_with(" changed)") {
      rep.disagree(Kind::ImplVsSpec, "scope_preserved", "evaluation or parsing changed the caller's scope", &c.text, &c.implementation, "scope unchanged");
    }
    if c.implementation.starts_with("(panic") {
      rep.disagree(Kind::ImplVsSpec, "no_panic", &format!("panic while evaluating: {}", panic_site(&c.implementation)), &c.text, &c.implementation, "a value");
    }
    if &c.implementation != ans {
      let sig = if ans.starts_with("(error") { "driver-error" } else { "evaluation differs from model" };
      rep.disagree(Kind::ImplVsModel, "eval", sig, &c.text, &c.implementation, ans);
    }
    // ---- the property: the value the FEEL semantics assigns
    if property == "C01" && c.implementation != spec && !c.implementation.starts_with("(panic") {
      rep.disagree(Kind::ImplVsSpec, "eval_eq_den", &spec_signature(c, &why), &c.text, &c.implementation, &spec);
    }
    if rep.samples.len() < 10 && c.nontrivial && c.text.len() < 90 && c.implementation.len() < 120 && !c.implementation.contains("null") {
      rep.sample(json!({"text": c.text, "implementation": c.implementation, "model": ans, "spec": spec}));
    }
  }
  // repeated evaluation of prepared evaluators in random order (C13, second clause)
  let mut repeat_failures = 0u64;
  {
    let scope = Scope::new();
    for c in &ctxs {
      scope.push(c.clone());
    }
    let mut prepared = vec![];
    for t in texts.iter().take(400) {
      if let Ok(Ok(node)) = guarded(|| dmntk_feel_parser::parse_expression(&scope, t, false)) {
        if let Ok(Ok(ev)) = guarded(|| dmntk_feel_evaluator::prepare(&node)) {
          if let Ok(first) = guarded(|| ev(&scope)) {
            prepared.push((t.clone(), ev, first));
          }
        }
      }
    }
    let rounds = if thorough { 20_000 } else { 3_000 };
    for _ in 0..rounds {
      if prepared.is_empty() {
        break;
      }
      let i = rng.below(prepared.len() as u64) as usize;
      let (t, ev, first) = &prepared[i];
      let again = guarded(|| ev(&scope)).unwrap_or(Value::Null(None));
      rep.evaluations += 1;
      let same = value_sexp(&again).map(|s| s.to_string()) == value_sexp(first).map(|s| s.to_string());
      if !same {
        repeat_failures += 1;
        rep.disagree(Kind::ImplVsSpec, "repeat_eval", "repeated evaluation of a prepared expression gives a different value", t, &again.to_string(), &first.to_string());
      }
    }
  }
  if property == "C01" {
    shape_family(cfg, &mut rep, &mut model, &vars);
    feelsem_family(&mut rep, &mut model);
    bifshadow_family(cfg, &mut rep, &mut model);
    partial_family(cfg, &mut rep, &mut model);
    pow_family(&mut rep, &mut model);
    filter_probe_family(&mut rep, &mut model);
    partial_positions_family(cfg, &mut rep, &mut model);
    folded::folded_family(cfg, &mut rep, &mut model);
    freenames_family(cfg, &mut rep, &mut model, &vars);
    crossargs::crossargs_family(cfg, &mut rep, &mut model);
  }
  rep.extra.insert("unparsable_generated".into(), json!(unparsable));
  rep.extra.insert("skipped_unsupported".into(), json!(skipped));
  rep.extra.insert("construct_pairs_covered".into(), json!(pair_cov.len()));
  let tags: BTreeSet<String> = pair_cov.iter().flat_map(|(a, b)| vec![a.clone(), b.clone()]).collect();
  rep.extra.insert("ast_node_kinds_covered".into(), json!(tags.iter().cloned().collect::<Vec<String>>()));
  rep.extra.insert("repeat_failures".into(), json!(repeat_failures));
  rep.model_requests = model.requests;
  rep
}

fn panic_site(implementation: &str) -> String {
  // the message is a code-point list; decode the first 60 characters for the signature
  if let Some(Sexp::List(xs)) = Sexp::parse(implementation) {
    if let Some(Sexp::List(cs)) = xs.get(1) {
      let s: String = cs.iter().skip(1).filter_map(|c| c.as_atom().and_then(|a| a.parse::<u32>().ok()).and_then(char::from_u32)).collect();
      let cleaned: String = s.chars().map(|c| if c.is_ascii_digit() { '#' } else { c }).take(60).collect();
      return cleaned;
    }
  }
  "unknown".into()
}

/// Which deviation of the code from the semantics is responsible (the driver tells by
/// evaluating intermediate variants): a stable signature.
fn spec_signature(c: &Case, why: &str) -> String {
  let quant = c.request.contains("(quantifiedContexts ") && !c.request.contains("(iterationContexts ");
  let mut parts = vec![];
  if why.contains("order") {
    parts.push("for over range and list variables does not iterate in declaration order (ranges are always innermost)");
  }
  if why.contains("empty-domain") {
    parts.push(if quant {
      "some/every over several variables: an empty domain does not empty the cartesian product"
    } else {
      "for (or some/every) over several variables: an empty domain does not empty the cartesian product"
    });
  }
  if why.contains("shadowing") {
    parts.push("two iteration variables of the same name: the outer one is visible in the body instead of the inner one");
  }
  if why.contains("index") {
    parts.push("filter with a numeric index: an integral index whose exponent is not 0 (1.0, or 10 computed as 5 + 5) selects nothing");
  }
  if parts.is_empty() {
    "value differs from the FEEL semantics".into()
  } else {
    parts.join("; ")
  }
}

pub fn run(cfg: &Cfg) -> Report {
  run_with(cfg, "C01")
}
