//! C01 — not implemented yet.

use crate::report::Report;
use crate::Cfg;

pub fn run(_cfg: &Cfg) -> Report {
  Report::new("C01", "not implemented")
}
