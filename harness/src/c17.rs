//! C17 — the workspace holds exactly the models its history of operations leaves in it.
//!
//! Implementation: `dmntk_workspace::Workspace` (add / remove / replace / clear / deploy /
//! evaluate_invocable), observed through the hook `verif_snapshot` and behaviourally.
//! Model: `Dmn.WS.run` through the driver; spec: `Dmn.WS.Spec` (also through the driver).

use crate::model::Model;
use crate::report::{Kind, Report};
use crate::rng::Rng;
use crate::sexp::Sexp;
use crate::Cfg;
use dmntk_feel::context::FeelContext;
use dmntk_model_evaluator::ModelEvaluator;
use dmntk_workspace::Workspace;
use serde_json::json;

pub fn model_xml(ns: &str, name: &str, body: &str) -> String {
  format!(
    r#"<?xml version="1.0" encoding="UTF-8"?>
<definitions namespace="{}" name="{}" id="_d1" xmlns="https://www.omg.org/spec/DMN/20191111/MODEL/">{}</definitions>"#,
    ns, name, body
  )
}

pub const GOOD_BODY: &str = r##"
  <decision name="D" id="_d"><variable typeRef="number" name="D"/>
    <literalExpression><text>1 + 1</text></literalExpression></decision>"##;

/// Bodies that parse as DMN but for which `ModelEvaluator::new` is expected to fail.
const BAD_BODIES: [&str; 3] = [
  r##"
  <decision name="D" id="_d"><variable typeRef="number" name="D"/>
    <literalExpression><text>1 +</text></literalExpression></decision>"##,
  r##"
  <decision name="D" id="_d"><variable typeRef="number" name="D"/>
    <informationRequirement id="_r1"><requiredInput href="#_missing"/></informationRequirement>
    <literalExpression><text>1</text></literalExpression></decision>"##,
  r##"
  <decision name="D" id="_d"><variable typeRef="tNoSuchType" name="D"/>
    <literalExpression><text>1</text></literalExpression></decision>"##,
];

/// Further bodies every one of which must *fail to build* (an `Err` of `ModelEvaluator::new`, neither a model nor a
/// panic unwinding through `Workspace::deploy`): the floor under "a model that fails to build".
const MUST_FAIL_BODIES: [(&str, &str); 4] = [
  (
    "two decisions requiring each other",
    r##"
  <decision name="A" id="_a"><variable name="A"/><informationRequirement id="_r1"><requiredDecision href="#_b"/></informationRequirement><literalExpression><text>B</text></literalExpression></decision>
  <decision name="B" id="_b"><variable name="B"/><informationRequirement id="_r2"><requiredDecision href="#_a"/></informationRequirement><literalExpression><text>A</text></literalExpression></decision>"##,
  ),
  (
    "two knowledge models requiring each other",
    r##"
  <businessKnowledgeModel name="F" id="_f"><variable name="F"/><encapsulatedLogic><literalExpression><text>G()</text></literalExpression></encapsulatedLogic><knowledgeRequirement id="_k1"><requiredKnowledge href="#_g"/></knowledgeRequirement></businessKnowledgeModel>
  <businessKnowledgeModel name="G" id="_g"><variable name="G"/><encapsulatedLogic><literalExpression><text>F()</text></literalExpression></encapsulatedLogic><knowledgeRequirement id="_k2"><requiredKnowledge href="#_f"/></knowledgeRequirement></businessKnowledgeModel>
  <decision name="D" id="_d"><variable name="D"/><knowledgeRequirement id="_k3"><requiredKnowledge href="#_f"/></knowledgeRequirement><literalExpression><text>F()</text></literalExpression></decision>"##,
  ),
  (
    "an item definition with neither a type reference nor components",
    r##"
  <itemDefinition name="tNote"/>
  <decision name="D" id="_d"><variable typeRef="tNote" name="D"/><literalExpression><text>1</text></literalExpression></decision>"##,
  ),
  (
    "an item definition referring to itself",
    r##"
  <itemDefinition name="tA"><typeRef>tA</typeRef></itemDefinition>
  <decision name="D" id="_d"><variable typeRef="tA" name="D"/><literalExpression><text>1</text></literalExpression></decision>"##,
  ),
];

/// `vharness child c17-build`: stdin = a model text.
pub fn build_child(input: &str) -> i32 {
  let xml = input.to_string();
  let r = std::panic::catch_unwind(move || dmntk_model::parse(&xml).ok().map(|d| ModelEvaluator::new(&d).is_ok()));
  println!(
    "{}",
    match r {
      Ok(Some(true)) => "ok",
      Ok(Some(false)) => "err",
      Ok(None) => "unparsed",
      Err(_) => "panic",
    }
  );
  0
}

#[derive(Clone, Debug, PartialEq)]
pub struct MDef {
  pub ns: String,
  pub name: String,
  pub builds: bool,
}

#[derive(Clone, Debug)]
pub enum Op {
  Add(MDef),
  Remove(String, String),
  Replace(MDef),
  Clear,
  Deploy,
}

impl Op {
  fn sexp(&self) -> Sexp {
    let d = |tag: &str, d: &MDef| Sexp::tagged(tag, vec![Sexp::atom(&d.ns), Sexp::atom(&d.name), Sexp::bool(d.builds)]);
    match self {
      Op::Add(x) => d("add", x),
      Op::Replace(x) => d("replace", x),
      Op::Remove(ns, n) => Sexp::tagged("remove", vec![Sexp::atom(ns), Sexp::atom(n)]),
      Op::Clear => Sexp::atom("clear"),
      Op::Deploy => Sexp::atom("deploy"),
    }
  }
}

pub struct Alphabet {
  pub bad_body: Option<&'static str>,
}

impl Alphabet {
  pub fn find() -> Alphabet {
    for b in BAD_BODIES {
      let r = std::panic::catch_unwind(|| match dmntk_model::parse(&model_xml("nsx", "nx", b)) {
        Ok(d) => ModelEvaluator::new(&d).is_err(),
        Err(_) => false,
      });
      if let Ok(true) = r {
        return Alphabet { bad_body: Some(b) };
      }
    }
    Alphabet { bad_body: None }
  }
  pub fn definitions(&self, d: &MDef) -> dmntk_model::model::Definitions {
    let body = if d.builds { GOOD_BODY } else { self.bad_body.unwrap_or(GOOD_BODY) };
    dmntk_model::parse(&model_xml(&d.ns, &d.name, body)).expect("alphabet model parses")
  }
}

/// Runs a history on the real workspace; returns the canonical observation in the same
/// S-expression shape the driver prints.
fn run_impl(alpha: &Alphabet, ops: &[Op], probe_names: &[String]) -> String {
  let mut w = Workspace::new(None);
  let mut results = vec![];
  for op in ops {
    let r = match op {
      Op::Add(d) => match w.add(alpha.definitions(d)) {
        Ok(()) => "ok".to_string(),
        Err(e) => {
          let m = e.to_string();
          if m.contains("namespace") {
            "errNamespaceExists".to_string()
          } else if m.contains("name") {
            "errNameExists".to_string()
          } else {
            format!("err:{}", m.replace(' ', "_"))
          }
        }
      },
      Op::Replace(d) => match w.replace(alpha.definitions(d)) {
        Ok(()) => "ok".to_string(),
        Err(e) => {
          let m = e.to_string();
          if m.contains("namespace") {
            "errNamespaceExists".to_string()
          } else if m.contains("name") {
            "errNameExists".to_string()
          } else {
            format!("err:{}", m.replace(' ', "_"))
          }
        }
      },
      Op::Remove(ns, n) => {
        w.remove(ns, n);
        "ok".to_string()
      }
      Op::Clear => {
        w.clear();
        "ok".to_string()
      }
      Op::Deploy => match w.deploy() {
        Ok(()) => "ok".to_string(),
        Err(_) => "err:deploy".to_string(),
      },
    };
    results.push(Sexp::atom(r));
  }
  let (defs, by_ns, by_name, evals) = w.verif_snapshot();
  // behavioural observation: which model names can be evaluated
  let mut can = vec![];
  for n in probe_names {
    if w.evaluate_invocable(n, "D", &FeelContext::default()).is_ok() {
      can.push(Sexp::atom(n));
    }
  }
  let pair = |p: &(String, String)| Sexp::list(vec![Sexp::atom(&p.0), Sexp::atom(&p.1)]);
  Sexp::list(vec![
    Sexp::tagged("results", results),
    Sexp::tagged("defs", defs.iter().map(pair).collect()),
    Sexp::tagged("byNs", by_ns.iter().map(|(k, p)| Sexp::list(vec![Sexp::atom(k), Sexp::atom(&p.0), Sexp::atom(&p.1)])).collect()),
    Sexp::tagged("byName", by_name.iter().map(|(k, p)| Sexp::list(vec![Sexp::atom(k), Sexp::atom(&p.0), Sexp::atom(&p.1)])).collect()),
    Sexp::tagged("evals", evals.iter().map(Sexp::atom).collect()),
    Sexp::tagged("can", can),
  ])
  .to_string()
}

fn request(ops: &[Op], probe_names: &[String]) -> String {
  format!(
    "(c17 run ({}) ({}))",
    ops.iter().map(|o| o.sexp().to_string()).collect::<Vec<_>>().join(" "),
    probe_names.join(" ")
  )
}

/// The property stated on the implementation's own observation (independent of the model):
/// indexes describe the list; namespaces and names are distinct.
fn check_invariant_on_impl(obs: &str) -> Option<String> {
  let s = Sexp::parse(obs)?;
  let parts = s.as_list()?;
  let field = |tag: &str| -> Vec<Vec<String>> {
    for p in parts {
      if let Some(l) = p.as_list() {
        if l.first().and_then(|x| x.as_atom()) == Some(tag) {
          return l[1..].iter().map(|e| e.as_list().map(|xs| xs.iter().map(|a| a.to_string()).collect()).unwrap_or_else(|| vec![e.to_string()])).collect();
        }
      }
    }
    vec![]
  };
  let defs = field("defs");
  let mut want_ns: Vec<Vec<String>> = defs.iter().map(|d| vec![d[0].clone(), d[0].clone(), d[1].clone()]).collect();
  let mut want_name: Vec<Vec<String>> = defs.iter().map(|d| vec![d[1].clone(), d[0].clone(), d[1].clone()]).collect();
  want_ns.sort();
  want_name.sort();
  let mut nss: Vec<&String> = defs.iter().map(|d| &d[0]).collect();
  nss.sort();
  nss.dedup();
  let mut names: Vec<&String> = defs.iter().map(|d| &d[1]).collect();
  names.sort();
  names.dedup();
  if nss.len() != defs.len() || names.len() != defs.len() {
    return Some("two stored definitions share a namespace or a name".into());
  }
  if field("byNs") != want_ns {
    return Some("the namespace index does not describe the stored list".into());
  }
  if field("byName") != want_name {
    return Some("the name index does not describe the stored list".into());
  }
  None
}

pub fn run(cfg: &Cfg) -> Report {
  let mut rep = Report::new(
    "C17",
    "histories of add/remove/replace/clear/deploy over a six-model alphabet (same namespace/different name, different namespace/same name, identical, disjoint, one failing to build): every history up to length L exhaustively over a reduced operation alphabet, plus random histories up to length 200 over the full alphabet. Non-trivial: the history contains at least one successful add followed by a remove, replace, failed add or deploy; distinct by rendered history.",
  );
  let alpha = Alphabet::find();
  // "built successfully" has a floor that does not depend on the builder: a decision whose logic is not a FEEL
  // expression (`1 +`) cannot be evaluated, so a model containing it cannot have built successfully
  {
    let xml = model_xml("nsx", "nx", BAD_BODIES[0]);
    let r = std::panic::catch_unwind(|| dmntk_model::parse(&xml).ok().map(|d| ModelEvaluator::new(&d).is_ok()));
    rep.case("alphabet: the model with invalid decision logic does not build", true);
    if let Ok(Some(true)) = r {
      rep.disagree(
        Kind::ImplVsSpec,
        "evaluable",
        "a model with a decision whose logic is not a FEEL expression builds successfully (and becomes evaluable on deploy)",
        &xml,
        "ModelEvaluator::new = Ok",
        "Err",
      );
    }
  }
  for (what, body) in MUST_FAIL_BODIES {
    let xml = model_xml("nsx", "nx", body);
    // in a child process: unbounded recursion while building aborts the process
    let (desc, out) = crate::util::child(&["c17-build"], &xml, 60_000);
    rep.case(&format!("floor: a model with {} does not build", what), true);
    let r: Result<Option<bool>, String> = match (desc.as_str(), out.trim()) {
      ("ok", "ok") => Ok(Some(true)),
      ("ok", "err") => Ok(Some(false)),
      ("ok", "unparsed") => Ok(None),
      ("ok", "panic") => Err("panic in ModelEvaluator::new".to_string()),
      (d, _) => Err(format!("the process building the model ended with {}", d)),
    };
    match r {
      Ok(Some(true)) => rep.disagree(
        Kind::ImplVsSpec,
        "evaluable",
        "a model that cannot be evaluated builds successfully (and becomes evaluable on deploy)",
        &format!("{}: {}", what, xml),
        "ModelEvaluator::new = Ok",
        "Err",
      ),
      Err(got) => rep.disagree(
        Kind::ImplVsSpec,
        "deploy",
        "building a model that cannot be built panics or aborts (nothing reaches Workspace::deploy's caller and the other models are not deployed)",
        &format!("{}: {}", what, xml),
        &got,
        "Err",
      ),
      _ => {}
    }
  }
  if alpha.bad_body.is_none() {
    rep.notes.push("no alphabet model fails to build on this tree: the failing-build member of the alphabet is replaced by a building one".into());
  }
  let has_bad = alpha.bad_body.is_some();
  let d = |ns: &str, n: &str, b: bool| MDef { ns: ns.into(), name: n.into(), builds: b || !has_bad };
  let models = vec![
    d("ns1", "n1", true),  // A
    d("ns1", "n2", true),  // same namespace, different name
    d("ns2", "n1", true),  // different namespace, same name
    d("ns1", "n1", false), // identical keys, fails to build
    d("ns3", "n3", true),  // disjoint
    d("ns4", "n4", false), // disjoint, fails to build
    d("ns2", "n2", true),  // crosses B and C
  ];
  let probe_names: Vec<String> = ["n1", "n2", "n3", "n4"].iter().map(|s| s.to_string()).collect();
  let mut all_ops: Vec<Op> = vec![Op::Clear, Op::Deploy];
  for m in &models {
    all_ops.push(Op::Add(m.clone()));
    all_ops.push(Op::Replace(m.clone()));
  }
  for ns in ["ns1", "ns2", "ns3", "ns9"] {
    for n in ["n1", "n2", "n3", "n9"] {
      all_ops.push(Op::Remove(ns.into(), n.into()));
    }
  }
  // reduced alphabet for the exhaustive part
  let small_ops: Vec<Op> = vec![
    Op::Add(models[0].clone()),
    Op::Add(models[1].clone()),
    Op::Add(models[2].clone()),
    Op::Add(models[5].clone()),
    Op::Replace(models[6].clone()),
    Op::Replace(models[3].clone()),
    Op::Remove("ns1".into(), "n2".into()),
    Op::Remove("ns2".into(), "n2".into()),
    Op::Remove("ns1".into(), "n1".into()),
    Op::Clear,
    Op::Deploy,
  ];
  let thorough = cfg.tier == "thorough";
  let max_len = if thorough { 6 } else { 4 };
  let mut histories: Vec<Vec<Op>> = vec![];
  // corpus: the cross-key removal that left stale reservations before the fix
  histories.push(vec![
    Op::Add(d("nsA", "nA", true)),
    Op::Add(d("nsB", "nB", true)),
    Op::Remove("nsA".into(), "nB".into()),
    Op::Add(d("nsC", "nA", true)),
    Op::Add(d("nsB", "nD", true)),
    Op::Deploy,
  ]);
  // exhaustive
  let k = small_ops.len();
  for len in 0..=max_len {
    let total = (k as u64).pow(len as u32);
    for mut code in 0..total {
      let mut h = Vec::with_capacity(len);
      for _ in 0..len {
        h.push(small_ops[(code % k as u64) as usize].clone());
        code /= k as u64;
      }
      histories.push(h);
    }
  }
  rep.extra.insert("exhaustive_up_to_length".into(), json!(max_len));
  rep.extra.insert("exhaustive_alphabet".into(), json!(k));
  let mut rng = Rng::new(cfg.seed);
  let n_random = if thorough { 20_000 } else { 2_000 };
  for _ in 0..n_random {
    let bound = if rng.chance(1, 10) { 200 } else { 12 };
    let len = 1 + rng.below(bound) as usize;
    histories.push((0..len).map(|_| rng.pick(&all_ops).clone()).collect());
  }

  let mut model = Model::start(&cfg.driver);
  let reqs: Vec<String> = histories.iter().map(|h| request(h, &probe_names)).collect();
  let answers = model.ask_batch(&reqs);
  for ((h, req), ans) in histories.iter().zip(reqs.iter()).zip(answers.iter()) {
    let obs = match std::panic::catch_unwind(|| run_impl(&alpha, h, &probe_names)) {
      Ok(o) => o,
      Err(_) => "(panic)".to_string(),
    };
    let nontrivial = {
      let mut added = false;
      let mut nt = false;
      for op in h {
        match op {
          Op::Add(_) if !added => added = true,
          Op::Add(_) | Op::Remove(_, _) | Op::Replace(_) | Op::Deploy if added => nt = true,
          _ => {}
        }
      }
      nt
    };
    rep.case(req, nontrivial);
    rep.hit(&format!("len:{}", if h.len() > 12 { ">12".to_string() } else { h.len().to_string() }));
    // model answer: "<model-observation> <spec-observation>"
    let parsed = Sexp::parse(ans);
    let (m_obs, spec) = match parsed.as_ref().and_then(|s| s.as_list()) {
      Some([m, s]) => (m.to_string(), s.clone()),
      _ => {
        rep.disagree(Kind::ImplVsModel, "run", "driver-error", req, &obs, ans);
        continue;
      }
    };
    if obs != m_obs {
      rep.disagree(Kind::ImplVsModel, "run", "workspace observation differs from model", req, &obs, &m_obs);
    }
    // impl vs spec: stored list, results and evaluable set as the abstract specification says
    let spec_l = spec.as_list().unwrap_or(&[]);
    let get = |s: &Sexp, tag: &str| -> Option<String> {
      s.as_list()?.iter().find(|p| p.as_list().and_then(|l| l.first()).and_then(|x| x.as_atom()) == Some(tag)).map(|p| p.to_string())
    };
    let obs_s = Sexp::parse(&obs).unwrap_or(Sexp::List(vec![]));
    let pairs = [("results", "results"), ("defs", "defs"), ("can", "evaluable")];
    for (itag, stag) in pairs {
      let i = get(&obs_s, itag).map(|x| x.replacen(itag, "", 1));
      let s = spec_l.iter().find(|p| p.as_list().and_then(|l| l.first()).and_then(|x| x.as_atom()) == Some(stag)).map(|p| p.to_string().replacen(stag, "", 1));
      if i != s {
        rep.disagree(
          Kind::ImplVsSpec,
          "refines_spec",
          &format!("history leaves a different '{}' than the abstract workspace", stag),
          req,
          &i.unwrap_or_default(),
          &s.unwrap_or_default(),
        );
      }
    }
    if let Some(why) = check_invariant_on_impl(&obs) {
      rep.disagree(Kind::ImplVsSpec, "inv_reachable", &why, req, &obs, "indexes describe the stored list");
    }
    if nontrivial && h.len() <= 6 {
      rep.sample(json!({"request": req, "implementation": obs, "model_and_spec": ans}));
    }
  }
  rep.exhaustive = true;
  rep.model_requests = model.requests;
  rep
}
