//! C17 — the workspace holds exactly the models its history of operations leaves in it.
//!
//! Implementation: `dmntk_workspace::Workspace` (add / remove / replace / clear / deploy /
//! evaluate_invocable), observed through the hook `verif_snapshot` and behaviourally.
//! Model: `Dmn.WS.run` through the driver; spec: `Dmn.WS.Spec` (also through the driver).

use crate::model::Model;
use crate::report::{Kind, Report};
use crate::rng::Rng;
use crate::sexp::Sexp;
use crate::Cfg;
use dmntk_feel::context::FeelContext;
use dmntk_model_evaluator::ModelEvaluator;
use dmntk_workspace::Workspace;
use serde_json::json;

pub fn model_xml(ns: &str, name: &str, body: &str) -> String {
  format!(
    r#"<?xml version="1.0" encoding="UTF-8"?>
<definitions namespace="{}" name="{}" id="_d1" xmlns="https://www.omg.org/spec/DMN/20191111/MODEL/">{}</definitions>"#,
    ns, name, body
  )
}

pub const GOOD_BODY: &str = r##"
  <decision name="D" id="_d"><variable typeRef="number" name="D"/>
    <literalExpression><text>1 + 1</text></literalExpression></decision>"##;

/// Bodies that parse as DMN but for which `ModelEvaluator::new` is expected to fail.
const BAD_BODIES: [&str; 3] = [
  r##"
  <decision name="D" id="_d"><variable typeRef="number" name="D"/>
    <literalExpression><text>1 +</text></literalExpression></decision>"##,
  r##"
  <decision name="D" id="_d"><variable typeRef="number" name="D"/>
    <informationRequirement id="_r1"><requiredInput href="#_missing"/></informationRequirement>
    <literalExpression><text>1</text></literalExpression></decision>"##,
  r##"
  <decision name="D" id="_d"><variable typeRef="tNoSuchType" name="D"/>
    <literalExpression><text>1</text></literalExpression></decision>"##,
];

/// Further bodies every one of which must *fail to build* (an `Err` of `ModelEvaluator::new`, neither a model nor a
/// panic unwinding through `Workspace::deploy`): the floor under "a model that fails to build".
const MUST_FAIL_BODIES: [(&str, &str); 4] = [
  (
    "two decisions requiring each other",
    r##"
  <decision name="A" id="_a"><variable name="A"/><informationRequirement id="_r1"><requiredDecision href="#_b"/></informationRequirement><literalExpression><text>B</text></literalExpression></decision>
  <decision name="B" id="_b"><variable name="B"/><informationRequirement id="_r2"><requiredDecision href="#_a"/></informationRequirement><literalExpression><text>A</text></literalExpression></decision>"##,
  ),
  (
    "two knowledge models requiring each other",
    r##"
  <businessKnowledgeModel name="F" id="_f"><variable name="F"/><encapsulatedLogic><literalExpression><text>G()</text></literalExpression></encapsulatedLogic><knowledgeRequirement id="_k1"><requiredKnowledge href="#_g"/></knowledgeRequirement></businessKnowledgeModel>
  <businessKnowledgeModel name="G" id="_g"><variable name="G"/><encapsulatedLogic><literalExpression><text>F()</text></literalExpression></encapsulatedLogic><knowledgeRequirement id="_k2"><requiredKnowledge href="#_f"/></knowledgeRequirement></businessKnowledgeModel>
  <decision name="D" id="_d"><variable name="D"/><knowledgeRequirement id="_k3"><requiredKnowledge href="#_f"/></knowledgeRequirement><literalExpression><text>F()</text></literalExpression></decision>"##,
  ),
  (
    "an item definition with neither a type reference nor components",
    r##"
  <itemDefinition name="tNote"/>
  <decision name="D" id="_d"><variable typeRef="tNote" name="D"/><literalExpression><text>1</text></literalExpression></decision>"##,
  ),
  (
    "an item definition referring to itself",
    r##"
  <itemDefinition name="tA"><typeRef>tA</typeRef></itemDefinition>
  <decision name="D" id="_d"><variable typeRef="tA" name="D"/><literalExpression><text>1</text></literalExpression></decision>"##,
  ),
];

/// `vharness child c17-build`: stdin = a model text.
pub fn build_child(input: &str) -> i32 {
  let xml = input.to_string();
  let r = std::panic::catch_unwind(move || dmntk_model::parse(&xml).ok().map(|d| ModelEvaluator::new(&d).is_ok()));
  println!(
    "{}",
    match r {
      Ok(Some(true)) => "ok",
      Ok(Some(false)) => "err",
      Ok(None) => "unparsed",
      Err(_) => "panic",
    }
  );
  0
}

#[derive(Clone, Debug, PartialEq)]
pub struct MDef {
  pub ns: String,
  pub name: String,
  pub builds: bool,
}

#[derive(Clone, Debug)]
pub enum Op {
  Add(MDef),
  Remove(String, String),
  Replace(MDef),
  Clear,
  Deploy,
}

impl Op {
  fn sexp(&self) -> Sexp {
    let d = |tag: &str, d: &MDef| Sexp::tagged(tag, vec![Sexp::atom(&d.ns), Sexp::atom(&d.name), Sexp::bool(d.builds)]);
    match self {
      Op::Add(x) => d("add", x),
      Op::Replace(x) => d("replace", x),
      Op::Remove(ns, n) => Sexp::tagged("remove", vec![Sexp::atom(ns), Sexp::atom(n)]),
      Op::Clear => Sexp::atom("clear"),
      Op::Deploy => Sexp::atom("deploy"),
    }
  }
}

pub struct Alphabet {
  pub bad_body: Option<&'static str>,
}

impl Alphabet {
  pub fn find() -> Alphabet {
    for b in BAD_BODIES {
      let r = std::panic::catch_unwind(|| match dmntk_model::parse(&model_xml("nsx", "nx", b)) {
        Ok(d) => ModelEvaluator::new(&d).is_err(),
        Err(_) => false,
      });
      if let Ok(true) = r {
        return Alphabet { bad_body: Some(b) };
      }
    }
    Alphabet { bad_body: None }
  }
  pub fn definitions(&self, d: &MDef) -> dmntk_model::model::Definitions {
    let body = if d.builds { GOOD_BODY } else { self.bad_body.unwrap_or(GOOD_BODY) };
    dmntk_model::parse(&model_xml(&d.ns, &d.name, body)).expect("alphabet model parses")
  }
}

/// Runs a history on the real workspace; returns the canonical observation in the same
/// S-expression shape the driver prints.
fn run_impl(alpha: &Alphabet, ops: &[Op], probe_names: &[String]) -> String {
  let mut w = Workspace::new(None);
  let mut results = vec![];
  for op in ops {
    let r = match op {
      Op::Add(d) => match w.add(alpha.definitions(d)) {
        Ok(()) => "ok".to_string(),
        Err(e) => {
          let m = e.to_string();
          if m.contains("namespace") {
            "errNamespaceExists".to_string()
          } else if m.contains("name") {
            "errNameExists".to_string()
          } else {
            format!("err:{}", m.replace(' ', "_"))
          }
        }
      },
      Op::Replace(d) => match w.replace(alpha.definitions(d)) {
        Ok(()) => "ok".to_string(),
        Err(e) => {
          let m = e.to_string();
          if m.contains("namespace") {
            "errNamespaceExists".to_string()
          } else if m.contains("name") {
            "errNameExists".to_string()
          } else {
            format!("err:{}", m.replace(' ', "_"))
          }
        }
      },
      Op::Remove(ns, n) => {
        w.remove(ns, n);
        "ok".to_string()
      }
      Op::Clear => {
        w.clear();
        "ok".to_string()
      }
      Op::Deploy => match w.deploy() {
        Ok(()) => "ok".to_string(),
        Err(_) => "err:deploy".to_string(),
      },
    };
    results.push(Sexp::atom(r));
  }
  let (defs, by_ns, by_name, evals) = w.verif_snapshot();
  // behavioural observation: which model names can be evaluated
  let mut can = vec![];
  for n in probe_names {
    if w.evaluate_invocable(n, "D", &FeelContext::default()).is_ok() {
      can.push(Sexp::atom(n));
    }
  }
  let pair = |p: &(String, String)| Sexp::list(vec![Sexp::atom(&p.0), Sexp::atom(&p.1)]);
  Sexp::list(vec![
    Sexp::tagged("results", results),
    Sexp::tagged("defs", defs.iter().map(pair).collect()),
    Sexp::tagged("byNs", by_ns.iter().map(|(k, p)| Sexp::list(vec![Sexp::atom(k), Sexp::atom(&p.0), Sexp::atom(&p.1)])).collect()),
    Sexp::tagged("byName", by_name.iter().map(|(k, p)| Sexp::list(vec![Sexp::atom(k), Sexp::atom(&p.0), Sexp::atom(&p.1)])).collect()),
    Sexp::tagged("evals", evals.iter().map(Sexp::atom).collect()),
    Sexp::tagged("can", can),
  ])
  .to_string()
}

fn request(ops: &[Op], probe_names: &[String]) -> String {
  format!(
    "(c17 run ({}) ({}))",
    ops.iter().map(|o| o.sexp().to_string()).collect::<Vec<_>>().join(" "),
    probe_names.join(" ")
  )
}

/// The property stated on the implementation's own observation (independent of the model):
/// indexes describe the list; namespaces and names are distinct.
fn check_invariant_on_impl(obs: &str) -> Option<String> {
  let s = Sexp::parse(obs)?;
  let parts = s.as_list()?;
  let field = |tag: &str| -> Vec<Vec<String>> {
    for p in parts {
      if let Some(l) = p.as_list() {
        if l.first().and_then(|x| x.as_atom()) == Some(tag) {
          return l[1..].iter().map(|e| e.as_list().map(|xs| xs.iter().map(|a| a.to_string()).collect()).unwrap_or_else(|| vec![e.to_string()])).collect();
        }
      }
    }
    vec![]
  };
  let defs = field("defs");
  let mut want_ns: Vec<Vec<String>> = defs.iter().map(|d| vec![d[0].clone(), d[0].clone(), d[1].clone()]).collect();
  let mut want_name: Vec<Vec<String>> = defs.iter().map(|d| vec![d[1].clone(), d[0].clone(), d[1].clone()]).collect();
  want_ns.sort();
  want_name.sort();
  let mut nss: Vec<&String> = defs.iter().map(|d| &d[0]).collect();
  nss.sort();
  nss.dedup();
  let mut names: Vec<&String> = defs.iter().map(|d| &d[1]).collect();
  names.sort();
  names.dedup();
  if nss.len() != defs.len() || names.len() != defs.len() {
    return Some("two stored definitions share a namespace or a name".into());
  }
  if field("byNs") != want_ns {
    return Some("the namespace index does not describe the stored list".into());
  }
  if field("byName") != want_name {
    return Some("the name index does not describe the stored list".into());
  }
  None
}

pub fn run(cfg: &Cfg) -> Report {
  let mut rep = Report::new(
    "C17",
    "histories of add/remove/replace/clear/deploy over a six-model alphabet (same namespace/different name, different namespace/same name, identical, disjoint, one failing to build): every history up to length L exhaustively over a reduced operation alphabet, plus random histories up to length 200 over the full alphabet. Non-trivial: the history contains at least one successful add followed by a remove, replace, failed add or deploy; distinct by rendered history. server: histories over an alphabet of namespaces and names with leading / trailing / doubled white space, tabs and no-break spaces (and their trimmed twins) sent to the running HTTP service (add / replace / remove / clear / deploy requests, then evaluations), exhaustively to length 3 over 9 operations plus random ones, against the abstract workspace (keys verbatim).",
  );
  let alpha = Alphabet::find();
  // "built successfully" has a floor that does not depend on the builder: a decision whose logic is not a FEEL
  // expression (`1 +`) cannot be evaluated, so a model containing it cannot have built successfully
  {
    let xml = model_xml("nsx", "nx", BAD_BODIES[0]);
    let r = std::panic::catch_unwind(|| dmntk_model::parse(&xml).ok().map(|d| ModelEvaluator::new(&d).is_ok()));
    rep.case("alphabet: the model with invalid decision logic does not build", true);
    if let Ok(Some(true)) = r {
      rep.disagree(
        Kind::ImplVsSpec,
        "evaluable",
        "a model with a decision whose logic is not a FEEL expression builds successfully (and becomes evaluable on deploy)",
        &xml,
        "ModelEvaluator::new = Ok",
        "Err",
      );
    }
  }
  for (what, body) in MUST_FAIL_BODIES {
    let xml = model_xml("nsx", "nx", body);
    // in a child process: unbounded recursion while building aborts the process
    let (desc, out) = crate::util::child(&["c17-build"], &xml, 60_000);
    rep.case(&format!("floor: a model with {} does not build", what), true);
    let r: Result<Option<bool>, String> = match (desc.as_str(), out.trim()) {
      ("ok", "ok") => Ok(Some(true)),
      ("ok", "err") => Ok(Some(false)),
      ("ok", "unparsed") => Ok(None),
      ("ok", "panic") => Err("panic in ModelEvaluator::new".to_string()),
      (d, _) => Err(format!("the process building the model ended with {}", d)),
    };
    match r {
      Ok(Some(true)) => rep.disagree(
        Kind::ImplVsSpec,
        "evaluable",
        "a model that cannot be evaluated builds successfully (and becomes evaluable on deploy)",
        &format!("{}: {}", what, xml),
        "ModelEvaluator::new = Ok",
        "Err",
      ),
      Err(got) => rep.disagree(
        Kind::ImplVsSpec,
        "deploy",
        "building a model that cannot be built panics or aborts (nothing reaches Workspace::deploy's caller and the other models are not deployed)",
        &format!("{}: {}", what, xml),
        &got,
        "Err",
      ),
      _ => {}
    }
  }
  if alpha.bad_body.is_none() {
    rep.notes.push("no alphabet model fails to build on this tree: the failing-build member of the alphabet is replaced by a building one".into());
  }
  let has_bad = alpha.bad_body.is_some();
  let d = |ns: &str, n: &str, b: bool| MDef { ns: ns.into(), name: n.into(), builds: b || !has_bad };
  let models = vec![
    d("ns1", "n1", true),  // A
    d("ns1", "n2", true),  // same namespace, different name
    d("ns2", "n1", true),  // different namespace, same name
    d("ns1", "n1", false), // identical keys, fails to build
    d("ns3", "n3", true),  // disjoint
    d("ns4", "n4", false), // disjoint, fails to build
    d("ns2", "n2", true),  // crosses B and C
  ];
  let probe_names: Vec<String> = ["n1", "n2", "n3", "n4"].iter().map(|s| s.to_string()).collect();
  let mut all_ops: Vec<Op> = vec![Op::Clear, Op::Deploy];
  for m in &models {
    all_ops.push(Op::Add(m.clone()));
    all_ops.push(Op::Replace(m.clone()));
  }
  for ns in ["ns1", "ns2", "ns3", "ns9"] {
    for n in ["n1", "n2", "n3", "n9"] {
      all_ops.push(Op::Remove(ns.into(), n.into()));
    }
  }
  // reduced alphabet for the exhaustive part
  let small_ops: Vec<Op> = vec![
    Op::Add(models[0].clone()),
    Op::Add(models[1].clone()),
    Op::Add(models[2].clone()),
    Op::Add(models[5].clone()),
    Op::Replace(models[6].clone()),
    Op::Replace(models[3].clone()),
    Op::Remove("ns1".into(), "n2".into()),
    Op::Remove("ns2".into(), "n2".into()),
    Op::Remove("ns1".into(), "n1".into()),
    Op::Clear,
    Op::Deploy,
  ];
  let thorough = cfg.tier == "thorough";
  let max_len = if thorough { 6 } else { 4 };
  let mut histories: Vec<Vec<Op>> = vec![];
  // corpus: the cross-key removal that left stale reservations before the fix
  histories.push(vec![
    Op::Add(d("nsA", "nA", true)),
    Op::Add(d("nsB", "nB", true)),
    Op::Remove("nsA".into(), "nB".into()),
    Op::Add(d("nsC", "nA", true)),
    Op::Add(d("nsB", "nD", true)),
    Op::Deploy,
  ]);
  // exhaustive
  let k = small_ops.len();
  for len in 0..=max_len {
    let total = (k as u64).pow(len as u32);
    for mut code in 0..total {
      let mut h = Vec::with_capacity(len);
      for _ in 0..len {
        h.push(small_ops[(code % k as u64) as usize].clone());
        code /= k as u64;
      }
      histories.push(h);
    }
  }
  rep.extra.insert("exhaustive_up_to_length".into(), json!(max_len));
  rep.extra.insert("exhaustive_alphabet".into(), json!(k));
  let mut rng = Rng::new(cfg.seed);
  let n_random = if thorough { 20_000 } else { 2_000 };
  for _ in 0..n_random {
    let bound = if rng.chance(1, 10) { 200 } else { 12 };
    let len = 1 + rng.below(bound) as usize;
    histories.push((0..len).map(|_| rng.pick(&all_ops).clone()).collect());
  }

  let mut model = Model::start(&cfg.driver);
  let reqs: Vec<String> = histories.iter().map(|h| request(h, &probe_names)).collect();
  let answers = model.ask_batch(&reqs);
  for ((h, req), ans) in histories.iter().zip(reqs.iter()).zip(answers.iter()) {
    let obs = match std::panic::catch_unwind(|| run_impl(&alpha, h, &probe_names)) {
      Ok(o) => o,
      Err(_) => "(panic)".to_string(),
    };
    let nontrivial = {
      let mut added = false;
      let mut nt = false;
      for op in h {
        match op {
          Op::Add(_) if !added => added = true,
          Op::Add(_) | Op::Remove(_, _) | Op::Replace(_) | Op::Deploy if added => nt = true,
          _ => {}
        }
      }
      nt
    };
    rep.case(req, nontrivial);
    rep.hit(&format!("len:{}", if h.len() > 12 { ">12".to_string() } else { h.len().to_string() }));
    // model answer: "<model-observation> <spec-observation>"
    let parsed = Sexp::parse(ans);
    let (m_obs, spec) = match parsed.as_ref().and_then(|s| s.as_list()) {
      Some([m, s]) => (m.to_string(), s.clone()),
      _ => {
        rep.disagree(Kind::ImplVsModel, "run", "driver-error", req, &obs, ans);
        continue;
      }
    };
    if obs != m_obs {
      rep.disagree(Kind::ImplVsModel, "run", "workspace observation differs from model", req, &obs, &m_obs);
    }
    // impl vs spec: stored list, results and evaluable set as the abstract specification says
    let spec_l = spec.as_list().unwrap_or(&[]);
    let get = |s: &Sexp, tag: &str| -> Option<String> {
      s.as_list()?.iter().find(|p| p.as_list().and_then(|l| l.first()).and_then(|x| x.as_atom()) == Some(tag)).map(|p| p.to_string())
    };
    let obs_s = Sexp::parse(&obs).unwrap_or(Sexp::List(vec![]));
    let pairs = [("results", "results"), ("defs", "defs"), ("can", "evaluable")];
    for (itag, stag) in pairs {
      let i = get(&obs_s, itag).map(|x| x.replacen(itag, "", 1));
      let s = spec_l.iter().find(|p| p.as_list().and_then(|l| l.first()).and_then(|x| x.as_atom()) == Some(stag)).map(|p| p.to_string().replacen(stag, "", 1));
      if i != s {
        rep.disagree(
          Kind::ImplVsSpec,
          "refines_spec",
          &format!("history leaves a different '{}' than the abstract workspace", stag),
          req,
          &i.unwrap_or_default(),
          &s.unwrap_or_default(),
        );
      }
    }
    if let Some(why) = check_invariant_on_impl(&obs) {
      rep.disagree(Kind::ImplVsSpec, "inv_reachable", &why, req, &obs, "indexes describe the stored list");
    }
    if nontrivial && h.len() <= 6 {
      rep.sample(json!({"request": req, "implementation": obs, "model_and_spec": ans}));
    }
  }
  variants_family(cfg, &mut rep, &mut model, &mut rng);
  server_family(cfg, &mut rep, &mut model, &mut rng, &alpha);
  {
    let mut r = rng.fork();
    load_order_family(cfg, &mut rep, &mut model, &mut r, &alpha);
  }
  rep.exhaustive = true;
  rep.model_requests = model.requests;
  rep
}

// ------------------------------------------------------------------------------------------
// family `variants`: a pool of documents in which every (namespace, name) has building and non-building variants
// ------------------------------------------------------------------------------------------

/// A document of the pool: key `k` (index into `VKEYS`) and variant `v` (index into the variant list).
#[derive(Clone, Copy, Debug, PartialEq)]
struct VDoc {
  k: usize,
  v: usize,
}

#[derive(Clone, Copy, Debug, PartialEq)]
enum VOp {
  Add(VDoc),
  Replace(VDoc),
  Remove(usize),
  Clear,
  Deploy,
}

/// K0 and K1 are disjoint, K2 has the namespace of K0 and the name of K1.
const VKEYS: [(&str, &str); 3] = [("va1", "vn1"), ("va2", "vn2"), ("va1", "vn2")];

/// Building variants: the body and the text of the value of its decision `D` (written out, not computed).
const VGOOD: [(&str, &str); 2] = [
  (
    r##"
  <decision name="D" id="_d"><variable typeRef="number" name="D"/>
    <literalExpression><text>1 + 1</text></literalExpression></decision>"##,
    "2",
  ),
  (
    r##"
  <inputData name="I" id="_i"><variable typeRef="number" name="I"/></inputData>
  <decision name="D" id="_d"><variable typeRef="number" name="D"/>
    <informationRequirement id="_r"><requiredInput href="#_i"/></informationRequirement>
    <literalExpression><text>if I = null then 11 else I</text></literalExpression></decision>"##,
    "11",
  ),
];

/// The abstract workspace of the property text, with the variant of every stored document: the reference the
/// implementation's answers are compared with after every operation.
#[derive(Default, Clone)]
struct VRef {
  stored: Vec<VDoc>,
  /// name → variant, for the models deployed (and not modified since)
  evaluable: Vec<(usize, VDoc)>,
}

impl VRef {
  fn remove(&mut self, k: usize) {
    let (ns, n) = VKEYS[k];
    self.stored.retain(|d| VKEYS[d.k].0 != ns && VKEYS[d.k].1 != n);
    self.evaluable.clear();
  }
  fn add(&mut self, d: VDoc) -> bool {
    let (ns, n) = VKEYS[d.k];
    if self.stored.iter().any(|e| VKEYS[e.k].0 == ns || VKEYS[e.k].1 == n) {
      return false; // a rejected add is not a modification
    }
    self.stored.push(d);
    self.evaluable.clear();
    true
  }
  fn step(&mut self, op: &VOp, n_good: usize) -> bool {
    match op {
      VOp::Add(d) => self.add(*d),
      VOp::Replace(d) => {
        self.remove(d.k);
        self.add(*d)
      }
      VOp::Remove(k) => {
        self.remove(*k);
        true
      }
      VOp::Clear => {
        self.stored.clear();
        self.evaluable.clear();
        true
      }
      VOp::Deploy => {
        self.evaluable = self.stored.iter().filter(|d| d.v < n_good).map(|d| (d.k, *d)).collect();
        true
      }
    }
  }
}

/// Histories over a pool of documents in which for every (namespace, name) there are two variants that build
/// (with different values of the decision `D`) and several that do not (invalid FEEL text, two decisions requiring
/// each other, a type that refers to itself, a required input that does not exist): after **every** operation of
/// every history the answer of the operation and the value — or the refusal — of `D` for every name are those of
/// the abstract workspace; the final stored list, results and evaluable set are also those of `Dmn.WS.Spec`.
/// Exhaustive over a 16-operation alphabet to length 3 (quick) / 5 (thorough), every history of the shapes
/// `m deploy m deploy`, `m m deploy m deploy`, `m deploy m m deploy` (m: a modification), random longer ones over
/// the whole pool.
fn variants_family(cfg: &Cfg, rep: &mut Report, model: &mut Model, rng: &mut Rng) {
  let thorough = cfg.tier == "thorough";
  // the non-building variants: only those the floor (child processes, above) found to answer Err on this tree;
  // one that builds or kills the process has been reported there
  let mut bad: Vec<(&str, &str)> = vec![];
  for (what, body) in [
    ("invalid FEEL text", BAD_BODIES[0]),
    (MUST_FAIL_BODIES[0].0, MUST_FAIL_BODIES[0].1),
    (MUST_FAIL_BODIES[3].0, MUST_FAIL_BODIES[3].1),
    ("a required input that does not exist", BAD_BODIES[1]),
  ] {
    let (desc, out) = crate::util::child(&["c17-build"], &model_xml("nsx", "nx", body), 60_000);
    if desc == "ok" && out.trim() == "err" {
      bad.push((what, body));
    }
  }
  if bad.is_empty() {
    rep.notes.push("variants: no document of the pool fails to build with an error on this tree (reported by the floor); family skipped".into());
    return;
  }
  let n_good = VGOOD.len();
  let n_var = n_good + bad.len();
  let body_of = |v: usize| -> &str {
    if v < n_good {
      VGOOD[v].0
    } else {
      bad[v - n_good].1
    }
  };
  // parsed once per document of the pool
  let mut parsed: Vec<Vec<dmntk_model::model::Definitions>> = vec![];
  for (ns, n) in VKEYS {
    let mut row = vec![];
    for v in 0..n_var {
      match dmntk_model::parse(&model_xml(ns, n, body_of(v))) {
        Ok(d) => row.push(d),
        Err(e) => {
          rep.disagree(Kind::ImplVsSpec, "variants", "a document of the pool is not read as a model", &model_xml(ns, n, body_of(v)), &e.to_string(), "Ok");
          return;
        }
      }
    }
    parsed.push(row);
  }
  let show = |op: &VOp| -> String {
    let doc = |d: &VDoc| format!("({:?}, {:?}; {})", VKEYS[d.k].0, VKEYS[d.k].1, if d.v < n_good { format!("builds, D = {}", VGOOD[d.v].1) } else { format!("does not build: {}", bad[d.v - n_good].0) });
    match op {
      VOp::Add(d) => format!("add{}", doc(d)),
      VOp::Replace(d) => format!("replace{}", doc(d)),
      VOp::Remove(k) => format!("remove({:?}, {:?})", VKEYS[*k].0, VKEYS[*k].1),
      VOp::Clear => "clear".into(),
      VOp::Deploy => "deploy".into(),
    }
  };
  let to_op = |op: &VOp| -> Op {
    let d = |x: &VDoc| MDef { ns: VKEYS[x.k].0.into(), name: VKEYS[x.k].1.into(), builds: x.v < n_good };
    match op {
      VOp::Add(x) => Op::Add(d(x)),
      VOp::Replace(x) => Op::Replace(d(x)),
      VOp::Remove(k) => Op::Remove(VKEYS[*k].0.into(), VKEYS[*k].1.into()),
      VOp::Clear => Op::Clear,
      VOp::Deploy => Op::Deploy,
    }
  };
  // alphabets
  let small_vars = [0usize, 1, n_good]; // two building, one not
  let mut small_mods: Vec<VOp> = vec![];
  for k in 0..2 {
    for v in small_vars {
      small_mods.push(VOp::Add(VDoc { k, v }));
      small_mods.push(VOp::Replace(VDoc { k, v }));
    }
    small_mods.push(VOp::Remove(k));
  }
  let mut small_ops = small_mods.clone();
  small_ops.push(VOp::Deploy);
  small_ops.push(VOp::Clear);
  let mut all_mods: Vec<VOp> = vec![VOp::Clear];
  for k in 0..VKEYS.len() {
    for v in 0..n_var {
      all_mods.push(VOp::Add(VDoc { k, v }));
      all_mods.push(VOp::Replace(VDoc { k, v }));
    }
    all_mods.push(VOp::Remove(k));
  }
  let mut histories: Vec<Vec<VOp>> = vec![];
  // corpus: a model that does not build, deployed, then substituted by one that does (replace; remove + add; clear + add)
  for b in n_good..n_var {
    let (bd, gd, other) = (VDoc { k: 0, v: b }, VDoc { k: 0, v: 0 }, VDoc { k: 1, v: 1 });
    histories.push(vec![VOp::Add(bd), VOp::Add(other), VOp::Deploy, VOp::Replace(gd), VOp::Deploy]);
    histories.push(vec![VOp::Add(bd), VOp::Deploy, VOp::Remove(0), VOp::Add(gd), VOp::Deploy]);
    histories.push(vec![VOp::Add(other), VOp::Add(bd), VOp::Deploy, VOp::Replace(VDoc { k: 2, v: 1 }), VOp::Deploy]);
    histories.push(vec![VOp::Add(gd), VOp::Deploy, VOp::Replace(bd), VOp::Deploy, VOp::Replace(VDoc { k: 0, v: 1 }), VOp::Deploy]);
  }
  let k = small_ops.len() as u64;
  let max_len = if thorough { 5 } else { 3 };
  for len in 0..=max_len {
    for mut code in 0..k.pow(len as u32) {
      let mut h = Vec::with_capacity(len);
      for _ in 0..len {
        h.push(small_ops[(code % k) as usize]);
        code /= k;
      }
      histories.push(h);
    }
  }
  // shaped: what one deploy leaves must not influence the next
  let mods: &[VOp] = if thorough { &all_mods } else { &small_mods };
  for a in mods {
    for b in mods {
      histories.push(vec![*a, VOp::Deploy, *b, VOp::Deploy]);
      let thirds: &[VOp] = if thorough { &small_mods } else { mods };
      for c in thirds {
        histories.push(vec![*a, *b, VOp::Deploy, *c, VOp::Deploy]);
        histories.push(vec![*a, VOp::Deploy, *b, *c, VOp::Deploy]);
      }
    }
  }
  let n_random = if thorough { 30_000 } else { 1_500 };
  for _ in 0..n_random {
    let bound = if rng.chance(1, 10) { 60 } else { 14 };
    let len = 2 + rng.below(bound) as usize;
    let h: Vec<VOp> = (0..len).map(|_| if rng.chance(1, 4) { VOp::Deploy } else { *rng.pick(&all_mods) }).collect();
    histories.push(h);
  }
  rep.extra.insert("variants_histories".into(), json!(histories.len()));
  rep.extra.insert("variants_pool".into(), json!(format!("{} keys x ({} building + {} non-building variants)", VKEYS.len(), n_good, bad.len())));

  let probe_names: Vec<String> = vec!["vn1".into(), "vn2".into()];
  let reqs: Vec<String> = histories.iter().map(|h| request(&h.iter().map(to_op).collect::<Vec<_>>(), &probe_names)).collect();
  let answers = model.ask_batch(&reqs);
  for ((h, req), ans) in histories.iter().zip(reqs.iter()).zip(answers.iter()) {
    let shown = h.iter().map(show).collect::<Vec<_>>().join(" ; ");
    let input = format!("{} ;; {}", req, shown);
    let nontrivial = h.iter().any(|o| matches!(o, VOp::Deploy)) && h.iter().any(|o| matches!(o, VOp::Add(_) | VOp::Replace(_)));
    rep.case(&format!("variants {}", shown), nontrivial);
    rep.hit(&format!("variants:len:{}", if h.len() > 6 { ">6".to_string() } else { h.len().to_string() }));
    // the implementation, observed after every operation
    let run = std::panic::catch_unwind(std::panic::AssertUnwindSafe(|| {
      let mut w = Workspace::new(None);
      let mut reference = VRef::default();
      let mut results: Vec<&'static str> = vec![];
      for (i, op) in h.iter().enumerate() {
        let got = match op {
          VOp::Add(d) => w.add(parsed[d.k][d.v].clone()).is_ok(),
          VOp::Replace(d) => w.replace(parsed[d.k][d.v].clone()).is_ok(),
          VOp::Remove(k) => {
            w.remove(VKEYS[*k].0, VKEYS[*k].1);
            true
          }
          VOp::Clear => {
            w.clear();
            true
          }
          VOp::Deploy => w.deploy().is_ok(),
        };
        let want = reference.step(op, n_good);
        results.push(if got { "ok" } else { "err" });
        if got != want {
          return Err((i, "the operation is answered differently than by the abstract workspace".to_string(), format!("{}", if got { "Ok" } else { "Err" }), format!("{}", if want { "Ok" } else { "Err" })));
        }
        for name in ["vn1", "vn2"] {
          let got = match w.evaluate_invocable(name, "D", &FeelContext::default()) {
            Ok(v) => v.to_string(),
            Err(_) => "not deployed".to_string(),
          };
          let want = match reference.evaluable.iter().find(|(k, _)| VKEYS[*k].1 == name) {
            Some((_, d)) => VGOOD[d.v].1.to_string(),
            None => "not deployed".to_string(),
          };
          if got != want {
            let sig = if want == "not deployed" {
              "a model can be evaluated that was not stored and building at the last deploy, or that was modified since"
            } else if got == "not deployed" {
              "a model stored at the last deploy that builds, not modified since, cannot be evaluated"
            } else {
              "evaluation answers with another document than the one stored under the name at the last deploy"
            };
            return Err((i, sig.to_string(), format!("D of {:?} = {}", name, got), format!("D of {:?} = {}", name, want)));
          }
        }
      }
      Ok((results, w.verif_snapshot()))
    }));
    match run {
      Err(_) => rep.disagree(Kind::ImplVsSpec, "variants", "a workspace operation panics", &input, "panic", "an answer"),
      Ok(Err((i, sig, got, want))) => rep.disagree(Kind::ImplVsSpec, "variants", &format!("variants: {}", sig), &format!("{} ;; after operation #{} ({})", input, i + 1, show(&h[i])), &got, &want),
      Ok(Ok((_results, (defs, by_ns, by_name, evals)))) => {
        // the final state against Dmn.WS.Spec (through the driver) and the index invariant on the implementation's own snapshot
        let spec = Sexp::parse(ans).and_then(|s| s.as_list().and_then(|l| l.get(1).cloned()));
        let sdefs = spec.as_ref().and_then(|s| s.as_list().and_then(|l| l.iter().find(|p| p.as_list().and_then(|x| x.first()).and_then(|x| x.as_atom()) == Some("defs")).map(|p| p.to_string())));
        let idefs = Sexp::tagged("defs", defs.iter().map(|p| Sexp::list(vec![Sexp::atom(&p.0), Sexp::atom(&p.1)])).collect()).to_string();
        match sdefs {
          None => rep.disagree(Kind::ImplVsModel, "variants", "driver-error", req, &idefs, ans),
          Some(s) if s != idefs => rep.disagree(Kind::ImplVsSpec, "variants", "variants: history leaves a different 'defs' than the abstract workspace", &input, &idefs, &s),
          _ => {}
        }
        let mut want_ns: Vec<(String, (String, String))> = defs.iter().map(|d| (d.0.clone(), d.clone())).collect();
        let mut want_name: Vec<(String, (String, String))> = defs.iter().map(|d| (d.1.clone(), d.clone())).collect();
        want_ns.sort();
        want_name.sort();
        if by_ns != want_ns || by_name != want_name {
          rep.disagree(Kind::ImplVsSpec, "variants", "variants: an index does not describe the stored list", &input, &format!("{:?} / {:?}", by_ns, by_name), &format!("{:?} / {:?}", want_ns, want_name));
        }
        if evals.iter().any(|e| !defs.iter().any(|d| &d.1 == e)) {
          rep.disagree(Kind::ImplVsSpec, "variants", "variants: a model evaluator is kept for a name that is not stored", &input, &format!("{:?}", evals), &format!("a subset of the names of {:?}", defs));
        }
      }
    }
  }
}

// ------------------------------------------------------------------------------------------
// family `server`: the same histories through the HTTP handlers of server/src/server.rs
// ------------------------------------------------------------------------------------------

// ------------------------------------------------------------------------------------------
// family `load-order`: Workspace::new(dir) on directories whose files are the same documents under different file
// names (the order in which WalkDir delivers the files is the file system's: other names, other order)
// ------------------------------------------------------------------------------------------

const SIG_LOAD_DISTINCT: &str = "load-order: with pairwise distinct namespaces and names the models evaluable after Workspace::new(dir) are not exactly the model files that build";
const SIG_LOAD_MODEL: &str = "load-order: the models evaluable after Workspace::new(dir) are those of no order of reading the files in the model of load_and_deploy_models";
const SIG_LOAD_ORDER: &str = "load-order: Workspace::new(dir) on the same files under other names gives another set of evaluable models although no two share a namespace or a name";

fn permutations(n: usize) -> Vec<Vec<usize>> {
  if n == 0 {
    return vec![vec![]];
  }
  let mut out = vec![];
  for p in permutations(n - 1) {
    for i in 0..=p.len() {
      let mut q = p.clone();
      q.insert(i, n - 1);
      out.push(q);
    }
  }
  out
}

fn load_order_family(cfg: &Cfg, rep: &mut Report, model: &mut Model, rng: &mut Rng, alpha: &Alphabet) {
  let has_bad = alpha.bad_body.is_some();
  let d = |ns: &str, n: &str, b: bool| Some(MDef { ns: ns.into(), name: n.into(), builds: b || !has_bad });
  // the pool: distinct models, clashing namespaces, clashing names, identical keys, non-building ones, a file that is no model
  let pool: Vec<Option<MDef>> = vec![d("ns1", "n1", true), d("ns2", "n2", true), d("ns3", "n3", false), d("ns4", "n4", true), d("ns1", "n5", true), d("ns5", "n1", true), d("ns1", "n1", false), d("ns2", "n6", false), None];
  let probes: Vec<String> = ["n1", "n2", "n3", "n4", "n5", "n6"].iter().map(|s| s.to_string()).collect();
  let n_sets = if cfg.tier == "thorough" { 400 } else { 60 };
  let base = std::env::temp_dir().join(format!("c17-load-{}-{}", std::process::id(), cfg.seed));
  let mut sets: Vec<Vec<Option<MDef>>> = vec![
    vec![pool[0].clone(), pool[1].clone()],
    vec![pool[0].clone(), pool[4].clone()],
    vec![pool[0].clone(), pool[5].clone()],
    vec![pool[0].clone(), pool[6].clone()],
    vec![pool[6].clone(), pool[0].clone(), None],
    vec![pool[0].clone(), pool[1].clone(), pool[2].clone(), None],
  ];
  for _ in 0..n_sets {
    let k = 2 + rng.below(3) as usize;
    let distinct_only = rng.chance(1, 2);
    let mut set: Vec<Option<MDef>> = vec![];
    while set.len() < k {
      let c = rng.pick(&pool).clone();
      let clash = |a: &MDef, b: &MDef| a.ns == b.ns || a.name == b.name;
      if let Some(m) = &c {
        if distinct_only && set.iter().flatten().any(|x| clash(x, m)) {
          continue;
        }
        if set.iter().flatten().any(|x| x == m) {
          continue;
        }
      }
      set.push(c);
    }
    sets.push(set);
  }
  for (si, set) in sets.iter().enumerate() {
    let k = set.len();
    let models: Vec<&MDef> = set.iter().flatten().collect();
    let distinct = models.iter().enumerate().all(|(i, a)| models.iter().skip(i + 1).all(|b| a.ns != b.ns && a.name != b.name));
    let perms = permutations(k);
    // the model's answer for every order of reading
    let doc = |x: &Option<MDef>| match x {
      Some(m) => format!("(m {} {} {})", m.ns, m.name, m.builds),
      None => "x".to_string(),
    };
    let reqs: Vec<String> = perms.iter().map(|p| format!("(c17 load ({}) ({}))", p.iter().map(|&i| doc(&set[i])).collect::<Vec<_>>().join(" "), probes.join(" "))).collect();
    let answers = model.ask_batch(&reqs);
    let m_cans: Vec<Vec<String>> = answers
      .iter()
      .map(|a| {
        let p = Sexp::parse(a);
        let mut v: Vec<String> = p.as_ref().and_then(|x| x.as_list()).and_then(|l| l.get(1)).and_then(|c| c.as_list()).map(|l| l.iter().skip(1).filter_map(|x| x.as_atom().map(|s| s.to_string())).collect()).unwrap_or_default();
        v.sort();
        v
      })
      .collect();
    let mut seen: Vec<Vec<String>> = vec![];
    // the same documents under file names assigned by every permutation (quick: at most 6 of them)
    for (pi, p) in perms.iter().enumerate().take(if cfg.tier == "thorough" { 24 } else { 6 }) {
      let dir = base.join(format!("s{}p{}", si, pi));
      let _ = std::fs::create_dir_all(dir.join("sub"));
      for (slot, &i) in p.iter().enumerate() {
        let text = match &set[i] {
          Some(m) => model_xml(&m.ns, &m.name, if m.builds { GOOD_BODY } else { alpha.bad_body.unwrap_or(GOOD_BODY) }),
          None => "this is not a model".to_string(),
        };
        // names of different lengths and letters, one of them in a sub-directory
        let name = match slot {
          0 => dir.join("a.dmn"),
          1 => dir.join(format!("zz{}.dmn", pi)),
          2 => dir.join("sub").join("m.dmn"),
          _ => dir.join(format!("{}-model-{}.dmn", slot, pi * 7)),
        };
        let _ = std::fs::write(name, text);
      }
      let dirc = dir.clone();
      let probes_c = probes.clone();
      let got = crate::util::guarded(move || {
        let w = Workspace::new(Some(dirc));
        let mut can: Vec<String> = probes_c.iter().filter(|n| w.evaluate_invocable(n, "D", &FeelContext::default()).is_ok()).cloned().collect();
        can.sort();
        can
      });
      let _ = std::fs::remove_dir_all(&dir);
      let input = format!("Workspace::new(dir) with the files [{}] written in the order {:?}", set.iter().map(doc).collect::<Vec<_>>().join(" "), p);
      rep.case(&format!("load-order:{}:{}", si, pi), k >= 2);
      rep.hit(if distinct { "load-order:distinct" } else { "load-order:clash" });
      let got = match got {
        Ok(g) => g,
        Err(e) => {
          rep.disagree(Kind::ImplVsSpec, "load", "load-order: Workspace::new(dir) panics", &input, &e, "a workspace");
          continue;
        }
      };
      if distinct {
        // written-out expectation: exactly the model files that build
        let mut want: Vec<String> = models.iter().filter(|m| m.builds).map(|m| m.name.clone()).collect();
        want.sort();
        if got != want {
          rep.disagree(Kind::ImplVsSpec, "load_order_independent", SIG_LOAD_DISTINCT, &input, &format!("{:?}", got), &format!("{:?}", want));
        }
        if let Some(first) = seen.first() {
          if *first != got {
            rep.disagree(Kind::ImplVsSpec, "load_order_independent", SIG_LOAD_ORDER, &input, &format!("{:?}", got), &format!("{:?}", first));
          }
        }
      }
      if !m_cans.iter().any(|c| *c == got) {
        rep.disagree(Kind::ImplVsModel, "load", SIG_LOAD_MODEL, &input, &format!("{:?}", got), &format!("one of {:?}", m_cans));
      }
      seen.push(got);
    }
    if distinct && m_cans.iter().any(|c| *c != m_cans[0]) {
      rep.disagree(Kind::ImplVsModel, "load", "load-order: the model of load depends on the order for distinct keys (contradicts load_order_independent)", &reqs.join(" "), &format!("{:?}", m_cans), "one answer");
    }
  }
  let _ = std::fs::remove_dir_all(&base);
}

fn show_op(op: &Op) -> String {
  match op {
    Op::Add(d) => format!("add({:?}, {:?}{})", d.ns, d.name, if d.builds { "" } else { ", does not build" }),
    Op::Replace(d) => format!("replace({:?}, {:?}{})", d.ns, d.name, if d.builds { "" } else { ", does not build" }),
    Op::Remove(ns, n) => format!("remove({:?}, {:?})", ns, n),
    Op::Clear => "clear".into(),
    Op::Deploy => "deploy".into(),
  }
}

fn op_line(op: &Op) -> String {
  use crate::c18::name_sexp;
  match op {
    Op::Add(d) => format!("(add {} {} {})", name_sexp(&d.ns), name_sexp(&d.name), d.builds),
    Op::Replace(d) => format!("(replace {} {} {})", name_sexp(&d.ns), name_sexp(&d.name), d.builds),
    Op::Remove(ns, n) => format!("(remove {} {})", name_sexp(ns), name_sexp(n)),
    Op::Clear => "clear".into(),
    Op::Deploy => "deploy".into(),
  }
}

/// The definitions operations of the service (`post_definitions_add` / `_replace` / `_remove` / `_clear` / `_deploy` and
/// the `do_*` functions behind them, server.rs) are the workspace operations: a history sent as requests leaves what
/// the abstract workspace specification says — keys (namespace, name) are compared verbatim, so a pair that add
/// reported removes exactly that model, and a pair that differs from it (in white space only, too) is another pair.
/// Observed: the answer to every request (added / already exists / status) and, afterwards, which names evaluate.
/// The alphabet has namespaces and names with leading, trailing and doubled inner spaces, tabs, no-break and
/// ideographic spaces, next to their trimmed twins.
fn server_family(cfg: &Cfg, rep: &mut Report, model: &mut Model, rng: &mut Rng, alpha: &Alphabet) {
  use crate::c18::{http, path_segment, xml_attr, Server};
  let thorough = cfg.tier == "thorough";
  let has_bad = alpha.bad_body.is_some();
  let d = |ns: &str, n: &str, b: bool| MDef { ns: ns.into(), name: n.into(), builds: b || !has_bad };
  let models = vec![
    d(" ns1", "n1 ", true),             // white space at one end of each key
    d("ns1", "n1", true),               // the trimmed twin: another pair
    d("ns1 ", " n1", true),             // the other ends
    d(" ns1 ", "n  2", true),           // both ends; doubled inside
    d("ns  2", "n\t1", false),          // tab inside; fails to build
    d("ns1\u{a0}", "\u{3000}n1", true), // no-break space, ideographic space
    d(" ns1", "n1", true),              // namespace of the first, name of the second
    d("ns3", "n 3", true),              // single inner space
    d("\tns4", "n4\t", true),           // tabs at the ends
  ];
  // the names asked for after a history: those it mentions, and their trimmed twins
  let probes_of = |h: &[Op]| -> Vec<String> {
    let mut probes: Vec<String> = vec![];
    for op in h {
      let n = match op {
        Op::Add(m) | Op::Replace(m) => m.name.clone(),
        Op::Remove(_, n) => n.clone(),
        _ => continue,
      };
      for p in [n.trim().to_string(), n] {
        if !probes.contains(&p) {
          probes.push(p);
        }
      }
    }
    probes
  };
  let mut removes: Vec<(String, String)> = vec![];
  for m in &models {
    for p in [
      (m.ns.clone(), m.name.clone()),
      (m.ns.trim().to_string(), m.name.trim().to_string()),
      (m.ns.clone(), "n9".to_string()),
      ("ns9".to_string(), m.name.clone()),
      (format!("{} ", m.ns), m.name.clone()),
    ] {
      if !removes.contains(&p) {
        removes.push(p);
      }
    }
  }
  let mut all_ops: Vec<Op> = vec![Op::Clear, Op::Deploy, Op::Deploy];
  for m in &models {
    all_ops.push(Op::Add(m.clone()));
    all_ops.push(Op::Add(m.clone()));
    all_ops.push(Op::Replace(m.clone()));
  }
  for (ns, n) in &removes {
    all_ops.push(Op::Remove(ns.clone(), n.clone()));
  }
  let small_ops: Vec<Op> = vec![
    Op::Add(models[0].clone()),
    Op::Add(models[1].clone()),
    Op::Add(models[2].clone()),
    Op::Remove(models[0].ns.clone(), models[0].name.clone()),
    Op::Remove(models[1].ns.clone(), models[1].name.clone()),
    Op::Remove(models[0].ns.clone(), "n9".into()),
    Op::Remove("ns9".into(), models[0].name.clone()),
    Op::Replace(models[0].clone()),
    Op::Deploy,
  ];
  let mut histories: Vec<Vec<Op>> = vec![];
  // corpus: a model is removed with the pair add reported, and added again
  for (ns, n) in [("https://dmntk.io/loans", "Loan approval "), (" https://dmntk.io/cards", "Card approval"), ("https://dmntk.io/accounts ", " Account approval")] {
    histories.push(vec![Op::Add(d(ns, n, true)), Op::Deploy, Op::Remove(ns.into(), n.into()), Op::Deploy, Op::Add(d(ns, n, true)), Op::Deploy]);
  }
  let k = small_ops.len() as u64;
  let max_len = if thorough { 4 } else { 3 };
  for len in 0..=max_len {
    for mut code in 0..k.pow(len as u32) {
      let mut h = Vec::with_capacity(len);
      for _ in 0..len {
        h.push(small_ops[(code % k) as usize].clone());
        code /= k;
      }
      histories.push(h);
    }
  }
  let n_random = if thorough { 6_000 } else { 350 };
  for _ in 0..n_random {
    let len = 2 + rng.below(13) as usize;
    let mut h: Vec<Op> = vec![];
    let mut added: Vec<MDef> = vec![];
    for _ in 0..len {
      // aim removes at what was added: with the exact pair half of the time
      let op = if !added.is_empty() && rng.chance(1, 4) {
        let m = rng.pick(&added).clone();
        if rng.chance(2, 3) {
          Op::Remove(m.ns.clone(), m.name.clone())
        } else {
          Op::Remove(m.ns.trim().to_string(), m.name.trim().to_string())
        }
      } else {
        rng.pick(&all_ops).clone()
      };
      if let Op::Add(m) | Op::Replace(m) = &op {
        added.push(m.clone());
      }
      h.push(op);
    }
    if rng.chance(1, 2) {
      h.push(Op::Deploy);
    }
    histories.push(h);
  }
  rep.extra.insert("server_histories".into(), json!(histories.len()));

  let mut server = match Server::start() {
    Ok(s) => s,
    Err(e) => {
      rep.disagree(Kind::ImplVsSpec, "server", "the service does not start on a loopback port", "start_server(127.0.0.1, free port)", &e, "a listening service");
      return;
    }
  };
  let port = server.port;
  let js = Some("application/json");
  let reqs: Vec<String> = histories
    .iter()
    .map(|h| format!("(c17 spec ({}) ({}))", h.iter().map(op_line).collect::<Vec<_>>().join(" "), probes_of(h).iter().map(|p| crate::c18::name_sexp(p)).collect::<Vec<_>>().join(" ")))
    .collect();
  let answers = model.ask_batch(&reqs);
  let content = |m: &MDef| -> String {
    let body = if m.builds { GOOD_BODY } else { alpha.bad_body.unwrap_or(GOOD_BODY) };
    json!({"content": base64::encode(model_xml(&xml_attr(&m.ns), &xml_attr(&m.name), body))}).to_string()
  };
  let mut n_http = 0u64;
  'hist: for ((h, req), ans) in histories.iter().zip(reqs.iter()).zip(answers.iter()) {
    let shown = h.iter().map(show_op).collect::<Vec<_>>().join(" ; ");
    let input = format!("{} ;; requests: {}", req, shown);
    let probes = probes_of(h);
    let mut results: Vec<String> = vec![];
    let mut exchange = |path: &str, ct: Option<&str>, body: &str| -> Result<serde_json::Value, String> {
      n_http += 1;
      let a = http(port, "POST", path, ct, body.as_bytes())?;
      serde_json::from_slice::<serde_json::Value>(&a.body).map_err(|e| format!("the answer is not JSON ({}): {}", e, String::from_utf8_lossy(&a.body)))
    };
    let mut steps: Vec<(String, Option<String>, String)> = vec![("/definitions/clear".into(), None, String::new())];
    for op in h {
      steps.push(match op {
        Op::Add(m) => ("/definitions/add".into(), Some(format!("{}\u{1}{}", m.ns, m.name)), content(m)),
        Op::Replace(m) => ("/definitions/replace".into(), None, content(m)),
        Op::Remove(ns, n) => ("/definitions/remove".into(), None, json!({"namespace": ns, "name": n}).to_string()),
        Op::Clear => ("/definitions/clear".into(), None, String::new()),
        Op::Deploy => ("/definitions/deploy".into(), None, String::new()),
      });
    }
    for (i, (path, added_pair, body)) in steps.iter().enumerate() {
      let j = match exchange(path, js, body) {
        Ok(j) => j,
        Err(e) => {
          rep.disagree(Kind::ImplVsSpec, "server", "the service does not answer a definitions request with a JSON document", &format!("{} ;; request #{} POST {}", input, i, path), &format!("{} (process alive: {})", e, server.alive()), "a JSON answer");
          break 'hist;
        }
      };
      if i == 0 {
        continue; // the clear that starts every history
      }
      let r = if let Some(data) = j.get("data") {
        if let Some(pair) = added_pair {
          // add reports what it stored: the attributes of the model, verbatim
          let got = format!("{}\u{1}{}", data.get("namespace").and_then(|x| x.as_str()).unwrap_or("?"), data.get("name").and_then(|x| x.as_str()).unwrap_or("?"));
          if got != *pair {
            rep.disagree(Kind::ImplVsSpec, "server", "definitions/add reports a namespace or name that differs from the attributes of the model", &format!("{} ;; request #{}", input, i), &format!("{:?}", got.replace('\u{1}', " | ")), &format!("{:?}", pair.replace('\u{1}', " | ")));
          }
        }
        "ok".to_string()
      } else {
        let msg = j.get("errors").and_then(|e| e.get(0)).and_then(|e| e.get("details")).and_then(|x| x.as_str()).unwrap_or("").to_string();
        if msg.contains("with namespace '") {
          "errNamespaceExists".to_string()
        } else if msg.contains("with name '") {
          "errNameExists".to_string()
        } else {
          format!("err:{}", msg.replace(' ', "_"))
        }
      };
      results.push(r);
    }
    let mut can: Vec<String> = vec![];
    for (pi, p) in probes.iter().enumerate() {
      match exchange(&format!("/evaluate/{}/D", path_segment(p)), Some("text/plain"), "{}") {
        Ok(j) => {
          if j.get("data").is_some() {
            can.push(pi.to_string());
          }
        }
        Err(e) => {
          rep.disagree(Kind::ImplVsSpec, "server", "the service does not answer an evaluation request with a JSON document", &format!("{} ;; POST /evaluate/{}/D", input, path_segment(p)), &e, "a JSON answer");
          break 'hist;
        }
      }
    }
    let nontrivial = {
      let mut added = false;
      let mut nt = false;
      for op in h {
        match op {
          Op::Add(_) if !added => added = true,
          Op::Add(_) | Op::Remove(_, _) | Op::Replace(_) | Op::Deploy if added => nt = true,
          _ => {}
        }
      }
      nt
    };
    rep.case(&format!("server {}", req), nontrivial);
    rep.hit(&format!("server:len:{}", if h.len() > 6 { ">6".to_string() } else { h.len().to_string() }));
    let i_results = format!("(results{}{})", if results.is_empty() { "" } else { " " }, results.join(" "));
    let i_can = format!("(evaluable{}{})", if can.is_empty() { "" } else { " " }, can.join(" "));
    let (s_results, s_can) = match Sexp::parse(ans).as_ref().and_then(|s| s.as_list()) {
      Some([r, e]) => (r.to_string(), e.to_string()),
      _ => {
        rep.disagree(Kind::ImplVsModel, "server", "driver-error", req, "", ans);
        continue;
      }
    };
    if i_results != s_results {
      rep.disagree(Kind::ImplVsSpec, "server_refines_spec", "a history of requests to the server leaves different 'results' than the abstract workspace", &input, &i_results, &s_results);
    }
    if i_can != s_can {
      let names = |idx: &str| -> String { idx.trim_matches(|c| c == '(' || c == ')').split(' ').skip(1).filter_map(|i| i.parse::<usize>().ok()).map(|i| format!("{:?}", probes[i])).collect::<Vec<_>>().join(", ") };
      rep.disagree(Kind::ImplVsSpec, "server_refines_spec", "a history of requests to the server leaves a different 'evaluable' than the abstract workspace", &input, &format!("{} = {}", i_can, names(&i_can)), &format!("{} = {}", s_can, names(&s_can)));
    }
    if !results.is_empty() && results.iter().all(|r| r == "ok") && rep.samples.len() < 12 && h.len() >= 3 && h.len() <= 5 && rng.chance(1, 30) {
      rep.sample(json!({"family": "server", "requests": shown, "results": i_results, "evaluable": i_can, "specification": ans}));
    }
  }
  rep.extra.insert("server_http_requests".into(), json!(n_http));
  if !server.alive() {
    rep.disagree(Kind::ImplVsSpec, "server", "the service process ended during the run", "(server family)", "process ended", "a running service");
  }
}
