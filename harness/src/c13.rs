//! C13 — evaluation is pure: the caller's scope is untouched and results are repeatable.
//!
//! Shares the generated programs of C01 (`c01::run_with`): for every case the scope's
//! `Display` is compared before parsing, after parsing and after evaluating; prepared
//! evaluators are re-run in random order and must give their first value again; the Lean
//! model (whose scope-preservation is a theorem) must agree with the implementation.
//!
//! Model level ("boxed contexts in models", "an invocable does not alter the caller's context"): the
//! requirement graphs of C04's corpus whose evaluation pushes and pops contexts around a use of the caller's
//! own names (`scope-…`: a decision service used as a function inside a larger expression, a boxed invocation
//! without bindings, a knowledge model with a boxed-context body) and a sample of generated graphs, against the
//! Lean model of requirement graphs — a context left behind or popped once too often shows as a wrong value.

use crate::report::Report;
use crate::Cfg;

pub fn run(cfg: &Cfg) -> Report {
  let mut rep = crate::c01::run_with(cfg, "C13");
  let thorough = cfg.tier == "thorough";
  crate::c04::run_graphs(cfg, &mut rep, if thorough { 1500 } else { 150 }, false, "scope-");
  rep
}
