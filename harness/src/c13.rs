//! C13 — evaluation is pure: the caller's scope is untouched and results are repeatable.
//!
//! Shares the generated programs of C01 (`c01::run_with`): for every case the scope's
//! `Display` is compared before parsing, after parsing and after evaluating; prepared
//! evaluators are re-run in random order and must give their first value again; the Lean
//! model (whose scope-preservation is a theorem) must agree with the implementation.

use crate::report::Report;
use crate::Cfg;

pub fn run(cfg: &Cfg) -> Report {
  crate::c01::run_with(cfg, "C13")
}
