//! C13 — evaluation is pure: the caller's scope is untouched and results are repeatable.
//!
//! Shares the generated programs of C01 (`c01::run_with`): for every case the scope's
//! `Display` is compared before parsing, after parsing and after evaluating; prepared
//! evaluators are re-run in random order and must give their first value again; the Lean
//! model (whose scope-preservation is a theorem) must agree with the implementation.
//!
//! Model level ("boxed contexts in models", "an invocable does not alter the caller's context"): the
//! requirement graphs of C04's corpus whose evaluation pushes and pops contexts around a use of the caller's
//! own names (`scope-…`: a decision service used as a function inside a larger expression, a boxed invocation
//! without bindings, a knowledge model with a boxed-context body) and a sample of generated graphs, against the
//! Lean model of requirement graphs — a context left behind or popped once too often shows as a wrong value.
//!
//! Parser half ("a successful parse leaves the parsing scope as it found it"; the theorem
//! `parse_scope_balanced` is about the table `lean/Dmn/Gen/ParserScope.lean`, regenerated from the sources):
//! `parse_families` parses a corpus that reaches every reduce action with a scope effect through every public
//! entry point, and generated expressions, in caller scopes of 0, 1, 2 and 3 contexts whose entries carry the
//! very names the expressions bind; the scope must print the same before and after every successful parse.
//! Which scope-affecting reduce actions each parse exercised is read off the syntax tree and counted: an
//! action the translator finds to have a scope effect and that no parse exercised is reported (the tie would
//! have a hole).  Failed parses (every prefix of the corpus texts and a few garbled variants) are observed and
//! counted — the property does not speak of them.
//!
//! Repeatability at the model level (`model_repeatability`): generated models — a decision table whose input
//! expressions, input values, input entries, output entries, output values and default output entries read the
//! input data, a knowledge model (literal or decision table over its parameters), a literal decision over both, a
//! boxed context / invocation, decision services with and without input decisions, a decision calling a service —
//! are built ONCE and every invocable is evaluated on that one `ModelEvaluator` over the sequence A, B, A, C, B of
//! input contexts (B and C differ from A in a random non-empty subset of the entries), the invocables interleaved;
//! every answer must be the answer of a FRESHLY built evaluator given that single call, and the input context must
//! print the same afterwards.  The same for the decision table alone through `build_decision_table_evaluator`.
//!
//! Repeatability over long histories of one thread (`long_sequences`): every block runs in a thread of its own
//! (thread-wide state starts clean and does not leak into the other families).  A block first evaluates a fixed set
//! of expressions (invocations of user-defined functions in both call forms, recursion, lambdas given to built-ins,
//! loops, filters, contexts, the first texts of the corpus, generated texts), then evaluates a few hundred to a few
//! thousand expressions that fail in one particular way (or, in the mixed blocks, in every way) alternating with
//! succeeding ones — as separate parse-and-evaluate calls and inside one `for i in 1..300 return [fail, ok]` — and
//! then evaluates the fixed set again, through the parser and through the evaluators prepared at the start: every
//! value must be the first value.  The loops and the fixed set are also compared with the Lean model.

use crate::report::{Kind, Report};
use crate::rng::Rng;
use crate::sexp::Sexp;
use crate::util::guarded;
use crate::vals::{ast_sexp, value_sexp};
use crate::Cfg;
use dmntk_feel::context::FeelContext;
use dmntk_feel::values::Value;
use dmntk_feel::{AstNode, FeelNumber, Name, Scope};
use serde_json::json;
use std::collections::{BTreeMap, BTreeSet};

mod dtoverlap;
mod reuse;

pub fn run(cfg: &Cfg) -> Report {
  let mut rep = crate::c01::run_with(cfg, "C13");
  let thorough = cfg.tier == "thorough";
  crate::c04::run_graphs(cfg, &mut rep, if thorough { 1500 } else { 150 }, false, "scope-");
  parse_families(cfg, &mut rep);
  let t0 = std::time::Instant::now();
  model_repeatability(cfg, &mut rep);
  let t1 = std::time::Instant::now();
  long_sequences(cfg, &mut rep);
  let t2 = std::time::Instant::now();
  reuse::reuse_family(cfg, &mut rep);
  dtoverlap::dt_overlap_family(cfg, &mut rep);
  if std::env::var("VHARNESS_C13_TRACE").is_ok() {
    eprintln!("reuse {} ms", t2.elapsed().as_millis());
  }
  if std::env::var("VHARNESS_C13_TRACE").is_ok() {
    eprintln!("model_repeatability {} ms, long_sequences {} ms", (t1 - t0).as_millis(), t1.elapsed().as_millis());
  }
  rep
}

/// The reduce actions with a scope effect, as the translator found them (`actionEffects` of the regenerated
/// table; the harness runs with the verification directory as working directory).  Fallback: the list at
/// the time of writing.
fn scope_actions() -> (Vec<String>, bool) {
  let fallback = || {
    [
      "context_begin",
      "context_end",
      "context_entry",
      "every",
      "every_begin",
      "for",
      "for_begin",
      "formal_parameter_with_type",
      "formal_parameter_without_type",
      "formal_parameters_begin",
      "function_body",
      "function_body_external",
      "iteration_context_variable_name",
      "quantified_expression_variable_name",
      "some",
      "some_begin",
    ]
    .iter()
    .map(|s| s.to_string())
    .collect::<Vec<String>>()
  };
  let text = match std::fs::read_to_string("lean/Dmn/Gen/ParserScope.lean") {
    Ok(t) => t,
    Err(_) => return (fallback(), false),
  };
  let mut out = vec![];
  let mut inside = false;
  for line in text.lines() {
    if line.starts_with("def actionEffects") {
      inside = true;
      continue;
    }
    if inside {
      let l = line.trim();
      if l == "]" {
        break;
      }
      // `/-  16 context_begin -/ [.push],`
      if let (Some(a), Some(b)) = (l.find("/-"), l.find("-/")) {
        let name = l[a + 2..b].split_whitespace().last().unwrap_or("").to_string();
        let effs = l[b + 2..].trim().trim_end_matches(',').trim();
        if effs != "[]" && !name.is_empty() {
          out.push(name);
        }
      }
    }
  }
  if out.is_empty() {
    (fallback(), false)
  } else {
    (out, true)
  }
}

/// The scope-affecting reduce actions a successful parse must have executed, read off its syntax tree.
fn exercised(n: &Sexp, text: &str, out: &mut BTreeSet<&'static str>) {
  if let Sexp::List(xs) = n {
    if let Some(Sexp::Atom(tag)) = xs.first() {
      match tag.as_str() {
        "for" => {
          out.insert("for_begin");
          out.insert("for");
        }
        "some" => {
          out.insert("some_begin");
          out.insert("some");
        }
        "every" => {
          out.insert("every_begin");
          out.insert("every");
        }
        "context" => {
          out.insert("context_begin");
          out.insert("context_end");
        }
        "contextEntry" => {
          out.insert("context_entry");
        }
        "iterationContextSingle" | "iterationContextRange" => {
          out.insert("iteration_context_variable_name");
        }
        "quantifiedContext" => {
          out.insert("quantified_expression_variable_name");
        }
        "functionDefinition" => {
          out.insert("formal_parameters_begin");
        }
        "functionBody" => {
          let ext = matches!(xs.last(), Some(Sexp::Atom(a)) if a == "true");
          out.insert(if ext { "function_body_external" } else { "function_body" });
        }
        "formalParameter" => {
          // `x` and `x: Any` give the same tree: counted as typed only when the type is not Any, as untyped
          // only when the text has no `: Any`
          let any = xs.get(2).map(|t| t.to_string().contains("any")).unwrap_or(false);
          if !any {
            out.insert("formal_parameter_with_type");
          } else if !text.contains(": Any") && !text.contains(":Any") {
            out.insert("formal_parameter_without_type");
          }
        }
        _ => {}
      }
      for c in &xs[1..] {
        exercised(c, text, out);
      }
    }
  }
}

type ParseFn = fn(&Scope, &str, bool) -> dmntk_common::Result<AstNode>;

fn parse_name_as_node(scope: &Scope, text: &str, trace: bool) -> dmntk_common::Result<AstNode> {
  dmntk_feel_parser::parse_name(scope, text, trace).map(AstNode::Name)
}

fn entry_points() -> Vec<(&'static str, ParseFn)> {
  vec![
    ("parse_expression", dmntk_feel_parser::parse_expression as ParseFn),
    ("parse_textual_expression", dmntk_feel_parser::parse_textual_expression as ParseFn),
    ("parse_textual_expressions", dmntk_feel_parser::parse_textual_expressions as ParseFn),
    ("parse_unary_tests", dmntk_feel_parser::parse_unary_tests as ParseFn),
    ("parse_boxed_expression", dmntk_feel_parser::parse_boxed_expression as ParseFn),
    ("parse_context", dmntk_feel_parser::parse_context as ParseFn),
    ("parse_name", parse_name_as_node as ParseFn),
  ]
}

/// Caller scopes: no context at all, one empty context, two and three contexts whose entries carry the names
/// the corpus binds (`x`, `y`, `partial`, `a`, `b`, `f`, `item`) with non-null values — an entry written into
/// a caller's context, or a caller's context popped, shows in `Display`.
fn caller_scopes() -> Vec<(&'static str, Vec<FeelContext>)> {
  let num = |n: i64| Value::Number(FeelNumber::from(n));
  let mk = |names: &[&str], base: i64| {
    let mut c = FeelContext::default();
    for (i, n) in names.iter().enumerate() {
      c.set_entry(&Name::from(*n), num(base + i as i64));
    }
    c
  };
  let (_, _, base) = crate::c01::base_scope();
  vec![
    ("no context", vec![]),
    ("one empty context", vec![FeelContext::default()]),
    ("two contexts binding the names of the text", vec![mk(&["x", "partial", "a", "n1"], 10), mk(&["y", "b", "f", "item", "x"], 20)]),
    (
      "three contexts (base scope of the generated programs and one on top)",
      vec![base[0].clone(), base[1].clone(), mk(&["x", "y", "partial", "a"], 30)],
    ),
  ]
}

fn fresh_scope(ctxs: &[FeelContext]) -> Scope {
  let scope = Scope::new();
  for c in ctxs {
    scope.push(c.clone());
  }
  scope
}

/// Texts that reach every scope-affecting reduce action; (entry point, text).
fn corpus() -> Vec<(&'static str, &'static str)> {
  let mut v = vec![];
  let expressions = [
    // for / iteration contexts (list and range), `partial`, several variables, nesting
    "for x in [1, 2, 3] return x + 1",
    "for x in 1..3 return x",
    "for x in [1, 2], y in [x, 3] return x * y",
    "for x in [1, 2] return for y in [x] return partial",
    "for x in [1, 2] return partial",
    // some / every
    "some x in [1, 2, 3] satisfies x > 2",
    "every x in [1, 2], y in [3] satisfies x < y",
    "some x in [1] satisfies every y in [x] satisfies y = x",
    // contexts: entries visible to later entries, nested, string keys, empty
    "{}",
    "{a: 1}",
    "{a: 1, b: a + 1}",
    "{a: {b: 1, c: b}, d: a.c}",
    "{\"a b\": 1, c: 2}",
    "{a: for x in [1] return x, b: some y in [a] satisfies y = [1]}",
    // function definitions: no parameter, untyped, typed, several, external, nested, invoked
    "function() 1",
    "function(x) x + 1",
    "function(x: number) x + 1",
    "function(x, y: string, z: list<number>) [x, y, z]",
    "function(x: Any) x",
    "function(a, b) external {java: {class: \"c\", method signature: \"m\"}}",
    "function(x) function(y) x + y",
    "function(x) {a: x, b: a}",
    "(function(x) x * 2)(3)",
    "{f: function(x) x, r: f(1)}.r",
    // mixtures under every other construct that takes expressions
    "if (some x in [1] satisfies x = 1) then (for y in [1] return y) else {a: 1}",
    "[for x in [1] return x, {a: 1}, function(x) x][1]",
    "[{a: 1}, {a: 2}][a > 1]",
    "(for x in [1, 2] return x) = [1, 2] and {a: true}.a or false",
    "1 in (for x in [1] return x)",
    "5 between (for x in [1] return x)[1] and {b: 9}.b",
    "{a: 1} instance of context<a: number>",
    "(function(x: number) x) instance of function<number> -> number",
    "-(for x in [1] return x)[1] + {a: 2}.a * 3 ** 2",
    "x", "partial + 1", "a.b", "1 + 2",
  ];
  for t in expressions {
    v.push(("parse_expression", t));
  }
  for t in expressions {
    // a boxed expression at the top is not a textual expression: those are rejected there, the others accepted
    v.push(("parse_textual_expression", t));
    v.push(("parse_boxed_expression", t));
  }
  for t in ["1, for x in [1] return x, {a: 1}.a", "some x in [1] satisfies x = 1", "(function(x) x)(1), 2"] {
    v.push(("parse_textual_expressions", t));
  }
  for t in [
    "-",
    "1, 2",
    "not(1, 2)",
    "< 5, [1..2]",
    "for x in [1] return x",
    "{a: 1}.a, (function(x) x)(2)",
    "not(some x in [1] satisfies x = 1)",
    "[1, 2], every y in [1] satisfies y > 0",
  ] {
    v.push(("parse_unary_tests", t));
  }
  for t in ["{}", "{a: 1, b: a}", "{a: function(x) x, b: for y in [1] return y}", "{a: {b: {c: 1}}}"] {
    v.push(("parse_context", t));
  }
  for t in ["x", "a b", "n1", "for"] {
    v.push(("parse_name", t));
  }
  v
}

pub fn parse_families(cfg: &Cfg, rep: &mut Report) {
  let thorough = cfg.tier == "thorough";
  let (scope_acts, from_table) = scope_actions();
  let known: BTreeSet<&str> = [
    "context_begin",
    "context_end",
    "context_entry",
    "every",
    "every_begin",
    "for",
    "for_begin",
    "formal_parameter_with_type",
    "formal_parameter_without_type",
    "formal_parameters_begin",
    "function_body",
    "function_body_external",
    "iteration_context_variable_name",
    "quantified_expression_variable_name",
    "some",
    "some_begin",
  ]
  .into_iter()
  .collect();
  let entries = entry_points();
  let scopes = caller_scopes();
  let mut counts: BTreeMap<String, u64> = BTreeMap::new();
  let mut ok_parses = 0u64;
  let mut failed_parses = 0u64;
  let mut leftovers: BTreeMap<String, u64> = BTreeMap::new();
  let mut leftover_sample: Option<serde_json::Value> = None;

  // one parse; returns the scope-affecting actions exercised when the parse succeeded
  let mut one = |rep: &mut Report, entry: &str, f: ParseFn, text: &str, scope_name: &str, ctxs: &[FeelContext], expect_ok: bool| {
    crate::util::note_case(text);
    let scope = fresh_scope(ctxs);
    let before = scope.to_string();
    let res = guarded(|| f(&scope, text, false));
    let after = scope.to_string();
    match res {
      Ok(Ok(node)) => {
        ok_parses += 1;
        let mut acts = BTreeSet::new();
        exercised(&ast_sexp(&node), text, &mut acts);
        rep.case(&format!("parse|{}|{}|{}", entry, scope_name, text), !acts.is_empty());
        rep.hit(&format!("parse-scope:entry:{}", entry));
        rep.hit(&format!("parse-scope:caller:{}", scope_name));
        for a in &acts {
          *counts.entry(a.to_string()).or_insert(0) += 1;
        }
        if after != before {
          rep.disagree(
            Kind::ImplVsSpec,
            "parse_scope_balanced",
            "the parsing scope differs after a successful parse (parse families)",
            &format!("{}({:?}) in a scope of {}: {}", entry, text, scope_name, before),
            &after,
            &before,
          );
        }
      }
      Ok(Err(_)) => {
        failed_parses += 1;
        rep.evaluations += 1;
        // the property does not speak of failed parses: observe what they leave behind
        let mut n_after = 0usize;
        while scope.pop().is_some() {
          n_after += 1;
          if n_after > 64 {
            break;
          }
        }
        let state = if after == before {
          "parse-error:scope unchanged".to_string()
        } else if n_after > ctxs.len() {
          // are the caller's own contexts intact below what was left behind?
          let again = fresh_scope(ctxs);
          let _ = guarded(|| f(&again, text, false));
          for _ in 0..(n_after - ctxs.len()) {
            again.pop();
          }
          let intact = again.to_string() == before;
          format!(
            "parse-error:{} context(s) of the parse left on the scope, caller's contexts {}",
            n_after - ctxs.len(),
            if intact { "intact" } else { "CHANGED" }
          )
        } else if n_after < ctxs.len() {
          format!("parse-error:{} caller context(s) popped", ctxs.len() - n_after)
        } else {
          "parse-error:same number of contexts, an entry of the caller's changed".to_string()
        };
        if after != before && leftover_sample.is_none() {
          leftover_sample = Some(json!({"family": "failed parse (observed, not judged)", "entry": entry, "text": text, "scope before": before, "scope after": after}));
        }
        rep.hit(&state);
        *leftovers.entry(state).or_insert(0) += 1;
        if expect_ok {
          rep.hit("parse-scope:corpus text rejected");
        }
      }
      Err(m) => {
        rep.disagree(Kind::ImplVsSpec, "parse_no_panic", "the parser panics (parse families)", &format!("{}({:?})", entry, text), &m, "a syntax tree or an error");
      }
    }
  };

  // ---- 1. the corpus through every entry point in every caller scope
  for (entry, text) in corpus() {
    let f = entries.iter().find(|(n, _)| *n == entry).map(|(_, f)| *f).expect("entry point");
    for (scope_name, ctxs) in &scopes {
      one(rep, entry, f, text, scope_name, ctxs, entry == "parse_expression" || entry == "parse_context");
    }
  }
  // ---- 2. generated expressions (the typed grammar of C01) in the base scope and with one more context on top
  {
    let (_, vars, base) = crate::c01::base_scope();
    let mut rng = Rng::new(cfg.seed ^ 0xC13_5C0);
    let n = if thorough { 40_000 } else { 3_000 };
    let max_depth = if thorough { 5 } else { 3 };
    let mut g = crate::c01::Gen { rng: &mut rng, fresh: 0 };
    let three = scopes[3].1.clone();
    for i in 0..n {
      let d = 1 + (i as u32 % max_depth);
      let text = g.any(d, &vars);
      if i % 2 == 0 {
        one(rep, "parse_expression", dmntk_feel_parser::parse_expression as ParseFn, &text, "base scope of the generated programs", &base, false);
      } else {
        one(rep, "parse_unary_tests", dmntk_feel_parser::parse_unary_tests as ParseFn, &text, scopes[3].0, &three, false);
      }
    }
  }
  // ---- 3. failed parses: every prefix of the corpus texts, and garbled variants
  {
    let mut rng = Rng::new(cfg.seed ^ 0xBAD_5C0);
    let two = scopes[2].1.clone();
    let junk = [")", "]", "}", " return", " satisfies", ",", " in", " then", "(", "{", " function(", " for x in"];
    for (entry, text) in corpus() {
      if entry != "parse_expression" && entry != "parse_context" && entry != "parse_unary_tests" {
        continue;
      }
      let f = entries.iter().find(|(n, _)| *n == entry).map(|(_, f)| *f).expect("entry point");
      let cuts: Vec<usize> = text.char_indices().map(|(i, _)| i).filter(|i| *i > 0).collect();
      for c in cuts {
        one(rep, entry, f, &text[..c], scopes[2].0, &two, false);
      }
      for _ in 0..3 {
        let cuts: Vec<usize> = text.char_indices().map(|(i, _)| i).collect();
        let at = *rng.pick(&cuts);
        let garbled = format!("{}{}{}", &text[..at], rng.pick(&junk), &text[at..]);
        one(rep, entry, f, &garbled, scopes[2].0, &two, false);
      }
    }
  }
  drop(one);
  // ---- coverage of the scope-affecting actions
  for a in &scope_acts {
    let n = counts.get(a).copied().unwrap_or(0);
    rep.hit(&format!("parse-scope:action:{}:{}", a, if n > 0 { "exercised" } else { "NEVER" }));
    if !known.contains(a.as_str()) {
      rep.disagree(
        Kind::ImplVsModel,
        "parse_scope_coverage",
        "a reduce action has a scope effect and the parse families have no construct for it",
        a,
        "not exercised",
        "every scope-affecting reduce action is exercised by successful parses",
      );
    } else if n == 0 {
      rep.disagree(
        Kind::ImplVsModel,
        "parse_scope_coverage",
        "a scope-affecting reduce action was never exercised by a successful parse of the parse families",
        a,
        "0 successful parses",
        "at least one",
      );
    }
  }
  rep.extra.insert(
    "parse_scope".into(),
    json!({
      "scope_affecting_actions": scope_acts,
      "read_from_regenerated_table": from_table,
      "successful_parses_exercising": counts,
      "successful_parses": ok_parses,
      "failed_parses_observed": failed_parses,
      "after_failed_parse": leftovers,
      "failed_parse_example": leftover_sample,
    }),
  );
}

// ------------------------------------------------------------------------------------------------------------
// repeatability at the model level: one prepared evaluator, several input contexts

const MHEAD: &str = r#"<?xml version="1.0" encoding="UTF-8"?><definitions namespace="ns" name="m" id="_m" xmlns="https://www.omg.org/spec/DMN/20191111/MODEL/">"#;

fn xe(s: &str) -> String {
  crate::c03::xml_escape(s)
}

/// A decision table over the names `nums` (numbers) and `strs` (strings) in which every kind of cell may read them.
/// `flags` collects which kinds of cells of this table do.
fn gen_dt(rng: &mut Rng, nums: &[&str], strs: &[&str], flags: &mut BTreeSet<&'static str>) -> String {
  const POLICIES: [(&str, Option<&str>); 11] = [
    ("UNIQUE", None),
    ("ANY", None),
    ("PRIORITY", None),
    ("FIRST", None),
    ("RULE ORDER", None),
    ("OUTPUT ORDER", None),
    ("COLLECT", None),
    ("COLLECT", Some("SUM")),
    ("COLLECT", Some("MIN")),
    ("COLLECT", Some("MAX")),
    ("COLLECT", Some("COUNT")),
  ];
  let (hp, agg) = *rng.pick(&POLICIES);
  let prioritising = hp == "PRIORITY" || hp == "OUTPUT ORDER";
  let n_in = 1 + rng.below(2) as usize;
  let n_out = if agg.is_some() { 1 } else { 1 + rng.below(2) as usize };
  let n_rules = rng.below(5) as usize;
  let mut s = format!("<decisionTable hitPolicy=\"{}\"", hp);
  if let Some(a) = agg {
    s.push_str(&format!(" aggregation=\"{}\"", a));
  }
  s.push('>');
  let mut in_num = vec![];
  for _ in 0..n_in {
    let is_num = strs.is_empty() || rng.chance(2, 3);
    in_num.push(is_num);
    let (n, m) = (*rng.pick(nums), *rng.pick(nums));
    let e = if is_num {
      match rng.below(6) {
        0 | 1 => n.to_string(),
        2 => format!("{} + {}", n, m),
        3 => format!("{} * 2", n),
        4 => format!("if {} > {} then {} else {}", n, m, n, m),
        _ => format!("{} - {}", n, m),
      }
    } else {
      let t = *rng.pick(strs);
      if rng.chance(3, 4) {
        t.to_string()
      } else {
        format!("{} + \"x\"", t)
      }
    };
    s.push_str(&format!("<input><inputExpression><text>{}</text></inputExpression>", xe(&e)));
    if rng.chance(1, 4) {
      let iv = if is_num {
        match rng.below(3) {
          0 => "[0..40]".to_string(),
          1 => ">= 0".to_string(),
          _ => {
            flags.insert("input values read the input data");
            format!("{}, 0, 1, 2, 3, 4, 5, 6", m)
          }
        }
      } else if rng.chance(1, 2) {
        "\"a\",\"b\",\"c\",\"ax\",\"bx\",\"cx\"".to_string()
      } else {
        flags.insert("input values read the input data");
        format!("{}, \"a\"", rng.pick(strs))
      };
      s.push_str(&format!("<inputValues><text>{}</text></inputValues>", xe(&iv)));
    }
    s.push_str("</input>");
  }
  let mut out_num = vec![];
  for k in 0..n_out {
    let is_num = strs.is_empty() || matches!(agg, Some("SUM") | Some("MIN") | Some("MAX")) || rng.chance(2, 3);
    out_num.push(is_num);
    s.push_str("<output");
    if n_out > 1 || rng.chance(1, 2) {
      s.push_str(&format!(" name=\"o{}\"", k + 1));
    }
    s.push('>');
    let (n, m) = (*rng.pick(nums), *rng.pick(nums));
    if rng.chance(if prioritising { 4 } else { 2 }, 6) {
      let ov = if is_num {
        match rng.below(6) {
          0 => "1, 2, 3, 4".to_string(),
          1 => "4, 3, 2, 1".to_string(),
          2 => format!("{}, 1, 2, 3, 4", n),
          3 => format!("4, 3, 2, 1, {}", n),
          4 => format!("{}, {}, 1, 2", n, m),
          _ => format!("{} + 1, 4, 3, 2, 1, 0, 5, 6, 7", n),
        }
      } else {
        let t = if strs.is_empty() { "\"a\"" } else { *rng.pick(strs) };
        match rng.below(4) {
          0 => "\"a\", \"b\", \"c\"".to_string(),
          1 => "\"c\", \"b\", \"a\"".to_string(),
          2 => format!("{}, \"a\", \"b\", \"c\"", t),
          _ => format!("\"c\", \"b\", \"a\", {} + \"x\", {}", t, t),
        }
      };
      if ov.chars().any(|c| c == 'i' || c == 'p' || c == 'q' || c == 's') {
        flags.insert("output values read the input data");
      }
      s.push_str(&format!("<outputValues><text>{}</text></outputValues>", xe(&ov)));
    }
    if rng.chance(2, 3) {
      let d = if rng.chance(3, 4) {
        flags.insert("default output entry reads the input data");
        if is_num {
          match rng.below(4) {
            0 | 1 => n.to_string(),
            2 => format!("{} + 1", n),
            _ => format!("{} * {}", n, m),
          }
        } else {
          let t = *rng.pick(strs);
          if rng.chance(1, 2) {
            t.to_string()
          } else {
            format!("{} + \"!\"", t)
          }
        }
      } else if is_num {
        format!("{}", rng.range(1, 4))
      } else {
        "\"b\"".to_string()
      };
      s.push_str(&format!("<defaultOutputEntry><text>{}</text></defaultOutputEntry>", xe(&d)));
    }
    s.push_str("</output>");
  }
  for _ in 0..n_rules {
    s.push_str("<rule>");
    for is_num in &in_num {
      let k = rng.range(0, 6);
      let m = *rng.pick(nums);
      let e = if *is_num {
        match rng.below(11) {
          0 | 1 => "-".to_string(),
          2 => format!("< {}", k),
          3 => format!(">= {}", k),
          4 => format!("[{}..{}]", k, k + rng.range(0, 4)),
          5 => format!("{}", k),
          6 => format!("not({})", k),
          7 => format!("< {}", m),
          8 => format!(">= {}", m),
          9 => m.to_string(),
          _ => format!("[{}..{}]", m, k + 3),
        }
      } else {
        match rng.below(6) {
          0 => "-".to_string(),
          1 => "\"a\"".to_string(),
          2 => "\"a\",\"b\"".to_string(),
          3 => "not(\"a\")".to_string(),
          4 => "\"cx\",\"c\"".to_string(),
          _ => rng.pick(strs).to_string(),
        }
      };
      if e.chars().any(|c| c == 'i' || c == 'p' || c == 'q' || c == 's') {
        flags.insert("input entries read the input data");
      }
      s.push_str(&format!("<inputEntry><text>{}</text></inputEntry>", xe(&e)));
    }
    for is_num in &out_num {
      let (n, m) = (*rng.pick(nums), *rng.pick(nums));
      let e = if *is_num {
        match rng.below(6) {
          0 | 1 | 2 => format!("{}", rng.range(1, 4)),
          3 => n.to_string(),
          4 => format!("{} + {}", n, rng.range(1, 3)),
          _ => format!("{} * {}", n, m),
        }
      } else {
        match rng.below(5) {
          0 | 1 | 2 => format!("\"{}\"", rng.pick(&["a", "b", "c"])),
          3 => rng.pick(strs).to_string(),
          _ => format!("{} + \"x\"", rng.pick(strs)),
        }
      };
      if !e.starts_with('"') && e.chars().any(|c| c == 'i' || c == 'p' || c == 'q' || c == 's') {
        flags.insert("output entries read the input data");
      }
      s.push_str(&format!("<outputEntry><text>{}</text></outputEntry>", xe(&e)));
    }
    s.push_str("</rule>");
  }
  s.push_str("</decisionTable>");
  s
}

fn lit_xml(t: &str) -> String {
  format!("<literalExpression><text>{}</text></literalExpression>", xe(t))
}

struct GenModel {
  xml: String,
  /// invocable name, what it is (for the signature)
  invocables: Vec<(&'static str, &'static str)>,
  flags: BTreeSet<&'static str>,
}

/// Inputs `i1`, `i3` (numbers) and `i2` (string); decision `T` (decision table), knowledge model `K(p, q, s)`,
/// decisions `L` (literal over inputs, `T` and `K`), `C` (boxed context with an invocation of `K`), `U` (calls the
/// service `S` as a function), services `S` (output `L`, `T` encapsulated) and `S2` (output `L`, `T` an input decision).
fn gen_model(rng: &mut Rng) -> GenModel {
  let mut flags = BTreeSet::new();
  let mut x = String::from(MHEAD);
  for (n, t) in [("i1", "number"), ("i2", "string"), ("i3", "number")] {
    // (input data must have a type the builder knows; a value of another type arrives as null)
    let tr = format!(" typeRef=\"{}\"", t);
    x.push_str(&format!("<inputData name=\"{}\" id=\"_{}\"><variable name=\"{}\"{}/></inputData>", n, n, n, tr));
  }
  let req_inputs = |d: &str| {
    let mut s = String::new();
    for n in ["i1", "i2", "i3"] {
      s.push_str(&format!("<informationRequirement id=\"{}_{}\"><requiredInput href=\"#_{}\"/></informationRequirement>", d, n, n));
    }
    s
  };
  let req_dec = |d: &str, q: &str| format!("<informationRequirement id=\"{}_{}\"><requiredDecision href=\"#{}\"/></informationRequirement>", d, q, q);
  let req_know = |d: &str, q: &str| format!("<knowledgeRequirement id=\"{}_k{}\"><requiredKnowledge href=\"#{}\"/></knowledgeRequirement>", d, q, q);
  // T
  let t_var_type = if rng.chance(1, 4) { " typeRef=\"number\"" } else { "" };
  x.push_str(&format!("<decision name=\"T\" id=\"_t\"><variable name=\"T\"{}/>{}", t_var_type, req_inputs("_t")));
  x.push_str(&gen_dt(rng, &["i1", "i3"], &["i2"], &mut flags));
  x.push_str("</decision>");
  // K
  x.push_str("<businessKnowledgeModel name=\"K\" id=\"_k\"><variable name=\"K\"/><encapsulatedLogic>");
  let ktyped = rng.chance(1, 2);
  for (n, t) in [("p", "number"), ("q", "number"), ("s", "string")] {
    let tr = if ktyped { format!(" typeRef=\"{}\"", t) } else { String::new() };
    x.push_str(&format!("<formalParameter name=\"{}\"{}/>", n, tr));
  }
  if rng.chance(1, 2) {
    flags.insert("knowledge model with a decision table");
    x.push_str(&gen_dt(rng, &["p", "q"], &["s"], &mut flags));
  } else {
    x.push_str(&lit_xml(*rng.pick(&["p + q", "if p > q then [p, s] else [q, s]", "{a: p * 2, b: s + \"k\", c: a + q}", "for k in 1..3 return p * k + q", "[p, q][item > 2]"])));
  }
  x.push_str("</encapsulatedLogic></businessKnowledgeModel>");
  // L
  x.push_str(&format!("<decision name=\"L\" id=\"_l\"><variable name=\"L\"/>{}{}{}", req_dec("_l", "_t"), req_inputs("_l"), req_know("_l", "_k")));
  x.push_str(&lit_xml(*rng.pick(&[
    "[T, K(i1, i3, i2)]",
    "{a: T, b: K(i3, i1, i2), c: i1 + i3}",
    "if i1 > i3 then T else K(i1, i1, i2)",
    "K(q: i1, p: i3, s: i2)",
    "[T, i1 * i3, i2 + \"l\"]",
    "for k in [i1, i3] return [k, K(k, i3, i2)]",
  ])));
  x.push_str("</decision>");
  // C
  x.push_str(&format!("<decision name=\"C\" id=\"_c\"><variable name=\"C\"/>{}{}", req_inputs("_c"), req_know("_c", "_k")));
  let invocation = format!(
    "<invocation>{}<binding><parameter name=\"p\"/>{}</binding><binding><parameter name=\"q\"/>{}</binding><binding><parameter name=\"s\"/>{}</binding></invocation>",
    lit_xml("K"),
    lit_xml(*rng.pick(&["i1", "i1 + 1", "i3"])),
    lit_xml(*rng.pick(&["i3", "i1 * i3", "2"])),
    lit_xml(*rng.pick(&["i2", "i2 + \"c\""]))
  );
  if rng.chance(1, 2) {
    x.push_str(&invocation);
  } else {
    flags.insert("boxed context");
    x.push_str(&format!(
      "<context><contextEntry><variable name=\"x\"/>{}</contextEntry><contextEntry><variable name=\"y\"/>{}</contextEntry><contextEntry>{}</contextEntry></context>",
      lit_xml("i1 * 2"),
      invocation,
      lit_xml(*rng.pick(&["[x, y, i3]", "{a: x + i3, b: y}", "if x > i3 then y else i2"]))
    ));
  }
  x.push_str("</decision>");
  // U
  x.push_str(&format!("<decision name=\"U\" id=\"_u\"><variable name=\"U\"/>{}{}", req_inputs("_u"), req_know("_u", "_s")));
  x.push_str(&lit_xml(*rng.pick(&["S(i1, i2, i3)", "[S(i1, i2, i3), S(i3, i2, i1)]", "S(i3: i1, i2: i2, i1: i3)"])));
  x.push_str("</decision>");
  // S, S2
  x.push_str("<decisionService name=\"S\" id=\"_s\"><variable name=\"S\"/><outputDecision href=\"#_l\"/><encapsulatedDecision href=\"#_t\"/><inputData href=\"#_i1\"/><inputData href=\"#_i2\"/><inputData href=\"#_i3\"/></decisionService>");
  x.push_str("<decisionService name=\"S2\" id=\"_s2\"><variable name=\"S2\"/><outputDecision href=\"#_l\"/><inputDecision href=\"#_t\"/><inputData href=\"#_i1\"/><inputData href=\"#_i2\"/><inputData href=\"#_i3\"/></decisionService>");
  x.push_str("</definitions>");
  GenModel {
    xml: x,
    invocables: vec![
      ("T", "decision with a decision table"),
      ("K", "knowledge model"),
      ("L", "literal decision over a decision table and a knowledge model"),
      ("C", "boxed context / invocation"),
      ("U", "decision calling a decision service"),
      ("S", "decision service"),
      ("S2", "decision service with an input decision"),
    ],
    flags,
  }
}

/// Always-run models: the decision tables of the kind the generator makes, minimised (price list with a default
/// output entry that is the base price; priorities given by the input; an output entry and an input entry reading
/// another input).
fn model_corpus() -> Vec<GenModel> {
  let mk = |table: &str| {
    let mut x = String::from(MHEAD);
    for (n, t) in [("Customer", "string"), ("Base", "number")] {
      x.push_str(&format!("<inputData name=\"{}\" id=\"_{}\"><variable name=\"{}\" typeRef=\"{}\"/></inputData>", n, n, n, t));
    }
    x.push_str("<decision name=\"T\" id=\"_t\"><variable name=\"T\"/>");
    for n in ["Customer", "Base"] {
      x.push_str(&format!("<informationRequirement id=\"_t{}\"><requiredInput href=\"#_{}\"/></informationRequirement>", n, n));
    }
    x.push_str(table);
    x.push_str("</decision></definitions>");
    GenModel { xml: x, invocables: vec![("T", "decision with a decision table")], flags: BTreeSet::new() }
  };
  vec![
    mk("<decisionTable hitPolicy=\"UNIQUE\"><input><inputExpression><text>Customer</text></inputExpression></input><output><defaultOutputEntry><text>Base</text></defaultOutputEntry></output><rule><inputEntry><text>\"Business\"</text></inputEntry><outputEntry><text>Base * 0.5</text></outputEntry></rule></decisionTable>"),
    mk("<decisionTable hitPolicy=\"PRIORITY\"><input><inputExpression><text>Customer</text></inputExpression></input><output><outputValues><text>Base, 1, 2, 3</text></outputValues></output><rule><inputEntry><text>-</text></inputEntry><outputEntry><text>1</text></outputEntry></rule><rule><inputEntry><text>-</text></inputEntry><outputEntry><text>2</text></outputEntry></rule><rule><inputEntry><text>-</text></inputEntry><outputEntry><text>3</text></outputEntry></rule></decisionTable>"),
    mk("<decisionTable hitPolicy=\"COLLECT\"><input><inputExpression><text>Base * 2</text></inputExpression><inputValues><text>Base * 2, 0</text></inputValues></input><output/><rule><inputEntry><text>&gt; Base</text></inputEntry><outputEntry><text>Customer + \"!\"</text></outputEntry></rule><rule><inputEntry><text>-</text></inputEntry><outputEntry><text>Base</text></outputEntry></rule></decisionTable>"),
  ]
}

fn num(n: i64) -> Value {
  Value::Number(FeelNumber::from(n))
}

fn ctx_from(entries: &[(String, Value)]) -> FeelContext {
  let mut c = FeelContext::default();
  for (n, v) in entries {
    c.set_entry(&Name::from(n.as_str()), v.clone());
  }
  c
}

fn show(v: &Value) -> String {
  match value_sexp(v) {
    Some(s) => s.to_string(),
    None => format!("(display {})", Sexp::str(&v.to_string())),
  }
}

pub fn model_repeatability(cfg: &Cfg, rep: &mut Report) {
  use dmntk_model_evaluator::ModelEvaluator;
  let thorough = cfg.tier == "thorough";
  let mut rng = Rng::new(cfg.seed ^ 0xC13_0DE1);
  let n_models = if thorough { 3_000 } else { 260 };
  let mut models = model_corpus();
  let n_corpus = models.len();
  for _ in 0..n_models {
    models.push(gen_model(&mut rng));
  }
  if std::env::var("VHARNESS_C13_TRACE").is_ok() {
    eprintln!("model_repeatability starts");
  }
  let mut calls = 0u64;
  let mut input_dependent = 0u64;
  let mut unbuildable = 0u64;
  for (mi, m) in models.iter().enumerate() {
    crate::util::note_case(&m.xml);
    let defs = match guarded(|| dmntk_model::parse(&m.xml)) {
      Ok(Ok(d)) => d,
      _ => {
        unbuildable += 1;
        rep.hit("model-repeat:model rejected by the parser");
        continue;
      }
    };
    let build = || match guarded(|| ModelEvaluator::new(&defs)) {
      Ok(Ok(me)) => Some(me),
      _ => None,
    };
    let shared = match build() {
      Some(me) => me,
      None => {
        unbuildable += 1;
        rep.hit("model-repeat:model rejected by the builder");
        if std::env::var("VHARNESS_C13_TRACE").is_ok() {
          eprintln!("REJECTED {:?} {}", ModelEvaluator::new(&defs).err().map(|e| e.to_string()), m.xml);
        }
        continue;
      }
    };
    for f in &m.flags {
      rep.hit(&format!("model-repeat:shape:{}", f));
    }
    // ---- the contexts A, B, C
    let corpus_model = mi < n_corpus;
    let draw = |name: &str, rng: &mut Rng| -> Value {
      match name {
        "Customer" => Value::String(rng.pick(&["Private", "Business"]).to_string()),
        "Base" => num(*rng.pick(&[100, 250, 1, 2, 3])),
        "i2" | "s" => match rng.below(12) {
          0 => Value::Null(None),
          1 => num(1),
          _ => Value::String(rng.pick(&["a", "b", "c"]).to_string()),
        },
        _ => match rng.below(14) {
          0 => Value::Null(None),
          1 => Value::String("a".into()),
          _ => num(rng.range(0, 6)),
        },
      }
    };
    let names: Vec<&str> = if corpus_model { vec!["Customer", "Base"] } else { vec!["i1", "i2", "i3", "p", "q", "s", "T"] };
    let a: Vec<(String, Value)> = names.iter().map(|n| (n.to_string(), draw(n, &mut rng))).collect();
    let vary = |from: &Vec<(String, Value)>, rng: &mut Rng| -> Vec<(String, Value)> {
      let mut out = from.clone();
      let mut changed = false;
      // a random non-empty subset of the entries gets other values — often a single one
      let single = rng.chance(1, 2);
      let one = rng.below(out.len() as u64) as usize;
      for (k, (n, v)) in out.iter_mut().enumerate() {
        if if single { k == one } else { rng.chance(1, 2) } {
          for _ in 0..8 {
            let w = draw(n, rng);
            if show(&w) != show(v) {
              *v = w;
              changed = true;
              break;
            }
          }
        }
      }
      if !changed {
        let (n, v) = &mut out[one];
        *v = if n == "Customer" || n == "i2" || n == "s" { Value::String("zz".into()) } else { num(9) };
      }
      out
    };
    let b = vary(&a, &mut rng);
    let c = vary(&a, &mut rng);
    let ctxs = [ctx_from(&a), ctx_from(&b), ctx_from(&c)];
    let order = [0usize, 1, 0, 2, 1];
    let letter = ["A", "B", "C"];
    // ---- the calls: every invocable at every step, the invocables in an order of the model's own
    let mut invs = m.invocables.clone();
    for k in (1..invs.len()).rev() {
      let j = rng.below(k as u64 + 1) as usize;
      invs.swap(k, j);
    }
    let mut sequence: Vec<(usize, usize)> = vec![]; // (invocable, context)
    if rng.chance(1, 2) {
      for &ci in &order {
        for ii in 0..invs.len() {
          sequence.push((ii, ci));
        }
      }
    } else {
      for ii in 0..invs.len() {
        for &ci in &order {
          sequence.push((ii, ci));
        }
      }
    }
    let describe = |upto: &[(usize, usize)]| upto.iter().map(|(ii, ci)| format!("{}({} = {})", invs[*ii].0, letter[*ci], ctxs[*ci])).collect::<Vec<_>>().join("; ");
    let mut first_answers: BTreeMap<(usize, usize), String> = BTreeMap::new();
    let mut reported: BTreeSet<usize> = BTreeSet::new();
    for (k, &(ii, ci)) in sequence.iter().enumerate() {
      let (inv, what) = invs[ii];
      let ctx = &ctxs[ci];
      let before = ctx.to_string();
      let got = guarded(|| shared.evaluate_invocable(inv, ctx));
      let after = ctx.to_string();
      calls += 1;
      let fresh = match build() {
        Some(me) => guarded(|| me.evaluate_invocable(inv, ctx)),
        None => continue,
      };
      let (got_s, fresh_s) = match (&got, &fresh) {
        (Ok(g), Ok(f)) => (show(g), show(f)),
        (Err(p), Ok(f)) => (format!("(panic {})", p), show(f)),
        // a panic of the fresh evaluator as well: not a matter of repeatability
        _ => {
          rep.hit("model-repeat:panic in the fresh evaluator");
          continue;
        }
      };
      let key = format!("model-repeat|{}|{}|{}", m.xml, inv, before);
      rep.case(&key, ci != 0 || k >= invs.len());
      rep.hit(&format!("model-repeat:invocable:{}:{}", what, if fresh_s == "null" { "null" } else { "a value" }));
      if let Some(prev) = first_answers.get(&(ii, 0)) {
        if ci != 0 && *prev != fresh_s {
          input_dependent += 1;
          rep.hit("model-repeat:the answer to this context differs from the answer to A");
        }
      }
      first_answers.entry((ii, ci)).or_insert_with(|| fresh_s.clone());
      if after != before {
        rep.disagree(
          Kind::ImplVsSpec,
          "model_input_untouched",
          &format!("evaluating an invocable changed the caller's input context ({})", what),
          &format!("{} ;; {}({})", m.xml, inv, before),
          &after,
          &before,
        );
      }
      if got_s != fresh_s && !reported.contains(&ii) {
        reported.insert(ii);
        // the shortest history that shows it: one earlier call, then this one
        let mut history = describe(&sequence[..=k]);
        for &(ji, jc) in sequence[..k].iter() {
          if let Some(me) = build() {
            let _ = guarded(|| me.evaluate_invocable(invs[ji].0, &ctxs[jc]));
            if let Ok(v) = guarded(|| me.evaluate_invocable(inv, ctx)) {
              if show(&v) != fresh_s {
                history = describe(&[(ji, jc), (ii, ci)]);
                break;
              }
            }
          }
        }
        rep.disagree(
          Kind::ImplVsSpec,
          "model_repeatable",
          &format!("an invocable answers differently on an evaluator that has answered other input data before than on a freshly built evaluator ({})", what),
          &format!("{} ;; one ModelEvaluator, in this order: {}", m.xml, history),
          &got_s,
          &fresh_s,
        );
      }
      if rep.samples.len() < 12 && mi >= n_corpus && k == sequence.len() - 1 && !fresh_s.contains("null") {
        rep.sample(json!({"family": "model-level repeatability", "model": m.xml, "invocable": inv, "input": before, "one evaluator after the whole sequence": got_s, "fresh evaluator": fresh_s}));
      }
    }
    // ---- the decision table of T alone, through build_decision_table_evaluator: built once in the scope of A
    for d in defs.decisions() {
      if let Some(dmntk_model::model::ExpressionInstance::DecisionTable(dt)) = d.decision_logic() {
        let build_direct = |ctx: &FeelContext| -> Option<dmntk_feel::Evaluator> {
          let scope: Scope = ctx.clone().into();
          match guarded(|| dmntk_model_evaluator::build_decision_table_evaluator(&scope, dt)) {
            Ok(Ok(ev)) => Some(ev),
            _ => None,
          }
        };
        let shared_ev = match build_direct(&ctxs[0]) {
          Some(ev) => ev,
          None => {
            rep.hit("model-repeat:direct:table rejected");
            continue;
          }
        };
        let mut done = false;
        for (k, &ci) in order.iter().enumerate() {
          let scope: Scope = ctxs[ci].clone().into();
          let before = scope.to_string();
          let got = guarded(|| shared_ev(&scope));
          let after = scope.to_string();
          let fresh = build_direct(&ctxs[ci]).map(|ev| {
            let s2: Scope = ctxs[ci].clone().into();
            guarded(|| ev(&s2))
          });
          calls += 1;
          rep.case(&format!("model-repeat-direct|{}|{}", m.xml, before), k > 0);
          rep.hit("model-repeat:invocable:decision table through build_decision_table_evaluator");
          if after != before {
            rep.disagree(Kind::ImplVsSpec, "model_input_untouched", "evaluating a prepared decision table changed the scope", &format!("{} ;; {}", m.xml, before), &after, &before);
          }
          if let (Ok(g), Some(Ok(f))) = (&got, &fresh) {
            if show(g) != show(f) && !done {
              done = true;
              rep.disagree(
                Kind::ImplVsSpec,
                "model_repeatable",
                "a prepared decision table (build_decision_table_evaluator) answers differently after it has answered other input data than a freshly prepared one",
                &format!("{} ;; one evaluator of the decision table, scopes in this order: {}", m.xml, order[..=k].iter().map(|c| format!("{} = {}", letter[*c], ctxs[*c])).collect::<Vec<_>>().join("; ")),
                &show(g),
                &show(f),
              );
            }
          }
        }
      }
    }
  }
  rep.extra.insert(
    "model_repeatability".into(),
    json!({"models": models.len(), "calls_on_shared_evaluators": calls, "calls_whose_answer_differs_from_the_answer_to_A": input_dependent, "models_not_built": unbuildable}),
  );
}

// ------------------------------------------------------------------------------------------------------------
// repeatability over long histories of one thread

/// User-defined functions the expressions of the long sequences call: in the `wrapped` variant they are entries of
/// a context literal around the expression (the Lean model evaluates that too), in the `scoped` variant they are
/// entries of a context on top of the base scope.
const PRELUDE: &str = "inc: function(x: number) x + 1, add: function(x: number, y: number) x + y, fact: function(n: number) if n > 1 then n * fact(n - 1) else 1, twice: function(f, v) f(f(v))";

fn wrapped(e: &str) -> String {
  format!("{{{}, r: {}}}.r", PRELUDE, e)
}

/// Every way an evaluation can fail (the value is null, or an error is reported): class, templates; `#` stands for
/// the running number (a literal in separate calls, the loop variable inside a loop).
fn failing_classes() -> Vec<(&'static str, Vec<&'static str>)> {
  vec![
    ("too few positional arguments", vec!["inc()", "add(#)", "fact()", "(function(a, b) a + b)(#)", "twice(inc)"]),
    ("too many positional arguments", vec!["inc(#, #)", "add(#, 1, 2)", "(function() 1)(#)"]),
    ("a named argument is missing", vec!["add(x: #)", "add(y: #)", "(function(a, b) a + b)(a: #)"]),
    ("a named argument of another name", vec!["inc(z: #)", "add(x: #, z: 1)", "inc(x: #, y: 2)"]),
    ("the callee is not a function", vec!["n2(#)", "nn(#)", "l1(#)", "c1(#)", "nn(x: #)", "s1(x: #)", "(1 + #)(2)", "twice(#, 1)"]),
    ("an argument of the wrong type", vec!["inc(\"a\")", "inc(x: \"a\")", "add(#, \"a\")", "inc(null)", "inc([#, #])", "inc(x: [#, #])", "add(y: true, x: #)"]),
    ("the body of the function fails", vec!["(function(x) x + \"a\")(#)", "(function(x) x.a.b)(#)", "(function(x) [1, 2][x + 2])(#)", "twice(inc, \"a\")", "(function(x) inc())(#)"]),
    ("filter on null or by something that is neither a number nor a boolean", vec!["null[#]", "nn[item > #]", "nn[a = #]", "[1, 2, 3][\"a\"]", "[1, 2, 3][item + \"a\"]", "lc[a + \"x\"]", "{a: null}.a[#]"]),
    ("index out of range", vec!["[1, 2, 3][# + 3]", "[1, 2, 3][0]", "[1, 2, 3][-(# + 3)]", "l0[1]"]),
    ("path on a value without such an entry", vec!["n2.a", "(nn.a).b", "s1.b", "c1.zz", "lc.zz"]),
    ("ill-typed arithmetic", vec!["# + \"a\"", "\"a\" - #", "-\"a\"", "true * #", "# / 0", "# ** \"a\"", "[#] + 1", "d1 * d1"]),
    ("ill-typed comparison and logic", vec!["# < \"a\"", "# between \"a\" and 3", "# and \"a\"", "if # then 1 else 2", "# in \"a\"", "# = \"a\""]),
    ("iteration over something that cannot be iterated", vec!["for x in \"a\"..\"c\" return x", "for x in nn return x + 1", "some x in [1, 2] satisfies x + #", "every x in nn satisfies x", "for x in #..\"b\" return x"]),
    (
      "built-in function with wrong arguments",
      vec![
        "substring()",
        "substring(\"abc\", \"x\")",
        "date(\"2021-02-30\")",
        "abs()",
        "abs(n: \"a\")",
        "abs(q: #)",
        "sum(\"a\", #)",
        "string length(#)",
        "sort([3, 1, 2], function(a) a)",
        "sort([3, 1, 2], function(a, b) a + b)",
        "matches(\"a\", \"(\")",
        "number(\"a\", \",\", \",\")",
      ],
    ),
    ("external function", vec!["(function(x) external {java: {class: \"a\", method signature: \"b\"}})(#)"]),
    ("numeric overflow", vec!["10 ** 7000 * #", "-(10 ** 7000) - #"]),
  ]
}

/// Succeeding expressions with their values written out (the specification side of the Ok steps and of the second
/// components of the loops): template, value for the number n.
fn ok_partners() -> Vec<(&'static str, fn(i64) -> String)> {
  fn n(k: i64) -> String {
    show(&num(k))
  }
  vec![
    ("inc(#)", |i| n(i + 1)),
    ("add(#, 1)", |i| n(i + 1)),
    ("add(y: #, x: 2)", |i| n(i + 2)),
    ("fact(4)", |_| n(24)),
    ("(function(a, b) a - b)(b: #, a: 5)", |i| n(5 - i)),
    ("twice(inc, #)", |i| n(i + 2)),
    ("[1, 2, #][item > 1]", |i| if i > 1 { format!("(l {} {})", n(2), n(i)) } else { n(2) /* a filter result of one item is that item */ }),
  ]
}

/// The expressions whose values must stay what they were.
fn fixed_set(seed: u64) -> Vec<String> {
  let mut v: Vec<String> = [
    "inc(1)",
    "add(1, 2)",
    "add(y: 1, x: 2)",
    "fact(5)",
    "twice(inc, 1)",
    "(function(a, b) a - b)(b: 1, a: 5)",
    "for x in 1..3 return inc(x)",
    "some x in [1, 2, 3] satisfies inc(x) > 3",
    "{g: function(n) if n <= 0 then 0 else n + g(n - 1), r: g(10)}.r",
    "sort([3, 1, 2], function(a, b) a < b)",
    "[inc(), inc(1), add(1), add(1, 1)]",
    "substring(\"hello\", 2, 3)",
    "lc[b = 2].a",
    "{a: 1, b: a + 1, c: b * 2}",
  ]
  .iter()
  .map(|s| s.to_string())
  .collect();
  v.extend(crate::c01::corpus().iter().take(34).map(|s| s.to_string()));
  let (_, vars, _) = crate::c01::base_scope();
  let mut rng = Rng::new(seed ^ 0xF1_5E7);
  let mut g = crate::c01::Gen { rng: &mut rng, fresh: 0 };
  for i in 0..16 {
    v.push(g.any(2 + (i % 2), &vars));
  }
  v
}

#[derive(Clone)]
enum Role {
  /// first evaluation of the i-th expression of the fixed set (also prepared, and evaluated through the prepared evaluator)
  First(usize),
  /// the i-th expression of the fixed set again
  Again(usize),
  Fail,
  /// a succeeding expression and its written-out value
  Ok(String),
  /// one expression with a loop over fail / ok pairs: the written-out values of the second components
  Loop(Vec<String>),
}

#[derive(Clone)]
struct Step {
  text: String,
  role: Role,
  /// have the request line for the Lean model made
  ask: bool,
}

struct Obs {
  implementation: String,
  prepared: Option<String>,
  request: Option<String>,
}

/// One history in a thread of its own.  `scoped`: the functions live in a context on top of the base scope.
fn run_history(steps: Vec<Step>, scoped: bool) -> Option<std::thread::JoinHandle<Vec<Obs>>> {
  std::thread::Builder::new().stack_size(64 << 20).spawn(move || {
    let (_, _, mut ctxs) = crate::c01::base_scope();
    if scoped {
      let s = fresh_scope(&ctxs);
      if let Value::Context(c) = crate::c09::eval_text(&s, &format!("{{{}}}", PRELUDE)) {
        ctxs.push(c);
      }
    }
    // the scope the prepared evaluators live in for the whole history
    let persistent = fresh_scope(&ctxs);
    let mut prepared: BTreeMap<usize, dmntk_feel::Evaluator> = BTreeMap::new();
    let mut out = Vec::with_capacity(steps.len());
    for st in &steps {
      let text = if scoped { st.text.clone() } else { wrapped(&st.text) };
      crate::util::note_case(&text);
      let mut obs = Obs { implementation: String::new(), prepared: None, request: None };
      if st.ask {
        match crate::c01::run_case(&text, &ctxs, 40) {
          Some(c) => {
            obs.implementation = c.implementation;
            obs.request = Some(c.request);
          }
          None => obs.implementation = "(unparsable)".into(),
        }
      } else {
        let scope = fresh_scope(&ctxs);
        let before = scope.to_string();
        obs.implementation = match guarded(|| dmntk_feel_parser::parse_expression(&scope, &text, false)) {
          Ok(Ok(node)) => match guarded(|| dmntk_feel_evaluator::evaluate(&scope, &node)) {
            Ok(Ok(v)) => format!("(ok {} {})", show(&v), if scope.to_string() == before { "same" } else { "changed" }),
            Ok(Err(_)) => "(builderror)".into(),
            Err(m) => format!("(panic {})", Sexp::str(&m)),
          },
          Ok(Err(_)) => "(unparsable)".into(),
          Err(m) => format!("(panic {})", Sexp::str(&m)),
        };
      }
      match st.role {
        Role::First(i) => {
          if let Ok(Ok(node)) = guarded(|| dmntk_feel_parser::parse_expression(&persistent, &text, false)) {
            if let Ok(Ok(ev)) = guarded(|| dmntk_feel_evaluator::prepare(&node)) {
              obs.prepared = Some(match guarded(|| ev(&persistent)) {
                Ok(v) => format!("(ok {})", show(&v)),
                Err(m) => format!("(panic {})", Sexp::str(&m)),
              });
              prepared.insert(i, ev);
            }
          }
        }
        Role::Again(i) => {
          if let Some(ev) = prepared.get(&i) {
            obs.prepared = Some(match guarded(|| ev(&persistent)) {
              Ok(v) => format!("(ok {})", show(&v)),
              Err(m) => format!("(panic {})", Sexp::str(&m)),
            });
          }
        }
        _ => {}
      }
      out.push(obs);
    }
    out
  }).ok()
}

fn subst(t: &str, with: &str) -> String {
  t.replace('#', with)
}

pub fn long_sequences(cfg: &Cfg, rep: &mut Report) {
  let thorough = cfg.tier == "thorough";
  let mut rng = Rng::new(cfg.seed ^ 0x10_4C_5E9);
  let fixed = fixed_set(cfg.seed);
  let classes = failing_classes();
  let oks = ok_partners();
  let n_separate: usize = if thorough { 400 } else { 140 };
  let n_loop: i64 = if thorough { 1000 } else { 300 };
  let mut model = crate::model::Model::start(&cfg.driver);
  let firsts = |ask: bool| fixed.iter().enumerate().map(|(i, t)| Step { text: t.clone(), role: Role::First(i), ask }).collect::<Vec<Step>>();
  let agains = |only_core: bool| {
    fixed
      .iter()
      .enumerate()
      .filter(|(i, _)| !only_core || *i < 11)
      .map(|(i, t)| Step { text: t.clone(), role: Role::Again(i), ask: false })
      .collect::<Vec<Step>>()
  };
  // ---- the histories: (name, failing class for the signature, steps)
  let mut histories: Vec<(String, String, Vec<Step>)> = vec![];
  for (ci, (class, templates)) in classes.iter().enumerate() {
    let mut steps = firsts(ci == 0);
    for (ti, t) in templates.iter().enumerate() {
      let (ok, value) = oks[(ci + ti) % oks.len()];
      for i in 1..=n_separate {
        let lit = i.to_string();
        steps.push(Step { text: subst(t, &lit), role: Role::Fail, ask: i == 1 });
        steps.push(Step { text: subst(ok, &lit), role: Role::Ok(value(i as i64)), ask: i == 1 });
      }
      steps.push(Step { text: format!("for i in 1..{} return [{}, {}]", n_loop, subst(t, "i"), subst(ok, "i")), role: Role::Loop((1..=n_loop).map(value).collect()), ask: true });
      steps.extend(agains(true));
    }
    steps.extend(agains(false));
    histories.push((format!("{} separate evaluations of each failing expression, each followed by a succeeding one, then one loop of {} iterations over such a pair", n_separate, n_loop), class.to_string(), steps));
  }
  // mixed histories: every class, random order, random numbers, the fixed set in between
  let all_fail: Vec<&str> = classes.iter().flat_map(|(_, ts)| ts.iter().copied()).collect();
  for _ in 0..(if thorough { 6 } else { 2 }) {
    let mut steps = firsts(false);
    let n = if thorough { 8000 } else { 3000 };
    for _ in 0..n {
      let number = rng.range(1, 400);
      let lit = number.to_string();
      match rng.below(20) {
        0..=9 => steps.push(Step { text: subst(*rng.pick(&all_fail[..]), &lit), role: Role::Fail, ask: false }),
        10..=16 => {
          let (ok, value) = *rng.pick(&oks[..]);
          steps.push(Step { text: subst(ok, &lit), role: Role::Ok(value(number)), ask: false })
        }
        17 | 18 => {
          let i = rng.below(fixed.len() as u64) as usize;
          steps.push(Step { text: fixed[i].clone(), role: Role::Again(i), ask: false });
        }
        _ => {
          let k = *rng.pick(&[3, 40, 130, 300]);
          let (ok, value) = *rng.pick(&oks[..]);
          steps.push(Step { text: format!("for i in 1..{} return [{}, {}]", k, subst(*rng.pick(&all_fail[..]), "i"), subst(ok, "i")), role: Role::Loop((1..=k).map(value).collect()), ask: false });
        }
      }
    }
    steps.extend(agains(false));
    histories.push(("failing expressions of every class, succeeding ones, loops over both and the fixed set in random order".to_string(), "every class".to_string(), steps));
  }
  let mut n_evaluations = 0u64;
  let mut n_fail_null = 0u64;
  let mut n_histories = 0u64;
  let mut asked = 0u64;
  // the histories are independent of each other (each has its own thread and its own scopes): eight at a time
  let jobs: Vec<(usize, bool)> = (0..histories.len()).flat_map(|h| [(h, false), (h, true)]).collect();
  let mut results: Vec<Vec<Obs>> = vec![];
  for chunk in jobs.chunks(8) {
    let handles: Vec<_> = chunk.iter().map(|(h, scoped)| run_history(histories[*h].2.clone(), *scoped)).collect();
    for h in handles {
      results.push(h.and_then(|h| h.join().ok()).unwrap_or_default());
    }
  }
  let mut results = results.into_iter();
  for (name, class, steps) in &histories {
    for scoped in [false, true] {
      let variant = if scoped {
        "the functions inc, add, fact, twice are entries of a context on top of the base scope"
      } else {
        "every expression E is evaluated as {inc: …, add: …, fact: …, twice: …, r: E}.r in the base scope"
      };
      let obs = results.next().unwrap_or_default();
      n_histories += 1;
      if obs.len() != steps.len() {
        // the thread of the history died: a panic outside the guarded calls (never on the unchanged tree)
        rep.disagree(Kind::ImplVsSpec, "long_sequence", "a long history of evaluations in one thread ended abnormally", &format!("{} ({}); {}", name, class, variant), &format!("{} of {} steps", obs.len(), steps.len()), "all steps evaluated");
        continue;
      }
      n_evaluations += steps.len() as u64;
      rep.evaluations += steps.len() as u64;
      // how the history reads up to a step, compressed: runs of the same role and template are counted
      let describe = |upto: usize| -> String {
        let mut parts: Vec<String> = vec![];
        let mut k = 0;
        while k <= upto {
          match steps[k].role {
            Role::First(_) => {
              let mut j = k;
              while j + 1 <= upto && matches!(steps[j + 1].role, Role::First(_)) {
                j += 1;
              }
              parts.push(format!("[the fixed set, {} expressions, first time]", j - k + 1));
              k = j + 1;
            }
            Role::Again(_) if k < upto => {
              let mut j = k;
              while j + 1 < upto && matches!(steps[j + 1].role, Role::Again(_)) {
                j += 1;
              }
              parts.push(format!("[{} expressions of the fixed set again]", j - k + 1));
              k = j + 1;
            }
            Role::Fail if k + 3 <= upto && matches!(steps[k + 2].role, Role::Fail) && !name.starts_with("failing") => {
              // a run of (fail, ok) pairs of one template with the numbers 1..n
              let mut j = k;
              while j + 2 <= upto && matches!(steps[j + 2].role, Role::Fail) && matches!(steps[j + 1].role, Role::Ok(_)) {
                j += 2;
              }
              parts.push(format!("{} ; {} ; … and so on with the numbers up to {} ({} evaluations)", steps[k].text, steps[k + 1].text, (j - k) / 2 + 1, j - k + 2));
              k = j + 2;
            }
            _ => {
              parts.push(steps[k].text.clone());
              k += 1;
            }
          }
        }
        parts.join(" ; ")
      };
      let mut first: BTreeMap<usize, (String, Option<String>)> = BTreeMap::new();
      let mut reqs: Vec<(usize, String)> = vec![];
      let mut reported = false;
      for (k, (st, o)) in steps.iter().zip(obs.iter()).enumerate() {
        if let Some(r) = &o.request {
          reqs.push((k, r.clone()));
        }
        match st.role {
          Role::First(i) => {
            first.insert(i, (o.implementation.clone(), o.prepared.clone()));
            rep.case(&format!("long|{}|{}", scoped, st.text), true);
          }
          Role::Again(i) => {
            if let Some((f, fp)) = first.get(&i) {
              rep.hit("long-sequence:fixed expression evaluated again");
              let bad = if *f != o.implementation {
                Some((o.implementation.clone(), f.clone(), "parsed and evaluated again"))
              } else if o.prepared.is_some() && fp.is_some() && o.prepared != *fp {
                Some((o.prepared.clone().unwrap(), fp.clone().unwrap(), "its prepared evaluator called again"))
              } else {
                None
              };
              if let Some((now, then, how)) = bad {
                if !reported {
                  reported = true;
                  rep.disagree(
                    Kind::ImplVsSpec,
                    "repeat_long_sequence",
                    &format!("an expression gives another value after a long history of evaluations in the same thread, in the same scope (the history fails by: {})", class),
                    &format!("{}; in one fresh thread, in this order: {} ;; then {} ({})", variant, describe(k), st.text, how),
                    &now,
                    &then,
                  );
                }
              }
            }
          }
          Role::Fail => {
            if o.implementation.starts_with("(ok null") || o.implementation == "(builderror)" || o.implementation == "(unparsable)" {
              n_fail_null += 1;
              rep.hit(&format!("long-sequence:failing:{}", class));
            } else if o.implementation.starts_with("(panic") {
              rep.hit("long-sequence:failing expression panics (observed, judged by C05)");
            } else {
              rep.hit("long-sequence:an expression meant to fail has a value");
              if std::env::var("VHARNESS_C13_TRACE").is_ok() {
                eprintln!("HASVALUE {} => {}", st.text, o.implementation);
              }
            }
            if o.implementation.ends_with(" changed)") {
              rep.disagree(Kind::ImplVsSpec, "scope_preserved", "a failing evaluation changed the caller's scope", &st.text, &o.implementation, "scope unchanged");
            }
          }
          Role::Ok(ref value) => {
            rep.hit("long-sequence:succeeding expression");
            let expected = format!("(ok {} same)", value);
            if o.implementation != expected && !reported {
              reported = true;
              rep.disagree(
                Kind::ImplVsSpec,
                "repeat_long_sequence",
                &format!("an evaluation that succeeds in a fresh thread gives another value after a long history of evaluations in the same thread (the history fails by: {})", class),
                &format!("{}; in one fresh thread, in this order: {}", variant, describe(k)),
                &o.implementation,
                &expected,
              );
            }
          }
          Role::Loop(ref values) => {
            rep.hit("long-sequence:loop");
            // the second component of every element against the written-out value
            let got: Option<Vec<String>> = Sexp::parse(&o.implementation).as_ref().and_then(|x| x.as_list()).and_then(|xs| xs.get(1)).and_then(|l| l.as_list()).map(|items| {
              items.iter().skip(1).map(|it| it.as_list().and_then(|p| p.get(2)).map(|v| v.to_string()).unwrap_or_default()).collect()
            });
            let bad = match &got {
              Some(g) => g.len() != values.len() || g.iter().zip(values.iter()).any(|(a, b)| a != b),
              // a text the parser rejects (the same text every time, in a scope of the same names) is not judged here
              None => o.implementation != "(unparsable)",
            };
            if o.implementation == "(unparsable)" {
              rep.hit("long-sequence:loop text rejected by the parser");
            }
            if bad && !reported {
              reported = true;
              let at = got.as_ref().and_then(|g| g.iter().zip(values.iter()).position(|(a, b)| a != b)).map(|p| format!("first at iteration {}", p + 1)).unwrap_or_else(|| "not a list of that length".into());
              rep.disagree(
                Kind::ImplVsSpec,
                "repeat_long_sequence",
                &format!("inside one loop over a failing and a succeeding evaluation, the succeeding one stops giving its value (the failing one fails by: {})", class),
                &format!("{}; in one fresh thread, in this order: {}", variant, describe(k)),
                &format!("{}: {}", at, o.implementation),
                &format!("second components {}", values.join(" ")),
              );
            }
          }
        }
      }
      // ---- the Lean model on the steps that asked (wrapped variant only: a function value in the scope has no body on the wire)
      if !scoped && !reqs.is_empty() {
        let answers = model.ask_batch(&reqs.iter().map(|(_, r)| r.clone()).collect::<Vec<_>>());
        asked += answers.len() as u64;
        for ((k, _), both) in reqs.iter().zip(answers.iter()) {
          let (m_ans, spec) = match Sexp::parse(both).as_ref().and_then(|x| x.as_list()) {
            Some([m, d]) => (m.to_string(), d.to_string()),
            Some([m, d, _]) => (m.to_string(), d.to_string()),
            _ => (both.clone(), both.clone()),
          };
          if m_ans == "(unsupported)" || spec == "(unsupported)" {
            rep.hit("long-sequence:model:unsupported (built-in function)");
            continue;
          }
          let st = &steps[*k];
          let o = &obs[*k];
          rep.hit("long-sequence:model:compared");
          if o.implementation.starts_with("(panic") {
            continue;
          }
          match st.role {
            Role::Loop(_) => {
              if o.implementation != spec {
                rep.disagree(
                  Kind::ImplVsSpec,
                  "long_loop_eq_den",
                  &format!("one expression looping over a failing and a succeeding evaluation has another value than the FEEL semantics gives it (the failing one fails by: {})", class),
                  &format!("{}; in one fresh thread, in this order: {}", variant, describe(*k)),
                  &o.implementation,
                  &spec,
                );
              }
            }
            _ => {
              if o.implementation != m_ans {
                let sig = if m_ans.starts_with("(error") { "driver-error (long sequences)" } else { "evaluation differs from model (long sequences)" };
                rep.disagree(Kind::ImplVsModel, "eval", sig, &wrapped(&st.text), &o.implementation, &m_ans);
              }
            }
          }
        }
      }
    }
  }
  rep.model_requests += model.requests;
  rep.extra.insert(
    "long_sequences".into(),
    json!({
      "histories": n_histories,
      "evaluations": n_evaluations,
      "failing_evaluations": n_fail_null,
      "fixed_set": fixed.len(),
      "failing_classes": classes.iter().map(|(c, ts)| json!({"class": c, "templates": ts})).collect::<Vec<_>>(),
      "compared_with_lean": asked,
    }),
  );
}
