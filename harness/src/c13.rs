//! C13 — evaluation is pure: the caller's scope is untouched and results are repeatable.
//!
//! Shares the generated programs of C01 (`c01::run_with`): for every case the scope's
//! `Display` is compared before parsing, after parsing and after evaluating; prepared
//! evaluators are re-run in random order and must give their first value again; the Lean
//! model (whose scope-preservation is a theorem) must agree with the implementation.
//!
//! Model level ("boxed contexts in models", "an invocable does not alter the caller's context"): the
//! requirement graphs of C04's corpus whose evaluation pushes and pops contexts around a use of the caller's
//! own names (`scope-…`: a decision service used as a function inside a larger expression, a boxed invocation
//! without bindings, a knowledge model with a boxed-context body) and a sample of generated graphs, against the
//! Lean model of requirement graphs — a context left behind or popped once too often shows as a wrong value.
//!
//! Parser half ("a successful parse leaves the parsing scope as it found it"; the theorem
//! `parse_scope_balanced` is about the table `lean/Dmn/Gen/ParserScope.lean`, regenerated from the sources):
//! `parse_families` parses a corpus that reaches every reduce action with a scope effect through every public
//! entry point, and generated expressions, in caller scopes of 0, 1, 2 and 3 contexts whose entries carry the
//! very names the expressions bind; the scope must print the same before and after every successful parse.
//! Which scope-affecting reduce actions each parse exercised is read off the syntax tree and counted: an
//! action the translator finds to have a scope effect and that no parse exercised is reported (the tie would
//! have a hole).  Failed parses (every prefix of the corpus texts and a few garbled variants) are observed and
//! counted — the property does not speak of them.

use crate::report::{Kind, Report};
use crate::rng::Rng;
use crate::sexp::Sexp;
use crate::util::guarded;
use crate::vals::ast_sexp;
use crate::Cfg;
use dmntk_feel::context::FeelContext;
use dmntk_feel::values::Value;
use dmntk_feel::{AstNode, FeelNumber, Name, Scope};
use serde_json::json;
use std::collections::{BTreeMap, BTreeSet};

pub fn run(cfg: &Cfg) -> Report {
  let mut rep = crate::c01::run_with(cfg, "C13");
  let thorough = cfg.tier == "thorough";
  crate::c04::run_graphs(cfg, &mut rep, if thorough { 1500 } else { 150 }, false, "scope-");
  parse_families(cfg, &mut rep);
  rep
}

/// The reduce actions with a scope effect, as the translator found them (`actionEffects` of the regenerated
/// table; the harness runs with the verification directory as working directory).  Fallback: the list at
/// the time of writing.
fn scope_actions() -> (Vec<String>, bool) {
  let fallback = || {
    [
      "context_begin",
      "context_end",
      "context_entry",
      "every",
      "every_begin",
      "for",
      "for_begin",
      "formal_parameter_with_type",
      "formal_parameter_without_type",
      "formal_parameters_begin",
      "function_body",
      "function_body_external",
      "iteration_context_variable_name",
      "quantified_expression_variable_name",
      "some",
      "some_begin",
    ]
    .iter()
    .map(|s| s.to_string())
    .collect::<Vec<String>>()
  };
  let text = match std::fs::read_to_string("lean/Dmn/Gen/ParserScope.lean") {
    Ok(t) => t,
    Err(_) => return (fallback(), false),
  };
  let mut out = vec![];
  let mut inside = false;
  for line in text.lines() {
    if line.starts_with("def actionEffects") {
      inside = true;
      continue;
    }
    if inside {
      let l = line.trim();
      if l == "]" {
        break;
      }
      // `/-  16 context_begin -/ [.push],`
      if let (Some(a), Some(b)) = (l.find("/-"), l.find("-/")) {
        let name = l[a + 2..b].split_whitespace().last().unwrap_or("").to_string();
        let effs = l[b + 2..].trim().trim_end_matches(',').trim();
        if effs != "[]" && !name.is_empty() {
          out.push(name);
        }
      }
    }
  }
  if out.is_empty() {
    (fallback(), false)
  } else {
    (out, true)
  }
}

/// The scope-affecting reduce actions a successful parse must have executed, read off its syntax tree.
fn exercised(n: &Sexp, text: &str, out: &mut BTreeSet<&'static str>) {
  if let Sexp::List(xs) = n {
    if let Some(Sexp::Atom(tag)) = xs.first() {
      match tag.as_str() {
        "for" => {
          out.insert("for_begin");
          out.insert("for");
        }
        "some" => {
          out.insert("some_begin");
          out.insert("some");
        }
        "every" => {
          out.insert("every_begin");
          out.insert("every");
        }
        "context" => {
          out.insert("context_begin");
          out.insert("context_end");
        }
        "contextEntry" => {
          out.insert("context_entry");
        }
        "iterationContextSingle" | "iterationContextRange" => {
          out.insert("iteration_context_variable_name");
        }
        "quantifiedContext" => {
          out.insert("quantified_expression_variable_name");
        }
        "functionDefinition" => {
          out.insert("formal_parameters_begin");
        }
        "functionBody" => {
          let ext = matches!(xs.last(), Some(Sexp::Atom(a)) if a == "true");
          out.insert(if ext { "function_body_external" } else { "function_body" });
        }
        "formalParameter" => {
          // `x` and `x: Any` give the same tree: counted as typed only when the type is not Any, as untyped
          // only when the text has no `: Any`
          let any = xs.get(2).map(|t| t.to_string().contains("any")).unwrap_or(false);
          if !any {
            out.insert("formal_parameter_with_type");
          } else if !text.contains(": Any") && !text.contains(":Any") {
            out.insert("formal_parameter_without_type");
          }
        }
        _ => {}
      }
      for c in &xs[1..] {
        exercised(c, text, out);
      }
    }
  }
}

type ParseFn = fn(&Scope, &str, bool) -> dmntk_common::Result<AstNode>;

fn parse_name_as_node(scope: &Scope, text: &str, trace: bool) -> dmntk_common::Result<AstNode> {
  dmntk_feel_parser::parse_name(scope, text, trace).map(AstNode::Name)
}

fn entry_points() -> Vec<(&'static str, ParseFn)> {
  vec![
    ("parse_expression", dmntk_feel_parser::parse_expression as ParseFn),
    ("parse_textual_expression", dmntk_feel_parser::parse_textual_expression as ParseFn),
    ("parse_textual_expressions", dmntk_feel_parser::parse_textual_expressions as ParseFn),
    ("parse_unary_tests", dmntk_feel_parser::parse_unary_tests as ParseFn),
    ("parse_boxed_expression", dmntk_feel_parser::parse_boxed_expression as ParseFn),
    ("parse_context", dmntk_feel_parser::parse_context as ParseFn),
    ("parse_name", parse_name_as_node as ParseFn),
  ]
}

/// Caller scopes: no context at all, one empty context, two and three contexts whose entries carry the names
/// the corpus binds (`x`, `y`, `partial`, `a`, `b`, `f`, `item`) with non-null values — an entry written into
/// a caller's context, or a caller's context popped, shows in `Display`.
fn caller_scopes() -> Vec<(&'static str, Vec<FeelContext>)> {
  let num = |n: i64| Value::Number(FeelNumber::from(n));
  let mk = |names: &[&str], base: i64| {
    let mut c = FeelContext::default();
    for (i, n) in names.iter().enumerate() {
      c.set_entry(&Name::from(*n), num(base + i as i64));
    }
    c
  };
  let (_, _, base) = crate::c01::base_scope();
  vec![
    ("no context", vec![]),
    ("one empty context", vec![FeelContext::default()]),
    ("two contexts binding the names of the text", vec![mk(&["x", "partial", "a", "n1"], 10), mk(&["y", "b", "f", "item", "x"], 20)]),
    (
      "three contexts (base scope of the generated programs and one on top)",
      vec![base[0].clone(), base[1].clone(), mk(&["x", "y", "partial", "a"], 30)],
    ),
  ]
}

fn fresh_scope(ctxs: &[FeelContext]) -> Scope {
  let scope = Scope::new();
  for c in ctxs {
    scope.push(c.clone());
  }
  scope
}

/// Texts that reach every scope-affecting reduce action; (entry point, text).
fn corpus() -> Vec<(&'static str, &'static str)> {
  let mut v = vec![];
  let expressions = [
    // for / iteration contexts (list and range), `partial`, several variables, nesting
    "for x in [1, 2, 3] return x + 1",
    "for x in 1..3 return x",
    "for x in [1, 2], y in [x, 3] return x * y",
    "for x in [1, 2] return for y in [x] return partial",
    "for x in [1, 2] return partial",
    // some / every
    "some x in [1, 2, 3] satisfies x > 2",
    "every x in [1, 2], y in [3] satisfies x < y",
    "some x in [1] satisfies every y in [x] satisfies y = x",
    // contexts: entries visible to later entries, nested, string keys, empty
    "{}",
    "{a: 1}",
    "{a: 1, b: a + 1}",
    "{a: {b: 1, c: b}, d: a.c}",
    "{\"a b\": 1, c: 2}",
    "{a: for x in [1] return x, b: some y in [a] satisfies y = [1]}",
    // function definitions: no parameter, untyped, typed, several, external, nested, invoked
    "function() 1",
    "function(x) x + 1",
    "function(x: number) x + 1",
    "function(x, y: string, z: list<number>) [x, y, z]",
    "function(x: Any) x",
    "function(a, b) external {java: {class: \"c\", method signature: \"m\"}}",
    "function(x) function(y) x + y",
    "function(x) {a: x, b: a}",
    "(function(x) x * 2)(3)",
    "{f: function(x) x, r: f(1)}.r",
    // mixtures under every other construct that takes expressions
    "if (some x in [1] satisfies x = 1) then (for y in [1] return y) else {a: 1}",
    "[for x in [1] return x, {a: 1}, function(x) x][1]",
    "[{a: 1}, {a: 2}][a > 1]",
    "(for x in [1, 2] return x) = [1, 2] and {a: true}.a or false",
    "1 in (for x in [1] return x)",
    "5 between (for x in [1] return x)[1] and {b: 9}.b",
    "{a: 1} instance of context<a: number>",
    "(function(x: number) x) instance of function<number> -> number",
    "-(for x in [1] return x)[1] + {a: 2}.a * 3 ** 2",
    "x", "partial + 1", "a.b", "1 + 2",
  ];
  for t in expressions {
    v.push(("parse_expression", t));
  }
  for t in expressions {
    // a boxed expression at the top is not a textual expression: those are rejected there, the others accepted
    v.push(("parse_textual_expression", t));
    v.push(("parse_boxed_expression", t));
  }
  for t in ["1, for x in [1] return x, {a: 1}.a", "some x in [1] satisfies x = 1", "(function(x) x)(1), 2"] {
    v.push(("parse_textual_expressions", t));
  }
  for t in [
    "-",
    "1, 2",
    "not(1, 2)",
    "< 5, [1..2]",
    "for x in [1] return x",
    "{a: 1}.a, (function(x) x)(2)",
    "not(some x in [1] satisfies x = 1)",
    "[1, 2], every y in [1] satisfies y > 0",
  ] {
    v.push(("parse_unary_tests", t));
  }
  for t in ["{}", "{a: 1, b: a}", "{a: function(x) x, b: for y in [1] return y}", "{a: {b: {c: 1}}}"] {
    v.push(("parse_context", t));
  }
  for t in ["x", "a b", "n1", "for"] {
    v.push(("parse_name", t));
  }
  v
}

pub fn parse_families(cfg: &Cfg, rep: &mut Report) {
  let thorough = cfg.tier == "thorough";
  let (scope_acts, from_table) = scope_actions();
  let known: BTreeSet<&str> = [
    "context_begin",
    "context_end",
    "context_entry",
    "every",
    "every_begin",
    "for",
    "for_begin",
    "formal_parameter_with_type",
    "formal_parameter_without_type",
    "formal_parameters_begin",
    "function_body",
    "function_body_external",
    "iteration_context_variable_name",
    "quantified_expression_variable_name",
    "some",
    "some_begin",
  ]
  .into_iter()
  .collect();
  let entries = entry_points();
  let scopes = caller_scopes();
  let mut counts: BTreeMap<String, u64> = BTreeMap::new();
  let mut ok_parses = 0u64;
  let mut failed_parses = 0u64;
  let mut leftovers: BTreeMap<String, u64> = BTreeMap::new();
  let mut leftover_sample: Option<serde_json::Value> = None;

  // one parse; returns the scope-affecting actions exercised when the parse succeeded
  let mut one = |rep: &mut Report, entry: &str, f: ParseFn, text: &str, scope_name: &str, ctxs: &[FeelContext], expect_ok: bool| {
    crate::util::note_case(text);
    let scope = fresh_scope(ctxs);
    let before = scope.to_string();
    let res = guarded(|| f(&scope, text, false));
    let after = scope.to_string();
    match res {
      Ok(Ok(node)) => {
        ok_parses += 1;
        let mut acts = BTreeSet::new();
        exercised(&ast_sexp(&node), text, &mut acts);
        rep.case(&format!("parse|{}|{}|{}", entry, scope_name, text), !acts.is_empty());
        rep.hit(&format!("parse-scope:entry:{}", entry));
        rep.hit(&format!("parse-scope:caller:{}", scope_name));
        for a in &acts {
          *counts.entry(a.to_string()).or_insert(0) += 1;
        }
        if after != before {
          rep.disagree(
            Kind::ImplVsSpec,
            "parse_scope_balanced",
            "the parsing scope differs after a successful parse (parse families)",
            &format!("{}({:?}) in a scope of {}: {}", entry, text, scope_name, before),
            &after,
            &before,
          );
        }
      }
      Ok(Err(_)) => {
        failed_parses += 1;
        rep.evaluations += 1;
        // the property does not speak of failed parses: observe what they leave behind
        let mut n_after = 0usize;
        while scope.pop().is_some() {
          n_after += 1;
          if n_after > 64 {
            break;
          }
        }
        let state = if after == before {
          "parse-error:scope unchanged".to_string()
        } else if n_after > ctxs.len() {
          // are the caller's own contexts intact below what was left behind?
          let again = fresh_scope(ctxs);
          let _ = guarded(|| f(&again, text, false));
          for _ in 0..(n_after - ctxs.len()) {
            again.pop();
          }
          let intact = again.to_string() == before;
          format!(
            "parse-error:{} context(s) of the parse left on the scope, caller's contexts {}",
            n_after - ctxs.len(),
            if intact { "intact" } else { "CHANGED" }
          )
        } else if n_after < ctxs.len() {
          format!("parse-error:{} caller context(s) popped", ctxs.len() - n_after)
        } else {
          "parse-error:same number of contexts, an entry of the caller's changed".to_string()
        };
        if after != before && leftover_sample.is_none() {
          leftover_sample = Some(json!({"family": "failed parse (observed, not judged)", "entry": entry, "text": text, "scope before": before, "scope after": after}));
        }
        rep.hit(&state);
        *leftovers.entry(state).or_insert(0) += 1;
        if expect_ok {
          rep.hit("parse-scope:corpus text rejected");
        }
      }
      Err(m) => {
        rep.disagree(Kind::ImplVsSpec, "parse_no_panic", "the parser panics (parse families)", &format!("{}({:?})", entry, text), &m, "a syntax tree or an error");
      }
    }
  };

  // ---- 1. the corpus through every entry point in every caller scope
  for (entry, text) in corpus() {
    let f = entries.iter().find(|(n, _)| *n == entry).map(|(_, f)| *f).expect("entry point");
    for (scope_name, ctxs) in &scopes {
      one(rep, entry, f, text, scope_name, ctxs, entry == "parse_expression" || entry == "parse_context");
    }
  }
  // ---- 2. generated expressions (the typed grammar of C01) in the base scope and with one more context on top
  {
    let (_, vars, base) = crate::c01::base_scope();
    let mut rng = Rng::new(cfg.seed ^ 0xC13_5C0);
    let n = if thorough { 40_000 } else { 3_000 };
    let max_depth = if thorough { 5 } else { 3 };
    let mut g = crate::c01::Gen { rng: &mut rng, fresh: 0 };
    let three = scopes[3].1.clone();
    for i in 0..n {
      let d = 1 + (i as u32 % max_depth);
      let text = g.any(d, &vars);
      if i % 2 == 0 {
        one(rep, "parse_expression", dmntk_feel_parser::parse_expression as ParseFn, &text, "base scope of the generated programs", &base, false);
      } else {
        one(rep, "parse_unary_tests", dmntk_feel_parser::parse_unary_tests as ParseFn, &text, scopes[3].0, &three, false);
      }
    }
  }
  // ---- 3. failed parses: every prefix of the corpus texts, and garbled variants
  {
    let mut rng = Rng::new(cfg.seed ^ 0xBAD_5C0);
    let two = scopes[2].1.clone();
    let junk = [")", "]", "}", " return", " satisfies", ",", " in", " then", "(", "{", " function(", " for x in"];
    for (entry, text) in corpus() {
      if entry != "parse_expression" && entry != "parse_context" && entry != "parse_unary_tests" {
        continue;
      }
      let f = entries.iter().find(|(n, _)| *n == entry).map(|(_, f)| *f).expect("entry point");
      let cuts: Vec<usize> = text.char_indices().map(|(i, _)| i).filter(|i| *i > 0).collect();
      for c in cuts {
        one(rep, entry, f, &text[..c], scopes[2].0, &two, false);
      }
      for _ in 0..3 {
        let cuts: Vec<usize> = text.char_indices().map(|(i, _)| i).collect();
        let at = *rng.pick(&cuts);
        let garbled = format!("{}{}{}", &text[..at], rng.pick(&junk), &text[at..]);
        one(rep, entry, f, &garbled, scopes[2].0, &two, false);
      }
    }
  }
  drop(one);
  // ---- coverage of the scope-affecting actions
  for a in &scope_acts {
    let n = counts.get(a).copied().unwrap_or(0);
    rep.hit(&format!("parse-scope:action:{}:{}", a, if n > 0 { "exercised" } else { "NEVER" }));
    if !known.contains(a.as_str()) {
      rep.disagree(
        Kind::ImplVsModel,
        "parse_scope_coverage",
        "a reduce action has a scope effect and the parse families have no construct for it",
        a,
        "not exercised",
        "every scope-affecting reduce action is exercised by successful parses",
      );
    } else if n == 0 {
      rep.disagree(
        Kind::ImplVsModel,
        "parse_scope_coverage",
        "a scope-affecting reduce action was never exercised by a successful parse of the parse families",
        a,
        "0 successful parses",
        "at least one",
      );
    }
  }
  rep.extra.insert(
    "parse_scope".into(),
    json!({
      "scope_affecting_actions": scope_acts,
      "read_from_regenerated_table": from_table,
      "successful_parses_exercising": counts,
      "successful_parses": ok_parses,
      "failed_parses_observed": failed_parses,
      "after_failed_parse": leftovers,
      "failed_parse_example": leftover_sample,
    }),
  );
}
