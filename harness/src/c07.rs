//! C07 — numbers print as plain decimal text that denotes exactly their value.
//!
//! Implementation: `FeelNumber::{from_str, to_string, jsonify}` (feel-number/src/number.rs),
//! `dec::{dec_from_string, dec_to_string}` (the bundled C decNumber), FEEL literals and
//! `string(n)` through parse + evaluate.
//! Model: `Dmn.Dec.{toSci, sciToPlain, plain, ofString, ofLiteral}` through the driver; the
//! specification (`isPlain`, `plainValue`/`denotes`, `isJsonNumber`, read-back) is executed by
//! the driver too — on the model's text when it equals the implementation's, and on the
//! implementation's own text (`judge`) when the two differ.

use crate::c02::{ask_parallel, decode_text, feel_eval, parse_sci, DecV, D};
use crate::model::Model;
use crate::report::{Kind, Report};
use crate::rng::Rng;
use crate::sexp::Sexp;
use crate::util::guarded;
use crate::Cfg;
use dmntk_common::Jsonify;
use dmntk_feel::values::Value;
use dmntk_feel::FeelNumber;
use dmntk_feel_number::dec::{dec_from_string, dec_to_string};
use serde_json::json;
use std::str::FromStr;

pub const SIG_F1: &str = "Display of a negative number in E- form puts the sign inside the digits";
pub const SIG_ZERO: &str = "Display of a zero with positive exponent prints several zeros (not a JSON number)";

fn random_coeff(rng: &mut Rng, len: usize, trailing_zeros: bool) -> String {
  // `len` digits, first non-zero; last digit zero or non-zero as requested
  let mut s = String::with_capacity(len);
  for i in 0..len {
    let d = if i == 0 {
      1 + rng.below(9)
    } else if i == len - 1 {
      if trailing_zeros {
        0
      } else {
        1 + rng.below(9)
      }
    } else {
      // runs of zeros and nines are interesting for the digit handling
      match rng.below(8) {
        0 => 0,
        1 => 9,
        _ => rng.below(10),
      }
    };
    s.push(char::from(b'0' + d as u8));
  }
  if trailing_zeros && len > 2 && rng.chance(1, 3) {
    // several trailing zeros
    let k = 1 + rng.below((len - 1) as u64) as usize;
    let keep = len - k;
    s.truncate(keep);
    for _ in 0..k {
      s.push('0');
    }
  }
  s
}

struct Verdicts {
  is_plain: bool,
  value_ok: bool,
  json_ok: bool,
  readback: String,
}

fn verdicts_of(items: &[Sexp]) -> Option<Verdicts> {
  if items.len() != 4 {
    return None;
  }
  Some(Verdicts {
    is_plain: items[0].as_atom()? == "true",
    value_ok: items[1].as_atom()? == "true",
    json_ok: items[2].as_atom()? == "true",
    readback: items[3].as_atom()?.to_string(),
  })
}

/// The law checks on a text the implementation printed for `d`.
fn apply_verdicts(rep: &mut Report, family: &str, d: &D, input: &str, text: &str, v: &Verdicts) {
  let short = |t: &str| if t.len() > 120 { format!("{}…({} chars)", &t[..120], t.len()) } else { t.to_string() };
  let sci_e_minus = (d.coeff.len() as i64 + d.exp as i64) < -5;
  if !v.is_plain {
    let sig = if d.neg && sci_e_minus { SIG_F1 } else { "Display text is not of the form -?digits(.digits)?" };
    rep.disagree(Kind::ImplVsSpec, family, sig, input, &short(text), "-?[0-9]+(\\.[0-9]+)?");
    return;
  }
  if !v.value_ok {
    rep.disagree(Kind::ImplVsSpec, family, "Display text does not denote the number's value", input, &short(text), "text denoting exactly the value");
  }
  if !v.json_ok {
    let sig = if d.coeff == "0" && d.exp > 0 { SIG_ZERO } else { "jsonify text is not a JSON number" };
    rep.disagree(Kind::ImplVsSpec, family, sig, input, &short(text), "a JSON number");
  }
  if v.readback != "eq" {
    rep.disagree(Kind::ImplVsSpec, family, "reading the printed text back gives a different number", input, &short(text), "an equal number");
  }
}

pub fn run(cfg: &Cfg) -> Report {
  let mut rep = Report::new(
    "C07",
    "grid exponent -6176..6111 x coefficient length 1..34 x sign x with/without trailing zeros (random coefficient per cell; quick: a stratified sample, every exponent at least once), zeros of both signs over the exponent range, results of + - * / on grid members, FromStr on syntactic variants, FEEL literals of 1..40 significant digits and string(n). Non-trivial: every case except a one-digit coefficient with exponent 0; distinct by request line.",
  );
  let thorough = cfg.tier == "thorough";
  let mut rng = Rng::new(cfg.seed);
  let mut model = Model::start(&cfg.driver);

  // ------------------------------------------------------------------ 1. the grid
  let mut cells: Vec<D> = vec![];
  // corpus / edges first
  for (neg, c, e) in [
    (true, "15", -8),
    (true, "1", -7),
    (false, "15", -8),
    (false, "0", 3),
    (true, "0", 2),
    (false, "0", 0),
    (true, "0", 0),
    (false, "0", -6),
    (false, "0", -7),
    (false, "0", -6176),
    (false, "0", 6111),
    (false, "1", -6176),
    (true, "1", -6176),
    (false, "9999999999999999999999999999999999", 6111),
    (true, "9999999999999999999999999999999999", 6111),
    (false, "9999999999999999999999999999999999", -6176),
    (false, "1000000000000000000000000000000000", 6111),
    (false, "1", 6111),
    (false, "1", -6),
    (false, "1", -7),
    (true, "1", -6),
    (false, "123", -2),
    (false, "123", -3),
    (false, "123", -4),
    (false, "123", -8),
    (false, "123", -9),
    (true, "123", -9),
    (false, "123", 1),
    (true, "123", 1),
    (false, "10", -1),
    (false, "100", -2),
  ] {
    cells.push(D { neg, coeff: c.to_string(), exp: e });
  }
  if thorough {
    // one random coefficient per grid cell
    for e in -6176..=6111 {
      for len in 1..=34usize {
        for neg in [false, true] {
          for tz in [false, true] {
            if tz && len == 1 {
              // a one-digit coefficient with a trailing zero is the zero coefficient
              cells.push(D { neg, coeff: "0".into(), exp: e });
            } else {
              cells.push(D { neg, coeff: random_coeff(&mut rng, len, tz), exp: e });
            }
          }
        }
      }
    }
  } else {
    // stratified: every exponent once, lengths / signs / zeros cycling with a random phase,
    // plus a dense band around the notation switch (adjusted exponent -7..-5) and exponent 0
    let phase = rng.below(34) as usize;
    let mut i = 0usize;
    for e in -6176..=6111 {
      let len = 1 + (i + phase) % 34;
      let neg = rng.chance(1, 2);
      let tz = rng.chance(1, 2);
      if tz && len == 1 {
        cells.push(D { neg, coeff: "0".into(), exp: e });
      } else {
        cells.push(D { neg, coeff: random_coeff(&mut rng, len, tz), exp: e });
      }
      i += 1;
    }
    for e in -60..=40 {
      for len in 1..=34usize {
        for neg in [false, true] {
          let tz = rng.chance(1, 2) && len > 1;
          cells.push(D { neg, coeff: random_coeff(&mut rng, len, tz), exp: e });
        }
      }
    }
    for e in [-6176, -6175, -6143, -3000, -100, 100, 3000, 6077, 6078, 6110, 6111] {
      for len in 1..=34usize {
        let neg = rng.chance(1, 2);
        let tz = rng.chance(1, 2) && len > 1;
        cells.push(D { neg, coeff: random_coeff(&mut rng, len, tz), exp: e });
      }
    }
  }
  rep.extra.insert("grid_cells".into(), json!(cells.len()));

  // arithmetic results on grid members (reduced by the operators, so `{:?}` shows the triple)
  let n_arith = if thorough { 200_000 } else { 3_000 };
  let mut arith: Vec<(String, D)> = vec![];
  for _ in 0..n_arith {
    let a = &cells[rng.below(cells.len() as u64) as usize];
    let b = &cells[rng.below(cells.len() as u64) as usize];
    let op = *rng.pick(&["+", "-", "*", "/"]);
    let (sa, sb) = (a.to_sci_input(), b.to_sci_input());
    let r = guarded(|| {
      let x = FeelNumber::from_str(&sa).ok()?;
      let y = FeelNumber::from_str(&sb).ok()?;
      let z = match op {
        "+" => x + y,
        "-" => x - y,
        "*" => x * y,
        _ => x / y,
      };
      match parse_sci(&format!("{:?}", z)) {
        Some(DecV::Fin(d)) => Some(d),
        _ => None,
      }
    });
    if let Ok(Some(d)) = r {
      arith.push((format!("{} {} {}", sa, op, sb), d));
    }
  }

  let process = |rep: &mut Report, model: &mut Model, items: &[(String, D)], family: &str| {
    let chunk = 200_000;
    let mut start = 0;
    while start < items.len() {
      let end = (start + chunk).min(items.len());
      let reqs: Vec<String> = items[start..end].iter().map(|(_, d)| format!("(c07 num {} {} {})", d.neg, d.coeff, d.exp)).collect();
      let (answers, asked) = ask_parallel(&cfg.driver, &reqs);
      model.requests += asked;
      for (((origin, d), req), ans) in items[start..end].iter().zip(reqs.iter()).zip(answers.iter()) {
        let nontrivial = !(d.coeff.len() == 1 && d.exp == 0);
        rep.case(req, nontrivial);
        let adj = d.coeff.len() as i64 + d.exp as i64 - 1;
        rep.hit(&format!(
          "{}:{}",
          family,
          if d.exp > 0 {
            "E+"
          } else if adj < -6 {
            if d.neg {
              "E- negative"
            } else {
              "E- positive"
            }
          } else if d.exp == 0 {
            "integer"
          } else if d.coeff.len() as i64 + d.exp as i64 > 0 {
            "ddd.ddd"
          } else {
            "0.00ddd"
          }
        ));
        let input = if origin.is_empty() { d.to_sci_input() } else { format!("{} = {}", origin, d.to_sci_input()) };
        // ---- implementation
        let sci_in = d.to_sci_input();
        let imp = guarded(|| {
          let q = dec_from_string(&sci_in);
          let sci = dec_to_string(&q);
          let n = FeelNumber::from_str(&sci_in).map_err(|e| e.to_string());
          match n {
            Ok(n) => {
              let text = n.to_string();
              let js = n.jsonify();
              let back = match FeelNumber::from_str(&text) {
                Ok(m) => {
                  if m == n && format!("{:?}", m) == format!("{:?}", n) {
                    "eq"
                  } else {
                    "ne"
                  }
                }
                Err(_) => "err",
              };
              (sci, Ok((text, js, back.to_string())))
            }
            Err(e) => (sci, Err(e)),
          }
        });
        let (isci, itext, ijson, iback) = match imp {
          Ok((sci, Ok((t, j, b)))) => (sci, t, j, b),
          Ok((sci, Err(e))) => {
            rep.disagree(Kind::ImplVsSpec, family, "from_str rejects a finite decimal128", &input, &format!("{} / {}", sci, e), "Ok");
            continue;
          }
          Err(p) => {
            rep.disagree(Kind::ImplVsSpec, family, "Display panics", &input, &format!("panic: {}", p), "text");
            continue;
          }
        };
        // ---- model
        let parsed = Sexp::parse(ans);
        let items_ = match parsed.as_ref().and_then(|s| s.as_list()) {
          Some(l) if l.len() == 7 && l[0].as_atom() == Some("num") => l.to_vec(),
          _ => {
            rep.disagree(Kind::ImplVsModel, family, "driver-error", req, &itext, ans);
            continue;
          }
        };
        let msci = decode_text(&items_[1]).unwrap_or_default();
        let mtext = decode_text(&items_[2]);
        if isci != msci {
          rep.disagree(Kind::ImplVsModel, family, "decQuadToString differs from toSci", &input, &isci, &msci);
        }
        if ijson != itext {
          rep.disagree(Kind::ImplVsSpec, family, "jsonify differs from Display", &input, &ijson, &itext);
        }
        let same_text = mtext.as_deref() == Some(itext.as_str());
        let v = if same_text {
          verdicts_of(&items_[3..7])
        } else {
          rep.disagree(Kind::ImplVsModel, family, "Display differs from sciToPlain∘toSci", &input, &itext, mtext.as_deref().unwrap_or("panic"));
          // the specification applied to the implementation's own text
          let jr = model.ask(&format!("(c07 judge {} {} {} {})", d.neg, d.coeff, d.exp, Sexp::str(&itext)));
          Sexp::parse(&jr).and_then(|s| s.as_list().map(|l| l.to_vec())).and_then(|l| if l.len() == 5 { verdicts_of(&l[1..5]) } else { None })
        };
        match v {
          Some(mut v) => {
            // the read-back verdict comes from the implementation's own from_str and equality
            if v.readback != iback && v.is_plain {
              rep.disagree(Kind::ImplVsModel, family, "from_str(text) read-back differs from ofString", &input, &iback, &v.readback);
            }
            v.readback = iback.clone();
            apply_verdicts(rep, family, d, &input, &itext, &v);
          }
          None => rep.disagree(Kind::ImplVsModel, family, "driver-error", req, &itext, ans),
        }
        if rep.samples.len() < 6 && nontrivial && itext.len() < 60 && (d.exp < -3 || d.exp > 0) {
          rep.sample(json!({"number": d.to_sci_input(), "decQuadToString": isci, "Display": itext, "model": ans}));
        }
      }
      start = end;
    }
  };

  let grid_items: Vec<(String, D)> = cells.iter().map(|d| (String::new(), d.clone())).collect();
  process(&mut rep, &mut model, &grid_items, "grid");
  process(&mut rep, &mut model, &arith, "arith");

  // ------------------------------------------------------------------ 2. FromStr on syntactic variants
  let mut texts: Vec<String> = vec![
    "12.", ".5", "5.", "1e5", "1E5", "+1.5E-3", "00012.3400", "-0", "+0", "-0.0", "0E+3", "0E-7", "1E+6144", "1E+6145", "9.999999999999999999999999999999999E+6144",
    "9.9999999999999999999999999999999995E+6144", "1E-6176", "1E-6177", "5E-6177", "5.0000001E-6177", "1E-7000", "1E+7000", "0E+7000", "0E-7000", "abc", "", ".", "-", "+", "1.2.3", "1E", "1E+", "E5", "1 ",
    " 1", "Infinity", "-Infinity", "inf", "NaN", "sNaN", "1_000", "1,5", "12345678901234567890123456789012345", "1234567890123456789012345678901234.5", "1234567890123456789012345678901233.5",
    "0.00000000000000000000000000000000000000001", "1E+99999999999", "1E-99999999999", "0E+99999999999",
  ]
  .iter()
  .map(|s| s.to_string())
  .collect();
  let n_texts = if thorough { 50_000 } else { 3_000 };
  for _ in 0..n_texts {
    let mut t = String::new();
    if rng.chance(1, 3) {
      t.push(*rng.pick(&['-', '+']));
    }
    let wide = rng.chance(1, 5);
    let ilen = rng.below(if wide { 40 } else { 8 }) as usize;
    for _ in 0..ilen {
      t.push(char::from(b'0' + rng.below(10) as u8));
    }
    if rng.chance(1, 2) {
      t.push('.');
      let wide = rng.chance(1, 5);
      let flen = rng.below(if wide { 40 } else { 8 }) as usize;
      for _ in 0..flen {
        t.push(char::from(b'0' + rng.below(10) as u8));
      }
    }
    if rng.chance(1, 2) {
      t.push(*rng.pick(&['E', 'e']));
      if rng.chance(2, 3) {
        t.push(*rng.pick(&['-', '+']));
      }
      let e = match rng.below(4) {
        0 => rng.below(10),
        1 => rng.below(100),
        2 => 6100 + rng.below(120),
        _ => rng.below(7000),
      };
      t.push_str(&e.to_string());
    }
    if rng.chance(1, 40) {
      t.push(*rng.pick(&['x', ' ', '.', 'E', '-']));
    }
    texts.push(t);
  }
  {
    let reqs: Vec<String> = texts.iter().map(|t| format!("(c07 parse {})", Sexp::str(t))).collect();
    let answers = model.ask_batch(&reqs);
    for ((t, req), ans) in texts.iter().zip(reqs.iter()).zip(answers.iter()) {
      rep.case(req, true);
      if t.contains('\0') {
        continue;
      }
      let imp = guarded(|| {
        let q = dec_from_string(t);
        let sci = dec_to_string(&q);
        let n = FeelNumber::from_str(t);
        (sci, n.map(|n| n.to_string()).map_err(|_| ()))
      });
      let (isci, itext) = match imp {
        Ok(x) => x,
        Err(p) => {
          rep.disagree(Kind::ImplVsSpec, "from_str", "from_str panics", t, &p, "Ok or Err");
          continue;
        }
      };
      let ival = parse_sci(&isci);
      let parsed = Sexp::parse(ans);
      let l = match parsed.as_ref().and_then(|s| s.as_list()) {
        Some(l) if l.len() == 3 && l[0].as_atom() == Some("parse") => l.to_vec(),
        _ => {
          rep.disagree(Kind::ImplVsModel, "from_str", "driver-error", req, &isci, ans);
          continue;
        }
      };
      let mval = DecV::from_sexp(&l[1]);
      rep.hit(&format!(
        "from_str:{}",
        match &ival {
          Some(DecV::Fin(_)) => "finite",
          Some(DecV::Inf(_)) => "infinite",
          Some(DecV::NaN) => "nan",
          None => "unparsed",
        }
      ));
      if ival != mval {
        rep.disagree(Kind::ImplVsModel, "from_str", "decQuadFromString differs from ofString", t, &isci, &l[1].to_string());
        continue;
      }
      let finite = matches!(ival, Some(DecV::Fin(_)));
      if finite != itext.is_ok() {
        rep.disagree(Kind::ImplVsModel, "from_str", "from_str Ok/Err differs from the finiteness of ofString", t, &format!("{:?}", itext), &l[1].to_string());
      }
      // typed input: `xsd:integer`, `xsd:decimal` and `xsd:double` texts are read by the same conversion and
      // denote exactly the written number (no detour through binary floating point)
      for (kind, conv) in [
        ("xsd:integer", dmntk_feel::values::Value::try_from_xsd_integer as fn(&str) -> dmntk_common::Result<dmntk_feel::values::Value>),
        ("xsd:decimal", dmntk_feel::values::Value::try_from_xsd_decimal),
        ("xsd:double", dmntk_feel::values::Value::try_from_xsd_double),
      ] {
        let got = guarded(|| match conv(t) {
          Ok(dmntk_feel::values::Value::Number(n)) => Ok(n.to_string()),
          Ok(other) => Ok(format!("not a number: {}", other)),
          Err(_) => Err(()),
        });
        rep.hit("from_str:xsd");
        match got {
          Ok(g) if g == itext => {}
          Ok(g) => rep.disagree(Kind::ImplVsSpec, "from_str", &format!("typed input {} does not denote exactly the written number", kind), t, &format!("{:?}", g), &format!("{:?}", itext)),
          Err(p) => rep.disagree(Kind::ImplVsSpec, "from_str", &format!("typed input {} panics", kind), t, &p, "Ok or Err"),
        }
      }
      if let Ok(it) = itext {
        let mt = decode_text(&l[2]);
        if mt.as_deref() != Some(it.as_str()) {
          rep.disagree(Kind::ImplVsModel, "from_str", "Display differs from sciToPlain∘toSci", t, &it, mt.as_deref().unwrap_or("panic"));
        }
      }
    }
  }

  // ------------------------------------------------------------------ 3. FEEL literals and string(n)
  let n_lit = if thorough { 50_000 } else { 3_000 };
  let mut lits: Vec<(String, String, bool)> = vec![
    ("12".into(), "".into(), false),
    ("0".into(), "5".into(), false),
    ("0".into(), "00000015".into(), true),
    ("0".into(), "0000001".into(), true),
    ("0".into(), "0000001".into(), false),
    ("1".into(), "50".into(), false),
    ("0".into(), "".into(), false),
    ("0".into(), "".into(), true),
    ("0".into(), "000".into(), false),
    ("1234567890123456789012345678901234".into(), "".into(), false),
    ("12345678901234567890123456789012345".into(), "".into(), false),
    ("0".into(), "1234567890123456789012345678901234".into(), false),
    ("0".into(), "0000000001234567890123456789012345678901234".into(), true),
  ];
  for _ in 0..n_lit {
    let total = 1 + rng.below(40) as usize;
    let blen = rng.below(total as u64 + 1) as usize;
    let alen = total - blen;
    let mut b = String::new();
    for i in 0..blen.max(1) {
      let d = if i == 0 && blen > 1 { 1 + rng.below(9) } else if blen == 0 { 0 } else { rng.below(10) };
      b.push(char::from(b'0' + d as u8));
    }
    let mut a = String::new();
    let lead_zeros = if rng.chance(1, 4) { rng.below(12) as usize } else { 0 };
    for _ in 0..lead_zeros {
      a.push('0');
    }
    for _ in 0..alen {
      a.push(char::from(b'0' + rng.below(10) as u8));
    }
    lits.push((b, a, rng.chance(1, 3)));
  }
  {
    let reqs: Vec<String> = lits.iter().map(|(b, a, _)| format!("(c07 literal {} {})", Sexp::str(b), Sexp::str(a))).collect();
    let answers = model.ask_batch(&reqs);
    // second batch: the Display model of the value each literal (with its sign) denotes
    let mut show_reqs: Vec<String> = vec![];
    let mut show_idx: Vec<usize> = vec![];
    let mut mvals: Vec<Option<D>> = vec![];
    for (i, ans) in answers.iter().enumerate() {
      let l = Sexp::parse(ans).and_then(|s| s.as_list().map(|l| l.to_vec())).unwrap_or_default();
      let mv = if l.len() == 4 { DecV::from_sexp(&l[1]) } else { None };
      let md = match mv {
        Some(DecV::Fin(d)) => Some(d),
        _ => None,
      };
      if let Some(d) = &md {
        let negated = lits[i].2;
        // unary minus: `decQuadMinus` — flips the sign, a zero becomes +0
        let neg = negated && d.coeff != "0";
        show_reqs.push(format!("(c07 num {} {} {})", neg, d.coeff, d.exp));
        show_idx.push(i);
      }
      mvals.push(md);
    }
    let show_answers = model.ask_batch(&show_reqs);
    let mut show_by_idx: std::collections::HashMap<usize, String> = std::collections::HashMap::new();
    for (i, a) in show_idx.iter().zip(show_answers.iter()) {
      show_by_idx.insert(*i, a.clone());
    }
    for (i, ((b, a, negated), ans)) in lits.iter().zip(answers.iter()).enumerate() {
      let lit = if a.is_empty() { b.clone() } else { format!("{}.{}", b, a) };
      let expr = if *negated { format!("-{}", lit) } else { lit.clone() };
      rep.case(&format!("literal {}", expr), true);
      let l = Sexp::parse(ans).and_then(|s| s.as_list().map(|l| l.to_vec())).unwrap_or_default();
      if l.len() != 4 {
        rep.disagree(Kind::ImplVsModel, "literal", "driver-error", &expr, "", ans);
        continue;
      }
      let exact = l[2].as_atom() == Some("true");
      let sig34 = l[3].as_atom() == Some("true");
      rep.hit(if sig34 { "literal:<=34 significant digits" } else { "literal:>34 significant digits" });
      // implementation: the literal itself and string(literal)
      let iv = guarded(|| feel_eval(&[], &expr));
      let istr = guarded(|| feel_eval(&[], &format!("string({})", expr)));
      let inum = match iv {
        Ok(Ok(Value::Number(n))) => n,
        other => {
          let what = match other {
            Ok(Ok(v)) => format!("{}", v),
            Ok(Err(e)) => format!("error: {}", e),
            Err(p) => format!("panic: {}", p),
          };
          if mvals[i].is_some() {
            rep.disagree(Kind::ImplVsSpec, "literal", "a numeric literal does not evaluate to a number", &expr, &what, "a number");
          }
          continue;
        }
      };
      let ired = parse_sci(&format!("{:?}", inum));
      let itext = inum.to_string();
      let md = match &mvals[i] {
        Some(d) => d.clone(),
        None => {
          rep.disagree(Kind::ImplVsModel, "literal", "literal evaluates to a number but ofLiteral gives null", &expr, &itext, ans);
          continue;
        }
      };
      // literal_exact on the implementation's own answer: the printed text must denote the digits written
      if sig34 {
        if !exact {
          rep.disagree(Kind::ImplVsModel, "literal", "model literal with <= 34 significant digits is not exact", &expr, &itext, ans);
        }
        // value of the literal: digits b++a as integer, scale |a|
        let digits = format!("{}{}", b, a);
        let digits = digits.trim_start_matches('0');
        let coeff = if digits.is_empty() { "0" } else { digits };
        let neg = *negated && coeff != "0";
        let jr = model.ask(&format!("(c07 judge {} {} {} {})", neg, coeff, -(a.len() as i64), Sexp::str(&itext)));
        let jl = Sexp::parse(&jr).and_then(|s| s.as_list().map(|l| l.to_vec())).unwrap_or_default();
        if jl.len() == 5 {
          if let Some(v) = verdicts_of(&jl[1..5]) {
            let d = D { neg, coeff: coeff.to_string(), exp: -(a.len() as i32) };
            if v.is_plain && !v.value_ok {
              rep.disagree(Kind::ImplVsSpec, "literal", "a literal of <= 34 significant digits does not evaluate to the value it denotes", &expr, &itext, &lit);
            } else if !v.is_plain {
              apply_verdicts(&mut rep, "literal", &d, &expr, &itext, &v);
            }
          }
        }
      }
      // tie: the evaluated literal (after unary minus) against the model, reduced triples and text
      let neg = *negated && md.coeff != "0";
      let mneg = D { neg, coeff: md.coeff.clone(), exp: md.exp };
      if ired != Some(DecV::Fin(mneg.reduced())) {
        rep.disagree(Kind::ImplVsModel, "literal", "literal value differs from ofLiteral", &expr, &format!("{:?}", inum), &format!("{:?}", mneg));
      }
      if let Some(sa) = show_by_idx.get(&i) {
        let sl = Sexp::parse(sa).and_then(|s| s.as_list().map(|l| l.to_vec())).unwrap_or_default();
        if sl.len() == 7 {
          let mt = decode_text(&sl[2]);
          if mt.as_deref() != Some(itext.as_str()) {
            rep.disagree(Kind::ImplVsModel, "literal", "Display differs from sciToPlain∘toSci", &expr, &itext, mt.as_deref().unwrap_or("panic"));
          }
          match istr {
            Ok(Ok(Value::String(s))) => {
              if s != itext {
                rep.disagree(Kind::ImplVsSpec, "literal", "string(n) differs from Display", &expr, &s, &itext);
              }
            }
            other => {
              let what = match other {
                Ok(Ok(v)) => format!("{}", v),
                Ok(Err(e)) => format!("error: {}", e),
                Err(p) => format!("panic: {}", p),
              };
              rep.disagree(Kind::ImplVsSpec, "literal", "string(n) of a number is not a string", &expr, &what, &itext);
            }
          }
        }
      }
    }
  }
  // ------------------------------------------------------------------ 4. non-canonical lexical forms
  lexical_family(&mut rep, &mut model, &mut rng, thorough);

  rep.exhaustive = thorough;
  rep.model_requests = model.requests;
  rep
}

// ------------------------------------------------------------------------------------------
// family `lexical`: numbers written in every lexical form, wherever text becomes a number
// ------------------------------------------------------------------------------------------

/// A written number: the text and, known from the way it was written (never from reading it back), the exact
/// rational it denotes: `(-1)^neg * digits * 10^exp`.
#[derive(Debug, Clone)]
struct Lex {
  text: String,
  neg: bool,
  /// all mantissa digits as written (integer digits then fraction digits)
  digits: String,
  exp: i64,
  sign: &'static str,
  int_len: usize,
  frac_len: usize,
  point: bool,
  exponent: bool,
  lead_ws: bool,
  trail_ws: bool,
}

impl Lex {
  fn whitespace(&self) -> bool {
    self.lead_ws || self.trail_ws
  }
  /// `[+-]?[0-9]+`
  fn in_xsd_integer(&self) -> bool {
    !self.whitespace() && !self.point && !self.exponent && self.int_len > 0
  }
  /// `[+-]?([0-9]+(\.[0-9]*)?|\.[0-9]+)`
  fn in_xsd_decimal(&self) -> bool {
    !self.whitespace() && !self.exponent
  }
  /// `[+-]?([0-9]+(\.[0-9]*)?|\.[0-9]+)([eE][+-]?[0-9]+)?`
  fn in_xsd_double(&self) -> bool {
    !self.whitespace()
  }
  /// the grammar of a FEEL numeric literal (an optional minus in front): `-?([0-9]+(\.[0-9]+)?|\.[0-9]+)`
  fn in_feel(&self) -> bool {
    !self.whitespace() && !self.exponent && self.sign != "+" && (!self.point || self.frac_len > 0)
  }
  /// the form of the mantissa and whether there is an exponent: `d`, `d.`, `.d`, `d.d`, each with or without `E`
  fn core_shape(&self) -> String {
    format!(
      "{}{}",
      match (self.int_len > 0, self.point, self.frac_len > 0) {
        (true, false, _) => "d",
        (true, true, true) => "d.d",
        (true, true, false) => "d.",
        (false, _, _) => ".d",
      },
      if self.exponent { "E" } else { "" }
    )
  }
  fn shape(&self) -> String {
    format!(
      "{}{}{}{}{}",
      match self.sign {
        "+" => "+",
        _ => "",
      },
      match (self.int_len > 0, self.point, self.frac_len > 0) {
        (true, false, _) => "d",
        (true, true, true) => "d.d",
        (true, true, false) => "d.",
        (false, _, _) => ".d",
      },
      if self.exponent { "E" } else { "" },
      if self.digits.len() > 1 && self.digits.starts_with('0') && self.int_len > 1 { " leading zeros" } else { "" },
      if self.whitespace() { " whitespace" } else { "" }
    )
  }
}

/// The value `digits * 10^exp` in normal form: no leading and no trailing zeros in the coefficient (`"0", 0` for zero),
/// rounded half-even to 34 significant digits when it has more. `None`: outside the range this family covers (the
/// result would not be a normal decimal128 number).
fn normal_value(digits: &str, exp: i64) -> Option<(String, i64)> {
  let mut c: Vec<u8> = digits.trim_start_matches('0').bytes().map(|b| b - b'0').collect();
  let mut e = exp;
  if c.is_empty() {
    return Some(("0".to_string(), 0));
  }
  if c.len() > 34 {
    let dropped = c.len() - 34;
    let rest: Vec<u8> = c.split_off(34);
    e += dropped as i64;
    let half = rest[0] > 5 || (rest[0] == 5 && rest[1..].iter().any(|d| *d != 0));
    let tie = rest[0] == 5 && rest[1..].iter().all(|d| *d == 0);
    if half || (tie && c[33] % 2 == 1) {
      let mut i = 34;
      loop {
        if i == 0 {
          c.insert(0, 1);
          c.pop();
          e += 1;
          break;
        }
        i -= 1;
        if c[i] == 9 {
          c[i] = 0;
        } else {
          c[i] += 1;
          break;
        }
      }
    }
  }
  while c.len() > 1 && *c.last().unwrap() == 0 {
    c.pop();
    e += 1;
  }
  let adjusted = e + c.len() as i64 - 1;
  if !(-6143..=6144).contains(&adjusted) || e < -6176 {
    return None;
  }
  Some((c.iter().map(|d| char::from(b'0' + d)).collect(), e))
}

/// What a plain text `-?digits(.digits)?` denotes, in the same normal form; `None` when the text has another shape.
fn plain_denotes(text: &str) -> Option<(bool, String, i64)> {
  let (neg, body) = match text.strip_prefix('-') {
    Some(r) => (true, r),
    None => (false, text),
  };
  let (ip, fp) = match body.find('.') {
    Some(i) => (&body[..i], &body[i + 1..]),
    None => (body, ""),
  };
  if ip.is_empty() || (body.contains('.') && fp.is_empty()) || !ip.bytes().all(|b| b.is_ascii_digit()) || !fp.bytes().all(|b| b.is_ascii_digit()) {
    return None;
  }
  let mut c = format!("{}{}", ip, fp).trim_start_matches('0').to_string();
  let mut e = -(fp.len() as i64);
  if c.is_empty() {
    return Some((neg, "0".to_string(), 0));
  }
  while c.len() > 1 && c.ends_with('0') {
    c.pop();
    e += 1;
  }
  Some((neg, c, e))
}

fn gen_lex(rng: &mut Rng) -> Lex {
  // the mantissa as written
  let wide = rng.chance(1, 8);
  let short = rng.chance(1, 2);
  let total = if wide { 35 + rng.below(8) as usize } else { 1 + rng.below(if short { 8 } else { 34 }) as usize };
  let mut sig = String::new();
  for i in 0..total {
    let d = if i == 0 {
      1 + rng.below(9)
    } else {
      match rng.below(8) {
        0 => 0,
        1 => 9,
        2 => 5,
        _ => rng.below(10),
      }
    };
    sig.push(char::from(b'0' + d as u8));
  }
  if rng.chance(1, 20) {
    sig = "0".to_string();
  }
  // ties and near-ties at the 34th digit for the long ones
  if sig.len() > 34 && rng.chance(1, 2) {
    let keep: String = sig[..34].to_string();
    let tail_len = sig.len() - 34;
    let tail = match rng.below(3) {
      0 => format!("5{}", "0".repeat(tail_len - 1)),
      1 => format!("4{}", "9".repeat(tail_len - 1)),
      _ => format!("5{}1", "0".repeat(tail_len.saturating_sub(2))),
    };
    sig = format!("{}{}", keep, &tail[..tail_len.min(tail.len())]);
  }
  let lead_zeros = if rng.chance(1, 3) { 1 + rng.below(4) as usize } else { 0 };
  let trail_zeros = if rng.chance(1, 3) { 1 + rng.below(4) as usize } else { 0 };
  let written = format!("{}{}{}", "0".repeat(lead_zeros), sig, "0".repeat(trail_zeros));
  // where the point goes: nowhere, after all digits, before all digits, inside
  let (int_len, point) = match rng.below(6) {
    0 | 1 => (written.len(), false),
    2 => (written.len(), true),
    3 => (0, true),
    _ => (rng.below(written.len() as u64 + 1) as usize, true),
  };
  let frac_len = written.len() - int_len;
  let sign = *rng.pick(&["", "", "-", "+"]);
  let mut k: i64 = 0;
  let mut exp_text = String::new();
  let exponent = rng.chance(1, 3);
  if exponent {
    k = match rng.below(5) {
      0 => 0,
      1 => rng.range(-6000, 6000),
      _ => rng.range(-40, 40),
    };
    // stay inside the normal range
    let adjusted = k + int_len as i64 + 8;
    if adjusted > 6100 || adjusted - 60 < -6100 {
      k = rng.range(-40, 40);
    }
    exp_text.push(*rng.pick(&['e', 'E']));
    if k < 0 {
      exp_text.push('-');
    } else if rng.chance(1, 2) {
      exp_text.push('+');
    }
    if rng.chance(1, 5) {
      exp_text.push_str(&"0".repeat(1 + rng.below(3) as usize));
    }
    exp_text.push_str(&k.abs().to_string());
  }
  let ws = [" ", "\t", "\n", "  ", "\r\n"];
  let lead_ws = rng.chance(1, 16);
  let trail_ws = rng.chance(1, 16);
  let mut text = String::new();
  if lead_ws {
    text.push_str(*rng.pick(&ws));
  }
  text.push_str(sign);
  text.push_str(&written[..int_len]);
  if point {
    text.push('.');
  }
  text.push_str(&written[int_len..]);
  text.push_str(&exp_text);
  if trail_ws {
    text.push_str(*rng.pick(&ws));
  }
  Lex { text, neg: sign == "-", digits: written, exp: k - frac_len as i64, sign, int_len, frac_len, point, exponent, lead_ws, trail_ws }
}

const LEX_SERVICE_BODY: &str = r##"
  <businessKnowledgeModel name="E" id="_e"><variable name="E"/>
    <encapsulatedLogic><formalParameter name="x"/><literalExpression><text>x</text></literalExpression></encapsulatedLogic>
  </businessKnowledgeModel>"##;

/// Judges one observation: `got` is `Ok(printed text)` or `Err(reason)` (rejected / null).
fn lex_judge(rep: &mut Report, site: &str, l: &Lex, must_accept: bool, shown_input: &str, got: Result<String, String>) {
  let want = normal_value(&l.digits, l.exp);
  rep.hit(&format!("lexical:{}:{}", site, if got.is_ok() { "number" } else { "rejected" }));
  match (got, want) {
    (Ok(text), Some((wc, we))) => match plain_denotes(&text) {
      Some((gneg, gc, ge)) => {
        let zero = wc == "0";
        if gc != wc || ge != we || (!zero && gneg != l.neg) {
          let exact = l.digits.trim_start_matches('0').trim_end_matches('0').len() <= 34;
          let sig = if exact {
            format!("{}: a number written in a non-canonical lexical form does not evaluate to the value it denotes", site)
          } else {
            format!("{}: a number written with more than 34 significant digits is not rounded half-even to 34 digits", site)
          };
          rep.disagree(Kind::ImplVsSpec, "lexical", &sig, shown_input, &text, &format!("{}{}E{}", if l.neg && !zero { "-" } else { "" }, wc, we));
        }
      }
      None => rep.disagree(Kind::ImplVsSpec, "lexical", &format!("{}: the number read from a text does not print as plain decimal text", site), shown_input, &text, "-?[0-9]+(\\.[0-9]+)?"),
    },
    (Ok(_), None) => {}
    (Err(why), Some(_)) => {
      if must_accept {
        rep.disagree(
          Kind::ImplVsSpec,
          "lexical",
          &format!("{}: a number written in a valid lexical form ({}{}) is rejected", site, if l.sign == "+" { "+" } else { "" }, l.core_shape()),
          shown_input,
          &why.chars().take(200).collect::<String>(),
          "the number the text denotes",
        );
      }
    }
    (Err(_), None) => {}
  }
}

fn lexical_family(rep: &mut Report, model: &mut Model, rng: &mut Rng, thorough: bool) {
  let n = if thorough { 60_000 } else { 4_000 };
  let mut cases: Vec<Lex> = vec![];
  // every shape once with small digits (the forms the notes of the property name)
  for (text, neg, digits, exp) in [
    (".5", false, "5", -1),
    ("-.25", true, "25", -2),
    ("5.", false, "5", 0),
    ("+5", false, "5", 0),
    ("+.5", false, "5", -1),
    ("007", false, "007", 0),
    ("-007.500", true, "007500", -3),
    ("1.50", false, "150", -2),
    (".5E1", false, "5", 0),
    ("5.E-1", false, "5", -1),
    ("1e3", false, "1", 3),
    ("1E+03", false, "1", 3),
    ("00.00", false, "0000", -2),
    ("-0", true, "0", 0),
    ("+0.0E+5", false, "00", 4),
  ] {
    let int_len = text.trim_start_matches(['+', '-']).split(['.', 'e', 'E']).next().unwrap().len();
    let point = text.contains('.');
    let exponent = text.contains(['e', 'E']);
    cases.push(Lex {
      text: text.to_string(),
      neg,
      digits: digits.to_string(),
      exp,
      sign: if text.starts_with('+') { "+" } else if text.starts_with('-') { "-" } else { "" },
      int_len,
      frac_len: digits.len() - int_len,
      point,
      exponent,
      lead_ws: false,
      trail_ws: false,
    });
  }
  for _ in 0..n {
    cases.push(gen_lex(rng));
  }
  // the specification's own reading of every text (Lean `lexValue`), against the value known from the way the text
  // was written: the two oracles must agree
  let reqs: Vec<String> = cases.iter().map(|l| format!("(c07 lex {})", Sexp::str(&l.text))).collect();
  let answers = model.ask_batch(&reqs);
  for (l, ans) in cases.iter().zip(answers.iter()) {
    let parsed = Sexp::parse(ans);
    let items = parsed.as_ref().and_then(|s| s.as_list()).map(|x| x.to_vec()).unwrap_or_default();
    if items.first().and_then(|x| x.as_atom()) != Some("lex") {
      // a driver without the request: the harness's own reading stands alone
      rep.hit("lexical:oracle:no lexValue in the driver");
      continue;
    }
    let spec_reads = if items.len() == 4 { Some((items[1].as_atom() == Some("true"), items[2].as_atom().unwrap_or("").to_string(), items[3].as_atom().and_then(|x| x.parse::<i64>().ok()).unwrap_or(0))) } else { None };
    let expected = if l.whitespace() { None } else { Some((l.neg, l.digits.trim_start_matches('0').to_string(), l.exp)) };
    let same = match (&spec_reads, &expected) {
      (Some((n1, c1, e1)), Some((n2, c2, e2))) => n1 == n2 && (c1 == c2 || (c1 == "0" && c2.is_empty())) && (e1 == e2 || c1 == "0"),
      (None, None) => true,
      _ => false,
    };
    rep.hit(if same { "lexical:oracle:agree" } else { "lexical:oracle:differ" });
    if !same {
      rep.disagree(Kind::ImplVsModel, "lexical", "the specification reader lexValue and the generator disagree about what a text denotes", &format!("{:?}", l.text), &format!("{:?}", spec_reads), &format!("{:?}", expected));
    }
  }

  // ---- in-process sites
  for l in &cases {
    let shown = format!("{:?}", l.text);
    rep.case(&format!("lexical {}", shown), l.shape() != "d" || l.digits.len() > 1);
    rep.hit(&format!("lexical:shape:{}", l.shape()));
    rep.hit(if l.digits.trim_start_matches('0').trim_end_matches('0').len() > 34 { "lexical:digits:>34" } else { "lexical:digits:<=34" });
    // FromStr
    match guarded(|| FeelNumber::from_str(&l.text).map(|n| n.to_string()).map_err(|e| e.to_string())) {
      Ok(r) => lex_judge(rep, "FeelNumber::from_str", l, !l.whitespace(), &shown, r),
      Err(p) => rep.disagree(Kind::ImplVsSpec, "lexical", "reading a number from text panics", &shown, &p, "Ok or Err"),
    }
    // typed input values
    for (kind, conv, inside) in [
      ("xsd:integer", Value::try_from_xsd_integer as fn(&str) -> dmntk_common::Result<Value>, l.in_xsd_integer()),
      ("xsd:decimal", Value::try_from_xsd_decimal, l.in_xsd_decimal()),
      ("xsd:double", Value::try_from_xsd_double, l.in_xsd_double()),
    ] {
      match guarded(|| match conv(&l.text) {
        Ok(Value::Number(n)) => Ok(n.to_string()),
        Ok(other) => Err(format!("not a number: {}", other)),
        Err(e) => Err(e.to_string()),
      }) {
        Ok(r) => lex_judge(rep, &format!("typed input {}", kind), l, inside, &format!("{} {}", kind, shown), r),
        Err(p) => rep.disagree(Kind::ImplVsSpec, "lexical", "reading a number from text panics", &format!("{} {}", kind, shown), &p, "Ok or Err"),
      }
    }
    // number(from, grouping separator, decimal separator)
    {
      let s = Value::String(l.text.clone());
      let r = guarded(|| feel_eval(&[("s", s)], "number(s, null, null)"));
      let got = match r {
        Ok(Ok(Value::Number(n))) => Ok(n.to_string()),
        Ok(Ok(other)) => Err(format!("{}", other)),
        Ok(Err(e)) => Err(format!("error: {}", e)),
        Err(p) => {
          rep.disagree(Kind::ImplVsSpec, "lexical", "number() panics", &shown, &p, "a number or null");
          Err("panic".into())
        }
      };
      lex_judge(rep, "number()", l, l.in_feel(), &format!("number({}, null, null)", shown), got);
    }
    // with separators: the integer digits grouped in threes, the decimal point written as the decimal separator
    if l.in_feel() && l.int_len > 0 && rng.chance(1, 2) {
      let (grp, dec) = *rng.pick(&[(",", "."), (" ", "."), (".", ","), (" ", ","), (",", ""), (" ", ""), ("", ","), ("", ".")]);
      let unsigned = l.text.trim_start_matches('-');
      let ip = &unsigned[..l.int_len];
      let fp = if l.point { &unsigned[l.int_len + 1..] } else { "" };
      let mut grouped = String::new();
      for (i, ch) in ip.chars().enumerate() {
        if i > 0 && (ip.len() - i) % 3 == 0 && !grp.is_empty() {
          grouped.push_str(grp);
        }
        grouped.push(ch);
      }
      // a decimal point stays a point when no decimal separator is named — unless the point is the grouping separator
      if !(l.point && dec.is_empty() && grp == ".") && !(l.point && dec.is_empty() && grp.is_empty()) {
        let dec_written = if dec.is_empty() { "." } else { dec };
        let text = format!("{}{}{}{}", if l.neg { "-" } else { "" }, grouped, if l.point { dec_written } else { "" }, fp);
        let garg = if grp.is_empty() { Value::Null(None) } else { Value::String(grp.to_string()) };
        let darg = if dec.is_empty() { Value::Null(None) } else { Value::String(dec.to_string()) };
        let r = guarded(|| feel_eval(&[("s", Value::String(text.clone())), ("g", garg), ("d", darg)], "number(s, g, d)"));
        let got = match r {
          Ok(Ok(Value::Number(n))) => Ok(n.to_string()),
          Ok(Ok(other)) => Err(format!("{}", other)),
          Ok(Err(e)) => Err(format!("error: {}", e)),
          Err(p) => Err(format!("panic: {}", p)),
        };
        lex_judge(rep, "number() with separators", l, true, &format!("number({:?}, {:?}, {:?})", text, grp, dec), got);
      }
    }
    // FEEL literal (the sign is the unary minus), alone and inside a list
    if l.in_feel() {
      let expr = if rng.chance(1, 3) { format!("[{}][1]", l.text) } else { l.text.clone() };
      let r = guarded(|| feel_eval(&[], &expr));
      let got = match r {
        Ok(Ok(Value::Number(n))) => Ok(n.to_string()),
        Ok(Ok(other)) => Err(format!("{}", other)),
        Ok(Err(e)) => Err(format!("error: {}", e)),
        Err(p) => Err(format!("panic: {}", p)),
      };
      lex_judge(rep, "FEEL literal", l, true, &expr, got);
    }
  }

  // ---- typed input through the service: POST /tck/evaluate with {"type": "xsd:…", "text": …}
  let mut server = match crate::c18::Server::start() {
    Ok(s) => s,
    Err(e) => {
      rep.notes.push(format!("lexical: the service did not start ({}): typed input through /tck/evaluate not exercised", e));
      return;
    }
  };
  let js = Some("application/json");
  let xml = crate::c17::model_xml("https://verif/c07", "lex", LEX_SERVICE_BODY);
  for (path, body) in [("/definitions/clear", String::new()), ("/definitions/add", json!({"content": base64::encode(xml)}).to_string()), ("/definitions/deploy", String::new())] {
    match crate::c18::http(server.port, "POST", path, js, body.as_bytes()) {
      Ok(a) if a.status == 200 && !String::from_utf8_lossy(&a.body).contains("\"errors\"") => {}
      Ok(a) => {
        rep.notes.push(format!("lexical: {} answered {} {}", path, a.status, String::from_utf8_lossy(&a.body)));
        return;
      }
      Err(e) => {
        rep.notes.push(format!("lexical: {} failed: {}", path, e));
        return;
      }
    }
  }
  let n_http = if thorough { 20_000 } else { 900 };
  let simple = |typ: &str, text: &str| json!({"simple": {"type": typ, "text": text, "isNil": false}, "components": null, "list": null});
  let mut sent = 0u64;
  // the first cases are the fixed shapes; then a sample of the generated ones
  let picks: Vec<usize> = (0..cases.len()).filter(|i| *i < 15 || rng.chance(n_http as u64, cases.len() as u64)).collect();
  for i in picks {
    let l = &cases[i];
    for (kind, inside) in [("xsd:integer", l.in_xsd_integer()), ("xsd:decimal", l.in_xsd_decimal()), ("xsd:double", l.in_xsd_double())] {
      // outside the type's lexical space the service may refuse: one type per text is enough there
      if !inside && kind != "xsd:double" {
        continue;
      }
      // alone, inside a list, inside a component
      let (value, unwrap): (serde_json::Value, u8) = match rng.below(4) {
        0 => (json!({"simple": null, "components": null, "list": {"items": [simple(kind, &l.text)], "isNil": false}}), 1),
        1 => (json!({"simple": null, "list": null, "components": [{"name": "a", "value": simple(kind, &l.text), "isNil": false}]}), 2),
        _ => (simple(kind, &l.text), 0),
      };
      let body = json!({"model": "lex", "invocable": "E", "input": [{"name": "x", "value": value}]}).to_string();
      let shown = format!("POST /tck/evaluate {}", body);
      let a = match crate::c18::http(server.port, "POST", "/tck/evaluate", js, body.as_bytes()) {
        Ok(a) => a,
        Err(e) => {
          rep.disagree(Kind::ImplVsSpec, "lexical", "the service stopped answering", &shown, &e, "an answer");
          return;
        }
      };
      sent += 1;
      let text = String::from_utf8_lossy(&a.body).to_string();
      let got: Result<String, String> = match serde_json::from_str::<serde_json::Value>(&text) {
        Ok(j) => {
          let v = j.get("data").and_then(|d| d.get("value"));
          let s = match (v, unwrap) {
            (Some(v), 0) => v.get("simple").cloned(),
            (Some(v), 1) => v.get("list").and_then(|x| x.get("items")).and_then(|x| x.get(0)).and_then(|x| x.get("simple")).cloned(),
            (Some(v), _) => v.get("components").and_then(|x| x.get(0)).and_then(|x| x.get("value")).and_then(|x| x.get("simple")).cloned(),
            (None, _) => None,
          };
          match s {
            Some(s) if s.get("type").and_then(|t| t.as_str()) == Some("xsd:decimal") => s.get("text").and_then(|t| t.as_str()).map(|t| t.to_string()).ok_or_else(|| text.clone()),
            _ => Err(text.clone()),
          }
        }
        Err(_) => Err(text.clone()),
      };
      lex_judge(rep, &format!("service typed input {}", kind), l, inside, &shown, got);
    }
  }
  if !server.alive() {
    rep.disagree(Kind::ImplVsSpec, "lexical", "the service process ended during the run", "(lexical family)", "process ended", "a running service");
  }
  rep.extra.insert("lexical_texts".into(), json!(cases.len()));
  rep.extra.insert("lexical_http_requests".into(), json!(sent));
}
