/-!
# The proleptic Gregorian calendar and the UTC line (specification for C14/C15)

Independent of the Rust code: plain integer arithmetic over `Int` years without bound.
`daysFromCivil`/`civilFromDays` are the era-based algorithms (days since 1970-01-01);
everything that the implementation model (`Dmn/Model/Temporal.lean`) is compared with lives
here.  Imports nothing (linked into the driver).
-/

namespace Dmn.Cal

/-- Gregorian leap-year rule. -/
def isLeap (y : Int) : Bool :=
  y % 4 == 0 && (y % 100 != 0 || y % 400 == 0)

/-- Length of month `m` of year `y`; `0` when `m` is not a month. -/
def daysInMonth (y m : Int) : Int :=
  if m = 1 ∨ m = 3 ∨ m = 5 ∨ m = 7 ∨ m = 8 ∨ m = 10 ∨ m = 12 then 31
  else if m = 4 ∨ m = 6 ∨ m = 9 ∨ m = 11 then 30
  else if m = 2 then (if isLeap y then 29 else 28)
  else 0

/-- `(y, m, d)` names a day of the proleptic Gregorian calendar. -/
def validDate (y m d : Int) : Bool :=
  decide (1 ≤ m) && decide (m ≤ 12) && decide (1 ≤ d) && decide (d ≤ daysInMonth y m)

/-- Number of days from 1970-01-01 to `(y, m, d)` (negative before). -/
def daysFromCivil (y m d : Int) : Int :=
  let y' := if m ≤ 2 then y - 1 else y
  let era := y' / 400
  let yoe := y' - era * 400
  let mp := if m > 2 then m - 3 else m + 9
  let doy := (153 * mp + 2) / 5 + d - 1
  let doe := yoe * 365 + yoe / 4 - yoe / 100 + doy
  era * 146097 + doe - 719468

/-- Year of the 400-year era and day of that (March-based) year for day-of-era `doe`
(`0 ≤ doe ≤ 146096`): centuries of 36524 days (the fourth one day longer), four-year groups
of 1461 days, years of 365 days (the fourth one day longer). -/
def yoeOf (doe : Int) : Int × Int :=
  let n100 := if doe / 36524 ≥ 4 then 3 else doe / 36524
  let r1 := doe - n100 * 36524
  let n4 := r1 / 1461
  let r2 := r1 - n4 * 1461
  let n1 := if r2 / 365 ≥ 4 then 3 else r2 / 365
  (n100 * 100 + n4 * 4 + n1, r2 - n1 * 365)

/-- The calendar date `z` days after 1970-01-01. -/
def civilFromDays (z : Int) : Int × Int × Int :=
  let z' := z + 719468
  let era := z' / 146097
  let doe := z' - era * 146097
  let yoe := (yoeOf doe).1
  let doy := (yoeOf doe).2
  let mp := (5 * doy + 2) / 153
  let d := doy - (153 * mp + 2) / 5 + 1
  let m := if mp < 10 then mp + 3 else mp - 9
  let y := yoe + era * 400
  (if m ≤ 2 then y + 1 else y, m, d)

/-- ISO weekday (Monday = 1 … Sunday = 7) of day number `z`; 1970-01-01 was a Thursday. -/
def weekday (z : Int) : Int := (z + 3) % 7 + 1

/-- Calendar (lexicographic) order on `(y, m, d)`. -/
def dateLt (y1 m1 d1 y2 m2 d2 : Int) : Bool :=
  decide (y1 < y2) || (decide (y1 = y2) && (decide (m1 < m2) || (decide (m1 = m2) && decide (d1 < d2))))

def nsPerSecond : Int := 1000000000
def nsPerMinute : Int := 60 * nsPerSecond
def nsPerHour : Int := 60 * nsPerMinute
def nsPerDay : Int := 24 * nsPerHour

/-- Nanoseconds since 1970-01-01T00:00:00Z of the local date-time `y-m-d h:mi:s.ns` read at
`offset` seconds east of UTC: the instant on the UTC line. -/
def instant (y m d h mi s ns offset : Int) : Int :=
  daysFromCivil y m d * nsPerDay + h * nsPerHour + mi * nsPerMinute + (s - offset) * nsPerSecond + ns

/-- Whole months from `(y1, m1, d1)` to `(y2, m2, d2)` when the first is not later: the largest
`n` such that "`n` months after the first" is not after the second (see `Props/C15`,
`wholeMonths_spec`). -/
def wholeMonthsFwd (y1 m1 d1 y2 m2 d2 : Int) : Int :=
  12 * (y2 - y1) + (m2 - m1) - (if d2 < d1 then 1 else 0)

/-- Signed whole months between two dates (`years and months duration(from, to)`):
antisymmetric by definition. -/
def wholeMonths (y1 m1 d1 y2 m2 d2 : Int) : Int :=
  if dateLt y2 m2 d2 y1 m1 d1 then - wholeMonthsFwd y2 m2 d2 y1 m1 d1
  else wholeMonthsFwd y1 m1 d1 y2 m2 d2

/-- The month `n` months after (before, for negative `n`) the month `m` of year `y`. -/
def monthShift (y m n : Int) : Int × Int :=
  let k := 12 * y + (m - 1) + n
  (k / 12, k % 12 + 1)

/-- A date plus `n` months (XSD `dateTime + yearMonthDuration`, FEEL `date + years and months duration`): the
month is shifted, the day of the month is kept — clamped to the last day of the target month. -/
def addMonths (y m d n : Int) : Int × Int × Int :=
  let t := monthShift y m n
  (t.1, t.2, min d (daysInMonth t.1 t.2))

/-- The day of the month does not fit the month `n` months away (the addition clamps). -/
def addMonthsClamps (y m d n : Int) : Bool :=
  decide (daysInMonth (monthShift y m n).1 (monthShift y m n).2 < d)

/-- Components of a days-and-time duration of `|n|` nanoseconds. -/
def durDays (n : Int) : Int := n.natAbs / nsPerDay
def durHours (n : Int) : Int := (n.natAbs % nsPerDay) / nsPerHour
def durMinutes (n : Int) : Int := (n.natAbs % nsPerHour) / nsPerMinute
def durSeconds (n : Int) : Int := (n.natAbs % nsPerMinute) / nsPerSecond
def durNanos (n : Int) : Int := n.natAbs % nsPerSecond

/-! ## Calendar built-ins (`day of year`, `week of year`) and Zeller's congruence -/

/-- Ordinal day of the year, 1 … 366 (FEEL `day of year`). -/
def dayOfYear (y m d : Int) : Int := daysFromCivil y m d - daysFromCivil y 1 1 + 1

/-- Day number of the Thursday of the ISO week (Monday … Sunday) that contains day `z`. -/
def isoThursday (z : Int) : Int := z - (weekday z - 1) + 3

/-- ISO-8601 week-numbering year and week of day number `z`: weeks run Monday … Sunday and belong
to the calendar year that holds their Thursday; the week number is the ordinal of that Thursday
among the Thursdays of its year. -/
def isoWeekOfDay (z : Int) : Int × Int :=
  let th := isoThursday z
  let ty := (civilFromDays th).1
  (ty, (th - daysFromCivil ty 1 1) / 7 + 1)

/-- FEEL `week of year`. -/
def isoWeek (y m d : Int) : Int := (isoWeekOfDay (daysFromCivil y m d)).2

/-- Zeller's congruence for the Gregorian calendar (0 = Saturday, 1 = Sunday, 2 = Monday, …):
January and February count as months 13 and 14 of the year before. -/
def zeller (y m d : Int) : Int :=
  let m' := if m < 3 then m + 12 else m
  let y' := if m < 3 then y - 1 else y
  let k := y' % 100
  let j := y' / 100
  (d + (13 * (m' + 1)) / 5 + k + k / 4 + j / 4 + 5 * j) % 7

end Dmn.Cal
