import Dmn.Model.Value

/-!
# The pure operators of the evaluator (`feel-evaluator/src/builders.rs`)

Each function is the part of a `build_*` closure that runs after the operands have been
evaluated.  `none` from the `…?` helpers is the code's "cannot be compared" (`None`).
-/

namespace Dmn
namespace Value

/-! ## three-valued logic (`build_and`, `build_or`) -/

def and3 (l r : Value) : Value :=
  match l with
  | .bool lh =>
    match r with
    | .bool rh => .bool (lh && rh)
    | _ => if lh then .null else .bool false
  | _ =>
    match r with
    | .bool rh => if rh then .null else .bool false
    | _ => .null

def or3 (l r : Value) : Value :=
  match l with
  | .bool lh =>
    match r with
    | .bool rh => .bool (lh || rh)
    | _ => if lh then .bool true else .null
  | _ =>
    match r with
    | .bool rh => if rh then .bool true else .null
    | _ => .null

/-- `core::not` (`bifs/core.rs:726`): the negation of a boolean, null for every other value
(a list of one boolean included: no implicit conversion takes place). -/
def not3 (v : Value) : Value :=
  match v with
  | .bool b => .bool (!b)
  | _ => .null

/-- `build_if` (`builders.rs:979`): `true` selects the first branch, `false` and `null` the second;
any other condition gives null. -/
def if3 (c t e : Value) : Value :=
  match c with
  | .bool true => t
  | .bool false => e
  | .null => e
  | _ => .null

/-! ## dates and instants -/

def dateTupleCmp (y1 : Int) (m1 d1 : Nat) (y2 : Int) (m2 d2 : Nat) : Ordering :=
  if y1 < y2 then .lt else if y1 > y2 then .gt
  else if m1 < m2 then .lt else if m1 > m2 then .gt
  else if d1 < d2 then .lt else if d1 > d2 then .gt else .eq

/-- `FeelDate::compare` (`date.rs`): year, month, day lexicographically, for every year. -/
def dateCompare? (y1 : Int) (m1 d1 : Nat) (y2 : Int) (m2 d2 : Nat) : Option Ordering :=
  some (dateTupleCmp y1 m1 d1 y2 m2 d2)

/-- `PartialOrd for FeelDate` (`date.rs:110`): equal tuples first, then `before` / `after`. -/
def datePartialCmp (y1 : Int) (m1 d1 : Nat) (y2 : Int) (m2 d2 : Nat) : Option Ordering :=
  if y1 = y2 ∧ m1 = m2 ∧ d1 = d2 then some .eq
  else
    match dateCompare? y1 m1 d1 y2 m2 d2 with
    | some .lt => some .lt
    | some .gt => some .gt
    | _ => none

def instantCompare? (a b : Instant) : Option Ordering :=
  match a.key, b.key with
  | some x, some y => some (compare x y)
  | _, _ => none

/-- `between(value, left, right, left_closed, right_closed)` of `temporal/mod.rs:487`. -/
def betweenOrd? (cl cr : Option Ordering) (lc rc : Bool) : Option Bool :=
  -- cl = compare value left, cr = compare value right
  match cl, cr with
  | some ol, some or' =>
    let leftOk := if lc then (ol == .gt || ol == .eq) else ol == .gt
    let rightOk := if rc then (or' == .lt || or' == .eq) else or' == .lt
    some (leftOk && rightOk)
  | _, _ => none

/-! ## equality (`eval_ternary_equality`) -/

mutual
def eqT (l r : Value) : Option Bool :=
  match l with
  | .bool ls =>
    match r with
    | .bool rs => some (ls == rs)
    | .null => some false
    | _ => none
  | .num ls =>
    match r with
    | .num rs => some (Dec.beq ls rs)
    | .null => some false
    | _ => none
  | .str ls =>
    match r with
    | .str rs => some (ls == rs)
    | .null => some false
    | _ => none
  | .ctx ls =>
    match r with
    | .ctx rs =>
      if ls.length == rs.length then
        if ls.any (fun e => (Ctx.get rs e.1).isNone) then some false
        else eqEntries ls rs
      else some false
    | .null => some false
    | _ => none
  | .date y1 m1 d1 =>
    match r with
    | .date y2 m2 d2 => some (y1 == y2 && m1 == m2 && d1 == d2)
    | .null => some false
    | _ => none
  | .time ls =>
    match r with
    | .time rs => (instantCompare? ls rs).map (· == .eq)
    | .null => some false
    | _ => none
  | .dateTime ls =>
    match r with
    | .dateTime rs => (instantCompare? ls rs).map (· == .eq)
    | .null => some false
    | _ => none
  | .dtDur ls =>
    match r with
    | .dtDur rs => some (ls == rs)
    | .null => some false
    | _ => none
  | .ymDur ls =>
    match r with
    | .ymDur rs => some (ls == rs)
    | .null => some false
    | _ => none
  | .null =>
    match r with
    | .null => some true
    | .bool _ | .num _ | .str _ | .ctx _ | .date .. | .time _ | .dateTime _ | .dtDur _ | .ymDur _
    | .list _ => some false
    | _ => none
  | .list ls =>
    match r with
    | .list rs => if ls.length == rs.length then some (eqList ls rs) else some false
    | .null => some false
    | _ => none
  | _ => none
termination_by structural l
/-- the loop over the entries of the left context -/
def eqEntries (ls : List (String × Value)) (rs : Ctx) : Option Bool :=
  match ls with
  | [] => some true
  | (k, v1) :: ls =>
    match Ctx.get rs k with
    | some v2 =>
      match eqT v1 v2 with
      | some true => eqEntries ls rs
      | some false => some false
      | none => none
    | none => some false
termination_by structural ls
/-- the `zip` loop over two lists of equal length -/
def eqList (ls rs : List Value) : Bool :=
  match ls, rs with
  | l :: ls, r :: rs =>
    match eqT l r with
    | some true => eqList ls rs
    | _ => false
  | _, _ => true
termination_by structural ls
end

def eqV (l r : Value) : Value :=
  match eqT l r with
  | some b => .bool b
  | none => .null

def nqV (l r : Value) : Value :=
  match eqT l r with
  | some b => .bool (!b)
  | none => .null

/-! ## ordering (`build_lt`, `build_le`, `build_gt`, `build_ge`) -/

def optBool (o : Option Bool) : Value :=
  match o with
  | some b => .bool b
  | none => .null

def ltV (l r : Value) : Value :=
  match l, r with
  | .num a, .num b => .bool (Dec.cmp a b == .lt)
  | .str a, .str b => .bool (compare a b == .lt)
  | .date y1 m1 d1, .date y2 m2 d2 => .bool (datePartialCmp y1 m1 d1 y2 m2 d2 == some .lt)
  | .time a, .time b => optBool ((instantCompare? a b).map (fun o => o == .lt))
  | .dateTime a, .dateTime b => optBool ((instantCompare? a b).map (fun o => o == .lt))
  | .dtDur a, .dtDur b => .bool (decide (a < b))
  | .ymDur a, .ymDur b => .bool (decide (a < b))
  | _, _ => .null

def leV (l r : Value) : Value :=
  match l, r with
  | .num a, .num b => .bool (Dec.cmp a b != .gt)
  | .str a, .str b => .bool (compare a b != .gt)
  | .date y1 m1 d1, .date y2 m2 d2 =>
    .bool (datePartialCmp y1 m1 d1 y2 m2 d2 == some .lt || datePartialCmp y1 m1 d1 y2 m2 d2 == some .eq)
  | .time a, .time b => optBool ((instantCompare? a b).map (fun o => o != .gt))
  | .dateTime a, .dateTime b => optBool ((instantCompare? a b).map (fun o => o != .gt))
  | .dtDur a, .dtDur b => .bool (decide (a ≤ b))
  | .ymDur a, .ymDur b => .bool (decide (a ≤ b))
  | _, _ => .null

def gtV (l r : Value) : Value :=
  match l, r with
  | .num a, .num b => .bool (Dec.cmp a b == .gt)
  | .str a, .str b => .bool (compare a b == .gt)
  | .date y1 m1 d1, .date y2 m2 d2 => .bool (datePartialCmp y1 m1 d1 y2 m2 d2 == some .gt)
  | .time a, .time b => optBool ((instantCompare? a b).map (fun o => o == .gt))
  | .dateTime a, .dateTime b => optBool ((instantCompare? a b).map (fun o => o == .gt))
  | .dtDur a, .dtDur b => .bool (decide (a > b))
  | .ymDur a, .ymDur b => .bool (decide (a > b))
  | _, _ => .null

def geV (l r : Value) : Value :=
  match l, r with
  | .num a, .num b => .bool (Dec.cmp a b != .lt)
  | .str a, .str b => .bool (compare a b != .lt)
  | .date y1 m1 d1, .date y2 m2 d2 =>
    .bool (datePartialCmp y1 m1 d1 y2 m2 d2 == some .gt || datePartialCmp y1 m1 d1 y2 m2 d2 == some .eq)
  | .time a, .time b => optBool ((instantCompare? a b).map (fun o => o != .lt))
  | .dateTime a, .dateTime b => optBool ((instantCompare? a b).map (fun o => o != .lt))
  | .dtDur a, .dtDur b => .bool (decide (a ≥ b))
  | .ymDur a, .ymDur b => .bool (decide (a ≥ b))
  | _, _ => .null

/-! ## `between` (`build_between`) and `in` a range (`eval_in_range`) -/

/-- `x between a and b`: `l` is x, `m` is a, `r` is b. -/
def betweenV (l m r : Value) : Value :=
  match l, m, r with
  | .num x, .num a, .num b => .bool (Dec.cmp a x != .gt && Dec.cmp x b != .gt)
  | .str x, .str a, .str b => .bool (compare a x != .gt && compare x b != .gt)
  | .date y m' d, .date y1 m1 d1, .date y2 m2 d2 =>
    optBool (betweenOrd? (dateCompare? y m' d y1 m1 d1) (dateCompare? y m' d y2 m2 d2) true true)
  | .time x, .time a, .time b =>
    optBool (betweenOrd? (instantCompare? x a) (instantCompare? x b) true true)
  | .dateTime x, .dateTime a, .dateTime b =>
    optBool (betweenOrd? (instantCompare? x a) (instantCompare? x b) true true)
  | .ymDur x, .ymDur a, .ymDur b => .bool (a ≤ x && x ≤ b)
  | .dtDur x, .dtDur a, .dtDur b => .bool (a ≤ x && x ≤ b)
  | _, _, _ => .null

def inRangeV (x : Value) (range : Value) : Value :=
  match range with
  | .range lo lc hi rc =>
    match x, lo, hi with
    | .num v, .num a, .num b =>
      let lOk := if lc then Dec.cmp v a != .lt else Dec.cmp v a == .gt
      let rOk := if rc then Dec.cmp v b != .gt else Dec.cmp v b == .lt
      .bool (lOk && rOk)
    | .str v, .str a, .str b =>
      let lOk := if lc then compare v a != .lt else compare v a == .gt
      let rOk := if rc then compare v b != .gt else compare v b == .lt
      .bool (lOk && rOk)
    | .date y m d, .date y1 m1 d1, .date y2 m2 d2 =>
      optBool (betweenOrd? (dateCompare? y m d y1 m1 d1) (dateCompare? y m d y2 m2 d2) lc rc)
    | .time v, .time a, .time b =>
      optBool (betweenOrd? (instantCompare? v a) (instantCompare? v b) lc rc)
    | .dateTime v, .dateTime a, .dateTime b =>
      optBool (betweenOrd? (instantCompare? v a) (instantCompare? v b) lc rc)
    | .ymDur v, .ymDur a, .ymDur b =>
      let lOk := if lc then decide (v ≥ a) else decide (v > a)
      let rOk := if rc then decide (v ≤ b) else decide (v < b)
      .bool (lOk && rOk)
    | .dtDur v, .dtDur a, .dtDur b =>
      let lOk := if lc then decide (v ≥ a) else decide (v > a)
      let rOk := if rc then decide (v ≤ b) else decide (v < b)
      .bool (lOk && rOk)
    | _, _, _ => .null
  | _ => .null

/-! ## unary comparisons used by `in` (`eval_in_unary_*`) -/

/-- `cmpOk o` tells which orderings satisfy the operator. -/
def unaryCmp (ok : Ordering → Bool) (left right : Value) : Value :=
  match right, left with
  | .num r, .num l => .bool (ok (Dec.cmp l r))
  | .str r, .str l => .bool (ok (compare l r))
  | .date y2 m2 d2, .date y1 m1 d1 =>
    match dateCompare? y1 m1 d1 y2 m2 d2 with
    | some o => .bool (ok o)
    | none => .null
  | .time r, .time l =>
    match instantCompare? l r with
    | some o => .bool (ok o)
    | none => .null
  | .dateTime r, .dateTime l =>
    match instantCompare? l r with
    | some o => .bool (ok o)
    | none => .null
  | .ymDur r, .ymDur l => .bool (ok (compare l r))
  | .dtDur r, .dtDur l => .bool (ok (compare l r))
  | _, _ => .null

def inUnaryLt := unaryCmp (· == .lt)
def inUnaryLe := unaryCmp (· != .gt)
def inUnaryGt := unaryCmp (· == .gt)
def inUnaryGe := unaryCmp (· != .lt)

/-- `eval_in_equal` -/
def inEqual (l r : Value) : Value :=
  match eqT l r with
  | some true => .bool true
  | _ => .bool false

def isTrue (v : Value) : Bool :=
  match v with
  | .bool true => true
  | _ => false

mutual
/-- `eval_in_list` -/
def inList (left : Value) (items : List Value) : Value :=
  match items with
  | [] => .bool false
  | item :: rest =>
    match inItem left item with
    | some true => .bool true
    | some false => inList left rest
    | none => .null
termination_by structural items
/-- One arm of the `match item` in `eval_in_list`: `some true` = return true,
`some false` = go on with the next item, `none` = return null. -/
def inItem (left : Value) (item : Value) : Option Bool :=
  match item with
  | .str _ | .num _ | .bool _ | .date .. | .time _ | .dateTime _ | .ymDur _ | .dtDur _ | .ctx _ | .null =>
    some (isTrue (inEqual left item))
  | .unaryLt inner => some (isTrue (inUnaryLt left inner))
  | .unaryLe inner => some (isTrue (inUnaryLe left inner))
  | .unaryGt inner => some (isTrue (inUnaryGt left inner))
  | .unaryGe inner => some (isTrue (inUnaryGe left inner))
  | .list inner => some (isTrue (inList left inner))
  | .range .. => some (isTrue (inRangeV left item))
  | _ => none
termination_by structural item
end

/-- The `match item` of `eval_in_negated_list`: a comparison or an interval answers with the value of the
test itself (null when it cannot be decided for `left`), any other item with `eval_in_list` of that item alone. -/
def negItem (left item : Value) : Value :=
  match item with
  | .unaryLt inner => inUnaryLt left inner
  | .unaryLe inner => inUnaryLe left inner
  | .unaryGt inner => inUnaryGt left inner
  | .unaryGe inner => inUnaryGe left inner
  | .range .. => inRangeV left item
  | other => inList left [other]

/-- The loop of `eval_in_negated_list`: `return false` at the first satisfied item, `undecided = true` for an
item whose test is no boolean; after the loop null when some item was undecided, `true` otherwise. -/
def negLoop (left : Value) : List Value → Bool → Value
  | [], undecided => if undecided then .null else .bool true
  | item :: rest, undecided =>
    match negItem left item with
    | .bool true => .bool false
    | .bool false => negLoop left rest undecided
    | _ => negLoop left rest true

/-- `eval_in_negated_list`: `false` when one of the items is satisfied, `true` when every item is decided and
none is satisfied, null when none is satisfied and one cannot be decided (`not(< 5)` of a string or of null). -/
def inNegatedList (left : Value) (items : List Value) : Value :=
  negLoop left items false

/-- `eval_in_list_in_list`: the list is equal to one of the items. -/
def inListInList (lhs : List Value) (items : List Value) : Value :=
  .bool (items.any (fun item => isTrue (inEqual (.list lhs) item)))

/-- `build_in` after both operands are evaluated. -/
def inV (l r : Value) : Value :=
  match r with
  | .num _ | .str _ | .bool _ | .date .. | .time _ | .dateTime _ | .ymDur _ | .dtDur _ | .ctx _ => inEqual l r
  | .range .. => inRangeV l r
  | .list inner =>
    match l with
    | .list lhs => inListInList lhs inner
    | _ => inList l inner
  | .exprList inner => inList l inner
  | .negList inner => inNegatedList l inner
  | .unaryLt inner => inUnaryLt l inner
  | .unaryLe inner => inUnaryLe l inner
  | .unaryGt inner => inUnaryGt l inner
  | .unaryGe inner => inUnaryGe l inner
  | .irrelevant => .bool true
  | _ => .null

/-- `build_out`: `inv` is the value of `In(lhs, rhs)`, `lhv` the value of `lhs`. -/
def outV (inv lhv : Value) : Value :=
  match inv with
  | .bool true => lhv
  | _ => .null

end Value
end Dmn
