import Dmn.Model.Dec

/-!
# Enclosures of `ln` and `exp` for judging results

`exp`, `log` and inexact powers are computed by decNumber's own algorithms, which the model does
not contain; the property grants them two units in the last place.  To judge an answer of the
implementation the driver needs the true value, closely enough: this file computes
enclosures `[lo, hi]` of `ln x` and `exp x` in fixed point with `P` decimal places, every
operation rounded outwards (floors for lower bounds, ceilings for upper bounds), the tails of
the series bounded explicitly.  The width of an enclosure is a few hundred units of `10^-P`.

All loops are structural recursions on a step count, so that `Dmn/Lemmas/Transcend.lean` can
reason about them: the interval operations round outwards (`encl_add`, `encl_mul`,
`encl_divNat`, `encl_ofFrac`, `encl_sub`), the loops enclose the rational partial sums of the two
series (`atanhLoop_sound`, `expLoop_sound`), `twoAtanh` / `expSmall` enclose the whole interval
[partial sum, partial sum + the tail bound written in the code], the argument reductions are
exact (`lnReduce_exact`, `halve_exact`).  The one assumption left is analytic: that the true value
lies between the partial sum and the partial sum plus that tail bound (DESIGN §6).

This file imports only `Dmn/Model/Dec.lean` (for `ndigits`); it is linked into the driver.
-/

namespace Dmn.Transcend

/-- fixed-point scale: 10^P -/
def P : Nat := 130
def S : Nat := 10 ^ P

/-- division rounded up -/
def cdiv (a b : Nat) : Nat := (a + b - 1) / b

/-- the loop of `twoAtanh`: `steps` further terms from index `n` on.  State: enclosure `[tlo, thi]`
of `z^(2n+1)`, enclosure `[slo, shi]` of the sum of the terms before `n`; `[z2lo, z2hi]` encloses `z²`. -/
def atanhLoop : Nat → Nat → Nat → Nat → Nat → Nat → Nat → Nat → Nat × Nat × Nat × Nat
  | 0, _, _, _, tlo, thi, slo, shi => (tlo, thi, slo, shi)
  | steps + 1, n, z2lo, z2hi, tlo, thi, slo, shi =>
    atanhLoop steps (n + 1) z2lo z2hi (tlo * z2lo / S) (cdiv (thi * z2hi) S)
      (slo + tlo / (2 * n + 1)) (shi + cdiv thi (2 * n + 1))

/-- number of terms of the `atanh` series -/
def atanhTerms : Nat := 140

/-- `2·atanh(z)` for `z = zn/zd ∈ [0, 1/3]`, as an enclosure scaled by `S` (non-negative). -/
def twoAtanh (zn zd : Nat) : Nat × Nat :=
  -- z scaled
  let zlo := zn * S / zd
  let zhi := cdiv (zn * S) zd
  -- z² scaled
  let z2lo := zlo * zlo / S
  let z2hi := cdiv (zhi * zhi) S
  let (_, thi, slo, shi) := atanhLoop atanhTerms 0 z2lo z2hi zlo zhi 0 0
  -- tail: Σ_{n≥140} z^(2n+1)/(2n+1) ≤ t·(1/(1-z²)) ≤ t·9/8 with z ≤ 1/3
  (2 * slo, 2 * (shi + cdiv (thi * 9) 8 + 1))

/-- enclosure of `ln 2` -/
def ln2 : Nat × Nat := twoAtanh 1 3

/-- doubles the denominator while `n ≥ 2·d`, at most `steps` times: `(d·2^j, j)` -/
def halve : Nat → Nat → Nat → Nat → Nat × Nat
  | 0, _, d, j => (d, j)
  | steps + 1, n, d, j => if n ≥ 2 * d then halve steps n (2 * d) (j + 1) else halve steps n d j

/-- enclosure of `ln (num/den)` for `1 ≤ num/den`, `num/den < 2^40`: halve until below 2 -/
def lnGe1 (num den : Nat) : Nat × Nat :=
  let (d, j) := halve 40 num den 0
  -- m = n/d ∈ [1, 2): z = (m-1)/(m+1) = (n-d)/(n+d) ∈ [0, 1/3)
  let (a, b) := twoAtanh (num - d) (num + d)
  (a + j * ln2.1, b + j * ln2.2)

/-- enclosure of `ln 10` -/
def ln10 : Nat × Nat := lnGe1 10 1

/-- number of decimal digits of a natural (0 for 0) -/
def digits (n : Nat) : Nat := D128.ndigits n

/-- enclosure (scaled by `S`, as integers) of `ln (c · 10^e)` for `c > 0` -/
def lnEnclosure (c : Nat) (e : Int) : Int × Int :=
  let d := digits c
  -- c·10^e = m · 10^k with m = c / 10^(d-1) ∈ [1, 10), k = e + d - 1
  let k : Int := e + d - 1
  let (a, b) := lnGe1 c (10 ^ (d - 1))
  if k ≥ 0 then ((a : Int) + k * (ln10.1 : Int), (b : Int) + k * (ln10.2 : Int))
  else ((a : Int) + k * (ln10.2 : Int), (b : Int) + k * (ln10.1 : Int))

/-- the loop of `expSmall`: `steps` further terms from index `n` on.  State: enclosure `[tlo, thi]`
of `r^n / n!`, enclosure `[slo, shi]` of the sum of the terms before `n`; `[rlo, rhi]` encloses `r`. -/
def expLoop : Nat → Nat → Nat → Nat → Nat → Nat → Nat → Nat → Nat × Nat × Nat × Nat
  | 0, _, _, _, tlo, thi, slo, shi => (tlo, thi, slo, shi)
  | steps + 1, n, rlo, rhi, tlo, thi, slo, shi =>
    expLoop steps (n + 1) rlo rhi (tlo * rlo / S / (n + 1)) (cdiv (cdiv (thi * rhi) S) (n + 1))
      (slo + tlo) (shi + thi)

/-- number of terms of the `exp` series -/
def expTerms : Nat := 160

/-- `exp r` for `r ∈ [0, 3)` given as an enclosure scaled by `S`; result scaled by `S` -/
def expSmall (rlo rhi : Nat) : Nat × Nat :=
  let (_, thi, slo, shi) := expLoop expTerms 0 rlo rhi S S 0 0
  -- tail: terms decrease by a factor ≤ 3/160 from here on: Σ ≤ 2·t
  (slo, shi + 2 * thi + 1)

/-- enclosure of `exp (±c · 10^e)` as `(lo, hi, k)`: the value lies in `[lo, hi] · 10^k / S`;
`none` outside `|x| ≤ 15000` -/
def expEnclosure (neg : Bool) (c : Nat) (e : Int) : Option (Nat × Nat × Int) :=
  -- |x| scaled by S (exactly when e ≥ -P, else floor/ceil)
  let (xlo, xhi) : Nat × Nat :=
    if e ≥ 0 then (c * 10 ^ e.toNat * S, c * 10 ^ e.toNat * S)
    else if (-e).toNat ≤ P then (c * 10 ^ (P - (-e).toNat), c * 10 ^ (P - (-e).toNat))
    else (c / 10 ^ ((-e).toNat - P), cdiv c (10 ^ ((-e).toNat - P)))
  if xhi > 15000 * S then none
  else
    if !neg then
      -- x ≥ 0: k = floor(x / ln10) (with the upper bound of ln 10, so that r ≥ 0), r = x - k·ln10
      let k := xlo / ln10.2
      let rlo := xlo - k * ln10.2
      let rhi := xhi - k * ln10.1
      let (a, b) := expSmall rlo rhi
      some (a, b, (k : Int))
    else
      -- x = -y, y ≥ 0: exp(-y) = 10^-(k+1) · exp((k+1)·ln10 - y), r ∈ (0, ln10]
      let k := xhi / ln10.1 + 1
      let rlo := k * ln10.1 - xhi
      let rhi := k * ln10.2 - xlo
      let (a, b) := expSmall rlo rhi
      some (a, b, -(k : Int))

/-- Is the decimal `±rc · 10^re` within `2.001` units in the 34th significant digit of a value
enclosed in `[lo, hi] · 10^k / S` (`lo > 0`)?  `sign`: the sign the value has. -/
def within2ulp (sign : Bool) (lo hi : Nat) (k : Int) (rneg : Bool) (rc : Nat) (re : Int) : Bool :=
  if rc == 0 then false
  else if rneg != sign then false
  else
    -- exponent of the leading digit of the value: lo/S·10^k ∈ [10^(m-1), 10^m)
    let m : Int := (digits lo : Int) - (P : Int) + k
    let ulp : Int := m - 34
    -- common exponent for all quantities
    let base : Int := min (min re ulp) (k - (P : Int))
    let r : Nat := rc * 10 ^ (re - base).toNat
    let l : Nat := lo * 10 ^ (k - (P : Int) - base).toNat
    let h : Nat := hi * 10 ^ (k - (P : Int) - base).toNat
    let tol : Nat := 2 * 10 ^ (ulp - base).toNat + 10 ^ (ulp - base).toNat / 1000
    decide (l ≤ r + tol) && decide (r ≤ h + tol)

/-- verdict on `r = ln (c·10^e)`, `c > 0`; `none` when the result is (close to) zero in a way
this judge does not cover -/
def judgeLn (c : Nat) (e : Int) (rneg : Bool) (rc : Nat) (re : Int) : Option Bool :=
  if c == 0 then none
  else
    let (lo, hi) := lnEnclosure c e
    if lo ≤ 0 ∧ 0 ≤ hi then
      -- ln 1 = 0 exactly (the enclosure straddles zero only for x = 1)
      some (rc == 0)
    else if lo > 0 then some (within2ulp false lo.toNat hi.toNat 0 rneg rc re)
    else some (within2ulp true (-hi).toNat (-lo).toNat 0 rneg rc re)

/-- verdict on `r = exp (±c·10^e)`; `none` outside the judged range -/
def judgeExp (neg : Bool) (c : Nat) (e : Int) (rneg : Bool) (rc : Nat) (re : Int) : Option Bool :=
  match expEnclosure neg c e with
  | none => none
  | some (lo, hi, k) =>
    -- results near the ends of the decimal128 range have fewer digits: not judged
    let m : Int := (digits lo : Int) - (P : Int) + k
    if m < -6100 ∨ m > 6100 then none
    else some (within2ulp false lo hi k rneg rc re)

end Dmn.Transcend
