import Dmn.Model.Plane

/-!
# Canvas: model of the scanner half of the decision table recogniser

Mirrors `/repo/recognizer/src/canvas.rs` (and what it uses of `point.rs`, `rect.rs` and of the
plane *construction* methods of `plane.rs`: `Default`, `add_row`, `add_cell`, `row_len`,
`finalize`): text → layered canvas (`scan`) → regions → plane of cells (`Canvas::plane`).

* The canvas content is `Array (Array Px)` (`Vec<Vec<[char; 4]>>`); `Px` holds the four layers
  `TEXT`, `THIN`, `BODY`, `GRID` of one position.
* Every index access `self.content[y][x]`, every slice `[a..b]`, every `len() - 1` /
  `r.bottom - 1` of the Rust code is explicit: it yields `ok`, or `panic` with the site
  (`ScanSite`).  `Err(..)` results of the Rust code are `error` (`ScanErr`, with payload).
  `canvas_no_panic` (Props/C19.lean) shows that no panic site is reachable, for any text.
* Loops are structural recursions on a fuel equal to the number of remaining iterations of the
  Rust loop (`for i in a..b`: `b - a`; `while x < len - 1`: `len - 1 - x`).
* The cursor (`Canvas::cursor`) is threaded explicitly: every search returns the point it
  moved the cursor to.  Every top-level method of the Rust code starts with `move_to`, so the
  cursor carries no information between them and is not part of the model's `Canvas`.

Texts are `List Char` (`Text` of Model/Plane.lean).
-/

namespace Dmn.Recog

/-! ## Outcomes of the scanner -/

/-- `point::Point` (point.rs:44). -/
structure Point where
  x : Nat
  y : Nat
  deriving DecidableEq, Repr, Inhabited

/-- `POINT_ZERO` (point.rs:36). -/
def Point.zero : Point := ⟨0, 0⟩

/-- The `Err(..)` results of canvas.rs (errors.rs:138-152), with their payloads. -/
inductive ScanErr where
  /-- `canvas_expected_characters_not_found(searched)` -/
  | notFound (searched : List Char)
  /-- `canvas_character_is_not_allowed(ch, allowed)` -/
  | notAllowed (ch : Char) (allowed : List Char)
  /-- `canvas_rectangle_not_closed(closing, top_left)` -/
  | notClosed (closing topLeft : Point)
  /-- `canvas_region_not_found(rect)` -/
  | regionNotFound (r : Rect)
  deriving DecidableEq, Repr, Inhabited

/-- The places where canvas.rs (and the plane construction it drives) would panic. -/
inductive ScanSite where
  /-- `self.content[y]` with `y` out of range -/
  | contentRow
  /-- `self.content[y][x]` with `x` out of range -/
  | contentCol
  /-- `self.content[y].len() - 1` / `self.content.len() - 1` on an empty vector
  (canvas.rs:519, 535; subtraction overflow) -/
  | lenMinusOne
  /-- `r.bottom - 1` / `r.right - 1` with a zero coordinate (canvas.rs:553-554) -/
  | rectMinusOne
  /-- slice `[a..b]` with `a > b` or `b > len` (canvas.rs:553-554) -/
  | sliceRange
  /-- `content[height - 1]` in `scan` (canvas.rs:641) -/
  | lineIndex
  /-- `plane.content[row]` in `add_cell` / `row_len` (plane.rs:205, 241) -/
  | planeRow
  /-- `self.content.remove(self.content.len() - 1)` on an empty plane (plane.rs:361) -/
  | planeFinalize
  deriving DecidableEq, Repr, Inhabited

inductive Scan (α : Type) where
  | ok (a : α)
  | error (e : ScanErr)
  | panic (s : ScanSite)
  deriving DecidableEq, Repr, Inhabited

namespace Scan

def bind (x : Scan α) (f : α → Scan β) : Scan β :=
  match x with
  | ok a => f a
  | error e => error e
  | .panic s => .panic s

instance : Monad Scan where
  pure := ok
  bind := bind

@[simp] theorem ok_bind (a : α) (f : α → Scan β) : (ok a >>= f) = f a := rfl
@[simp] theorem error_bind (e : ScanErr) (f : α → Scan β) : (error e >>= f) = error e := rfl
@[simp] theorem panic_bind (s : ScanSite) (f : α → Scan β) : (.panic s >>= f) = .panic s := rfl
@[simp] theorem pure_eq (a : α) : (pure a : Scan α) = ok a := rfl

def isPanic : Scan α → Bool
  | panic _ => true
  | _ => false

/-- A Rust `for` loop with `?`: sequential map with early exit. -/
def mapM (f : α → Scan β) : List α → Scan (List β)
  | [] => ok []
  | a :: as =>
    match f a with
    | ok b =>
      match mapM f as with
      | ok bs => ok (b :: bs)
      | error e => error e
      | .panic s => .panic s
    | error e => error e
    | .panic s => .panic s

/-- `for i in lo..lo+n { s = f(i, s)? }`. -/
def forRange (f : Nat → σ → Scan σ) : (n : Nat) → (lo : Nat) → σ → Scan σ
  | 0, _, s => ok s
  | n + 1, i, s =>
    match f i s with
    | ok s' => forRange f n (i + 1) s'
    | error e => error e
    | .panic p => .panic p

/-- `for i in lo..lo+n { if p(i) { found = true; break } }`. -/
def anyRange (p : Nat → Scan Bool) : (n : Nat) → (lo : Nat) → Scan Bool
  | 0, _ => ok false
  | n + 1, i =>
    match p i with
    | ok true => ok true
    | ok false => anyRange p n (i + 1)
    | error e => error e
    | .panic s => .panic s

end Scan

open Scan (ok error)

/-! ## Layers and canvas content (canvas.rs:41-83) -/

/-- `LAYER_TEXT`, `LAYER_THIN`, `LAYER_BODY`, `LAYER_GRID` (canvas.rs:45-52). -/
inductive Layer where
  | text | thin | body | grid
  deriving DecidableEq, Repr, Inhabited

/-- `Layers = [char; LAYER_COUNT]`: the four layers of one position. -/
structure Px where
  text : Char
  thin : Char
  body : Char
  grid : Char
  deriving DecidableEq, Repr, Inhabited

namespace Px

def get (p : Px) : Layer → Char
  | .text => p.text | .thin => p.thin | .body => p.body | .grid => p.grid

def set (p : Px) (l : Layer) (ch : Char) : Px :=
  match l with
  | .text => { p with text := ch } | .thin => { p with thin := ch }
  | .body => { p with body := ch } | .grid => { p with grid := ch }

def fill (ch : Char) : Px := ⟨ch, ch, ch, ch⟩

end Px

/-- `CHAR_WHITE` -/
def charWhite : Char := ' '
/-- `CHAR_OUTER` -/
def charOuter : Char := '░'

def cornersTopLeft : List Char := ['┌', '├', '┬', '┼']
def cornersTopRight : List Char := ['┐', '┤', '┬', '┼']
def cornersBottomRight : List Char := ['┘', '┤', '┴', '┼']
def cornersBottomLeft : List Char := ['└', '├', '┴', '┼']

/-- `Canvas::content` -/
abbrev Content := Array (Array Px)

/-- `self.content[y][x]` -/
def pxAt (c : Content) (y x : Nat) : Scan Px :=
  match c[y]? with
  | none => .panic .contentRow
  | some row =>
    match row[x]? with
    | none => .panic .contentCol
    | some p => ok p

/-- `self.content[y][x][layer]` -/
def chAt (c : Content) (y x : Nat) (l : Layer) : Scan Char :=
  match pxAt c y x with
  | ok p => ok (p.get l)
  | error e => error e
  | .panic s => .panic s

/-- `self.content[y][x][layer] = ch` -/
def setAt (c : Content) (y x : Nat) (l : Layer) (ch : Char) : Scan Content :=
  match c[y]? with
  | none => .panic .contentRow
  | some row =>
    if x < row.size then ok (c.modify y (fun r => r.modify x (fun p => p.set l ch)))
    else .panic .contentCol

/-! ## Cursor moves and searches (canvas.rs:437-547) -/

/-- canvas.rs:438 `move_to`: the clamped position. -/
def moveTo (c : Content) (p : Point) : Scan Point :=
  let rowCount := c.size
  let y := if p.y < rowCount then p.y else if rowCount > 0 then rowCount - 1 else 0
  match c[y]? with
  | none => .panic .contentRow
  | some row =>
    let colCount := row.size
    let x := if p.x < colCount then p.x else if colCount > 0 then colCount - 1 else 0
    ok ⟨x, y⟩

/-- `for c in x..row.len()` of `search` (canvas.rs:466, 474); fuel = `len - x`. -/
def searchInRow (row : Array Px) (layer : Layer) (searched : List Char) :
    Nat → Nat → Scan (Option (Char × Nat))
  | 0, _ => ok none
  | n + 1, x =>
    match row[x]? with
    | none => .panic .contentCol
    | some p =>
      if searched.contains (p.get layer) then ok (some (p.get layer, x))
      else searchInRow row layer searched n (x + 1)

/-- `for r in y + 1..self.content.len()` of `search` (canvas.rs:473); fuel = `len - r`. -/
def searchRows (c : Content) (layer : Layer) (searched : List Char) :
    Nat → Nat → Scan (Option (Char × Point))
  | 0, _ => ok none
  | n + 1, r =>
    match c[r]? with
    | none => .panic .contentRow
    | some row =>
      match searchInRow row layer searched row.size 0 with
      | ok (some (ch, x)) => ok (some (ch, ⟨x, r⟩))
      | ok none => searchRows c layer searched n (r + 1)
      | error e => error e
      | .panic s => .panic s

/-- canvas.rs:464 `search`: from the cursor to the right, then row by row. -/
def search (c : Content) (cur : Point) (layer : Layer) (searched : List Char) : Scan (Char × Point) :=
  match c[cur.y]? with
  | none => .panic .contentRow
  | some row =>
    match searchInRow row layer searched (row.size - cur.x) cur.x with
    | ok (some (ch, x)) => ok (ch, ⟨x, cur.y⟩)
    | ok none =>
      match searchRows c layer searched (c.size - (cur.y + 1)) (cur.y + 1) with
      | ok (some r) => ok r
      | ok none => error (.notFound searched)
      | error e => error e
      | .panic s => .panic s
    | error e => error e
    | .panic s => .panic s

/-- One step of the `search_*` loops: the character read at the new position. -/
inductive Step where
  | found | stop | go

def stepOf (searched allowed : List Char) (ch : Char) : Step :=
  if searched.contains ch then .found else if !allowed.contains ch then .stop else .go

/-- the loop of canvas.rs:485 `search_up`: `while y > 0 { y -= 1; … }` -/
def searchUpLoop (c : Content) (x : Nat) (layer : Layer) (searched allowed : List Char) :
    Nat → Scan (Char × Point)
  | 0 => error (.notFound searched)
  | y + 1 =>
    match chAt c y x layer with
    | ok ch =>
      match stepOf searched allowed ch with
      | .found => ok (ch, ⟨x, y⟩)
      | .stop => error (.notAllowed ch allowed)
      | .go => searchUpLoop c x layer searched allowed y
    | error e => error e
    | .panic s => .panic s

def searchUp (c : Content) (cur : Point) (layer : Layer) (searched allowed : List Char) :
    Scan (Char × Point) :=
  searchUpLoop c cur.x layer searched allowed cur.y

/-- the loop of canvas.rs:501 `search_left`: `while x > 0 { x -= 1; … }` -/
def searchLeftLoop (c : Content) (y : Nat) (layer : Layer) (searched allowed : List Char) :
    Nat → Scan (Char × Point)
  | 0 => error (.notFound searched)
  | x + 1 =>
    match chAt c y x layer with
    | ok ch =>
      match stepOf searched allowed ch with
      | .found => ok (ch, ⟨x, y⟩)
      | .stop => error (.notAllowed ch allowed)
      | .go => searchLeftLoop c y layer searched allowed x
    | error e => error e
    | .panic s => .panic s

def searchLeft (c : Content) (cur : Point) (layer : Layer) (searched allowed : List Char) :
    Scan (Char × Point) :=
  searchLeftLoop c cur.y layer searched allowed cur.x

/-- the loop of canvas.rs:517 `search_right`: `while x < len - 1 { x += 1; … }`;
fuel = `len - 1 - x`. -/
def searchRightLoop (c : Content) (y : Nat) (layer : Layer) (searched allowed : List Char) :
    Nat → Nat → Scan (Char × Point)
  | 0, _ => error (.notFound searched)
  | n + 1, x =>
    match chAt c y (x + 1) layer with
    | ok ch =>
      match stepOf searched allowed ch with
      | .found => ok (ch, ⟨x + 1, y⟩)
      | .stop => error (.notAllowed ch allowed)
      | .go => searchRightLoop c y layer searched allowed n (x + 1)
    | error e => error e
    | .panic s => .panic s

def searchRight (c : Content) (cur : Point) (layer : Layer) (searched allowed : List Char) :
    Scan (Char × Point) :=
  match c[cur.y]? with
  | none => .panic .contentRow
  | some row =>
    if row.size = 0 then .panic .lenMinusOne
    else searchRightLoop c cur.y layer searched allowed (row.size - 1 - cur.x) cur.x

/-- the loop of canvas.rs:533 `search_down`: `while y < len - 1 { y += 1; … }`;
fuel = `len - 1 - y`. -/
def searchDownLoop (c : Content) (x : Nat) (layer : Layer) (searched allowed : List Char) :
    Nat → Nat → Scan (Char × Point)
  | 0, _ => error (.notFound searched)
  | n + 1, y =>
    match chAt c (y + 1) x layer with
    | ok ch =>
      match stepOf searched allowed ch with
      | .found => ok (ch, ⟨x, y + 1⟩)
      | .stop => error (.notAllowed ch allowed)
      | .go => searchDownLoop c x layer searched allowed n (y + 1)
    | error e => error e
    | .panic s => .panic s

def searchDown (c : Content) (cur : Point) (layer : Layer) (searched allowed : List Char) :
    Scan (Char × Point) :=
  if c.size = 0 then .panic .lenMinusOne
  else searchDownLoop c cur.x layer searched allowed (c.size - 1 - cur.y) cur.y

/-! ## Rectangles and texts (canvas.rs:376-420, 549-564; rect.rs) -/

/-- rect.rs:81 `contains`. -/
def Rect.contains (self r : Rect) : Bool :=
  decide (r.left ≥ self.left) && decide (r.top ≥ self.top) &&
    decide (r.right ≤ self.right) && decide (r.bottom ≤ self.bottom)

/-- canvas.rs:414 `close_rectangle` (`Point::overlays` = equality of both coordinates). -/
def closeRectangle (closing topLeft bottomRight : Point) : Scan Rect :=
  if closing.x = topLeft.x ∧ closing.y = topLeft.y then
    ok ⟨topLeft.x, topLeft.y, bottomRight.x + 1, bottomRight.y + 1⟩
  else error (.notClosed closing topLeft)

/-- `v[lo..hi]`: panics when `lo > hi` or `hi > len`. -/
def sliceOf (v : Array α) (lo hi : Nat) : Scan (List α) :=
  if lo ≤ hi ∧ hi ≤ v.size then ok ((v.extract lo hi).toList) else .panic .sliceRange

/-- The body of the two loops of `text_from_rect` on the sliced rows: a pending `'\n'` is
written before the next character (so a row with an empty slice leaves no empty line). -/
def textRows : List (List Char) → Bool → Text
  | [], _ => []
  | [] :: rest, _ => textRows rest true
  | (ch :: chs) :: rest, nl => (if nl then ['\n'] else []) ++ ch :: chs ++ textRows rest true

/-- canvas.rs:550 `text_from_rect`.  (The row slices are all taken first; in the Rust code the
slice of a row is taken when the loop reaches it — a panic is a panic either way.) -/
def textFromRect (c : Content) (layer : Layer) (r : Rect) : Scan Text :=
  if r.bottom = 0 then .panic .rectMinusOne
  else
    match sliceOf c (r.top + 1) (r.bottom - 1) with
    | ok rows =>
      match Scan.mapM (fun (row : Array Px) =>
          if r.right = 0 then .panic .rectMinusOne
          else
            match sliceOf row (r.left + 1) (r.right - 1) with
            | ok pxs => ok (pxs.map (fun p => p.get layer))
            | error e => error e
            | .panic s => .panic s) rows with
      | ok lines => ok (textRows lines false)
      | error e => error e
      | .panic s => .panic s
    | error e => error e
    | .panic s => .panic s

/-- The walk around a rectangle that `recognize_region` (canvas.rs:378),
`recognize_rectangle` (canvas.rs:396) and `recognize_information_item_name` (canvas.rs:100-110)
share: `move_to(top_left)`, `search_right`, `search_down`, `search_left`, `search_up`,
`close_rectangle`; `sr`/`ar` … `su`/`au` are the searched / allowed characters of the four
searches. -/
def walkRectangle (c : Content) (layer : Layer) (topLeft : Point)
    (sr ar sd ad sl al su au : List Char) : Scan Rect := do
  let cur ← moveTo c topLeft
  let (_, cur) ← searchRight c cur layer sr ar
  let (_, bottomRight) ← searchDown c cur layer sd ad
  let (_, cur) ← searchLeft c bottomRight layer sl al
  let (_, closing) ← searchUp c cur layer su au
  closeRectangle closing topLeft bottomRight

/-- canvas.rs:378 `recognize_region`. -/
def recognizeRegion (c : Content) (layer : Layer) (topLeft : Point) : Scan Rect :=
  walkRectangle c layer topLeft cornersTopRight ['─', '┴'] cornersBottomRight ['│', '├']
    cornersBottomLeft ['─', '┬'] cornersTopLeft ['│', '┤']

/-- canvas.rs:396 `recognize_rectangle`. -/
def recognizeRectangle (c : Content) (layer : Layer) (topLeft : Point) : Scan Rect :=
  walkRectangle c layer topLeft ['┼', '┬', '┤', '┐'] ['─'] ['┼', '┴', '┤', '┘'] ['│']
    ['┼', '└', '├', '┴'] ['─'] ['┼', '┬', '├', '┌'] ['│']

/-- canvas.rs:425 `find_top_left_corners` (both loops run over the actual lengths). -/
def findTopLeftCorners (c : Content) (layer : Layer) : List Point :=
  c.toList.zipIdx.flatMap fun (row, y) =>
    row.toList.zipIdx.filterMap fun (p, x) =>
      if cornersTopLeft.contains (p.get layer) then some ⟨x, y⟩ else none

/-- canvas.rs:365 `recognize_regions`. -/
def recognizeRegions (c : Content) : Scan (List Rect) :=
  Scan.mapM (recognizeRegion c .thin) (findTopLeftCorners c .thin)

/-! ## The steps of `scan` (canvas.rs:87-268) -/

/-- canvas.rs:87 `recognize_information_item_name`: the recognised name, if any. -/
def recognizeInformationItemName (c : Content) : Scan (Option Text) := do
  let layer := Layer.text
  let cur ← moveTo c Point.zero
  let (_, topLeft) ← search c cur layer ['┌']
  let (_, topEdge) ← search c topLeft layer ['╥']
  if topLeft.y < topEdge.y then do
    let rect ← walkRectangle c layer topLeft ['┐'] ['─'] ['┴', '┤', '┼'] ['│']
      ['├'] ['─', '┬', '╥'] ['┌'] ['│']
    let text ← textFromRect c layer rect
    ok (some text)
  else ok none

/-- the swallowed `if let Ok((_, p)) = …` of `recognize_crossings`: an `Err` is no crossing, a
panic is a panic -/
def okPoint (r : Scan (Char × Point)) : Scan (Option Point) :=
  match r with
  | ok (_, p) => ok (some p)
  | error _ => ok none
  | .panic s => .panic s

/-- canvas.rs:127 `recognize_crossings`: `(cross, cross_horz, cross_vert)`. -/
def recognizeCrossings (c : Content) : Scan (Point × Option Point × Option Point) := do
  let cur ← moveTo c Point.zero
  let (_, point) ← search c cur .text ['╬']
  let cur ← moveTo c point
  let crossHorz ← okPoint (searchRight c cur .text ['╬'] ['═', '╪'])
  let cur ← moveTo c point
  let crossVert ← okPoint (searchDown c cur .text ['╬'] ['║', '╫'])
  ok (point, crossHorz, crossVert)

/-- canvas.rs:144 `recognize_body_rect`. -/
def recognizeBodyRect (c : Content) : Scan Rect := do
  let layer := Layer.text
  let cur ← moveTo c Point.zero
  let (_, crossPoint) ← search c cur layer ['╬']
  let (_, topPoint) ← searchUp c crossPoint layer ['╥'] ['║', '╫', '╟', '╢']
  let (_, bottomPoint) ← searchDown c topPoint layer ['╨'] ['║', '╫', '╟', '╢', '╬']
  let cur ← moveTo c crossPoint
  let (_, leftPoint) ← searchLeft c cur layer ['╞'] ['═', '╪', '╧', '╤']
  let (_, rightPoint) ← searchRight c leftPoint layer ['╡'] ['═', '╪', '╧', '╤', '╬']
  ok ⟨leftPoint.x, topPoint.y, rightPoint.x + 1, bottomPoint.y + 1⟩

/-- the `match col[src]` of `prepare_regions` (canvas.rs:173-183); note the literal `col[1]`
of the crossing arm. -/
def preparePx (src dst : Layer) (p : Px) : Px :=
  let ch := p.get src
  if ['┌', '┐', '└', '┘', '┬', '┴', '─', '│', '├', '┼', '┤', ' ', charOuter].contains ch then p.set dst ch
  else if ch = '╥' ∨ ch = '╤' then p.set dst '┬'
  else if ch = '║' then p.set dst '│'
  else if ch = '╨' ∨ ch = '╧' then p.set dst '┴'
  else if ch = '═' then p.set dst '─'
  else if ch = '╞' ∨ ch = '╟' then p.set dst '├'
  else if ch = '╡' ∨ ch = '╢' then p.set dst '┤'
  else if ch = '╫' ∨ ch = '╪' ∨ ch = '╬' then p.set .thin '┼'
  else p.set dst charWhite

/-- canvas.rs:170 `prepare_regions` (`iter_mut` over all rows and columns). -/
def prepareRegions (c : Content) (src dst : Layer) : Content :=
  c.map (fun row => row.map (preparePx src dst))

/-- `for layer in dst..LAYER_COUNT` -/
def layersFrom : Layer → List Layer
  | .text => [.text, .thin, .body, .grid]
  | .thin => [.thin, .body, .grid]
  | .body => [.body, .grid]
  | .grid => [.grid]

/-- canvas.rs:192-200: everything above the row over the body becomes `CHAR_OUTER` in the
layers from `dst` on. -/
def clearAbove (c : Content) (left top right : Nat) (dst : Layer) : Scan Content :=
  if top > 0 then
    Scan.forRange (fun y c =>
      Scan.forRange (fun x c =>
        (layersFrom dst).foldlM (fun c layer => setAt c y x layer charOuter) c) (right - left) left c)
      (top - 1) 0 c
  else ok c

/-- canvas.rs:189 `remove_information_item_region` (`body_rect` is `Some`). -/
def removeInformationItemRegion (c : Content) (bodyRect : Rect) (src dst : Layer) : Scan Content := do
  let left := bodyRect.left
  let top := bodyRect.top
  let right := bodyRect.right
  let bottom := bodyRect.bottom
  let c ← clearAbove c left top right dst
  -- canvas.rs:201-209
  let c ← Scan.forRange (fun x c => do
      let ch ← chAt c top x src
      let ch' := if ch = '├' then '┌' else if ch = '┴' then '─' else if ch = '┤' then '┐'
        else if ch = '┼' then '┬' else ch
      setAt c top x dst ch') (right - left) left c
  -- canvas.rs:210-214
  Scan.forRange (fun y c =>
    Scan.forRange (fun x c => do
      let ch ← chAt c y x src
      setAt c y x dst ch) (right - left) left c) (bottom - (top + 1)) (top + 1) c

/-- canvas.rs:567 `copy_layer` (loops over the actual lengths). -/
def copyLayer (c : Content) (src dst : Layer) : Content :=
  c.map (fun row => row.map (fun p => p.set dst (p.get src)))

/-- the `match` of the horizontal pass of `make_grid` (canvas.rs:233-241): the new character,
if the position is rewritten.  `right - 1` is evaluated with `x < right` only. -/
def gridHorz (ch : Char) (x left right : Nat) : Option Char :=
  if ch = '│' then
    (if x = left then some '├' else if x = right - 1 then some '┤' else some '┼')
  else if ch = '┤' then (if x < right - 1 then some '┼' else none)
  else if ch = '├' then (if x > 0 then some '┼' else none)
  else if ch = charWhite then some '─'
  else none

/-- the `match` of the vertical pass of `make_grid` (canvas.rs:255-263). -/
def gridVert (ch : Char) (y top bottom : Nat) : Option Char :=
  if ch = '─' then
    (if y = top then some '┬' else if y = bottom - 1 then some '┴' else some '┼')
  else if ch = '┴' then (if y < bottom - 1 then some '┼' else none)
  else if ch = '┬' then (if y > top then some '┼' else none)
  else if ch = charWhite then some '│'
  else none

/-- canvas.rs:219 `make_grid` (`body_rect` is `Some`). -/
def makeGrid (c : Content) (bodyRect : Rect) (src dst : Layer) : Scan Content := do
  let c := copyLayer c src dst
  let left := bodyRect.left
  let top := bodyRect.top
  let right := bodyRect.right
  let bottom := bodyRect.bottom
  -- canvas.rs:223-244
  let c ← Scan.forRange (fun y c => do
      let hasHorzLine ← Scan.anyRange (fun x => do
        let ch ← chAt c y x dst
        ok (ch == '─')) (right - left) left
      if hasHorzLine then
        Scan.forRange (fun x c => do
          let ch ← chAt c y x dst
          match gridHorz ch x left right with
          | some ch' => setAt c y x dst ch'
          | none => ok c) (right - left) left c
      else ok c) (bottom - top) top c
  -- canvas.rs:245-266
  Scan.forRange (fun x c => do
      let hasVertLine ← Scan.anyRange (fun y => do
        let ch ← chAt c y x dst
        ok (ch == '│')) (bottom - top) top
      if hasVertLine then
        Scan.forRange (fun y c => do
          let ch ← chAt c y x dst
          match gridVert ch y top bottom with
          | some ch' => setAt c y x dst ch'
          | none => ok c) (bottom - top) top c
      else ok c) (right - left) left c

/-! ## `scan` (canvas.rs:619) -/

/-- `for chr in line.chars() { layers[0] = chr; content[height - 1].push(layers); }` -/
def pushLine (content : Content) (height : Nat) : List Char → Scan Content
  | [] => ok content
  | ch :: rest =>
    if height - 1 < content.size then
      pushLine (content.modify (height - 1) (fun r => r.push ⟨ch, charWhite, charWhite, charWhite⟩)) height rest
    else .panic .lineIndex

structure ScanState where
  width : Nat
  height : Nat
  content : Content
  startAdding : Bool
  endAdding : Bool

/-- the body of `for line in text.lines()` (canvas.rs:626-652); `line` is not yet trimmed -/
def scanLine (st : ScanState) (rawLine : Text) : Scan ScanState :=
  let line := trim rawLine
  if line.isEmpty then ok st
  else
    let startAdding := st.startAdding || (line.head? == some '┌' && !st.startAdding && !st.endAdding)
    let added : Scan ScanState :=
      if startAdding && !st.endAdding then
        let content := st.content.push #[]
        let height := st.height + 1
        match pushLine content height line with
        | ok content =>
          let count := line.length
          ok { st with content := content, height := height,
                       width := if count > st.width then count else st.width }
        | error e => error e
        | .panic s => .panic s
      else ok st
    match added with
    | ok st' =>
      let endAdding := st.endAdding || (line.getLast? == some '┘' && startAdding && !st.endAdding)
      ok { st' with startAdding := startAdding, endAdding := endAdding }
    | error e => error e
    | .panic s => .panic s

def scanLines : ScanState → List Text → Scan ScanState
  | st, [] => ok st
  | st, l :: ls =>
    match scanLine st l with
    | ok st' => scanLines st' ls
    | error e => error e
    | .panic s => .panic s

/-- canvas.rs:620-660: the content of the canvas (text layer filled in, shorter lines completed
with `CHAR_OUTER` in all layers).  `str::lines` = split at `'\n'` (a trailing `'\r'` and a
last empty line do not matter: lines are trimmed and empty lines skipped). -/
def buildContent (text : Text) : Scan Content :=
  match scanLines ⟨0, 0, #[#[]], false, false⟩ (splitLines text) with
  | ok st =>
    if st.height > 0 && st.width > 0 then
      ok (st.content.map fun row => row ++ Array.replicate (st.width - row.size) (Px.fill charOuter))
    else ok st.content
  | error e => error e
  | .panic s => .panic s

/-- `Canvas` without the cursor. -/
structure Canvas where
  content : Content
  cross : Option Point
  crossHorz : Option Point
  crossVert : Option Point
  informationItemName : Option Text
  bodyRect : Option Rect

/-- canvas.rs:619 `scan`. -/
def scan (text : Text) : Scan Canvas := do
  let content ← buildContent text
  let name ← recognizeInformationItemName content
  let (cross, crossHorz, crossVert) ← recognizeCrossings content
  let bodyRect ← recognizeBodyRect content
  let content := prepareRegions content .text .thin
  let content ← removeInformationItemRegion content bodyRect .thin .body
  let content ← makeGrid content bodyRect .body .grid
  ok ⟨content, some cross, crossHorz, crossVert, name, some bodyRect⟩

/-! ## `Canvas::plane` (canvas.rs:274) -/

/-- `plane::Cell` with the `Rect` of a region (Model/Plane.lean drops it). -/
inductive SCell where
  | region (n : Nat) (rect : Rect) (text : Text)
  | mark (c : Cell)
  deriving DecidableEq, Repr, Inhabited

def SCell.toCell : SCell → Cell
  | .region n _ t => .region n t
  | .mark c => c

/-- plane.rs:204 `add_cell`. -/
def addCell (rows : Array (Array SCell)) (row : Nat) (cell : SCell) : Scan (Array (Array SCell)) :=
  if row < rows.size then ok (rows.modify row (fun r => r.push cell)) else .panic .planeRow

/-- plane.rs:240 `row_len`. -/
def rowLen (rows : Array (Array SCell)) (row : Nat) : Scan Nat :=
  match rows[row]? with
  | some r => ok r.size
  | none => .panic .planeRow

structure PlaneState where
  /-- `plane.content` -/
  rows : Array (Array SCell)
  row : Nat
  width : Nat
  crossCol : Option Nat
  crossHorzCol : Option Nat

/-- canvas.rs:285-301: the row of the main double line. -/
def crossRow (st : PlaneState) : Scan PlaneState := do
  let rows ← Scan.forRange (fun i rows =>
    if st.crossCol = some i then addCell rows st.row (.mark .mainX)
    else if st.crossHorzCol = some i then addCell rows st.row (.mark .horzX)
    else addCell rows st.row (.mark .hOut)) st.width 0 st.rows
  ok { st with rows := rows.push #[], row := st.row + 1 }

/-- canvas.rs:306-316: the row of the annotation double line of a rules-as-columns table. -/
def crossVertRow (st : PlaneState) : Scan PlaneState := do
  let rows ← Scan.forRange (fun i rows =>
    if st.crossCol = some i then addCell rows st.row (.mark .vertX)
    else addCell rows st.row (.mark .hAnn)) st.width 0 st.rows
  ok { st with rows := rows.push #[], row := st.row + 1 }

/-- `for (i, region) in regions.iter().enumerate() { if region.contains(&rect) {…; break } }` -/
def findRegion (rect : Rect) : List Rect → Nat → Option (Nat × Rect)
  | [], _ => none
  | r :: rs, i => if r.contains rect then some (i, r) else findRegion rect rs (i + 1)

structure RowState where
  rows : Array (Array SCell)
  col : Nat
  matched : Bool
  crossCol : Option Nat
  crossHorzCol : Option Nat

/-- canvas.rs:324-337: `if let Some(point) = … { if x == point.x { cross…col = Some(col);
plane.add_cell(row, cell); col += 1; } }`; `setCol` records the column. -/
def markCol (o : Option Point) (x row : Nat) (cell : Cell) (setCol : RowState → RowState)
    (st : RowState) : Scan RowState :=
  match o with
  | some point =>
    if x = point.x then
      match addCell st.rows row (.mark cell) with
      | ok rows => ok { setCol st with rows := rows, col := st.col + 1 }
      | error e => error e
      | .panic s => .panic s
    else ok st
  | none => ok st

/-- canvas.rs:339-351: the region the rectangle lies in becomes the next cell. -/
def placeRegion (c : Content) (regions : List Rect) (row : Nat) (rect : Rect) (st : RowState) :
    Scan RowState :=
  match findRegion rect regions 0 with
  | some (i, region) => do
    let text ← textFromRect c .text region
    let rows ← addCell st.rows row (.region i region text)
    ok { st with rows := rows, col := st.col + 1 }
  | none => error (.regionNotFound rect)

/-- canvas.rs:322-352: the body of `for x in 0..self.content[y].len()`. -/
def planeCol (cv : Canvas) (regions : List Rect) (row y x : Nat) (st : RowState) : Scan RowState := do
  let ch ← chAt cv.content y x .grid
  if cornersTopLeft.contains ch then do
    let st := { st with matched := true }
    let st ← markCol cv.cross x row .vOut (fun s => { s with crossCol := some s.col }) st
    let st ← markCol cv.crossHorz x row .vAnn (fun s => { s with crossHorzCol := some s.col }) st
    let rect ← recognizeRectangle cv.content .grid ⟨x, y⟩
    placeRegion cv.content regions row rect st
  else ok st

/-- `if let Some(p) = … { if y == p.y { … } }` (canvas.rs:283-284, 304-305) -/
def whenAtRow (o : Option Point) (y : Nat) (f : PlaneState → Scan PlaneState) (st : PlaneState) :
    Scan PlaneState :=
  match o with
  | some p => if y = p.y then f st else ok st
  | none => ok st

/-- canvas.rs:319-358: the cells of the text row `y`. -/
def planeCells (cv : Canvas) (regions : List Rect) (y : Nat) (st : PlaneState) : Scan PlaneState :=
  match cv.content[y]? with
  | none => .panic .contentRow
  | some crow => do
    let rs ← Scan.forRange (planeCol cv regions st.row y) crow.size 0
      ⟨st.rows, 0, false, st.crossCol, st.crossHorzCol⟩
    if rs.matched then do
      let width ← rowLen rs.rows st.row
      ok ⟨rs.rows.push #[], st.row + 1, width, rs.crossCol, rs.crossHorzCol⟩
    else ok { st with rows := rs.rows, crossCol := rs.crossCol, crossHorzCol := rs.crossHorzCol }

/-- canvas.rs:282-359: the body of `for y in 0..self.content.len()`. -/
def planeRow (cv : Canvas) (regions : List Rect) (y : Nat) (st : PlaneState) : Scan PlaneState := do
  let st ← whenAtRow cv.cross y crossRow st
  let st ← whenAtRow cv.crossVert y crossVertRow st
  planeCells cv regions y st

/-- plane.rs:360 `finalize`. -/
def finalizePlane (rows : Array (Array SCell)) : Scan (Array (Array SCell)) :=
  if rows.size = 0 then .panic .planeFinalize else ok rows.pop

/-- canvas.rs:274 `Canvas::plane`. -/
def Canvas.plane (cv : Canvas) : Scan (List (List SCell)) := do
  let regions ← recognizeRegions cv.content
  let st ← Scan.forRange (planeRow cv regions) cv.content.size 0 ⟨#[#[]], 0, 0, none, none⟩
  let rows ← finalizePlane st.rows
  ok (rows.toList.map Array.toList)

/-! ## Text → plane → table -/

/-- What `Recognizer::recognize` (recognizer.rs:92-95) gets from the scanner: the information
item name and the plane, with the regions' rectangles. -/
structure Scanned where
  infoName : Option Text
  rows : List (List SCell)
  deriving DecidableEq, Repr, Inhabited

/-- recognizer.rs:92-95: `canvas::scan(text)?`, `canvas.information_item_name.clone()`,
`canvas.plane()?`. -/
def scanText (text : Text) : Scan Scanned := do
  let cv ← scan text
  let rows ← cv.plane
  ok ⟨cv.informationItemName, rows⟩

def Scanned.toPlane (s : Scanned) : Plane := ⟨s.infoName, s.rows.map (·.map SCell.toCell)⟩

/-- The outcome of `dmntk_recognizer::build(text)`. -/
inductive TextOutcome where
  | ok (t : TableSpec)
  | scanError (e : ScanErr)
  | error (e : Err)
  | scanPanic (s : ScanSite)
  | panic (s : Site)
  deriving DecidableEq, Repr, Inhabited

def TextOutcome.isPanic : TextOutcome → Bool
  | .scanPanic _ => true
  | .panic _ => true
  | _ => false

/-- `dmntk_recognizer::build` (builder.rs:46): scanner, then the plane logic. -/
def recognizeText (text : Text) : TextOutcome :=
  match scanText text with
  | .ok s =>
    match recognizePlane s.toPlane with
    | .ok t => .ok t
    | .error e => .error e
    | .panic p => .panic p
  | .error e => .scanError e
  | .panic s => .scanPanic s

/-! ## Drawings as texts -/

/-- The text of a drawing: its lines joined by `'\n'`. -/
def textOfLines (lines : List Text) : Text := joinLines lines

/-- The text of the drawing of a table. -/
def drawText (d : Decor) (L : Layout) (t : TableSpec) : Text := textOfLines (draw d L t)

/-- The plane a drawing denotes (`planeOfMerged` when equal input entries are merged). -/
def planeDrawn (d : Decor) (t : TableSpec) : Plane := if d.merge then planeOfMerged d t else planeOf d t

/-- Decidable: the scanner model reads the drawing of `t` back as the plane the drawing
denotes (cells, region numbers, region texts, information item name). -/
def scanInvertsDraw (d : Decor) (L : Layout) (t : TableSpec) : Bool :=
  match scanText (drawText d L t) with
  | .ok s => s.toPlane == planeDrawn d t
  | _ => false

end Dmn.Recog
