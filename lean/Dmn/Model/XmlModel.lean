import Dmn.Model.XmlTree

/-!
# `model/src/model/parser.rs` over the abstract XML tree (C12)

Every function of `impl ModelParser` (parser.rs:147-1030) and of `mod xml_utils` (parser.rs:1033-1157)
is mirrored by the Lean function of the same name (camel case), statement by statement, in the
evaluation order of the Rust struct expressions (fields are evaluated in the order written, `?`
returns the first error).  `HRef::try_from` (`common/src/href.rs:59-73`) and
`DecisionTableOrientation::try_from` (`model/src/model/mod.rs:1989-2000`) are mirrored too.

Not modelled, parameters or omissions:

* `roxmltree::Document::parse` — the model starts at `document.root_element()`;
* `uriparse::URIReference::try_from / is_relative_reference / to_string` (third-party crate) — the
  parameter `uri : Str → UriOut`, which may answer `panic` (the defect repaired by 1456524 was a
  panic inside that crate);
* `dmntk_feel_parser::parse_longest_name` (the FEEL lexer, C05/C07) — `optional_feel_name` is
  mirrored as far as it can return an error (`required_name(node)?`), its value is dropped;
* the values of `f64::from_str` — only success/failure (`f64Ok`, the grammar of
  `core::num::dec2flt`).

## How the recursion is tied

`parse_optional_expression_instance(node)` and `parse_item_definitions(node, NODE_ITEM_COMPONENT)` are
the two recursive entry points of parser.rs; both only ever recurse into *descendants* of `node`.
`annotate` computes them bottom-up, by structural recursion on the tree, and stores the results in
every node (`ANode.expr`, `ANode.comps`); every other function is then a plain non-recursive
definition that reads the stored result where the Rust code makes the recursive call.  The defining
equations are `annotate_expr` / `annotate_comps` in `Lemmas/XmlModel.lean`.  Termination of the
Rust recursion (it descends the tree) is therefore structural; the depth of the Rust call stack is
not modelled.
-/

namespace Dmn.Xml

/-! ## Strings -/

/-- `char::is_whitespace` (Unicode `White_Space`), the set `str::trim` removes. -/
def isWs (c : Nat) : Bool :=
  (9 ≤ c && c ≤ 13) || c == 32 || c == 0x85 || c == 0xA0 || c == 0x1680 ||
  (0x2000 ≤ c && c ≤ 0x200A) || c == 0x2028 || c == 0x2029 || c == 0x202F || c == 0x205F ||
  c == 0x3000

/-- `str::trim`. -/
def trim (s : Str) : Str := ((s.dropWhile isWs).reverse.dropWhile isWs).reverse

def isDigit (c : Nat) : Bool := 48 ≤ c && c ≤ 57

def lowerAscii (c : Nat) : Nat := if 65 ≤ c && c ≤ 90 then c + 32 else c

/-- `parse_number` of `core::num::dec2flt::parse`: digits, optional `.` digits, at least one digit in
all; optional exponent `e|E [+|-] digits` with at least one digit; the whole text is consumed. -/
def decimalOk (s : Str) : Bool :=
  let i := s.takeWhile isDigit
  let s1 := s.dropWhile isDigit
  let fs : Str × Str :=
    match s1 with
    | 46 :: r => (r.takeWhile isDigit, r.dropWhile isDigit)
    | _ => ([], s1)
  if i.length + fs.1.length == 0 then false else
  match fs.2 with
  | [] => true
  | c :: r =>
    if c == 101 || c == 69 then
      let r := match r with
        | d :: r' => if d == 45 || d == 43 then r' else r
        | [] => r
      !r.isEmpty && r.all isDigit
    else false

/-- `f64::from_str(s).is_ok()` (`dec2flt`): optional sign, then a decimal number or, ignoring ASCII
case, `nan` / `inf` / `infinity`. -/
def f64Ok (s : Str) : Bool :=
  match s with
  | [] => false
  | c :: rest =>
    let s := if c == 45 || c == 43 then rest else s
    if s.isEmpty then false else
    decimalOk s ||
      (let l := s.map lowerAscii
       l == L.nan || l == L.inf || l == L.infinity)

/-- Value of a run of decimal digits. -/
def digitsValue (s : Str) : Nat := s.foldl (fun acc c => acc * 10 + (c - 48)) 0

/-- `u8::from_str`: optional `+`, one or more ASCII digits, value at most 255. -/
def u8Parse (s : Str) : Option Nat :=
  match s with
  | [] => none
  | c :: rest =>
    let ds := if c == 43 then rest else s
    if ds.isEmpty || !ds.all isDigit then none
    else if digitsValue ds ≤ 255 then some (digitsValue ds) else none

/-- `bool::from_str`. -/
def boolParse (s : Str) : Option Bool :=
  if s == L.true then some true else if s == L.false then some false else none

/-! ## The annotated tree -/

/-- A node together with the results of the two recursive parser functions on it. -/
inductive ANode where
  | mk (name : Str) (attrs : List XAttr) (text : Option Str) (expr : PRes (Option Expr))
      (comps : PRes (List ItemDef)) (children : List ANode)

namespace ANode
/-- `node.tag_name().name()` -/
def name : ANode → Str
  | .mk n _ _ _ _ _ => n
def attrs : ANode → List XAttr
  | .mk _ a _ _ _ _ => a
/-- `optional_content(node)`: the text children of an element concatenated (for a text or comment
node, which the parser never asks for: its own text) -/
def text : ANode → Option Str
  | .mk _ _ t _ _ _ => t
/-- `self.parse_optional_expression_instance(node)` -/
def expr : ANode → PRes (Option Expr)
  | .mk _ _ _ e _ _ => e
/-- `self.parse_item_definitions(node, NODE_ITEM_COMPONENT)` -/
def comps : ANode → PRes (List ItemDef)
  | .mk _ _ _ _ c _ => c
/-- `node.children()` -/
def children : ANode → List ANode
  | .mk _ _ _ _ _ cs => cs
/-- `node.attribute(attr_name)`: the first attribute without namespace of that name. -/
def attr (n : ANode) (a : Str) : Option Str :=
  (n.attrs.find? (fun x => !x.ns && x.name == a)).map (·.value)
end ANode

/-- `children.find(|n| n.tag_name().name() == child_name)` -/
def findIn (cs : List ANode) (childName : Str) : Option ANode := cs.find? (fun c => c.name == childName)
/-- `children.filter(|n| n.tag_name().name() == child_name)` -/
def filterIn (cs : List ANode) (childName : Str) : List ANode := cs.filter (fun c => c.name == childName)

/-- `for x in xs { out.push(f(x)?) }` -/
def mapE {α β : Type} (f : α → PRes β) : List α → PRes (List β)
  | [] => .ok []
  | x :: xs =>
    match f x with
    | .error e => .error e
    | .ok y =>
      match mapE f xs with
      | .error e => .error e
      | .ok ys => .ok (y :: ys)

/-- `for x in xs { out.push(f(x)?) }` for functions that may panic. -/
def mapR {α β : Type} (f : α → Res β) : List α → Res (List β)
  | [] => .ok []
  | x :: xs =>
    match f x with
    | .err e => .err e
    | .panic s => .panic s
    | .ok y =>
      match mapR f xs with
      | .err e => .err e
      | .panic s => .panic s
      | .ok ys => .ok (y :: ys)

/-! ## `mod xml_utils` (parser.rs:1033-1157) -/

/-- parser.rs:1041-1047 -/
def requiredAttribute (n : ANode) (a : Str) : PRes Str :=
  match n.attr a with
  | some v => .ok v
  | none => .error (.xmlExpectedMandatoryAttribute n.name a)

/-- parser.rs:1050-1052 -/
def requiredName (n : ANode) : PRes Str := requiredAttribute n A.name

/-- parser.rs:1055-1057: `Ok(parse_longest_name(&required_name(node)?).ok())`; the value is not kept. -/
def optionalFeelName (n : ANode) : PRes Unit :=
  match requiredName n with
  | .ok _ => .ok ()
  | .error e => .error e

/-- parser.rs:1060-1062 -/
def requiredColorPart (n : ANode) (a : Str) : PRes Nat :=
  match requiredAttribute n a with
  | .error e => .error e
  | .ok v =>
    match u8Parse v with
    | some k => .ok k
    | none => .error .invalidColorValue

/-- parser.rs:1065-1067, the value dropped -/
def requiredDouble (n : ANode) (a : Str) : PRes Unit :=
  match requiredAttribute n a with
  | .error e => .error e
  | .ok v => if f64Ok v then .ok () else .error .invalidDoubleValue

/-- parser.rs:1070-1072 -/
def optionalAttribute (n : ANode) (a : Str) : Option Str := n.attr a

/-- parser.rs:1075-1077 -/
def optionalString (n : ANode) (a : Str) (dflt : Str) : Str := (optionalAttribute n a).getD dflt

/-- parser.rs:1085-1087 -/
def optionalBool (n : ANode) (a : Str) (dflt : Bool) : Bool :=
  match optionalAttribute n a with
  | none => dflt
  | some v => (boolParse v).getD dflt

/-- parser.rs:1090-1096 -/
def requiredContent (n : ANode) : PRes Str :=
  match n.text with
  | some t => .ok t
  | none => .error (.xmlExpectedMandatoryTextContent n.name)

/-- parser.rs:1099-1101 -/
def optionalContent (n : ANode) : Option Str := n.text

/-- parser.rs:1104-1110 -/
def requiredChild (n : ANode) (childName : Str) : PRes ANode :=
  match findIn n.children childName with
  | some c => .ok c
  | none => .error (.requiredChildNodeIsMissing n.name childName)

/-- parser.rs:1113-1115 -/
def optionalChild (n : ANode) (childName : Str) : Option ANode := findIn n.children childName

/-- parser.rs:1118-1124 -/
def requiredChildRequiredContent (n : ANode) (childName : Str) : PRes Str :=
  match findIn n.children childName with
  | some c => requiredContent c
  | none => .error (.xmlExpectedMandatoryChildNode n.name childName)

/-- parser.rs:1127-1133 -/
def optionalChildRequiredContent (n : ANode) (childName : Str) : PRes (Option Str) :=
  match findIn n.children childName with
  | some c =>
    match requiredContent c with
    | .ok t => .ok (some t)
    | .error e => .error e
  | none => .ok none

/-- parser.rs:1136-1142 -/
def optionalChildOptionalContent (n : ANode) (childName : Str) : Option Str :=
  match findIn n.children childName with
  | some c => optionalContent c
  | none => none

/-! ## `HRef::try_from` (common/src/href.rs:59-73) -/

/-- What `uriparse::URIReference::try_from(value)` answers: a reference with
`is_relative_reference()` and `to_string()`, an error, or a panic inside the crate. -/
inductive UriOut where
  | ok (relative : Bool) (text : Str)
  | err
  | panic
  deriving Repr, DecidableEq, Inhabited

/-- `str::strip_prefix('#')` -/
def stripHash : Str → Option Str
  | 35 :: r => some r
  | _ => none

/-- href.rs:62-72. `s.strip_prefix('#').unwrap()` is an explicit panic site. -/
def hrefTryFrom (uri : Str → UriOut) (value : Str) : Res Str :=
  match uri value with
  | .ok true s =>
    if s.head? == some 35 then
      match stripHash s with
      | some r => .ok r
      | none => .panic "common/src/href.rs:66 unwrap"
    else .ok s
  | .ok false s => .ok s
  | .err => .err .invalidReference
  | .panic => .panic "uriparse::URIReference::try_from"

/-- parser.rs:1145-1151 -/
def optionalChildRequiredHref (uri : Str → UriOut) (n : ANode) (childName : Str) : Res (Option Str) :=
  match findIn n.children childName with
  | some c =>
    match requiredAttribute c A.href with
    | .error e => .err e
    | .ok v =>
      match hrefTryFrom uri v with
      | .ok h => .ok (some h)
      | .err e => .err e
      | .panic s => .panic s
  | none => .ok none

/-! ## Attribute values (parser.rs:767-816, 389-400) -/

/-- parser.rs:768-774 -/
def parseBooleanAttribute (n : ANode) (a : Str) (dflt : Bool) : Bool :=
  match n.attr a with
  | some v => v == L.true
  | none => dflt

/-- parser.rs:795-807 -/
def parseAggregationAttribute (n : ANode) : PRes Agg :=
  match n.attr A.aggregation with
  | some t =>
    let t := trim t
    if t == L.count then .ok .count
    else if t == L.sum then .ok .sum
    else if t == L.min then .ok .min
    else if t == L.max then .ok .max
    else .error .invalidAggregation
  | none => .ok .list

/-- parser.rs:777-792 -/
def parseHitPolicyAttribute (n : ANode) : PRes HitPolicy :=
  match n.attr A.hitPolicy with
  | some t =>
    let t := trim t
    if t == L.unique then .ok .unique
    else if t == L.any then .ok .any
    else if t == L.priority then .ok .priority
    else if t == L.first then .ok .first
    else if t == L.ruleOrder then .ok .ruleOrder
    else if t == L.outputOrder then .ok .outputOrder
    else if t == L.collect then
      match parseAggregationAttribute n with
      | .ok a => .ok (.collect a)
      | .error e => .error e
    else .error .invalidHitPolicy
  | none => .ok .unique

/-- `DecisionTableOrientation::try_from` (mod.rs:1992-1999) -/
def orientationTryFrom (v : Str) : PRes Orientation :=
  let t := trim v
  if t == L.ruleAsRow then .ok .ruleAsRow
  else if t == L.ruleAsColumn then .ok .ruleAsColumn
  else if t == L.crossTable then .ok .crossTable
  else .error .invalidDecisionTableOrientation

/-- parser.rs:810-816 -/
def parsePreferredOrientationAttribute (n : ANode) : PRes Orientation :=
  match n.attr A.preferredOrientation with
  | some v => orientationTryFrom v
  | none => .ok .ruleAsRow

/-- parser.rs:389-400 -/
def parseFunctionKind (n : ANode) : PRes FunKind :=
  match optionalAttribute n A.kind with
  | some t =>
    let t := trim t
    if t == L.feel then .ok .feel
    else if t == L.java then .ok .java
    else if t == L.pmml then .ok .pmml
    else .error .invalidFunctionKind
  | none => .ok .feel

/-! ## Decision tables (parser.rs:532-643) -/

/-- parser.rs:557-572 -/
def parseDecisionTableInput (n : ANode) : PRes InputClause :=
  match requiredChild n N.inputExpression with
  | .error _ => .error .requiredInputExpressionIsMissing
  | .ok c => do
    let inputExpression ← requiredChildRequiredContent c N.text
    let inputValues ← match optionalChild n N.inputValues with
      | some v => optionalChildRequiredContent v N.text
      | none => .ok none
    pure ⟨inputExpression, inputValues⟩

/-- parser.rs:549-555 -/
def parseDecisionTableInputs (n : ANode) : PRes (List InputClause) :=
  mapE parseDecisionTableInput (filterIn n.children N.input)

/-- parser.rs:582-599 -/
def parseDecisionTableOutput (n : ANode) : PRes OutputClause := do
  let outputValues ← match optionalChild n N.outputValues with
    | some v => optionalChildRequiredContent v N.text
    | none => .ok none
  let defaultOutputEntry ← match optionalChild n N.defaultOutputEntry with
    | some v => optionalChildRequiredContent v N.text
    | none => .ok none
  pure ⟨optionalAttribute n A.typeRef, optionalAttribute n A.name, outputValues, defaultOutputEntry⟩

/-- parser.rs:574-580 -/
def parseDecisionTableOutputs (n : ANode) : PRes (List OutputClause) :=
  mapE parseDecisionTableOutput (filterIn n.children N.output)

/-- parser.rs:625-629 -/
def parseDecisionTableInputEntry (n : ANode) : PRes Str := requiredChildRequiredContent n N.text
/-- parser.rs:617-623 -/
def parseDecisionTableInputEntries (n : ANode) : PRes (List Str) :=
  mapE parseDecisionTableInputEntry (filterIn n.children N.inputEntry)
/-- parser.rs:639-643 -/
def parseDecisionTableOutputEntry (n : ANode) : PRes Str := requiredChildRequiredContent n N.text
/-- parser.rs:631-637 -/
def parseDecisionTableOutputEntries (n : ANode) : PRes (List Str) :=
  mapE parseDecisionTableOutputEntry (filterIn n.children N.outputEntry)

/-- parser.rs:609-615 -/
def parseDecisionTableRule (n : ANode) : PRes Rule := do
  let inputEntries ← parseDecisionTableInputEntries n
  let outputEntries ← parseDecisionTableOutputEntries n
  pure ⟨inputEntries, outputEntries⟩

/-- parser.rs:601-607 -/
def parseDecisionTableRules (n : ANode) : PRes (List Rule) :=
  mapE parseDecisionTableRule (filterIn n.children N.rule)

/-- The struct expression of parser.rs:534-544 on the `decisionTable` node. -/
def parseDecisionTableNode (c : ANode) : PRes DTable := do
  let inputs ← parseDecisionTableInputs c
  let outputs ← parseDecisionTableOutputs c
  let rules ← parseDecisionTableRules c
  let hitPolicy ← parseHitPolicyAttribute c
  let orientation ← parsePreferredOrientationAttribute c
  pure ⟨inputs, outputs, rules, hitPolicy, orientation, optionalAttribute c A.outputLabel⟩

/-- parser.rs:532-547 (`node.children()` = `cs`) -/
def parseDecisionTable (cs : List ANode) : PRes (Option DTable) :=
  match findIn cs N.decisionTable with
  | some c =>
    match parseDecisionTableNode c with
    | .ok t => .ok (some t)
    | .error e => .error e
  | none => .ok none

/-! ## Expressions (parser.rs:359-387, 427-463, 504-530, 645-751) -/

/-- parser.rs:697-709 -/
def parseLiteralExpression (n : ANode) : Literal :=
  ⟨optionalAttribute n A.id, optionalChildOptionalContent n N.description, optionalAttribute n A.label,
   optionalAttribute n A.typeRef, optionalChildOptionalContent n N.text,
   optionalAttribute n A.expressionLanguage⟩

/-- parser.rs:688-693 -/
def parseOptionalLiteralExpression (cs : List ANode) : Option Literal :=
  (findIn cs N.literalExpression).map parseLiteralExpression

/-- parser.rs:450-463; `self.parse_optional_expression_instance(node)` is `n.expr`. -/
def parseInformationItem (n : ANode) : PRes InfoItem := do
  let name ← requiredName n
  optionalFeelName n
  let value ← n.expr
  pure (.mk (optionalAttribute n A.id) (optionalChildOptionalContent n N.description)
    (optionalAttribute n A.label) name value (optionalAttribute n A.typeRef))

/-- parser.rs:427-433 -/
def parseInformationItemChild (n : ANode) (childName : Str) : PRes InfoItem :=
  match findIn n.children childName with
  | some c => parseInformationItem c
  | none => .error (.xmlExpectedMandatoryChildNode n.name childName)

/-- parser.rs:435-440 -/
def parseOptionalInformationItemChild (n : ANode) (childName : Str) : PRes (Option InfoItem) :=
  match findIn n.children childName with
  | some c =>
    match parseInformationItem c with
    | .ok i => .ok (some i)
    | .error e => .error e
  | none => .ok none

/-- parser.rs:442-448 -/
def parseInformationItemsChild (n : ANode) (childName : Str) : PRes (List InfoItem) :=
  mapE parseInformationItem (filterIn n.children childName)

/-- parser.rs:504-508; `parse_optional_expression_instance(node)` is `n.expr`. -/
def parseRequiredExpressionInstance (n : ANode) : PRes Expr :=
  match n.expr with
  | .error e => .error e
  | .ok (some x) => .ok x
  | .ok none => .error .requiredExpressionInstanceIsMissing

/-- The loop body of parser.rs:657-660 -/
def parseContextEntry (ce : ANode) : PRes CtxEntry := do
  let var ← parseOptionalInformationItemChild ce N.variable_
  let value ← parseRequiredExpressionInstance ce
  pure (CtxEntry.mk var value)

/-- parser.rs:654-663 -/
def parseContextEntries (n : ANode) : PRes (List CtxEntry) :=
  mapE parseContextEntry (filterIn n.children N.contextEntry)

/-- parser.rs:645-652 -/
def parseOptionalContext (cs : List ANode) : PRes (Option (List CtxEntry)) :=
  match findIn cs N.context with
  | some c =>
    match parseContextEntries c with
    | .ok es => .ok (some es)
    | .error e => .error e
  | none => .ok none

/-- parser.rs:375-387; `parse_optional_expression_instance(node)` is `n.expr`. -/
def parseFunctionDefinition (n : ANode) : PRes FunDef := do
  let params ← parseInformationItemsChild n N.formalParameter
  let body ← n.expr
  let kind ← parseFunctionKind n
  pure (.mk (optionalAttribute n A.id) (optionalChildOptionalContent n N.description)
    (optionalAttribute n A.label) (optionalAttribute n A.typeRef) params body kind)

/-- parser.rs:359-365 -/
def parseFunctionDefinitionChild (n : ANode) (childName : Str) : PRes (Option FunDef) :=
  match findIn n.children childName with
  | some c =>
    match parseFunctionDefinition c with
    | .ok f => .ok (some f)
    | .error e => .error e
  | none => .ok none

/-- parser.rs:367-373 -/
def parseOptionalFunctionDefinition (cs : List ANode) : PRes (Option FunDef) :=
  match findIn cs N.functionDefinition with
  | some c =>
    match parseFunctionDefinition c with
    | .ok f => .ok (some f)
    | .error e => .error e
  | none => .ok none

/-- The loop body of parser.rs:678-681; `parse_optional_expression_instance(child_node)` is `b.expr`. -/
def parseBinding (b : ANode) : PRes Binding := do
  let parameter ← parseInformationItemChild b N.parameter
  let formula ← b.expr
  pure (Binding.mk parameter formula)

/-- parser.rs:675-684 -/
def parseBindings (n : ANode) : PRes (List Binding) :=
  mapE parseBinding (filterIn n.children N.binding)

/-- parser.rs:665-673 -/
def parseOptionalInvocation (cs : List ANode) : PRes (Option (Expr × List Binding)) :=
  match findIn cs N.invocation with
  | some c => do
    let called ← parseRequiredExpressionInstance c
    let bindings ← parseBindings c
    pure (some (called, bindings))
  | none => .ok none

/-- One row of a relation, parser.rs:718-738 (`nCols` = `columns.len()`). -/
def parseRelationRow (nCols : Nat) (row : ANode) : PRes Row :=
  let elements := (filterIn row.children N.literalExpression).map parseLiteralExpression
  if elements.length != nCols then .error .numberOfElementsInRowDiffersFromNumberOfColumns
  else .ok ⟨optionalAttribute row A.id, optionalChildOptionalContent row N.description,
    optionalAttribute row A.label, optionalAttribute row A.typeRef, elements⟩

/-- parser.rs:711-751 -/
def parseOptionalRelation (cs : List ANode) : PRes (Option Expr) :=
  match findIn cs N.relation with
  | some r => do
    let columns ← mapE parseInformationItem (filterIn r.children N.column)
    let rows ← mapE (parseRelationRow columns.length) (filterIn r.children N.row)
    pure (some (.relation (optionalAttribute r A.id) (optionalChildOptionalContent r N.description)
      (optionalAttribute r A.label) (optionalAttribute r A.typeRef) rows columns))
  | none => .ok none

/-- parser.rs:510-530, `node.children()` = `cs`: the first kind of boxed expression found, in the
order context, decision table, function definition, invocation, literal expression, relation. -/
def parseOptionalExpressionInstance (cs : List ANode) : PRes (Option Expr) :=
  match parseOptionalContext cs with
  | .error e => .error e
  | .ok (some es) => .ok (some (.context es))
  | .ok none =>
  match parseDecisionTable cs with
  | .error e => .error e
  | .ok (some t) => .ok (some (.table t))
  | .ok none =>
  match parseOptionalFunctionDefinition cs with
  | .error e => .error e
  | .ok (some f) => .ok (some (.fundef f))
  | .ok none =>
  match parseOptionalInvocation cs with
  | .error e => .error e
  | .ok (some (called, bindings)) => .ok (some (.invocation called bindings))
  | .ok none =>
  match parseOptionalLiteralExpression cs with
  | some l => .ok (some (.literal l))
  | none => parseOptionalRelation cs

/-! ## Item definitions (parser.rs:186-236) -/

/-- parser.rs:216-225 -/
def parseFunctionItem (n : ANode) : Option (Option Str) :=
  (findIn n.children N.functionItem).map (fun c => optionalAttribute c A.outputTypeRef)

/-- parser.rs:227-236 -/
def parseUnaryTests (n : ANode) (childName : Str) : PRes (Option UnaryTests) :=
  match findIn n.children childName with
  | some c =>
    match optionalChildRequiredContent c N.text with
    | .ok t => .ok (some ⟨t, optionalAttribute c A.expressionLanguage⟩)
    | .error e => .error e
  | none => .ok none

/-- The loop body of parser.rs:189-210; `self.parse_item_definitions(child_node, NODE_ITEM_COMPONENT)`
is `c.comps`. -/
def parseItemDefinition (c : ANode) : PRes ItemDef := do
  let typeRef ← optionalChildRequiredContent c N.typeRef
  let typeLanguage := optionalAttribute c A.typeLanguage
  let allowedValues ← parseUnaryTests c N.allowedValues
  let components ← c.comps
  let name ← requiredName c
  optionalFeelName c
  pure (.mk name (optionalAttribute c A.id) (optionalChildOptionalContent c N.description)
    (optionalAttribute c A.label) typeRef typeLanguage allowedValues components
    (parseBooleanAttribute c A.isCollection false) (parseFunctionItem c))

/-- parser.rs:186-213, `node.children()` = `cs` -/
def parseItemDefinitions (cs : List ANode) (childName : Str) : PRes (List ItemDef) :=
  mapE parseItemDefinition (filterIn cs childName)

/-! ## Tying the recursion -/

/-- `xml_utils::optional_content` of an element with children `cs` (parser.rs:1099-1109): the text
children concatenated (`None` when there is none); comments and processing instructions between
them are not a part of the content. -/
def textContent : List XNode → Option Str
  | [] => none
  | .text t :: cs =>
    match textContent cs with
    | some r => some (t ++ r)
    | none => some t
  | _ :: cs => textContent cs

mutual
/-- The node with the results of `parse_optional_expression_instance` and
`parse_item_definitions(_, NODE_ITEM_COMPONENT)` on it and on every descendant. -/
def annotate : XNode → ANode
  | .elem name attrs cs =>
    .mk name attrs (textContent cs) (parseOptionalExpressionInstance (annotateList cs))
      (parseItemDefinitions (annotateList cs) N.itemComponent) (annotateList cs)
  | .text t => .mk [] [] (some t) (parseOptionalExpressionInstance []) (parseItemDefinitions [] N.itemComponent) []
  | .comment t => .mk [] [] (some t) (parseOptionalExpressionInstance []) (parseItemDefinitions [] N.itemComponent) []
  | .pi => .mk [] [] none (parseOptionalExpressionInstance []) (parseItemDefinitions [] N.itemComponent) []
def annotateList : List XNode → List ANode
  | [] => []
  | c :: cs => annotate c :: annotateList cs
end

/-! ## DRG elements (parser.rs:238-357, 465-502) -/

instance : Monad Res where
  pure := .ok
  bind := Res.bind

/-- parser.rs:473-483 -/
def parseInformationRequirement (uri : Str → UriOut) (n : ANode) : Res InfoReq := do
  let requiredDecision ← optionalChildRequiredHref uri n N.requiredDecision
  let requiredInput ← optionalChildRequiredHref uri n N.requiredInput
  pure ⟨optionalAttribute n A.id, optionalChildOptionalContent n N.description,
    optionalAttribute n A.label, requiredDecision, requiredInput⟩

/-- parser.rs:465-471 -/
def parseInformationRequirements (uri : Str → UriOut) (n : ANode) (childName : Str) : Res (List InfoReq) :=
  mapR (parseInformationRequirement uri) (filterIn n.children childName)

/-- parser.rs:493-502 -/
def parseKnowledgeRequirement (uri : Str → UriOut) (n : ANode) : Res KnowReq := do
  let requiredKnowledge ← optionalChildRequiredHref uri n N.requiredKnowledge
  pure ⟨optionalAttribute n A.id, optionalChildOptionalContent n N.description,
    optionalAttribute n A.label, requiredKnowledge⟩

/-- parser.rs:485-491 -/
def parseKnowledgeRequirements (uri : Str → UriOut) (n : ANode) (childName : Str) : Res (List KnowReq) :=
  mapR (parseKnowledgeRequirement uri) (filterIn n.children childName)

/-- The loop body of parser.rs:352-354 -/
def requiredHref (uri : Str → UriOut) (c : ANode) : Res Str :=
  match requiredAttribute c A.href with
  | .error e => .err e
  | .ok v => hrefTryFrom uri v

/-- parser.rs:349-357 -/
def requiredHrefsInChildNodes (uri : Str → UriOut) (n : ANode) (childName : Str) : Res (List Str) :=
  mapR (requiredHref uri) (filterIn n.children childName)

/-- The loop body of parser.rs:251-261. `optional_feel_name(node)?` is applied to the *parent*
(`definitions`) node `n`. -/
def parseInputDataItem (n c : ANode) : PRes Drg := do
  let name ← requiredName c
  optionalFeelName n
  let var ← parseInformationItemChild c N.variable_
  pure (Drg.inputData ⟨optionalAttribute c A.id, optionalChildOptionalContent c N.description,
    optionalAttribute c A.label, name, var⟩)

/-- parser.rs:248-264 -/
def parseInputData (n : ANode) : PRes (List Drg) :=
  mapE (parseInputDataItem n) (filterIn n.children N.inputData)

/-- The loop body of parser.rs:269-284; `parse_optional_expression_instance(child_node)` is `c.expr`. -/
def parseDecision (uri : Str → UriOut) (c : ANode) : Res Drg := do
  let name ← Res.lift (requiredName c)
  Res.lift (optionalFeelName c)
  let var ← Res.lift (parseInformationItemChild c N.variable_)
  let logic ← Res.lift c.expr
  let infoReqs ← parseInformationRequirements uri c N.informationRequirement
  let knowReqs ← parseKnowledgeRequirements uri c N.knowledgeRequirement
  pure (Drg.decision ⟨name, optionalAttribute c A.id, optionalChildOptionalContent c N.description,
    optionalAttribute c A.label, optionalChildOptionalContent c N.question,
    optionalChildOptionalContent c N.allowedAnswers, var, logic, infoReqs, knowReqs⟩)

/-- parser.rs:266-287 -/
def parseDecisions (uri : Str → UriOut) (n : ANode) : Res (List Drg) :=
  mapR (parseDecision uri) (filterIn n.children N.decision)

/-- The loop body of parser.rs:292-305 -/
def parseBusinessKnowledgeModel (uri : Str → UriOut) (c : ANode) : Res Drg := do
  let name ← Res.lift (requiredName c)
  Res.lift (optionalFeelName c)
  let var ← Res.lift (parseInformationItemChild c N.variable_)
  let logic ← Res.lift (parseFunctionDefinitionChild c N.encapsulatedLogic)
  let knowReqs ← parseKnowledgeRequirements uri c N.knowledgeRequirement
  pure (Drg.bkm ⟨name, optionalAttribute c A.id, optionalChildOptionalContent c N.description,
    optionalAttribute c A.label, var, logic, knowReqs⟩)

/-- parser.rs:289-308 -/
def parseBusinessKnowledgeModels (uri : Str → UriOut) (n : ANode) : Res (List Drg) :=
  mapR (parseBusinessKnowledgeModel uri) (filterIn n.children N.businessKnowledgeModel)

/-- The loop body of parser.rs:313-326 -/
def parseDecisionService (uri : Str → UriOut) (c : ANode) : Res Drg := do
  let name ← Res.lift (requiredName c)
  Res.lift (optionalFeelName c)
  let var ← Res.lift (parseInformationItemChild c N.variable_)
  let outputDecisions ← requiredHrefsInChildNodes uri c N.outputDecision
  let encapsulatedDecisions ← requiredHrefsInChildNodes uri c N.encapsulatedDecision
  let inputDecisions ← requiredHrefsInChildNodes uri c N.inputDecision
  let inputData ← requiredHrefsInChildNodes uri c N.inputData
  pure (Drg.service ⟨name, optionalAttribute c A.id, optionalChildOptionalContent c N.description,
    optionalAttribute c A.label, var, outputDecisions, encapsulatedDecisions, inputDecisions,
    inputData⟩)

/-- parser.rs:310-330 -/
def parseDecisionServices (uri : Str → UriOut) (n : ANode) : Res (List Drg) :=
  mapR (parseDecisionService uri) (filterIn n.children N.decisionService)

/-- The loop body of parser.rs:335-343 -/
def parseKnowledgeSource (c : ANode) : PRes Drg := do
  let name ← requiredName c
  optionalFeelName c
  pure (Drg.knowledgeSource ⟨optionalAttribute c A.id, optionalChildOptionalContent c N.description,
    optionalAttribute c A.label, name⟩)

/-- parser.rs:332-347 -/
def parseKnowledgeSources (n : ANode) : PRes (List Drg) :=
  mapE parseKnowledgeSource (filterIn n.children N.knowledgeSource)

/-- parser.rs:238-246 -/
def parseDrgElements (uri : Str → UriOut) (n : ANode) : Res (List Drg) := do
  let a ← Res.lift (parseInputData n)
  let b ← parseDecisions uri n
  let c ← parseBusinessKnowledgeModels uri n
  let d ← parseDecisionServices uri n
  let e ← Res.lift (parseKnowledgeSources n)
  pure (a ++ b ++ c ++ d ++ e)

/-- The loop body of parser.rs:410-421 -/
def parseImport (c : ANode) : PRes Import := do
  let name ← requiredName c
  optionalFeelName c
  let importType ← requiredAttribute c A.importType
  let ns ← requiredAttribute c A.namespace_
  pure ⟨optionalAttribute c A.id, optionalChildOptionalContent c N.description,
    optionalAttribute c A.label, name, importType, optionalAttribute c A.locationUri, ns⟩

/-- parser.rs:407-425 -/
def parseImports (n : ANode) : PRes (List Import) :=
  mapE parseImport (filterIn n.children N.import_)

/-! ## DMNDI (parser.rs:818-1029) -/

/-- parser.rs:867-877 -/
def parseColor (n : ANode) (childName : Str) : PRes (Option Color) :=
  match findIn n.children childName with
  | some c => do
    let r ← requiredColorPart c A.red
    let g ← requiredColorPart c A.green
    let b ← requiredColorPart c A.blue
    pure (some ⟨r, g, b⟩)
  | none => .ok none

/-- parser.rs:880-887 -/
def parseAlignmentKind (n : ANode) (a : Str) : Option Align :=
  match n.attr a with
  | some v =>
    if v == L.start then some .start
    else if v == L.end_ then some .end_
    else if v == L.center then some .center
    else none
  | none => none

/-- parser.rs:849-864 -/
def parseStyle (n : ANode) : PRes Style := do
  let fill ← parseColor n N.dmndiFillColor
  let stroke ← parseColor n N.dmndiStrokeColor
  let font ← parseColor n N.dmndiFontColor
  pure ⟨optionalAttribute n A.id, fill, stroke, font, optionalString n A.fontFamily L.arial,
    optionalBool n A.fontItalic false, optionalBool n A.fontBold false,
    optionalBool n A.fontUnderline false, optionalBool n A.fontStrikeThrough false,
    parseAlignmentKind n N.dmndiLabelHorizontalAlignment,
    parseAlignmentKind n N.dmndiLabelVerticalAlignment⟩

/-- parser.rs:831-837 -/
def parseStyles (n : ANode) : PRes (List Style) := mapE parseStyle (filterIn n.children N.dmndiStyle)

/-- parser.rs:840-846 -/
def parseOptionalStyle (n : ANode) (childName : Str) : PRes (Option Style) :=
  match findIn n.children childName with
  | some c =>
    match parseStyle c with
    | .ok s => .ok (some s)
    | .error e => .error e
  | none => .ok none

/-- parser.rs:960-971: `Ok(Some(_))`, `Ok(None)` or an error. -/
def parseOptionalBounds (n : ANode) : PRes Bool :=
  match findIn n.children N.dmndiBounds with
  | some c => do
    requiredDouble c A.x
    requiredDouble c A.y
    requiredDouble c A.width
    requiredDouble c A.height
    pure true
  | none => .ok false

/-- parser.rs:952-957: anything but `Ok(Some(_))` is `RequiredChildNodeIsMissing`. -/
def parseBounds (n : ANode) : PRes Unit :=
  match parseOptionalBounds n with
  | .ok true => .ok ()
  | _ => .error (.requiredChildNodeIsMissing n.name N.dmndiBounds)

/-- parser.rs:1011-1016 -/
def parsePoint (n : ANode) : PRes Unit := do
  requiredDouble n A.x
  requiredDouble n A.y

/-- parser.rs:1002-1008, the number of points -/
def parseWayPoints (n : ANode) : PRes Nat :=
  match mapE parsePoint (filterIn n.children N.dmndiWaypoint) with
  | .ok ps => .ok ps.length
  | .error e => .error e

/-- parser.rs:1019-1029 -/
def parseLabel (n : ANode) : PRes (Option DLabel) :=
  match findIn n.children N.dmndiLabel with
  | some c =>
    match parseOptionalBounds c with
    | .ok b => .ok (some ⟨b, optionalAttribute c A.text, optionalAttribute c A.sharedStyle⟩)
    | .error e => .error e
  | none => .ok none

/-- parser.rs:974-985; `shared_style` is read from the shape node. -/
def parseDividerLine (n : ANode) : PRes (Option DividerLine) :=
  match findIn n.children N.dmndiDecisionServiceDividerLine with
  | some c => do
    let wayPoints ← parseWayPoints c
    let localStyle ← parseOptionalStyle c N.dmndiLocalStyle
    pure (some ⟨optionalAttribute c A.id, wayPoints, optionalAttribute n A.sharedStyle, localStyle⟩)
  | none => .ok none

/-- parser.rs:937-949 -/
def parseShape (n : ANode) : PRes DiagElem := do
  parseBounds n
  let divider ← parseDividerLine n
  let localStyle ← parseOptionalStyle n N.dmndiLocalStyle
  let label ← parseLabel n
  pure (.shape (optionalAttribute n A.id) (optionalAttribute n A.dmnElementRef) divider
    (optionalBool n A.isCollapsed false) (optionalAttribute n A.sharedStyle) localStyle label)

/-- parser.rs:988-999 -/
def parseEdge (n : ANode) : PRes DiagElem := do
  let wayPoints ← parseWayPoints n
  let localStyle ← parseOptionalStyle n N.dmndiLocalStyle
  let label ← parseLabel n
  pure (.edge (optionalAttribute n A.id) wayPoints (optionalAttribute n A.dmnElementRef)
    (optionalAttribute n A.sharedStyle) localStyle label)

/-- parser.rs:925-934 -/
def parseDiagramElements (n : ANode) : PRes (List DiagElem) := do
  let shapes ← mapE parseShape (filterIn n.children N.dmndiDmnShape)
  let edges ← mapE parseEdge (filterIn n.children N.dmndiDmnEdge)
  pure (shapes ++ edges)

/-- parser.rs:913-922 -/
def parseDimension (n : ANode) : PRes Bool :=
  match findIn n.children N.dmndiSize with
  | some c => do
    requiredDouble c A.width
    requiredDouble c A.height
    pure true
  | none => .ok false

/-- parser.rs:899-910 -/
def parseDiagram (n : ANode) : PRes Diagram := do
  let elements ← parseDiagramElements n
  let localStyle ← parseOptionalStyle n N.dmndiLocalStyle
  let hasSize ← parseDimension n
  pure ⟨optionalAttribute n A.id, optionalString n A.name [], elements,
    optionalAttribute n A.sharedStyle, localStyle, hasSize⟩

/-- parser.rs:890-896 -/
def parseDiagrams (n : ANode) : PRes (List Diagram) :=
  mapE parseDiagram (filterIn n.children N.dmndiDmnDiagram)

/-- The loop body of parser.rs:821-824 -/
def parseDmndiNode (c : ANode) : PRes Dmndi := do
  let styles ← parseStyles c
  let diagrams ← parseDiagrams c
  pure ⟨styles, diagrams⟩

/-- parser.rs:819-828: every `DMNDI` child is parsed, the last one is kept. -/
def parseDmndi (n : ANode) : PRes (Option Dmndi) :=
  match mapE parseDmndiNode (filterIn n.children N.dmndi) with
  | .ok ds => .ok ds.getLast?
  | .error e => .error e

/-! ## `parse_definitions`, `parse` (parser.rs:149-184) -/

/-- parser.rs:162-184; `self.parse_item_definitions(node, NODE_ITEM_DEFINITION)` on the children of
the `definitions` node. -/
def parseDefinitions (uri : Str → UriOut) (n : ANode) : Res Definitions := do
  let name ← Res.lift (requiredName n)
  Res.lift (optionalFeelName n)
  let ns ← Res.lift (requiredAttribute n A.namespace_)
  let itemDefinitions ← Res.lift (parseItemDefinitions n.children N.itemDefinition)
  let drgElements ← parseDrgElements uri n
  let imports ← Res.lift (parseImports n)
  let dmndi ← Res.lift (parseDmndi n)
  pure ⟨name, optionalAttribute n A.id, optionalChildOptionalContent n N.description,
    optionalAttribute n A.label, ns, optionalAttribute n A.expressionLanguage,
    optionalAttribute n A.typeLanguage, optionalAttribute n A.exporter,
    optionalAttribute n A.exporterVersion, itemDefinitions, drgElements, imports, dmndi⟩

/-- parser.rs:149-160 after `roxmltree::Document::parse` succeeded; `root` is
`document.root_element()`. -/
def parse (uri : Str → UriOut) (root : XNode) : Res Definitions :=
  let n := annotate root
  if n.name != N.definitions then .err (.xmlUnexpectedNode n.name)
  else parseDefinitions uri n

end Dmn.Xml
