import Dmn.Model.Outcome
import Dmn.Model.Bifs
import Dmn.Model.Temporal

/-!
# The machine-integer layer of the temporal code (C05, part (a))

`Dmn/Model/Temporal.lean` models the temporal *values* on unbounded `Int` (C14, C15).  This file
models what the same Rust statements do with their actual integer types — `i64` months, `i128`
nanoseconds, `u64`/`usize`/`isize`/`i32`/`u32` intermediate results — in both integer modes
(`IntMode.checked`: a build with overflow checks, `+ - * abs neg` panic when the exact result does
not fit; `IntMode.wrapping`: two's complement wrap-around).  `as` casts wrap in both modes,
`checked_*` operations return `None` in both modes, `x / k`, `x % k` with a positive constant `k`
cannot overflow.  Every operation returns an `Outcome`; `panic site` is the Rust source file of the
statement that panics.

Covered (statement by statement; line numbers of the tree with the repairs 80fdaec, e101009,
0e2cfe6 applied):

* `feel/src/temporal/ym_duration.rs`: `try_from(&str)` arithmetic (:107-:129), `years`, `months`
  (:66-:72), `abs` (:78), `Display` (:83-:97);
* `feel/src/temporal/dt_duration.rs`: `try_from(&str)` arithmetic (:192-:233), `nano`, `second`
  (:68-:76), `get_days` … `get_seconds` (:82-:96), `as_seconds` (:98), `abs` (:102), `Add`, `Sub`,
  `Neg` (:107-:129), `Display` (:131-:180);
* `feel/src/temporal/mod.rs`: `fraction_to_nanoseconds` (:641-:648), `nanoseconds_to_string`
  (:625-:637), the `as u32` narrowing of the nanoseconds (:299, :492, :500, :519, :527, :546, :563),
  `get_zone_offset`'s `as i32` (:617);
* `feel/src/temporal/date.rs`: `ym_duration` (:194-:210), the fallback of `weekday` (:229-:236),
  the year negation of `try_from(&str)` (:68), `Display` (:55-:58);
* `feel/src/temporal/zone.rs`: `from_captures` arithmetic (:90-:107), `Display` (:56-:60);
* `feel-evaluator/src/builders.rs`: the temporal arms of `build_add` (:150-:167), `build_neg`
  (:1300-:1304), `build_sub` (:1665-:1686), the `time offset` property (:1517, :1539);
* `feel-evaluator/src/bifs/core.rs`: the offset of `time_4` (:1245-:1246).

chrono's panicking entry points that the code calls (`FixedOffset::east`, `mod.rs:584`) are in
`Dmn.Temporal.dateTimeOffset` (`DTO.panic`); they are restated here as `eastOffset`.
-/

namespace Dmn.TemporalMachine
open Dmn Dmn.Cal Dmn.Temporal

/-! ## Machine integer types -/

/-- A fixed-width integer type: least value, greatest value, number of values. -/
structure IntTy where
  lo : Int
  hi : Int
  modulus : Int
  deriving Repr, DecidableEq

def tI32 : IntTy := ⟨-2147483648, 2147483647, 4294967296⟩
def tU32 : IntTy := ⟨0, 4294967295, 4294967296⟩
def tI64 : IntTy := ⟨-9223372036854775808, 9223372036854775807, 18446744073709551616⟩
def tU64 : IntTy := ⟨0, 18446744073709551615, 18446744073709551616⟩
/-- `usize` / `isize` of the 64-bit targets. -/
def tUsize : IntTy := tU64
def tIsize : IntTy := tI64
def tI128 : IntTy :=
  ⟨-170141183460469231731687303715884105728, 170141183460469231731687303715884105727,
    340282366920938463463374607431768211456⟩

def IntTy.fits (t : IntTy) (x : Int) : Bool := decide (t.lo ≤ x) && decide (x ≤ t.hi)

/-- Two's complement reduction into the type (`as`, and `+ - *` without overflow checks). -/
def wrapTo (hi modulus x : Int) : Int :=
  let r := x % modulus
  if r > hi then r - modulus else r

def IntTy.wrap (t : IntTy) (x : Int) : Int := wrapTo t.hi t.modulus x

/-- An arithmetic operation (`+`, `-`, `*`, unary `-`, `abs`) whose exact result is `x`. -/
def IntTy.arith (t : IntTy) (m : IntMode) (x : Int) (site : String) : Outcome Int :=
  if t.lo ≤ x ∧ x ≤ t.hi then .ok x
  else
    match m with
    | .checked => .panic site
    | .wrapping => .ok (t.wrap x)

/-- `checked_add`, `checked_sub`, `checked_mul`, `checked_neg`: `None` in both modes. -/
def IntTy.checkedOp (t : IntTy) (x : Int) : Option Int := if t.lo ≤ x ∧ x ≤ t.hi then some x else none

def sYm : String := "feel/src/temporal/ym_duration.rs"
def sDt : String := "feel/src/temporal/dt_duration.rs"
def sDate : String := "feel/src/temporal/date.rs"
def sZone : String := "feel/src/temporal/zone.rs"
def sMod : String := "feel/src/temporal/mod.rs"
def sBuilders : String := "feel-evaluator/src/builders.rs"

/-! ## Years and months durations (`i64` months) -/

/-- The arithmetic of `FeelYearsAndMonthsDuration::try_from(&str)` (`ym_duration.rs:107-129`) on
the captured components, already parsed (`parse::<i64>()`: `0 … i64::MAX`, `none` = no such
component): `years.checked_mul(12)`, `total.checked_add(months)` (`none` = the literal is an
error), then `total_months = -total_months` when the sign is there. -/
def ymCombine (m : IntMode) (years months : Option Int) (neg : Bool) : Outcome (Option Int) :=
  let afterYears : Option Int :=
    match years with
    | some y => tI64.checkedOp (y * 12)
    | none => some 0
  match afterYears with
  | none => .ok none
  | some t =>
    let afterMonths : Option Int :=
      match months with
      | some mo => tI64.checkedOp (t + mo)
      | none => some t
    match afterMonths with
    | none => .ok none
    | some t =>
      if neg then (tI64.arith m (-t) sYm).map some else .ok (some t)

/-- `build_add`, both operands years and months durations (`builders.rs:157-167`, since the repair
80fdaec): `lh.as_months().checked_add(rh.as_months())`, `None` is null. -/
def ymAdd (a b : Int) : Outcome (Option Int) := .ok (tI64.checkedOp (a + b))

/-- `build_sub` (`builders.rs:1678-1685`, since the repair 80fdaec). -/
def ymSub (a b : Int) : Outcome (Option Int) := .ok (tI64.checkedOp (a - b))

/-- `build_neg` (`builders.rs:1301-1304`, since the repair 80fdaec). -/
def ymNeg (a : Int) : Outcome (Option Int) := .ok (tI64.checkedOp (-a))

/-- `years()` (`ym_duration.rs:66`): `self.0 / 12`, truncating; no overflow for a positive divisor. -/
def ymYears (n : Int) : Outcome Int := .ok (Int.tdiv n 12)

/-- `months()` (`ym_duration.rs:70`): `self.0 % 12`. -/
def ymMonths (n : Int) : Outcome Int := .ok (Int.tmod n 12)

/-- `abs()` (`ym_duration.rs:78`): `self.0.abs()` — no caller in the evaluator. -/
def ymAbs (m : IntMode) (n : Int) : Outcome Int := tI64.arith m (if n < 0 then -n else n) sYm

/-- `Display` (`ym_duration.rs:83-97`, since the repair e101009): `self.0.unsigned_abs()` is a
`u64`, `month / 12` and `month -= year * 12` stay within it. -/
def ymPrint (m : IntMode) (n : Int) : Outcome (List Char) :=
  let month : Int := n.natAbs            -- `unsigned_abs`: exact, `≤ 2^63`
  let year := month / 12
  (tU64.arith m (year * 12) sYm).bind fun p =>
  (tU64.arith m (month - p) sYm).bind fun month' =>
  let sign : List Char := if n < 0 then ['-'] else []
  .ok (if year = 0 ∧ month' = 0 then ['P', '0', 'M']
       else sign ++ 'P' :: (compStr year.toNat 'Y' ++ compStr month'.toNat 'M'))

/-! ## Days and time durations (`i128` nanoseconds) -/

/-- `nanoseconds += (x as i128) * NANOSECONDS_IN_…` for a captured component. -/
def dtStep (m : IntMode) (acc : Int) (c : Option Int) (unit : Int) : Outcome Int :=
  match c with
  | some v => (tI128.arith m (v * unit) sDt).bind fun p => tI128.arith m (acc + p) sDt
  | none => .ok acc

/-- The arithmetic of `FeelDaysAndTimeDuration::try_from(&str)` (`dt_duration.rs:192-233`) on the
captured components already parsed (`parse::<u64>()`; `fraction_to_nanoseconds` for the
fraction): `nanoseconds += (x as i128) * NANOSECONDS_IN_…`, then the negation. -/
def dtCombine (m : IntMode) (days hours minutes seconds frac : Option Int) (neg : Bool) : Outcome Int :=
  (dtStep m 0 days nsPerDay).bind fun n =>
  (dtStep m n hours nsPerHour).bind fun n =>
  (dtStep m n minutes nsPerMinute).bind fun n =>
  (dtStep m n seconds nsPerSecond).bind fun n =>
  (match frac with
   | some f => tI128.arith m (n + f) sDt
   | none => .ok n).bind fun n =>
  if neg then tI128.arith m (-n) sDt else .ok n

/-- `fraction_to_nanoseconds` (`mod.rs:641-648`): nine rounds of `nanos = nanos * 10 + digit` in
`u64`; `ds` are the values of the digits after the point (missing ones count as 0). -/
def fractionToNanos (m : IntMode) (ds : List Nat) : Outcome Int :=
  let rec go : Nat → List Nat → Int → Outcome Int
    | 0, _, acc => .ok acc
    | k + 1, ds, acc =>
      (tU64.arith m (acc * 10) sMod).bind fun p =>
      (tU64.arith m (p + (ds.headD 0 : Nat)) sMod).bind fun acc' => go k ds.tail acc'
  go 9 ds 0

/-- `impl Add` (`dt_duration.rs:107-113`): `Self(self.0 + rhs.0)` — `build_add`,
`builders.rs:150-156` (`lh + rh`, :152). -/
def dtdAdd (m : IntMode) (a b : Int) : Outcome Int := tI128.arith m (a + b) sDt

/-- `impl Sub` (`dt_duration.rs:115-121`) — `build_sub`, `builders.rs:1672-1676`. -/
def dtdSub (m : IntMode) (a b : Int) : Outcome Int := tI128.arith m (a - b) sDt

/-- `impl Neg` (`dt_duration.rs:123-129`) — `build_neg`, `builders.rs:1300`. -/
def dtdNeg (m : IntMode) (a : Int) : Outcome Int := tI128.arith m (-a) sDt

/-- `i128::abs`. -/
def i128Abs (m : IntMode) (n : Int) : Outcome Int := tI128.arith m (if n < 0 then -n else n) sDt

/-- `get_days` (`dt_duration.rs:82`): `(self.0.abs() / NANOSECONDS_IN_DAY) as usize`. -/
def dtdGetDays (m : IntMode) (n : Int) : Outcome Int :=
  (i128Abs m n).bind fun a => .ok (tUsize.wrap (Int.tdiv a nsPerDay))

/-- `get_hours` (`dt_duration.rs:86`). -/
def dtdGetHours (m : IntMode) (n : Int) : Outcome Int :=
  (i128Abs m n).bind fun a => .ok (tUsize.wrap (Int.tdiv (Int.tmod a nsPerDay) nsPerHour))

/-- `get_minutes` (`dt_duration.rs:90`). -/
def dtdGetMinutes (m : IntMode) (n : Int) : Outcome Int :=
  (i128Abs m n).bind fun a =>
    .ok (tUsize.wrap (Int.tdiv (Int.tmod (Int.tmod a nsPerDay) nsPerHour) nsPerMinute))

/-- `get_seconds` (`dt_duration.rs:94`). -/
def dtdGetSeconds (m : IntMode) (n : Int) : Outcome Int :=
  (i128Abs m n).bind fun a =>
    .ok (tUsize.wrap (Int.tdiv (Int.tmod (Int.tmod (Int.tmod a nsPerDay) nsPerHour) nsPerMinute) nsPerSecond))

/-- `as_seconds` (`dt_duration.rs:98`): `(self.0 / NANOSECONDS_IN_SECOND) as isize`. -/
def dtdAsSeconds (n : Int) : Int := tIsize.wrap (Int.tdiv n nsPerSecond)

/-- The offset of `time_4` (`core.rs:1245-1246`): the guard `(-53_999..=53_999).contains(&duration.as_seconds())`
and then `duration.as_seconds() as i32`; `none` = the guard fails (the result is null). -/
def time4Offset (n : Int) : Option Int :=
  let s := dtdAsSeconds n
  if -53999 ≤ s ∧ s ≤ 53999 then some (tI32.wrap s) else none

/-- `second(sec)` on the zero duration (`dt_duration.rs:73`): `self.0 += sec as i128 * NANOSECONDS_IN_SECOND` —
the `time offset` property (`builders.rs:1517, 1539`: `.second(offset as i64)`). -/
def dtdOfSeconds (m : IntMode) (sec : Int) : Outcome Int :=
  (tI128.arith m (sec * nsPerSecond) sDt).bind fun p => tI128.arith m (0 + p) sDt

/-- `nano(a)` on the zero duration (`dt_duration.rs:68`) — the difference of two date-times
(`builders.rs:1666-1670`), `a : i64`. -/
def dtdOfNanos (m : IntMode) (a : Int) : Outcome Int := tI128.arith m (0 + a) sDt

/-- One round of `Display`: `x = nanoseconds / UNIT; nanoseconds -= x * UNIT`. -/
def dtdRound (m : IntMode) (ns unit : Int) : Outcome (Int × Int) :=
  let x := Int.tdiv ns unit
  (tI128.arith m (x * unit) sDt).bind fun p =>
  (tI128.arith m (ns - p) sDt).bind fun r => .ok (x, r)

/-- `Display` (`dt_duration.rs:131-180`): `self.0.abs()`, four rounds of `x = nanoseconds / UNIT;
nanoseconds -= x * UNIT`, then the 32-arm `match` on which components are positive, written as
in `Dmn.Temporal.printDtDur`: a component appears when positive (`toNat` of a component that is
not positive is 0, and such a component is not printed; `nanoseconds as u64` is used only when
`nanoseconds > 0`), `T` when any time component does, seconds as `s`, `s.f` or `0.f`. -/
def dtdPrint (m : IntMode) (n : Int) : Outcome (List Char) :=
  (i128Abs m n).bind fun ns =>
  (dtdRound m ns nsPerDay).bind fun r1 =>
  (dtdRound m r1.2 nsPerHour).bind fun r2 =>
  (dtdRound m r2.2 nsPerMinute).bind fun r3 =>
  (dtdRound m r3.2 nsPerSecond).bind fun r4 =>
  let day := r1.1.toNat
  let hour := r2.1.toNat
  let minute := r3.1.toNat
  let second := r4.1.toNat
  let nanos := r4.2.toNat
  let sign : List Char := if n < 0 then ['-'] else []
  .ok (if day = 0 ∧ hour = 0 ∧ minute = 0 ∧ second = 0 ∧ nanos = 0 then ['P', 'T', '0', 'S']
       else sign ++ 'P' :: (compStr day 'D' ++
         (if hour > 0 ∨ minute > 0 ∨ second > 0 ∨ nanos > 0 then
            'T' :: (compStr hour 'H' ++ (compStr minute 'M' ++ secStr second nanos))
          else [])))

/-- The statements of `Display` with the value narrowed to `u64` first
(`let mut nanoseconds = self.0.unsigned_abs() as u64;`, then `/` and `%=` by the `u64` copies of the
units): NOT what the code does — the seeded change C14-19, kept as the mutant against which
`Dmn.C14.display_needs_i128` states that the 128-bit arithmetic of `dtdPrint` is needed. `/` and `%`
cannot overflow, so there is one mode. -/
def dtdPrintU64 (n : Int) : List Char :=
  let a := (tU64.wrap (n.natAbs : Int)).toNat
  let day := a / 86400000000000
  let hour := (a % 86400000000000) / 3600000000000
  let minute := (a % 3600000000000) / 60000000000
  let second := (a % 60000000000) / 1000000000
  let nanos := a % 1000000000
  let sign : List Char := if n < 0 then ['-'] else []
  if day = 0 ∧ hour = 0 ∧ minute = 0 ∧ second = 0 ∧ nanos = 0 then ['P', 'T', '0', 'S']
  else sign ++ 'P' :: (compStr day 'D' ++
    (if hour > 0 ∨ minute > 0 ∨ second > 0 ∨ nanos > 0 then
       'T' :: (compStr hour 'H' ++ (compStr minute 'M' ++ secStr second nanos))
     else []))

/-! ## Dates (`i32` year, `u8` month and day) -/

/-- `FeelDate::ym_duration` (`date.rs:194-210`): `i64` arithmetic on the widened fields; `self` is
the *to* date. -/
def dateYmDuration (m : IntMode) (self other : Date) : Outcome Int :=
  let diff (a b : Date) (dropOne : Bool) : Outcome Int :=
    (tI64.arith m (a.y - b.y) sDate).bind fun dy =>
    (tI64.arith m (12 * dy) sDate).bind fun my =>
    (tI64.arith m ((a.m : Int) - (b.m : Int)) sDate).bind fun dm =>
    (tI64.arith m (my + dm) sDate).bind fun months =>
    if dropOne then tI64.arith m (months - 1) sDate else .ok months
  if self.compare other = .lt then
    (diff other self (decide (self.d > other.d))).bind fun months => tI64.arith m (months * (-1)) sDate
  else diff self other (decide (other.d > self.d))

/-- The fallback of `FeelDate::weekday` (`date.rs:227-236`), for a year chrono does not know. -/
def dateWeekdayFallback (m : IntMode) (d : Date) : Outcome Int :=
  let month : Int := d.m
  let day : Int := d.d
  (if month ≤ 2 then tI64.arith m (d.y - 1) sDate else .ok d.y).bind fun year =>
  let era := year / 400                  -- `div_euclid`
  let yoe := year % 400                  -- `rem_euclid`
  (if month > 2 then tI64.arith m (month - 3) sDate else tI64.arith m (month + 9) sDate).bind fun mp =>
  (tI64.arith m (153 * mp) sDate).bind fun a =>
  (tI64.arith m (a + 2) sDate).bind fun a =>
  (tI64.arith m (Int.tdiv a 5 + day) sDate).bind fun a =>
  (tI64.arith m (a - 1) sDate).bind fun doy =>
  (tI64.arith m (yoe * 365) sDate).bind fun b =>
  (tI64.arith m (b + Int.tdiv yoe 4) sDate).bind fun b =>
  (tI64.arith m (b - Int.tdiv yoe 100) sDate).bind fun b =>
  (tI64.arith m (b + doy) sDate).bind fun doe =>
  (tI64.arith m (era * 146097) sDate).bind fun c =>
  (tI64.arith m (c + doe) sDate).bind fun c =>
  (tI64.arith m (c - 719468) sDate).bind fun days =>
  (tI64.arith m (days + 3) sDate).bind fun e =>
  (tI64.arith m (e % 7 + 1) sDate).bind fun w => .ok (tU32.wrap w)

/-- `year = -year` of `FeelDate::try_from(&str)` / `FeelDateTime::try_from(&str)` (`date.rs:68`,
`mod.rs:234`): `i32`, the year text has at most nine digits. -/
def dateNegYear (m : IntMode) (y : Int) : Outcome Int := tI32.arith m (-y) sDate

/-! ## Zones (`i32` seconds) -/

/-- `FeelZone::from_captures`, the arithmetic of the offset form (`zone.rs:90-107`): two-digit
fields; `none` = `None` is returned. -/
def zoneOffset (m : IntMode) (negative : Bool) (hours minutes : Int) (seconds : Option Int) : Outcome (Option Int) :=
  (tI32.arith m (3600 * hours) sZone).bind fun a =>
  (tI32.arith m (60 * minutes) sZone).bind fun b =>
  (tI32.arith m (a + b) sZone).bind fun offset =>
  let withSeconds : Outcome (Option Int) :=
    match seconds with
    | some s => if s > 59 then .ok none else (tI32.arith m (offset + s) sZone).map some
    | none => .ok (some offset)
  withSeconds.bind fun o =>
    match o with
    | none => .ok none
    | some offset =>
      (if negative then tI32.arith m (-offset) sZone else .ok offset).bind fun offset =>
      .ok (if hours > 14 ∨ minutes > 59 then none else some offset)

/-- `Display for FeelZone::Offset` (`zone.rs:56-60`): `offset.abs()` in `i32`, three times. -/
def zoneAbs (m : IntMode) (offset : Int) : Outcome Int := tI32.arith m (if offset < 0 then -offset else offset) sZone

/-- `FixedOffset::east(offset)` (`mod.rs:584`): chrono panics unless the offset is strictly within
a day. -/
def eastOffset (offset : Int) : Outcome Int :=
  if -86400 < offset ∧ offset < 86400 then .ok offset else .panic sMod

/-- `(value.1).3 as u32` (`mod.rs:299` and the five sibling sites): `u64` nanoseconds narrowed. -/
def nanosAsU32 (ns : Int) : Int := tU32.wrap ns

/-! ## FEEL-level operations, as the correspondence asks for them -/

/-- A temporal operation on machine integers. -/
inductive Op where
  | ymAdd (a b : Int) | ymSub (a b : Int) | ymNeg (a : Int)
  | ymYears (a : Int) | ymMonths (a : Int) | ymPrint (a : Int)
  | dtdAdd (a b : Int) | dtdSub (a b : Int) | dtdNeg (a : Int)
  | dtdDays (a : Int) | dtdHours (a : Int) | dtdMinutes (a : Int) | dtdSeconds (a : Int)
  | dtdPrint (a : Int)
  | time4Offset (a : Int)
  | ymLit (years months : Option Int) (neg : Bool)
  | dtLit (days hours minutes seconds frac : Option Int) (neg : Bool)
  | dateYm (self other : Date)
  | dateWeekday (d : Date)
  deriving Repr

/-- What a FEEL expression made of the operation evaluates to. -/
inductive Res where
  | null
  | int (n : Int)          -- a number, or the months / nanoseconds of a duration
  | text (cs : List Char)
  deriving Repr, DecidableEq

def optRes : Option Int → Res
  | some n => .int n
  | none => .null

/-- The operation, statement by statement. -/
def run (m : IntMode) : Op → Outcome Res
  | .ymAdd a b => (ymAdd a b).map optRes
  | .ymSub a b => (ymSub a b).map optRes
  | .ymNeg a => (ymNeg a).map optRes
  | .ymYears a => (ymYears a).map .int
  | .ymMonths a => (ymMonths a).map .int
  | .ymPrint a => (ymPrint m a).map .text
  | .dtdAdd a b => (dtdAdd m a b).map .int
  | .dtdSub a b => (dtdSub m a b).map .int
  | .dtdNeg a => (dtdNeg m a).map .int
  | .dtdDays a => (dtdGetDays m a).map .int
  | .dtdHours a => (dtdGetHours m a).map .int
  | .dtdMinutes a => (dtdGetMinutes m a).map .int
  | .dtdSeconds a => (dtdGetSeconds m a).map .int
  | .dtdPrint a => (dtdPrint m a).map .text
  | .time4Offset a => .ok (optRes (time4Offset a))
  | .ymLit y mo neg => (ymCombine m y mo neg).map optRes
  | .dtLit d h mi s f neg => (dtCombine m d h mi s f neg).map .int
  | .dateYm a b => (dateYmDuration m a b).map .int
  | .dateWeekday d => (dateWeekdayFallback m d).map .int

/-- The operands are values of the Rust types: `i64` months, `i128` nanoseconds, components that
`parse::<i64>()` / `parse::<u64>()` / `fraction_to_nanoseconds` can return, `i32` years and `u8`
months and days. -/
def Op.wellTyped : Op → Bool
  | .ymAdd a b | .ymSub a b => tI64.fits a && tI64.fits b
  | .ymNeg a | .ymYears a | .ymMonths a | .ymPrint a => tI64.fits a
  | .dtdAdd a b | .dtdSub a b => tI128.fits a && tI128.fits b
  | .dtdNeg a | .dtdDays a | .dtdHours a | .dtdMinutes a | .dtdSeconds a | .dtdPrint a
  | .time4Offset a => tI128.fits a
  | .ymLit y mo _ =>
    let ok : Option Int → Bool := fun c => match c with
      | some v => decide (0 ≤ v) && tI64.fits v
      | none => true
    ok y && ok mo
  | .dtLit d h mi s f _ =>
    let ok : Option Int → Bool := fun c => match c with
      | some v => tU64.fits v
      | none => true
    ok d && ok h && ok mi && ok s &&
      (match f with
       | some v => decide (0 ≤ v) && decide (v < 1000000000)
       | none => true)
  | .dateYm a b =>
    tI32.fits a.y && tI32.fits b.y && decide (a.m < 256) && decide (a.d < 256) && decide (b.m < 256) &&
      decide (b.d < 256)
  | .dateWeekday d => tI32.fits d.y && decide (d.m < 256) && decide (d.d < 256)

/-- The operations whose arithmetic is done in `i128` without a check: the sum, the difference
and the negation of days and time durations, and everything that takes `self.0.abs()`
(finding F62-dtd-i128). -/
def Op.i128Exact : Op → Bool
  | .dtdAdd a b => tI128.fits (a + b)
  | .dtdSub a b => tI128.fits (a - b)
  | .dtdNeg a | .dtdDays a | .dtdHours a | .dtdMinutes a | .dtdSeconds a | .dtdPrint a => decide (a ≠ tI128.lo)
  | _ => true

end Dmn.TemporalMachine
