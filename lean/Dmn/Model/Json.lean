/-!
# JSON: values, an RFC 8259 decoder, and the model of `jsonify`

* `Json` — JSON values (RFC 8259 §3): `null`, `false`/`true`, number (kept as its lexeme,
  §6), string (§7, a sequence of Unicode scalar values), array (§5), object (§4, members in
  document order).
* `Json.decode : List Char → Option Json` — a strict recogniser/decoder written from the
  RFC grammar (`JSON-text = ws value ws`).  It works on Unicode scalar values: the UTF-8
  layer (§8.1) is outside the model (a Rust `String` is valid UTF-8 by construction).
  Anything the grammar does not derive is rejected (`none`), including control characters
  inside strings, unknown escapes, lone surrogates in `\u` escapes (§8.2 calls the behaviour
  "unpredictable"; a Lean `Char` cannot hold a surrogate, so they are rejected), leading
  zeros, trailing text.
* `JV` — the value kinds the service renders, `jsonify` — what `Value::jsonify` and
  `json_escape` (`feel/src/values.rs:274-308`, `:503-508`), `FeelContext::jsonify`
  (`feel/src/context.rs:119-133`) and `FeelNumber::jsonify` (`feel-number/src/number.rs:364`)
  do, character by character: strings and context keys are escaped, kinds without a JSON
  form are written as the (escaped) string of their `Display` text.

Text is `List Char` throughout so that everything reduces in the kernel.
-/

namespace Dmn.Json

inductive Json where
  | null
  | bool (b : Bool)
  /-- a number, represented by its lexeme (`-12.50`, `1e3`) -/
  | num (lexeme : List Char)
  | str (s : List Char)
  | arr (xs : List Json)
  | obj (members : List (List Char × Json))
  deriving Repr, Inhabited

/-! ## Lexical level -/

/-- RFC 8259 §2: `ws = *( %x20 / %x09 / %x0A / %x0D )`. -/
def isWs (c : Char) : Bool := c == ' ' || c == '\t' || c == '\n' || c == '\r'

def skipWs : List Char → List Char
  | [] => []
  | c :: cs => if isWs c then skipWs cs else c :: cs

def isDigit (c : Char) : Bool := 48 ≤ c.toNat && c.toNat ≤ 57

/-- The rest of a literal name (`true`, `false`, `null`, §3). -/
def stripPrefix : List Char → List Char → Option (List Char)
  | [], cs => some cs
  | _ :: _, [] => none
  | a :: p, c :: cs => if a == c then stripPrefix p cs else none

/-! ### Numbers (§6): `number = [ minus ] int [ frac ] [ exp ]` as a finite automaton -/

inductive NSt where
  | start   -- nothing read
  | minus   -- `-`
  | zero    -- int = `0`
  | int     -- int = digit1-9 *DIGIT
  | dot     -- `.` read, a digit must follow
  | frac    -- `.` 1*DIGIT
  | e       -- `e`/`E` read
  | esign   -- `e` and a sign read, a digit must follow
  | exp     -- e [sign] 1*DIGIT
  deriving DecidableEq, Repr

def NSt.accepting : NSt → Bool
  | .zero | .int | .frac | .exp => true
  | _ => false

def isE (c : Char) : Bool := c == 'e' || c == 'E'

def nstep : NSt → Char → Option NSt
  | .start, c => if c == '-' then some .minus else if c == '0' then some .zero else if isDigit c then some .int else none
  | .minus, c => if c == '0' then some .zero else if isDigit c then some .int else none
  | .zero, c => if c == '.' then some .dot else if isE c then some .e else none
  | .int, c => if isDigit c then some .int else if c == '.' then some .dot else if isE c then some .e else none
  | .dot, c => if isDigit c then some .frac else none
  | .frac, c => if isDigit c then some .frac else if isE c then some .e else none
  | .e, c => if c == '+' || c == '-' then some .esign else if isDigit c then some .exp else none
  | .esign, c => if isDigit c then some .exp else none
  | .exp, c => if isDigit c then some .exp else none

/-- Longest match: runs the automaton as long as it can step; succeeds iff it stops in an
accepting state.  Returns the lexeme and the remaining input. -/
def scanFrom (st : NSt) : List Char → Option (List Char × List Char)
  | [] => if st.accepting then some ([], []) else none
  | c :: cs =>
    match nstep st c with
    | some st' =>
      match scanFrom st' cs with
      | some (l, r) => some (c :: l, r)
      | none => none
    | none => if st.accepting then some ([], c :: cs) else none

def scanNumber (cs : List Char) : Option (List Char × List Char) := scanFrom .start cs

/-- The whole text is one number of the grammar. -/
def accepts (st : NSt) : List Char → Bool
  | [] => st.accepting
  | c :: cs =>
    match nstep st c with
    | some st' => accepts st' cs
    | none => false

def isNumber (t : List Char) : Bool := accepts .start t

/-! ### Strings (§7) -/

def hexVal (c : Char) : Option Nat :=
  let n := c.toNat
  if 48 ≤ n && n ≤ 57 then some (n - 48)
  else if 97 ≤ n && n ≤ 102 then some (n - 87)
  else if 65 ≤ n && n ≤ 70 then some (n - 55)
  else none

def hex4 (a b c d : Char) : Option Nat :=
  match hexVal a, hexVal b, hexVal c, hexVal d with
  | some a, some b, some c, some d => some (((a * 16 + b) * 16 + c) * 16 + d)
  | _, _, _, _ => none

/-- §7: `\" \\ \/ \b \f \n \r \t`. -/
def simpleEscape (e : Char) : Option Char :=
  if e == '"' then some '"'
  else if e == '\\' then some '\\'
  else if e == '/' then some '/'
  else if e == 'b' then some (Char.ofNat 8)
  else if e == 'f' then some (Char.ofNat 12)
  else if e == 'n' then some (Char.ofNat 10)
  else if e == 'r' then some (Char.ofNat 13)
  else if e == 't' then some (Char.ofNat 9)
  else none

def consFst (c : Char) : Option (List Char × List Char) → Option (List Char × List Char)
  | some (s, r) => some (c :: s, r)
  | none => none

/-- The characters after the opening quotation mark up to and including the closing one.
`unescaped = %x20-21 / %x23-5B / %x5D-10FFFF`. -/
def parseString : List Char → Option (List Char × List Char)
  | [] => none
  | c :: cs =>
    if c == '"' then some ([], cs)
    else if c == '\\' then
      match cs with
      | [] => none
      | e :: cs1 =>
        if e == 'u' then
          match cs1 with
          | h1 :: h2 :: h3 :: h4 :: r =>
            match hex4 h1 h2 h3 h4 with
            | none => none
            | some u =>
              if 0xD800 ≤ u && u < 0xDC00 then
                -- a high surrogate must be followed by `\u` + low surrogate (§7)
                match r with
                | b :: u' :: l1 :: l2 :: l3 :: l4 :: r' =>
                  if b == '\\' && u' == 'u' then
                    match hex4 l1 l2 l3 l4 with
                    | none => none
                    | some lo =>
                      if 0xDC00 ≤ lo && lo < 0xE000 then
                        consFst (Char.ofNat (0x10000 + (u - 0xD800) * 0x400 + (lo - 0xDC00))) (parseString r')
                      else none
                  else none
                | _ => none
              else if 0xDC00 ≤ u && u < 0xE000 then none
              else consFst (Char.ofNat u) (parseString r)
          | _ => none
        else
          match simpleEscape e with
          | none => none
          | some ch => consFst ch (parseString cs1)
    else if c.toNat < 0x20 then none
    else consFst c (parseString cs)

/-! ## Values (§3–§5), with fuel (one unit per nested call; `decode` supplies enough) -/

mutual

/-- `value` at the head of the input (no leading whitespace). -/
def parseValue : Nat → List Char → Option (Json × List Char)
  | 0, _ => none
  | fuel + 1, cs =>
    match cs with
    | [] => none
    | c :: r =>
      if c == '"' then
        match parseString r with
        | some (s, rest) => some (.str s, rest)
        | none => none
      else if c == '[' then
        match skipWs r with
        | [] => none
        | d :: r' =>
          if d == ']' then some (.arr [], r')
          else
            match parseElems fuel (d :: r') with
            | some (xs, rest) => some (.arr xs, rest)
            | none => none
      else if c == '{' then
        match skipWs r with
        | [] => none
        | d :: r' =>
          if d == '}' then some (.obj [], r')
          else
            match parseMembers fuel (d :: r') with
            | some (ms, rest) => some (.obj ms, rest)
            | none => none
      else if c == 't' then
        match stripPrefix ['r', 'u', 'e'] r with
        | some rest => some (.bool true, rest)
        | none => none
      else if c == 'f' then
        match stripPrefix ['a', 'l', 's', 'e'] r with
        | some rest => some (.bool false, rest)
        | none => none
      else if c == 'n' then
        match stripPrefix ['u', 'l', 'l'] r with
        | some rest => some (.null, rest)
        | none => none
      else
        match scanNumber (c :: r) with
        | some (l, rest) => some (.num l, rest)
        | none => none

/-- `value *( ws , ws value ) ws ]` (the input starts at a value). -/
def parseElems : Nat → List Char → Option (List Json × List Char)
  | 0, _ => none
  | fuel + 1, cs =>
    match parseValue fuel cs with
    | none => none
    | some (v, rest) =>
      match skipWs rest with
      | [] => none
      | d :: rest' =>
        if d == ',' then
          match parseElems fuel (skipWs rest') with
          | some (xs, r) => some (v :: xs, r)
          | none => none
        else if d == ']' then some ([v], rest')
        else none

/-- `member *( ws , ws member ) ws }` with `member = string ws : ws value`. -/
def parseMembers : Nat → List Char → Option (List (List Char × Json) × List Char)
  | 0, _ => none
  | fuel + 1, cs =>
    match cs with
    | [] => none
    | q :: r =>
      if q == '"' then
        match parseString r with
        | none => none
        | some (k, r1) =>
          match skipWs r1 with
          | [] => none
          | col :: r2 =>
            if col == ':' then
              match parseValue fuel (skipWs r2) with
              | none => none
              | some (v, r3) =>
                match skipWs r3 with
                | [] => none
                | d :: r4 =>
                  if d == ',' then
                    match parseMembers fuel (skipWs r4) with
                    | some (ms, rest) => some ((k, v) :: ms, rest)
                    | none => none
                  else if d == '}' then some ([(k, v)], r4)
                  else none
            else none
      else none

end

/-- `JSON-text = ws value ws` (§2).  Every nested call consumes at least one character per
two units of fuel, so `2 * length + 2` never runs out on a text of the grammar. -/
def decode (cs : List Char) : Option Json :=
  match parseValue (2 * cs.length + 2) (skipWs cs) with
  | some (v, rest) =>
    match skipWs rest with
    | [] => some v
    | _ :: _ => none
  | none => none

/-! ## The rendered value kinds and `jsonify` as the code does it -/

/-- What `Value::jsonify` distinguishes: the six JSON-able kinds, and every other kind
(temporal values, ranges, functions, …), for which only the `Display` text matters. -/
inductive JV where
  | null
  | bool (b : Bool)
  /-- `FeelNumber::jsonify` = the plain decimal text of the number (C07) -/
  | num (text : List Char)
  /-- a number that is not finite (±Infinity, NaN; C02 F7): `FeelNumber::jsonify` writes `null`
  (feel-number/src/number.rs, `dec_is_finite`), JSON has no text for it -/
  | nonFinite
  | str (s : List Char)
  | list (xs : List JV)
  /-- entries in `BTreeMap` order; keys are `Name`s rendered with `Display` -/
  | ctx (es : List (List Char × JV))
  /-- `_ => format!("\"{}\"", json_escape(&self.to_string()))`; `display` = `self.to_string()` -/
  | other (display : List Char)
  deriving Repr, Inhabited

/-! ## `json_escape` and `jsonify` -/

def hexDigit (n : Nat) : Char := if n < 10 then Char.ofNat (48 + n) else Char.ofNat (87 + n)

/-- `json_escape` (`values.rs:292-308`), one character: the two characters that must be
escaped (§7), the short forms, and `\u00XX` (`{:04x}`) for the remaining control characters.
(This is also what `serde_json` emits.) -/
def escapeChar (c : Char) : List Char :=
  if c == '"' then ['\\', '"']
  else if c == '\\' then ['\\', '\\']
  else if c == Char.ofNat 8 then ['\\', 'b']
  else if c == Char.ofNat 9 then ['\\', 't']
  else if c == Char.ofNat 10 then ['\\', 'n']
  else if c == Char.ofNat 12 then ['\\', 'f']
  else if c == Char.ofNat 13 then ['\\', 'r']
  else if c.toNat < 0x20 then ['\\', 'u', '0', '0', hexDigit (c.toNat / 16), hexDigit (c.toNat % 16)]
  else [c]

def escape : List Char → List Char
  | [] => []
  | c :: cs => escapeChar c ++ escape cs

/-- `"` escaped text `"` -/
def quote (s : List Char) : List Char := '"' :: (escape s ++ ['"'])

mutual

/-- `impl Jsonify for Value` (`values.rs:274-289`). -/
def jsonify : JV → List Char
  | .null => ['n', 'u', 'l', 'l']                       -- Value::Null(_) => "null"
  | .bool true => ['t', 'r', 'u', 'e']                  -- format!("{}", value)
  | .bool false => ['f', 'a', 'l', 's', 'e']
  | .num t => t                                          -- value.jsonify()
  | .nonFinite => ['n', 'u', 'l', 'l']                   -- value.jsonify(): not finite => "null"
  | .str s => quote s                                    -- format!("\"{}\"", json_escape(s))
  | .list xs => '[' :: (jsonifyItems xs ++ [']'])        -- format!("[{}]", … .join(", "))
  | .ctx es => '{' :: (jsonifyEntries es ++ ['}'])       -- format!("{{{}}}", … .join(", "))
  | .other d => quote d                                  -- format!("\"{}\"", json_escape(&self.to_string()))

/-- `.map(|value| value.jsonify()).collect::<Vec<String>>().join(", ")` (`values.rs:503-508`) -/
def jsonifyItems : List JV → List Char
  | [] => []
  | x :: xs => jsonify x ++ jsonifyMore xs

def jsonifyMore : List JV → List Char
  | [] => []
  | x :: xs => ',' :: ' ' :: (jsonify x ++ jsonifyMore xs)

/-- `.map(|(name, value)| format!(r#""{}": {}"#, json_escape(&name.to_string()), value.jsonify()))
… .join(", ")` (`context.rs:119-133`) -/
def jsonifyEntries : List (List Char × JV) → List Char
  | [] => []
  | (k, v) :: es => quote k ++ ':' :: ' ' :: (jsonify v ++ jsonifyMoreEntries es)

def jsonifyMoreEntries : List (List Char × JV) → List Char
  | [] => []
  | (k, v) :: es => ',' :: ' ' :: (quote k ++ ':' :: ' ' :: (jsonify v ++ jsonifyMoreEntries es))

end

/-! ## The JSON value a rendered value stands for -/

mutual

/-- Kinds without a JSON form stand for the string of their FEEL text. -/
def toJson : JV → Json
  | .null => .null
  | .bool b => .bool b
  | .num t => .num t
  | .nonFinite => .null
  | .str s => .str s
  | .list xs => .arr (toJsonList xs)
  | .ctx es => .obj (toJsonEntries es)
  | .other d => .str d

def toJsonList : List JV → List Json
  | [] => []
  | x :: xs => toJson x :: toJsonList xs

def toJsonEntries : List (List Char × JV) → List (List Char × Json)
  | [] => []
  | (k, v) :: es => (k, toJson v) :: toJsonEntries es

end

/-! ## Decidable side conditions -/

mutual

/-- Every number text is a number of the JSON grammar (what C07 says of `FeelNumber`'s
plain decimal text for finite numbers). -/
def numbersOk : JV → Bool
  | .num t => isNumber t
  | .list xs => numbersOkList xs
  | .ctx es => numbersOkEntries es
  | _ => true

def numbersOkList : List JV → Bool
  | [] => true
  | x :: xs => numbersOk x && numbersOkList xs

def numbersOkEntries : List (List Char × JV) → Bool
  | [] => true
  | (_, v) :: es => numbersOk v && numbersOkEntries es

end

/-! ## Response envelopes (`server.rs:297-313`, `ResultDto`) -/

/-- `format!("{{\"data\":{}}}", value.jsonify())` -/
def dataBody (v : JV) : List Char :=
  ['{', '"', 'd', 'a', 't', 'a', '"', ':'] ++ jsonify v ++ ['}']

/-- `ResultDto::error(reason).to_string()` = `{"errors":[{"details":"…"}]}` through
`serde_json` (which escapes as `escape` does). -/
def errorBody (msg : List Char) : List Char :=
  ['{', '"', 'e', 'r', 'r', 'o', 'r', 's', '"', ':', '[', '{', '"', 'd', 'e', 't', 'a', 'i', 'l', 's', '"', ':'] ++
    quote msg ++ ['}', ']', '}']

/-- `{"data":{"status":"…"}}` and `{"data":{"namespace":"…","name":"…"}}` through `serde_json`:
an object of string members in declaration order. -/
def stringMembers : List (List Char × List Char) → List Char
  | [] => []
  | [(k, v)] => quote k ++ ':' :: quote v
  | (k, v) :: m :: ms => quote k ++ ':' :: (quote v ++ ',' :: stringMembers (m :: ms))

def dataObjectBody (ms : List (List Char × List Char)) : List Char :=
  ['{', '"', 'd', 'a', 't', 'a', '"', ':', '{'] ++ stringMembers ms ++ ['}', '}']

end Dmn.Json
