import Dmn.Model.FType
import Dmn.Model.Coerce
import Dmn.Model.Num

/-!
# FEEL syntax trees and values (models of `feel/src/ast.rs`, `feel/src/values.rs`)

`Ast` has one constructor per `AstNode` variant, with the same name.  `Value` has the
observable variants plus the carrier variants the evaluator passes between nodes.
A context is an association list kept in `BTreeMap` order of its keys (strictly
increasing); the ordering invariant is the separate predicate `Ctx.WF`.
A function value carries its body as syntax: the code evaluates the body in the scope of
the *call* (`eval_function_definition` pushes the argument context on the current scope),
i.e. function values are dynamically scoped, and the model says so.
-/

namespace Dmn

inductive Ast where
  | add (a b : Ast) | and (a b : Ast) | at (text : String) | between (a b c : Ast)
  | boolean (b : Bool) | commaList (xs : List Ast) | context (es : List Ast)
  | contextEntry (k v : Ast) | contextEntryKey (n : String) | contextType (es : List Ast)
  | contextTypeEntry (k t : Ast) | contextTypeEntryKey (n : String) | div (a b : Ast)
  | eq (a b : Ast) | evaluatedExpression (a : Ast) | every (ctxs sat : Ast) | exp (a b : Ast)
  | expressionList (xs : List Ast) | feelType (t : FType) | filter (a b : Ast)
  | for (ctxs body : Ast) | formalParameter (n t : Ast) | formalParameters (ps : List Ast)
  | functionBody (body : Ast) (external : Bool) | functionDefinition (ps body : Ast)
  | functionInvocation (f args : Ast) | functionType (ps r : Ast) | ge (a b : Ast) | gt (a b : Ast)
  | if (c t e : Ast) | in (a b : Ast) | instanceOf (a t : Ast) | intervalEnd (a : Ast) (closed : Bool)
  | intervalStart (a : Ast) (closed : Bool) | irrelevant | iterationContexts (xs : List Ast)
  | iterationContextSingle (n e : Ast) | iterationContextRange (n lo hi : Ast) | le (a b : Ast)
  | lt (a b : Ast) | list (xs : List Ast) | listType (t : Ast) | mul (a b : Ast) | name (n : String)
  | namedParameter (n v : Ast) | namedParameters (xs : List Ast) | negatedList (xs : List Ast)
  | neg (a : Ast) | nq (a b : Ast) | null | numeric (before after : String) | or (a b : Ast)
  | out (a b : Ast) | parameterName (n : String) | parameterTypes (xs : List Ast) | path (a b : Ast)
  | positionalParameters (xs : List Ast) | qualifiedName (xs : List Ast)
  | qualifiedNameSegment (n : String) | quantifiedContexts (xs : List Ast)
  | quantifiedContext (n e : Ast) | range (lo hi : Ast) | rangeType (t : Ast) | satisfies (a : Ast)
  | some (ctxs sat : Ast) | string (s : String) | sub (a b : Ast) | unaryGe (a : Ast)
  | unaryGt (a : Ast) | unaryLe (a : Ast) | unaryLt (a : Ast)
  deriving Inhabited

/-- Times and date-times are compared on the UTC time line through chrono / chrono-tz,
which are not modelled: the harness supplies the instant (nanoseconds) it observed, or
`none` when the code cannot compute one.  `text` is the canonical printed form. -/
structure Instant where
  text : String
  key : Option Int
  deriving Inhabited, BEq, DecidableEq

inductive Value where
  | null
  | bool (b : Bool)
  | num (d : Dec)
  | str (s : String)
  | date (y : Int) (m d : Nat)
  | time (t : Instant)
  | dateTime (t : Instant)
  | dtDur (nanos : Int)
  | ymDur (months : Int)
  | list (vs : List Value)
  | ctx (es : List (String × Value))
  | range (lo : Value) (loClosed : Bool) (hi : Value) (hiClosed : Bool)
  | fn (params : List (String × FType)) (body : Ast) (rt : FType)
  | bif (name : String)
  -- carrier variants
  | exprList (vs : List Value)
  | negList (vs : List Value)
  | ctxEntry (k : String) (v : Value)
  | ctxEntryKey (k : String)
  | ctxTypeEntry (k : String) (t : FType)
  | ctxTypeEntryKey (k : String)
  | feelType (t : FType)
  | formalParam (k : String) (t : FType)
  | formalParams (ps : List (String × FType))
  | fnBody (body : Ast)
  | intervalStart (v : Value) (closed : Bool)
  | intervalEnd (v : Value) (closed : Bool)
  | irrelevant
  | namedParam (n : Value) (v : Value)
  | namedParams (ps : List (String × Value × Nat))
  | paramName (k : String)
  | paramTypes (vs : List Value)
  | qnSegment (k : String)
  | unaryLt (v : Value) | unaryLe (v : Value) | unaryGt (v : Value) | unaryGe (v : Value)
  deriving Inhabited

abbrev Ctx := List (String × Value)

namespace Ctx

/-- `BTreeMap::get`. -/
def get (c : Ctx) (k : String) : Option Value :=
  match c with
  | [] => none
  | (k', v) :: c => if k' = k then some v else get c k

/-- `BTreeMap::insert`: replaces the value of an existing key, otherwise inserts in key order. -/
def set (c : Ctx) (k : String) (v : Value) : Ctx :=
  match c with
  | [] => [(k, v)]
  | (k', v') :: c =>
    if k = k' then (k, v) :: c
    else if k < k' then (k, v) :: (k', v') :: c
    else (k', v') :: set c k v

def contains (c : Ctx) (k : String) : Bool := (get c k).isSome

/-- keys strictly increasing (the `BTreeMap` iteration order) -/
def WF (c : Ctx) : Prop := (c.map Prod.fst).Pairwise (· < ·)

end Ctx

/-- `Scope`: a stack of contexts, the last element is the top. -/
abbrev Scope := List Ctx

namespace Scope

def push (s : Scope) (c : Ctx) : Scope := s ++ [c]
def pop (s : Scope) : Scope := s.dropLast
def peek (s : Scope) : Ctx := s.getLast?.getD []

/-- `Scope::get_entry`: search from the top of the stack down. -/
def getEntry (s : Scope) (k : String) : Option Value :=
  s.reverse.findSome? (fun c => c.get k)

/-- `Scope::set_entry`: sets in the top context, if there is one. -/
def setEntry (s : Scope) (k : String) (v : Value) : Scope :=
  match s.getLast? with
  | none => s
  | some top => s.dropLast ++ [top.set k v]

end Scope

/-! ## `Value::type_of` -/

namespace Value

mutual
def typeOf : Value → FType
  | .null => .null
  | .bool _ => .boolean
  | .num _ => .number
  | .str _ => .string
  | .date .. => .date
  | .time _ => .time
  | .dateTime _ => .dateTime
  | .dtDur _ => .dtDur
  | .ymDur _ => .ymDur
  | .list [] => .list .null
  | .list (v :: vs) =>
    let t := typeOf v
    if allSame t vs then .list t else .list .any
  | .ctx es => .ctx (typeOfEntries es)
  | .range lo _ hi _ =>
    let a := typeOf lo
    let b := typeOf hi
    if FType.beq a b then .range a else .range .any
  | .fn ps _ r => .fn (ps.map Prod.snd) r
  | .feelType t => t
  | .ctxTypeEntry _ t => t
  | .formalParam _ t => t
  | .intervalStart v _ => typeOf v
  | .intervalEnd v _ => typeOf v
  | .unaryLt _ => .boolean
  | .unaryLe _ => .boolean
  | .unaryGt _ => .boolean
  | .unaryGe _ => .boolean
  | _ => .any
def allSame (t : FType) : List Value → Bool
  | [] => true
  | v :: vs => FType.beq (typeOf v) t && allSame t vs
def typeOfEntries : List (String × Value) → List (String × FType)
  | [] => []
  | (k, v) :: es => (k, typeOf v) :: typeOfEntries es
end

mutual
/-- Every context inside the value has strictly increasing keys. -/
def WF : Value → Prop
  | .list vs => WFList vs
  | .ctx es => Ctx.WF es ∧ WFEntries es
  | _ => True
def WFList : List Value → Prop
  | [] => True
  | v :: vs => WF v ∧ WFList vs
def WFEntries : List (String × Value) → Prop
  | [] => True
  | (_, v) :: es => WF v ∧ WFEntries es
end

/-- The value interface `coerced` works through. -/
def ops : ValOps Value where
  typeOf := typeOf
  asList := fun v => match v with
    | .list vs => some vs
    | _ => none
  mkList := .list
  null := .null

theorem ops_laws : ValOps.Laws ops where
  typeOf_null := by simp [ops, typeOf]
  typeOf_singleton := by intro v; simp [ops, typeOf, allSame]
  typeOf_asList_singleton := by
    intro v x h
    cases v <;> simp [ops] at h
    subst h
    simp [ops, typeOf, allSame]

/-- `FeelType::coerced` on values. -/
def coerced (t : FType) (v : Value) : Value := ValOps.coerced ops t v

end Value
end Dmn
