import Dmn.Gen.Lalr

/-!
# Model of the LALR driver loop — `feel-parser/src/parser.rs:169-315` (`Parser::parse`)

The loop `loop { match action { … } }` is transcribed arm by arm over the tables of
`Dmn/Gen/Lalr.lean` (regenerated from the current `lalr.rs`).  Everything the loop does with
the *state stack*, the look-ahead and the tables is modelled; the semantic side (value stack,
node stack, the reduce actions' effect on lexer flags and scope) is abstracted:

* the lexer is a stream of answers `LexRes` (token type code, or `Err`), after which it keeps
  answering `YyEof` (what `Lexer::next_token` does at the end of the input);
* `crate::lalr::reduce(self, n)?` is an oracle `act step rule : Bool` (`false` = `Err`);
* the value stack is pushed/popped together with the state stack (parser.rs:249,272,291), so
  its length is the state stack's length.

Every table access `T[i]` is `idx T i`, which is `none` exactly when Rust's bounds check
fails (a negative `i16` cast to `usize` is ≥ 2⁶³, hence out of bounds as well); `none` becomes
an explicit `Result.panic site`.  Additions on `i16` go through `i16?` (overflow = panic in a
checked build, wrap-around otherwise: the model stops with `panic arith` in both cases).
-/

namespace Dmn.Lalr

/-- The parse tables and constants of `lalr.rs`. -/
structure Tables where
  pact : List Int
  defAct : List Int
  table : List Int
  check : List Int
  pGoto : List Int
  defGoto : List Int
  r1 : List Int
  r2 : List Int
  translate : List Int
  pactNInf : Int
  tableNInf : Int
  final : Int
  last : Int
  nTokens : Int
  /-- `TokenType::YyEmpty`, `YyEof`, `YyError`, `YyUndef` -/
  ttEmpty : Int
  ttEof : Int
  ttError : Int
  ttUndef : Int
  /-- `SymbolKind::YyEof`, `YyUndef` -/
  skEof : Int
  skUndef : Int

/-- The tables regenerated from the current `/repo/feel-parser/src/lalr.rs`. -/
def gen : Tables where
  pact := Dmn.Gen.Lalr.YY_PACT
  defAct := Dmn.Gen.Lalr.YY_DEF_ACT
  table := Dmn.Gen.Lalr.YY_TABLE
  check := Dmn.Gen.Lalr.YY_CHECK
  pGoto := Dmn.Gen.Lalr.YY_P_GOTO
  defGoto := Dmn.Gen.Lalr.YY_DEF_GOTO
  r1 := Dmn.Gen.Lalr.YY_R1
  r2 := Dmn.Gen.Lalr.YY_R2
  translate := Dmn.Gen.Lalr.YY_TRANSLATE
  pactNInf := Dmn.Gen.Lalr.YY_PACT_N_INF
  tableNInf := Dmn.Gen.Lalr.YY_TABLE_N_INF
  final := Dmn.Gen.Lalr.YY_FINAL
  last := Dmn.Gen.Lalr.YY_LAST
  nTokens := Dmn.Gen.Lalr.YY_N_TOKENS
  ttEmpty := Dmn.Gen.Lalr.TokenType_YyEmpty
  ttEof := Dmn.Gen.Lalr.TokenType_YyEof
  ttError := Dmn.Gen.Lalr.TokenType_YyError
  ttUndef := Dmn.Gen.Lalr.TokenType_YyUndef
  skEof := Dmn.Gen.Lalr.SymbolKind_YyEof
  skUndef := Dmn.Gen.Lalr.SymbolKind_YyUndef

/-- `T[i as usize]` with Rust's bounds check. -/
def idx (t : List Int) (i : Int) : Option Int :=
  if i < 0 then none else t[i.toNat]?

/-- An `i16` result, `none` when the mathematical value does not fit. -/
def i16? (x : Int) : Option Int :=
  if -32768 ≤ x ∧ x ≤ 32767 then some x else none

/-- The access sites of the loop (parser.rs line numbers). -/
inductive Site where
  | pact        -- :181 YY_PACT[self.yy_state]
  | translate   -- :207 YY_TRANSLATE[self.yy_char as usize]
  | arith       -- :215 self.yy_n += yy_token_code / :277 YY_P_GOTO[yy_lhs] + top_state
  | check       -- :216 YY_CHECK[self.yy_n as usize]
  | table       -- :220 YY_TABLE[self.yy_n as usize]
  | defAct      -- :234 YY_DEF_ACT[self.yy_state]
  | r2          -- :258 YY_R2[self.yy_n as usize]
  | r1          -- :275 YY_R1[self.yy_n as usize]
  | r1Sub       -- :275 (YY_R1[..] as usize) - (YY_N_TOKENS as usize)
  | pGoto       -- :277 YY_P_GOTO[yy_lhs]
  | gotoCheck   -- :279 YY_CHECK[yy_i as usize]
  | gotoTable   -- :280 YY_TABLE[yy_i as usize]
  | defGoto     -- :282 YY_DEF_GOTO[yy_lhs]
  | stackTop    -- :276 self.yy_state_stack[self.yy_state_stack.len() - 1]
  deriving DecidableEq, Repr

/-- How `Parser::parse` ends. -/
inductive Result where
  | accept        -- Action::Accept (the node stack then decides between Ok(node) and Err)
  | syntaxError   -- Action::Error / Action::Error1
  | lexerError    -- `self.yy_lexer.next_token()?`
  | actionError   -- `crate::lalr::reduce(self, self.yy_n)?`
  | panic (s : Site)
  | fuelOut       -- the model's iteration budget ran out (not a behaviour of the code)
  deriving DecidableEq, Repr

/-- One answer of `Lexer::next_token`. -/
inductive LexRes where
  | tok (code : Int)
  | err
  deriving DecidableEq, Repr

/-- `enum Action` (parser.rs:87-95). -/
inductive Action where
  | accept | newState | default | shift | reduce | error | error1
  deriving DecidableEq, Repr

/-- The parser's registers that the loop reads and writes. -/
structure P where
  state : Int            -- yy_state (usize)
  n : Int                -- yy_n (i16)
  char : Int             -- yy_char (i16)
  token : Int            -- yy_token (i16)
  stack : List Int       -- yy_state_stack, top first
  toks : List LexRes     -- what the lexer is going to answer
  reductions : Nat       -- number of reduce actions run so far (argument of the oracle)
  shifts : Nat           -- number of shifts so far
  deriving Repr

inductive Step where
  | next (p : P) (a : Action)
  | done (r : Result)

/-- `Parser::new` (parser.rs:150-166). -/
def init (T : Tables) (toks : List LexRes) : P :=
  { state := 0, n := 0, char := T.ttEmpty, token := T.ttEmpty, stack := [0], toks := toks,
    reductions := 0, shifts := 0 }

/-- Action::NewState, after the look-ahead is known (parser.rs:196-228). -/
def lookup (T : Tables) (p : P) (n : Int) (ch : Int) (toks : List LexRes) : Step :=
  -- :196 `if self.yy_char <= TokenType::YyEof as i16`
  if ch ≤ T.ttEof then
    let p := { p with char := T.ttEof, token := T.skEof, toks := toks }
    finish p n T.skEof
  -- :200 `else if self.yy_char == TokenType::YyError as i16`
  else if ch = T.ttError then
    .next { p with n := n, char := T.ttUndef, token := T.skUndef, toks := toks } .error1
  else
    -- :207 `self.yy_token = YY_TRANSLATE[self.yy_char as usize] as i16`
    match idx T.translate ch with
    | none => .done (.panic .translate)
    | some tk => finish { p with char := ch, token := tk, toks := toks } n tk
where
  /-- parser.rs:214-228 -/
  finish (p : P) (n : Int) (tk : Int) : Step :=
    -- :215 `self.yy_n += yy_token_code`
    match i16? (n + tk) with
    | none => .done (.panic .arith)
    | some n =>
      -- :216 `if self.yy_n < 0 || YY_LAST < self.yy_n || YY_CHECK[self.yy_n as usize] != yy_token_code`
      if n < 0 ∨ T.last < n then .next { p with n := n } .default
      else
        match idx T.check n with
        | none => .done (.panic .check)
        | some c =>
          if c ≠ tk then .next { p with n := n } .default
          else
            -- :220 `self.yy_n = YY_TABLE[self.yy_n as usize]`
            match idx T.table n with
            | none => .done (.panic .table)
            | some v =>
              if v ≤ 0 then
                if v = T.tableNInf then .next { p with n := v } .error
                else .next { p with n := -v } .reduce
              else .next { p with n := v } .shift

/-- One iteration of `loop { match action { … } }` (parser.rs:171-314). `act` answers for
the reduce actions. -/
def step (T : Tables) (act : Nat → Int → Bool) (p : P) : Action → Step
  | .newState =>
    -- :176 `if self.yy_state == YY_FINAL`
    if p.state = T.final then .next p .accept
    else
      -- :181 `self.yy_n = YY_PACT[self.yy_state]`
      match idx T.pact p.state with
      | none => .done (.panic .pact)
      | some n =>
        if n = T.pactNInf then .next { p with n := n } .default
        else
          -- :188 `if self.yy_char == TokenType::YyEmpty as i16 { … next_token()? … }`
          if p.char = T.ttEmpty then
            match p.toks with
            | [] => lookup T p n T.ttEof []
            | .tok c :: ts => lookup T p n c ts
            | .err :: _ => .done .lexerError
          else lookup T p n p.char p.toks
  | .default =>
    -- :234 `self.yy_n = YY_DEF_ACT[self.yy_state] as i16`
    match idx T.defAct p.state with
    | none => .done (.panic .defAct)
    | some n => if n = 0 then .next { p with n := n } .error else .next { p with n := n } .reduce
  | .shift =>
    -- :244-253
    .next { p with state := p.n, stack := p.n :: p.stack, char := T.ttEmpty,
                   shifts := p.shifts + 1 } .newState
  | .reduce =>
    -- :258 `self.yy_len = YY_R2[self.yy_n as usize] as i16`
    match idx T.r2 p.n with
    | none => .done (.panic .r2)
    | some len =>
      -- :264 `crate::lalr::reduce(self, self.yy_n)?`
      if act p.reductions p.n = false then .done .actionError
      else
        -- :267-270 `for _ in 0..self.yy_len { pop; pop }` (empty range when yy_len ≤ 0;
        -- `Vec::pop` on an empty vector does nothing)
        let stack := p.stack.drop len.toNat
        -- :275 `let yy_lhs = (YY_R1[self.yy_n as usize] as usize) - (YY_N_TOKENS as usize)`
        match idx T.r1 p.n with
        | none => .done (.panic .r1)
        | some sym =>
          if sym - T.nTokens < 0 then .done (.panic .r1Sub)
          else
            let lhs := sym - T.nTokens
            -- :276 `let top_state = self.yy_state_stack[self.yy_state_stack.len() - 1] as i16`
            match stack with
            | [] => .done (.panic .stackTop)
            | top :: _ =>
              -- :277 `let yy_i = YY_P_GOTO[yy_lhs] + top_state`
              match idx T.pGoto lhs with
              | none => .done (.panic .pGoto)
              | some g =>
                match i16? (g + top) with
                | none => .done (.panic .arith)
                | some i =>
                  -- :279-283
                  let fromDef : Step :=
                    match idx T.defGoto lhs with
                    | none => .done (.panic .defGoto)
                    | some s => .next { p with state := s, stack := s :: stack,
                                               reductions := p.reductions + 1 } .newState
                  if 0 ≤ i ∧ i ≤ T.last then
                    match idx T.check i with
                    | none => .done (.panic .gotoCheck)
                    | some c =>
                      if c = top then
                        match idx T.table i with
                        | none => .done (.panic .gotoTable)
                        | some s => .next { p with state := s, stack := s :: stack,
                                                   reductions := p.reductions + 1 } .newState
                      else fromDef
                  else fromDef
  | .error => .done .syntaxError
  | .error1 => .done .syntaxError
  | .accept => .done .accept

/-- At most `fuel` iterations of the loop. -/
def run (T : Tables) (act : Nat → Int → Bool) : Nat → P → Action → Result
  | 0, _, _ => .fuelOut
  | fuel + 1, p, a =>
    match step T act p a with
    | .done r => r
    | .next p' a' => run T act fuel p' a'

/-- `Parser::new(..).parse()` for a lexer answering `toks`. -/
def parse (T : Tables) (act : Nat → Int → Bool) (fuel : Nat) (toks : List LexRes) : Result :=
  run T act fuel (init T toks) .newState

/-! ## The linear table conditions (`lalr_tables_ok` decides them on the regenerated tables) -/

/-- `p i t[i] c[i]` for every index of two lists walked in parallel. -/
def allIdx2 (p : Nat → Int → Int → Bool) : Nat → List Int → List Int → Bool
  | _, [], _ => true
  | _, _, [] => true
  | i, t :: ts, c :: cs => p i t c && allIdx2 p (i + 1) ts cs

def nStates (T : Tables) : Int := T.pact.length
def nRules (T : Tables) : Int := T.r1.length
def nNterms (T : Tables) : Int := T.pGoto.length

/-- One `YY_TABLE`/`YY_CHECK` position: a positive entry is a state number; a negative one is
`YY_TABLE_N_INF` or minus a rule number in `1..nRules-1`; a zero entry is never selected
(its check value is negative); a negative entry is never selected by a goto look-up
(`YY_P_GOTO[N] + check ≠ i` for every non-terminal `N`). -/
def entryOk (T : Tables) (i : Nat) (t c : Int) : Bool :=
  (decide (t ≤ 0) || decide (t < nStates T)) &&
  (decide (0 ≤ t) || decide (t = T.tableNInf) || (decide (1 ≤ -t) && decide (-t < nRules T))) &&
  (decide (t ≠ 0) || decide (c < 0)) &&
  (decide (0 ≤ t) || decide (c < 0) || T.pGoto.all (fun g => decide (g + c ≠ (i : Int))))

def tablesOk (T : Tables) : Bool :=
  -- lengths
  decide (T.defAct.length = T.pact.length) &&
  decide (T.check.length = T.table.length) &&
  decide (T.last + 1 = (T.table.length : Int)) &&
  decide (T.r2.length = T.r1.length) &&
  decide (T.defGoto.length = T.pGoto.length) &&
  decide (nStates T ≤ 16383) && decide (0 ≤ T.nTokens) && decide (T.nTokens ≤ 16383) &&
  -- every entry of YY_PACT and YY_P_GOTO is small enough for the i16 additions
  T.pact.all (fun e => decide (-16384 ≤ e) && decide (e ≤ 16383)) &&
  T.pGoto.all (fun e => decide (-16384 ≤ e) && decide (e ≤ 16383)) &&
  -- YY_TABLE / YY_CHECK
  allIdx2 (entryOk T) 0 T.table T.check &&
  -- YY_DEF_ACT entries are 0 (error) or rule numbers
  T.defAct.all (fun e => decide (0 ≤ e) && decide (e < nRules T)) &&
  -- YY_DEF_GOTO entries are state numbers
  T.defGoto.all (fun e => decide (0 ≤ e) && decide (e < nStates T)) &&
  -- rules 1.. : the left-hand side is a non-terminal with a YY_P_GOTO entry
  (T.r1.drop 1).all (fun e => decide (T.nTokens ≤ e) && decide (e - T.nTokens < nNterms T)) &&
  -- YY_TRANSLATE entries are token symbol numbers
  T.translate.all (fun e => decide (0 ≤ e) && decide (e < T.nTokens)) &&
  -- the special codes
  decide (T.ttEof = 0) && decide (T.skEof = 0) && decide (T.ttEmpty < 0) &&
  decide (0 ≤ T.skUndef) && decide (T.skUndef < T.nTokens) &&
  decide (0 ≤ T.ttError) && decide (0 ≤ T.final) &&
  decide (T.ttUndef < (T.translate.length : Int))

/-- The token type codes the lexer can answer with all index `YY_TRANSLATE`. -/
def codesOk (T : Tables) (codes : List Int) : Bool :=
  codes.all (fun c => decide (c < (T.translate.length : Int)))

end Dmn.Lalr
