import Dmn.Model.Lexer
import Dmn.Model.LalrDriver

/-!
# `parse_longest_name` (feel-parser/src/parser.rs:73) — C05

`parse_longest_name(input)` is `parse_name(&Scope::default(), input, false)` (parser.rs:74): a `Parser`
over the input with the start token `StartTextualExpression` and a lexer whose name table
(`scope.flatten_keys()`) is empty, the driver loop (`Dmn.Lalr`, parser.rs:169-315), and at the end the
test that the tree is a single `AstNode::Name` (parser.rs:64-68).  Its own code has no index, no
arithmetic and no `unwrap`: it can panic only where the lexer or the loop can.

The model composes the two existing models.  The reduce actions may change the four flags of the lexer
between two calls of `next_token` (`set_unary_tests`, `set_between`, `set_type_name`, `set_till_in`;
the text, the cursor and the name table are the lexer's own): `fb i` is what they left before call
number `i` (`none`: untouched) — an arbitrary function, since the actions are abstracted in the loop's
model.
-/

namespace Dmn.LongestName
open Dmn Dmn.Lexer Dmn.Lalr

/-- The lexer of `Parser::new(&Scope::default(), TokenType::StartTextualExpression, input, false)`. -/
def initLx (input : List Nat) : Lx :=
  { input := input, pos := 0, start := some .startTextualExpression, unaryTests := false, between := false,
    typeName := false, tillIn := false, keys := [] }

structure Flags where
  unaryTests : Bool
  between : Bool
  typeName : Bool
  tillIn : Bool

def setFlags (l : Lx) (f : Option Flags) : Lx :=
  match f with
  | some f => { l with unaryTests := f.unaryTests, between := f.between, typeName := f.typeName, tillIn := f.tillIn }
  | none => l

/-- The answers of the lexer, call after call, until the end of the input, a lexer error or `limit`
calls; `none`: a call of the lexer panicked (or the model's budget ran out). -/
def answers (fb : Nat → Option Flags) : Nat → Nat → Lx → Option (List LexRes)
  | 0, _, _ => some []
  | limit + 1, i, l =>
    match nextToken (setFlags l (fb i)) with
    | .ok (t, l') =>
      if t.tt = .yyEof then some [.tok t.tt.code]
      else (answers fb limit (i + 1) l').map fun rest => .tok t.tt.code :: rest
    | .error _ _ => some [.err]
    | .panic _ => none
    | .fuelOut => none

inductive Res where
  | parsed (r : Lalr.Result)
  | lexerPanic
  deriving Repr

/-- `parse_longest_name`: the lexer's answers given to the driver loop over the regenerated tables. -/
def parseLongestName (act : Nat → Int → Bool) (fb : Nat → Option Flags) (limit fuel : Nat) (input : List Nat) : Res :=
  match answers fb limit 0 (initLx input) with
  | some toks => .parsed (parse gen act fuel toks)
  | none => .lexerPanic

/-- The verdict for a text whose tokens are one `Name` and the end (no rule that touches the lexer is
reduced then): that name, with its white space normalised by the lexer. -/
def loneName (input : List Nat) : Option (List Nat) :=
  match tokenize (initLx input) 4 with
  | [.token _ _, .token ⟨.name, .name n⟩ _, .token ⟨.yyEof, _⟩ _] => some n
  | _ => none

end Dmn.LongestName
