import Dmn.Model.Value
import Dmn.Model.Ops
import Dmn.Model.Outcome
import Dmn.Model.DecString

/-!
# The built-in functions (`feel-evaluator/src/bifs/core.rs`)

One `Bif.core_<f>` per function, statement by statement, with every `usize` subtraction /
addition, slice and `Vec::insert/remove` as an explicit `Outcome`.  Two integer modes:
`checked` (a build with overflow checks: `a - b` panics when `b > a`, `a + b` panics above
`2^64-1`) and `wrapping` (two's complement wrap; the following slice is bounds checked).

Strings are Lean `String`s; every position counts Unicode scalar values, as `chars()` does:
the functions work on `s.toList`.  Rust's byte-indexed `find` / slicing in
`substring_before/after` is modelled on scalar values (UTF-8 is self-synchronising: a valid
needle is found only at character boundaries).

Numbers: `FeelNumber`'s `+ - * /` are `reduce(op)` with the result correctly rounded to 34
digits (half-even).  `Dec.round34` below does that rounding; exponent clamping, overflow
to infinity and subnormals are NOT modelled (the correspondence stays away from them).

`none` from `Bif.core` = outside the modelled sub-domain (regular expressions with
metacharacters, `string` of temporal values / non-integers, functions of other families).
-/

namespace Dmn

inductive IntMode where
  | checked
  | wrapping
  deriving DecidableEq, Repr, Inhabited

/-! ## `usize` arithmetic, slices, `Vec` operations -/

namespace Usz

def modulus : Nat := 2 ^ 64

/-- `a - b` on `usize` -/
def sub (m : IntMode) (a b : Nat) (site : String) : Outcome Nat :=
  match m with
  | .checked => if b ≤ a then .ok (a - b) else .panic site
  | .wrapping => .ok ((a + modulus - b % modulus) % modulus)

/-- `a + b` on `usize` -/
def add (m : IntMode) (a b : Nat) (site : String) : Outcome Nat :=
  match m with
  | .checked => if a + b < modulus then .ok (a + b) else .panic site
  | .wrapping => .ok ((a + b) % modulus)

/-- `usize::checked_add` -/
def checkedAdd (a b : Nat) : Option Nat := if a + b < modulus then some (a + b) else none

end Usz

/-- `&v[a..]` -/
def sliceFrom {α : Type} (xs : List α) (a : Nat) (site : String) : Outcome (List α) :=
  if a ≤ xs.length then .ok (xs.drop a) else .panic site

/-- `&v[a..b]` -/
def slice {α : Type} (xs : List α) (a b : Nat) (site : String) : Outcome (List α) :=
  if a ≤ b ∧ b ≤ xs.length then .ok ((xs.drop a).take (b - a)) else .panic site

/-- `Vec::insert(i, x)` -/
def vecInsert {α : Type} (xs : List α) (i : Nat) (x : α) (site : String) : Outcome (List α) :=
  if i ≤ xs.length then .ok (xs.take i ++ x :: xs.drop i) else .panic site

/-- `Vec::remove(i)` -/
def vecRemove {α : Type} (xs : List α) (i : Nat) (site : String) : Outcome (List α) :=
  if i < xs.length then .ok (xs.eraseIdx i) else .panic site

/-! ## numbers -/

namespace Dec

/-- `decQuadIsPositive`: greater than zero. -/
def isPos (d : Dec) : Bool := !d.neg && d.coeff != 0

/-- `decQuadIsNegative`: less than zero (false for `-0`). -/
def isNeg (d : Dec) : Bool := d.neg && d.coeff != 0

-- `isIntegral`, `integralForm`, `toUsizeV?`, `toIsizeV?`: see `Dmn/Model/Num.lean`

/-- number of decimal digits (1 for 0) -/
def digits (n : Nat) : Nat := (Nat.toDigits 10 n).length

/-- Rounds a coefficient to 34 digits, half-even (no exponent clamping). -/
def round34 (neg : Bool) (c : Nat) (e : Int) : Dec :=
  let nd := digits c
  if nd ≤ 34 then ⟨neg, c, e⟩
  else
    let dr := nd - 34
    let p := 10 ^ dr
    let q := c / p
    let r := c % p
    let half := p / 2
    let q' := if r > half || (r == half && q % 2 == 1) then q + 1 else q
    if q' == 10 ^ 34 then ⟨neg, 10 ^ 33, e + dr + 1⟩ else ⟨neg, q', e + dr⟩

/-- `FeelNumber + FeelNumber` -/
def addR (a b : Dec) : Dec :=
  let s := addExact a b
  reduce (round34 s.neg s.coeff s.exp)

/-- `FeelNumber - FeelNumber` -/
def subR (a b : Dec) : Dec := addR a { b with neg := !b.neg }

/-- `FeelNumber * FeelNumber` -/
def mulR (a b : Dec) : Dec :=
  let s := mulExact a b
  reduce (round34 s.neg s.coeff s.exp)

/-- `FeelNumber / FeelNumber` for a non-zero divisor. -/
def divR (a b : Dec) : Dec :=
  if a.coeff == 0 then ⟨a.neg != b.neg, 0, 0⟩
  else
    let k := 36 + digits b.coeff
    let num := a.coeff * 10 ^ k
    let q := num / b.coeff
    let r := num % b.coeff
    if r == 0 then reduce (round34 (a.neg != b.neg) q (a.exp - b.exp - k))
    else reduce (round34 (a.neg != b.neg) (q * 10 + 1) (a.exp - b.exp - k - 1))

/-- `FeelNumber::sqrt` for a non-negative number. -/
def sqrtR (a : Dec) : Dec :=
  if a.coeff == 0 then ⟨a.neg, 0, 0⟩
  else
    let nd := digits a.coeff
    let s0 := 72 - min nd 72
    -- the exponent after scaling must be even
    let s := if (a.exp - s0) % 2 == 0 then s0 else s0 + 1
    let c := a.coeff * 10 ^ s
    let root := Nat.sqrt c
    let e := (a.exp - s) / 2
    if root * root == c then reduce (round34 false root e)
    else reduce (round34 false (root * 10 + 1) (e - 1))

end Dec

/-! ## characters -/

/-- `char::is_whitespace` (Unicode `White_Space`) -/
def isWhite (c : Char) : Bool :=
  let n := c.toNat
  (9 ≤ n && n ≤ 13) || n == 32 || n == 0x85 || n == 0xA0 || n == 0x1680
    || (0x2000 ≤ n && n ≤ 0x200A) || n == 0x2028 || n == 0x2029 || n == 0x202F || n == 0x205F
    || n == 0x3000

/-- `str::trim` -/
def trimChars (cs : List Char) : List Char :=
  ((cs.dropWhile isWhite).reverse.dropWhile isWhite).reverse

/-- `str::find(&str)`: position (in scalar values) of the first occurrence. -/
def findSub (pat : List Char) : List Char → Option Nat
  | [] => if pat.isEmpty then some 0 else none
  | c :: cs => if pat.isPrefixOf (c :: cs) then some 0 else (findSub pat cs).map (· + 1)

namespace Bif

/-- `evaluate_equals` (`evaluators.rs:71`) -/
def eqB (a b : Value) : Bool := (Value.eqT a b).getD false

def numOfNat (n : Nat) : Value := .num ⟨false, n, 0⟩

/-! ## strings -/

/-- The index arithmetic of `core::substring` (`core.rs:1101-1133`): `st` is the start
position as `isize`, `count` the length as `usize` (`none`: to the end).  `ok none` = null. -/
def substringAt (_m : IntMode) (cs : List Char) (st : Int) (count : Option Nat) : Outcome (Option (List Char)) :=
  let n := cs.length
  match count with
  | some count =>
    if st > 0 then
      let index := (st - 1).toNat
      if index < n then
        -- `index.checked_add(count).map_or(false, |last| last <= input_string_len)` (`core.rs:1103`)
        match Usz.checkedAdd index count with
        | some e => if e ≤ n then .ok (some ((cs.drop index).take count)) else .ok none
        | none => .ok none
      else .ok none
    else if st < 0 then
      let index : Int := (n : Int) + st
      if index ≥ 0 then
        -- `(index as usize).checked_add(count)…` (`core.rs:1109`)
        match Usz.checkedAdd index.toNat count with
        | some e => if e ≤ n then .ok (some ((cs.drop index.toNat).take count)) else .ok none
        | none => .ok none
      else .ok none
    else .ok none
  | none =>
    if st > 0 then
      let index := (st - 1).toNat
      if index < n then .ok (some (cs.drop index)) else .ok none
    else if st < 0 then
      let index : Int := (n : Int) + st
      if index ≥ 0 then .ok (some (cs.drop index.toNat)) else .ok none
    else .ok none

def strResult (o : Outcome (Option (List Char))) : Outcome Value :=
  match o with
  | .ok (some cs) => .ok (.str (String.ofList cs))
  | .ok none => .ok .null
  | .panic site => .panic site
  | .diverge => .diverge

/-- `length` of `substring`: null below 1, otherwise the integer part as `usize` (`core.rs:1093-1100`) -/
def substringCount (len : Dec) : Option Nat :=
  if Dec.lt len Dec.one then none else (Dec.trunc len).toUsizeV?

/-- `core::substring` (`core.rs:1082`) -/
def core_substring (m : IntMode) (input start length : Value) : Outcome Value :=
  match input with
  | .str s =>
    match start with
    | .num sp =>
      match sp.toIsizeV? with
      | none => .ok .null
      | some st =>
        match length with
        | .num len =>
          match substringCount len with
          | none => .ok .null
          | some count => strResult (substringAt m s.toList st (some count))
        | .null => strResult (substringAt m s.toList st none)
        | _ => .ok .null
    | _ => .ok .null
  | _ => .ok .null

/-- `core::string_length` (`core.rs:992`) -/
def core_string_length (input : Value) : Outcome Value :=
  match input with
  | .str s => .ok (numOfNat s.toList.length)
  | _ => .ok .null

/-- `core::contains` (`core.rs:194`) -/
def core_contains (input pat : Value) : Outcome Value :=
  match input, pat with
  | .str s, .str p => .ok (.bool (findSub p.toList s.toList).isSome)
  | _, _ => .ok .null

/-- `core::starts_with` (`core.rs:938`) -/
def core_starts_with (input pat : Value) : Outcome Value :=
  match input, pat with
  | .str s, .str p => .ok (.bool (p.toList.isPrefixOf s.toList))
  | _, _ => .ok .null

/-- `core::ends_with` (`core.rs:340`) -/
def core_ends_with (input pat : Value) : Outcome Value :=
  match input, pat with
  | .str s, .str p => .ok (.bool (p.toList.isSuffixOf s.toList))
  | _, _ => .ok .null

/-- `core::substring_before` (`core.rs:1157`) -/
def core_substring_before (input pat : Value) : Outcome Value :=
  match input, pat with
  | .str s, .str p =>
    match findSub p.toList s.toList with
    | some i => .ok (.str (String.ofList (s.toList.take i)))
    | none => .ok (.str "")
  | _, _ => .ok .null

/-- `core::substring_after` (`core.rs:1143`) -/
def core_substring_after (input pat : Value) : Outcome Value :=
  match input, pat with
  | .str s, .str p =>
    match findSub p.toList s.toList with
    | some i => .ok (.str (String.ofList (s.toList.drop (p.toList.length + i))))
    | none => .ok (.str "")
  | _, _ => .ok .null

/-! ### the literal-pattern sub-domain of `matches`, `replace`, `split` -/

/-- Characters with a meaning in the `regex` crate's syntax (outside them a pattern denotes
itself).  White space and `#` matter under the `x` flag. -/
def isMeta (c : Char) : Bool :=
  c == '\\' || c == '.' || c == '+' || c == '*' || c == '?' || c == '(' || c == ')' || c == '|'
    || c == '[' || c == ']' || c == '{' || c == '}' || c == '^' || c == '$' || c == '#'
    || c == '&' || c == '-' || c == '~' || isWhite c

def isLiteralPattern (p : List Char) : Bool := !p.isEmpty && p.all (fun c => !isMeta c)

/-- `Regex::replace_all` for a literal non-empty pattern: non-overlapping occurrences, left
to right.  `fuel` bounds the recursion (the input length suffices). -/
def replaceAllLit (pat rep : List Char) : Nat → List Char → List Char
  | 0, cs => cs
  | _ + 1, [] => []
  | fuel + 1, c :: cs =>
    if pat.isPrefixOf (c :: cs) then rep ++ replaceAllLit pat rep fuel ((c :: cs).drop pat.length)
    else c :: replaceAllLit pat rep fuel cs

/-- `Regex::split` for a literal non-empty pattern. -/
def splitLit (pat : List Char) : Nat → List Char → List Char → List (List Char)
  | 0, cur, cs => [cur.reverse ++ cs]
  | _ + 1, cur, [] => [cur.reverse]
  | fuel + 1, cur, c :: cs =>
    if pat.isPrefixOf (c :: cs) then cur.reverse :: splitLit pat fuel [] ((c :: cs).drop pat.length)
    else splitLit pat fuel (c :: cur) cs

def isNameChar (c : Char) : Bool := c.isAlphanum || c == '_'
def isDigitC (c : Char) : Bool := '0' ≤ c && c ≤ '9'

/-- The first statement of `core::replace` (`core.rs:832`): `\$([0-9][0-9]*)` ↦ `${N}` (since the repair
"`$0` followed by a name character": the digit run may begin with 0, so `$0x` is the whole match and `x`). -/
def rewriteGroups : Nat → List Char → List Char
  | 0, cs => cs
  | _ + 1, [] => []
  | fuel + 1, c :: cs =>
    if c == '$' then
      match cs with
      | d :: _ =>
        if '0' ≤ d && d ≤ '9' then
          let ds := cs.takeWhile isDigitC
          '$' :: '{' :: ds ++ '}' :: rewriteGroups fuel (cs.dropWhile isDigitC)
        else c :: rewriteGroups fuel cs
      | [] => [c]
    else c :: rewriteGroups fuel cs

/-- A group reference that the `regex` crate reads as the number 0 (`name.parse::<usize>()`): `0`, `00`, … -/
def isGroupZero (name : List Char) : Bool := !name.isEmpty && name.all (· == '0')

/-- Expansion of a replacement string by the `regex` crate when the pattern has no groups:
`$$` is `$`, `$0`/`${0}` the match, any other `$name`/`${name}` the empty string, a `$` not
followed by a name stays. -/
def expandRepl (whole : List Char) : Nat → List Char → List Char
  | 0, cs => cs
  | _ + 1, [] => []
  | fuel + 1, c :: cs =>
    if c == '$' then
      match cs with
      | '$' :: rest => '$' :: expandRepl whole fuel rest
      | '{' :: rest =>
        let name := rest.takeWhile (· != '}')
        let after := rest.dropWhile (· != '}')
        match after with
        | _ :: after' =>
          if name.isEmpty then '$' :: expandRepl whole fuel cs
          else (if isGroupZero name then whole else []) ++ expandRepl whole fuel after'
        | [] => '$' :: expandRepl whole fuel cs
      | d :: _ =>
        if isNameChar d then
          let name := cs.takeWhile isNameChar
          (if isGroupZero name then whole else []) ++ expandRepl whole fuel (cs.dropWhile isNameChar)
        else '$' :: expandRepl whole fuel cs
      | [] => ['$']
    else c :: expandRepl whole fuel cs

/-- The flag loop of `core::replace` (`core.rs:821-834`): the flags passed on and whether the
pattern gets quoted. -/
def replaceFlags (flags : List Char) : List Char × Bool :=
  let kept := flags.filter (fun ch => ch == 's' || ch == 'm' || ch == 'i' || ch == 'x')
  let flagQ := flags.any (· == 'q')
  let clearQ := kept.any (· != 'i')
  (kept, flagQ && !clearQ)

/-- `core::replace` (`core.rs:806`) where the pattern that reaches the `regex` crate is a
literal; `none` elsewhere. -/
def replaceValue (input pattern replacement flags : Value) : Option Value :=
  match input, pattern, replacement with
  | .str s, .str p, .str r =>
    let cs := s.toList
    let pat := p.toList
    let repl := rewriteGroups r.toList.length r.toList
    let run (pat : List Char) : Value :=
      .str (String.ofList (trimChars (replaceAllLit pat (expandRepl pat (repl.length + 1) repl) (cs.length + 1) cs)))
    match flags with
    | .str f =>
      let (kept, q) := replaceFlags f.toList
      if q then
        -- `regex::escape(pattern)` (fix 4bf7e70): every character stands for itself, so any
        -- non-empty pattern is a literal (letter case matters unless `i` is kept)
        if !pat.isEmpty && !kept.contains 'i' then
          some (run pat)
        else none
      else if isLiteralPattern pat && !(kept.contains 'i' && pat.any Char.isAlpha) && pat.all (fun c => c.toNat < 128) then
        some (run pat)
      else if isLiteralPattern pat && !kept.contains 'i' then some (run pat)
      else none
    -- no flags: the dispatchers pass null for an absent parameter
    | .null => if isLiteralPattern pat then some (run pat) else none
    -- flags that are neither a string nor absent are outside the domain (fix 7f1aa2d)
    | _ => some .null
  | .str _, .str _, _ => some .null
  | .str _, _, _ => some .null
  | _, _, _ => some .null

/-- `core::replace`: no index arithmetic, never a panic -/
def core_replace (input pattern replacement flags : Value) : Option (Outcome Value) :=
  (replaceValue input pattern replacement flags).map .ok

/-- `core::matches` (`core.rs:514`), literal patterns without flags: the flags are absent (the
dispatchers pass null) or the empty string; non-empty flags reach the `regex` crate (not
modelled); flags that are not a string are outside the domain (fix 7487539). -/
def matchesValue (input pattern flags : Value) : Option Value :=
  match input, pattern with
  | .str s, .str p =>
    let noFlags : Option Value :=
      if isLiteralPattern p.toList then some (.bool (findSub p.toList s.toList).isSome) else none
    match flags with
    | .str f => if f.toList.isEmpty then noFlags else none
    | .null => noFlags
    | _ => some .null
  | _, _ => some .null

def core_matches (input pattern flags : Value) : Option (Outcome Value) :=
  (matchesValue input pattern flags).map .ok

/-- `core::split` (`core.rs:907`), literal delimiters; a delimiter that matches the empty string
(among the literals: the empty delimiter) gives null. -/
def splitValue (input delimiter : Value) : Option Value :=
  match input, delimiter with
  | .str s, .str d =>
    if d.toList.isEmpty then some .null
    else if isLiteralPattern d.toList then
      some (.list ((splitLit d.toList (s.toList.length + 1) [] s.toList).map (fun cs => .str (String.ofList cs))))
    else none
  | _, _ => some .null

def core_split (input delimiter : Value) : Option (Outcome Value) :=
  (splitValue input delimiter).map .ok

/-! ## lists -/

/-- `core::count` (`core.rs:207`) -/
def core_count (list : Value) : Outcome Value :=
  match list with
  | .list items => .ok (numOfNat items.length)
  | _ => .ok .null

/-- the loop of `core::all` (`core.rs:72`) -/
def allLoop : List Value → Value
  | [] => .bool true
  | .bool v :: rest => if !v then .bool false else allLoop rest
  | _ :: _ => .null

def core_all (values : List Value) : Outcome Value :=
  if values.isEmpty then .ok (.bool true) else .ok (allLoop values)

/-- the loop of `core::any` (`core.rs:89`): `none` = the early `return null`. -/
def anyLoop : List Value → Bool → Bool → Option (Bool × Bool)
  | [], hasTrue, allBool => some (hasTrue, allBool)
  | .bool v :: rest, hasTrue, allBool => anyLoop rest (hasTrue || v) allBool
  | .null :: _, _, _ => none
  | _ :: rest, hasTrue, _ => anyLoop rest hasTrue false

def core_any (values : List Value) : Outcome Value :=
  if values.isEmpty then .ok (.bool false)
  else
    match anyLoop values false true with
    | none => .ok .null
    | some (false, false) => .ok .null
    | some (false, true) => .ok (.bool false)
    | some (true, false) => .ok .null
    | some (true, true) => .ok (.bool true)

/-- `core::append` (`core.rs:115`) -/
def core_append (list : Value) (values : List Value) : Outcome Value :=
  match list with
  | .list items => .ok (.list (items ++ values))
  | _ => .ok .null

/-- the loop of `core::concatenate` (`core.rs:179`) -/
def concatLoop : List Value → List Value → Option (List Value)
  | [], acc => some acc
  | .list items :: rest, acc => concatLoop rest (acc ++ items)
  | _ :: _, _ => none

def core_concatenate (values : List Value) : Outcome Value :=
  match concatLoop values [] with
  | some r => .ok (.list r)
  | none => .ok .null

/-- the loop shared by `core::distinct_values` (`core.rs:310`) and `core::union` (`core.rs:1249`) -/
def distinctInto (result : List Value) : List Value → List Value
  | [] => result
  | item :: rest =>
    if result.all (fun v => !eqB v item) then distinctInto (result ++ [item]) rest
    else distinctInto result rest

def core_distinct_values (value : Value) : Outcome Value :=
  match value with
  | .list items => .ok (.list (distinctInto [] items))
  | _ => .ok .null

def unionLoop : List Value → List Value → Option (List Value)
  | [], result => some result
  | .list items :: rest, result => unionLoop rest (distinctInto result items)
  | _ :: _, _ => none

def core_union (lists : List Value) : Outcome Value :=
  match unionLoop lists [] with
  | some r => .ok (.list r)
  | none => .ok .null

mutual
/-- `flatten_value` (`core.rs:381`) -/
def flattenValue : Value → List Value
  | .list items => flattenItems items
  | _ => []
def flattenItems : List Value → List Value
  | [] => []
  | .list inner :: rest => flattenItems inner ++ flattenItems rest
  | item :: rest => item :: flattenItems rest
end

/-- `core::flatten` (`core.rs:370`) -/
def core_flatten (value : Value) : Outcome Value :=
  match value with
  | .list items => .ok (.list (flattenItems items))
  | _ => .ok .null

/-- the loop of `core::index_of` (`core.rs:439`); `i` is the zero-based index of the head -/
def indexOfLoop (element : Value) : List Value → Nat → List Value
  | [], _ => []
  | item :: rest, i =>
    if eqB item element then numOfNat (i + 1) :: indexOfLoop element rest (i + 1)
    else indexOfLoop element rest (i + 1)

def core_index_of (list element : Value) : Outcome Value :=
  match list with
  | .list items => .ok (.list (indexOfLoop element items 0))
  | _ => .ok .null

/-- `core::list_contains` (`core.rs:479`) -/
def core_list_contains (list element : Value) : Outcome Value :=
  match list with
  | .list items => .ok (.bool (items.any (fun item => eqB item element)))
  | _ => .ok .null

/-- `core::reverse` (`core.rs:864`) -/
def core_reverse (list : Value) : Outcome Value :=
  match list with
  | .list items => .ok (.list items.reverse)
  | _ => .ok .null

/-- How `insert_before`, `remove`, `sublist2`, `sublist3` read a position: the positive branch
(`is_positive()` and `to_usize()`) or the negative one (`is_negative()` and
`abs().to_usize()`); a positive position that fails its range test falls through to the
negative branch, which does nothing for it.  `(true, i)` = the position `-i`. -/
def decodePos (p : Dec) : Option (Bool × Nat) :=
  if p.isPos then (p.toUsizeV?).map (fun i => (false, i))
  else if p.isNeg then ((Dec.abs p).toUsizeV?).map (fun i => (true, i))
  else none

def listResult (o : Outcome (Option (List Value))) : Outcome Value :=
  match o with
  | .ok (some xs) => .ok (.list xs)
  | .ok none => .ok .null
  | .panic site => .panic site
  | .diverge => .diverge

/-- index arithmetic of `core::insert_before` (`core.rs:457-471`) -/
def insertBeforeAt (m : IntMode) (items : List Value) (pos : Bool × Nat) (newItem : Value) :
    Outcome (Option (List Value)) :=
  match pos with
  | (false, i) =>
    if i ≤ items.length then
      match Usz.sub m i 1 "core.rs:460 i - 1" with
      | .ok idx =>
        match vecInsert items idx newItem "core.rs:460 items.insert" with
        | .ok r => .ok (some r)
        | .panic site => .panic site
        | .diverge => .diverge
      | .panic site => .panic site
      | .diverge => .diverge
    else .ok none
  | (true, i) =>
    if i ≤ items.length then
      match Usz.sub m items.length i "core.rs:468 items.len() - i" with
      | .ok idx =>
        match vecInsert items idx newItem "core.rs:468 items.insert" with
        | .ok r => .ok (some r)
        | .panic site => .panic site
        | .diverge => .diverge
      | .panic site => .panic site
      | .diverge => .diverge
    else .ok none

/-- `core::insert_before` (`core.rs:454`) -/
def core_insert_before (m : IntMode) (list position newItem : Value) : Outcome Value :=
  match list with
  | .list items =>
    match position with
    | .num p =>
      match decodePos p with
      | some pos => listResult (insertBeforeAt m items pos newItem)
      | none => .ok .null
    | _ => .ok .null
  | _ => .ok .null

/-- index arithmetic of `core::remove` (`core.rs:783-799`) -/
def removeAt (m : IntMode) (items : List Value) (pos : Bool × Nat) : Outcome (Option (List Value)) :=
  match pos with
  | (false, index0) =>
    match Usz.sub m index0 1 "core.rs:785 index -= 1" with
    | .ok index =>
      if index < items.length then
        match vecRemove items index "core.rs:787 items.remove" with
        | .ok r => .ok (some r)
        | .panic site => .panic site
        | .diverge => .diverge
      else .ok none
    | .panic site => .panic site
    | .diverge => .diverge
  | (true, index) =>
    if index ≤ items.length then
      match Usz.sub m items.length index "core.rs:795 items.len() - index" with
      | .ok idx =>
        match vecRemove items idx "core.rs:795 items.remove" with
        | .ok r => .ok (some r)
        | .panic site => .panic site
        | .diverge => .diverge
      | .panic site => .panic site
      | .diverge => .diverge
    else .ok none

/-- `core::remove` (`core.rs:780`) -/
def core_remove (m : IntMode) (list position : Value) : Outcome Value :=
  match list with
  | .list items =>
    match position with
    | .num p =>
      match decodePos p with
      | some pos => listResult (removeAt m items pos)
      | none => .ok .null
    | _ => .ok .null
  | _ => .ok .null

/-- index arithmetic of `core::sublist2` (`core.rs:1024-1040`) -/
def sublist2At (m : IntMode) (items : List Value) (pos : Bool × Nat) : Outcome (Option (List Value)) :=
  match pos with
  | (false, position) =>
    match Usz.sub m position 1 "core.rs:1026 position - 1" with
    | .ok index =>
      if index < items.length then
        match sliceFrom items index "core.rs:1028 items[index..]" with
        | .ok r => .ok (some r)
        | .panic site => .panic site
        | .diverge => .diverge
      else .ok none
    | .panic site => .panic site
    | .diverge => .diverge
  | (true, index) =>
    if index ≤ items.length then
      match Usz.sub m items.length index "core.rs:1036 items.len() - index" with
      | .ok a =>
        match sliceFrom items a "core.rs:1036 items[items.len() - index..]" with
        | .ok r => .ok (some r)
        | .panic site => .panic site
        | .diverge => .diverge
      | .panic site => .panic site
      | .diverge => .diverge
    else .ok none

/-- `core::sublist2` (`core.rs:1021`) -/
def core_sublist2 (m : IntMode) (list position : Value) : Outcome Value :=
  match list with
  | .list items =>
    match position with
    | .num p =>
      match decodePos p with
      | some pos => listResult (sublist2At m items pos)
      | none => .ok .null
    | _ => .ok .null
  | _ => .ok .null

/-- index arithmetic of `core::sublist3` (`core.rs:1050-1072`): `first.checked_add(length)`,
and a negative position is tested against the length before the subtraction -/
def sublist3At (m : IntMode) (items : List Value) (pos : Bool × Nat) (len : Nat) : Outcome (Option (List Value)) :=
  let first : Outcome (Option Nat) :=
    match pos with
    | (false, position) =>
      match Usz.sub m position 1 "core.rs:1053 position - 1" with
      | .ok f => .ok (some f)
      | .panic site => .panic site
      | .diverge => .diverge
    | (true, position) =>
      if position ≤ items.length then
        match Usz.sub m items.length position "core.rs:1064 items.len() - position" with
        | .ok f => .ok (some f)
        | .panic site => .panic site
        | .diverge => .diverge
      else .ok none
  match first with
  | .ok (some first) =>
    match Usz.checkedAdd first len with
    | some last =>
      if first < items.length ∧ last ≤ items.length then
        match slice items first last "core.rs:1056/1067 items[first..last]" with
        | .ok r => .ok (some r)
        | .panic site => .panic site
        | .diverge => .diverge
      else .ok none
    | none => .ok none
  | .ok none => .ok none
  | .panic site => .panic site
  | .diverge => .diverge

/-- `core::sublist3` (`core.rs:1046`) -/
def core_sublist3 (m : IntMode) (list position length : Value) : Outcome Value :=
  match list with
  | .list items =>
    match length with
    | .num ln =>
      match ln.toUsizeV? with
      | some len =>
        match position with
        | .num p =>
          match decodePos p with
          | some pos => listResult (sublist3At m items pos len)
          | none => .ok .null
        | _ => .ok .null
      | none => .ok .null
    | _ => .ok .null
  | _ => .ok .null

/-! ## aggregates -/

/-- the loop of `core::max` over numbers (`core.rs:536`) -/
def maxNumLoop : List Value → Dec → Option Dec
  | [], mx => some mx
  | .num v :: rest, mx => maxNumLoop rest (if Dec.cmp v mx == .gt then v else mx)
  | _ :: _, _ => none

def maxStrLoop : List Value → String → Option String
  | [], mx => some mx
  | .str v :: rest, mx => maxStrLoop rest (if compare v mx == .gt then v else mx)
  | _ :: _, _ => none

/-- `core::max` (`core.rs:530`) -/
def core_max (values : List Value) : Outcome Value :=
  match values with
  | [] => .ok .null
  | .num n :: rest =>
    match maxNumLoop rest n with
    | some r => .ok (.num r)
    | none => .ok .null
  | .str s :: rest =>
    match maxStrLoop rest s with
    | some r => .ok (.str r)
    | none => .ok .null
  | _ :: _ => .ok .null

def minNumLoop : List Value → Dec → Option Dec
  | [], mn => some mn
  | .num v :: rest, mn => minNumLoop rest (if Dec.cmp v mn == .lt then v else mn)
  | _ :: _, _ => none

def minStrLoop : List Value → String → Option String
  | [], mn => some mn
  | .str v :: rest, mn => minStrLoop rest (if compare v mn == .lt then v else mn)
  | _ :: _, _ => none

/-- `core::min` (`core.rs:606`) -/
def core_min (values : List Value) : Outcome Value :=
  match values with
  | [] => .ok .null
  | .num n :: rest =>
    match minNumLoop rest n with
    | some r => .ok (.num r)
    | none => .ok .null
  | .str s :: rest =>
    match minStrLoop rest s with
    | some r => .ok (.str r)
    | none => .ok .null
  | _ :: _ => .ok .null

/-- the numbers of a list, `none` if an item is not a number -/
def numbersOf : List Value → Option (List Dec)
  | [] => some []
  | .num n :: rest => (numbersOf rest).map (n :: ·)
  | _ :: _ => none

/-- `core::sum` (`core.rs:1001`) -/
def core_sum (values : List Value) : Outcome Value :=
  match values with
  | [] => .ok .null
  | .num n :: rest =>
    match numbersOf rest with
    | some ns => .ok (.num (ns.foldl Dec.addR n))
    | none => .ok .null
  | _ :: _ => .ok .null

/-- `core::mean` (`core.rs:568`) -/
def core_mean (values : List Value) : Outcome Value :=
  match values with
  | [] => .ok .null
  | _ :: _ =>
    match numbersOf values with
    | some ns => .ok (.num (Dec.divR (ns.foldl Dec.addR Dec.zero) (Dec.ofNat values.length)))
    | none => .ok .null

/-- stable insertion: before the first element that is not smaller -/
def insertBy {α : Type} (cmp : α → α → Ordering) (x : α) : List α → List α
  | [] => [x]
  | y :: ys => if cmp x y != .gt then x :: y :: ys else y :: insertBy cmp x ys

/-- `slice::sort_by` (stable) -/
def sortBy {α : Type} (cmp : α → α → Ordering) : List α → List α
  | [] => []
  | x :: xs => insertBy cmp x (sortBy cmp xs)

/-- `core::median` (`core.rs:584`) -/
def core_median (values : List Value) : Outcome Value :=
  match values with
  | [] => .ok .null
  | _ :: _ =>
    match numbersOf values with
    | none => .ok .null
    | some ns =>
      let list := sortBy Dec.cmp ns
      let index := values.length / 2
      if list.length % 2 == 0 then
        match Usz.sub .checked index 1 "core.rs:599 index - 1" with
        | .ok i1 =>
          match list[i1]?, list[index]? with
          | some a, some b => .ok (.num (Dec.divR (Dec.addR a b) ⟨false, 2, 0⟩))
          | _, _ => .panic "core.rs:599 list[index]"
        | .panic site => .panic site
        | .diverge => .diverge
      else
        match list[index]? with
        | some a => .ok (.num a)
        | none => .panic "core.rs:601 list[index]"

/-- the frequency loop of `core::mode` (`core.rs:658`): the last pair is the current run -/
def modeRuns : List Dec → List (Nat × Dec) → List (Nat × Dec)
  | [], acc => acc
  | x :: xs, [] => modeRuns xs [(1, x)]
  | x :: xs, acc@(_ :: _) =>
    match acc.getLast?, acc.dropLast with
    | some (count, value), init =>
      if Dec.cmp x value == .eq then modeRuns xs (init ++ [(count + 1, value)])
      else modeRuns xs (init ++ [(count, value), (1, x)])
    | none, _ => modeRuns xs [(1, x)]

def modeCmp (x y : Nat × Dec) : Ordering :=
  match compare y.1 x.1 with
  | .eq => Dec.cmp x.2 y.2
  | o => o

/-- `core::mode` (`core.rs:642`) -/
def core_mode (values : List Value) : Outcome Value :=
  match values with
  | [] => .ok (.list [])
  | _ :: _ =>
    match numbersOf values with
    | none => .ok .null
    | some ns =>
      let runs := sortBy modeCmp (modeRuns (sortBy Dec.cmp ns) [])
      match runs with
      | [] => .panic "core.rs:677 mode.get(0).unwrap()"
      | (mx, _) :: _ => .ok (.list ((runs.filter (fun r => r.1 == mx)).map (fun r => .num r.2)))

/-- `core::stddev` (`core.rs:951`) -/
def core_stddev (values : List Value) : Outcome Value :=
  if values.length < 2 then .ok .null
  else
    match numbersOf values with
    | none => .ok .null
    | some ns =>
      let sum := ns.foldl Dec.addR Dec.zero
      let n := Dec.ofNat ns.length
      let avg := Dec.divR sum n
      let sum2 := ns.foldl (fun acc x => Dec.addR acc (let d := Dec.subR x avg; Dec.mulR d d)) Dec.zero
      .ok (.num (Dec.sqrtR (Dec.divR sum2 (Dec.subR n Dec.one))))

/-! ## contexts, booleans, conversions -/

/-- `core::get_value` (`core.rs:421`); `Name::from(String)` trims the key -/
def core_get_value (context key : Value) : Outcome Value :=
  match context, key with
  | .ctx es, .str k =>
    match Ctx.get es (String.ofList (trimChars k.toList)) with
    | some v => .ok v
    | none => .ok .null
  | _, _ => .ok .null

/-- `core::get_entries` (`core.rs:403`) -/
def core_get_entries (context : Value) : Outcome Value :=
  match context with
  | .ctx es => .ok (.list (es.map (fun e => .ctx [("key", .str e.1), ("value", e.2)])))
  | _ => .ok .null

/-- `core::not` (`core.rs:705`) -/
def core_not (negand : Value) : Outcome Value :=
  match negand with
  | .bool v => .ok (.bool (!v))
  | _ => .ok .null

/-- `decQuadFromString` on the texts that denote finite numbers:
`[+-] digits [. digits] [(e|E) [+-] digits]` with at least one mantissa digit. -/
def digitsVal (cs : List Char) : Nat := cs.foldl (fun acc c => acc * 10 + (c.toNat - 48)) 0

def parseNumber (cs : List Char) : Option Dec :=
  let (neg, cs) := match cs with
    | '-' :: r => (true, r)
    | '+' :: r => (false, r)
    | r => (false, r)
  let ip := cs.takeWhile isDigitC
  let r1 := cs.dropWhile isDigitC
  let (fp, r2) := match r1 with
    | '.' :: r => (r.takeWhile isDigitC, r.dropWhile isDigitC)
    | r => ([], r)
  if ip.isEmpty && fp.isEmpty then none
  else
    let ex? : Option Int := match r2 with
      | [] => some 0
      | e :: r =>
        if e == 'e' || e == 'E' then
          let (eneg, r) := match r with
            | '-' :: r' => (true, r')
            | '+' :: r' => (false, r')
            | r' => (false, r')
          if r.isEmpty || !r.all isDigitC then none
          else some (if eneg then - (digitsVal r : Int) else digitsVal r)
        else none
    match ex? with
    | none => none
    | some ex => some (Dec.round34 neg (digitsVal (ip ++ fp)) (ex - fp.length))

def replaceAllChars (pat rep cs : List Char) : List Char := replaceAllLit pat rep (cs.length + 1) cs

/-- `core::number` (`core.rs:715`) -/
def numberValue (from_ grouping decimal : Value) : Value :=
  let convert (cs : List Char) : Value :=
    match parseNumber cs with
    | some d => .num d
    | none => .null
  match from_ with
  | .str value =>
    let g? : Option (Option (List Char)) := match grouping with
      | .str s => if s == " " || s == "." || s == "," then some (some s.toList) else none
      | .null => some none
      | _ => none
    match g? with
    | none => .null
    | some g =>
      let d? : Option (Option (List Char)) := match decimal with
        | .str s => if s == "." || s == "," then some (some s.toList) else none
        | .null => some none
        | _ => none
      match d? with
      | none => .null
      | some d =>
        let cs := value.toList
        match g, d with
        | some gs, some ds =>
          if gs != ds then convert (replaceAllChars ds ['.'] (replaceAllChars gs [] cs)) else .null
        | some gs, none => convert (replaceAllChars gs [] cs)
        | none, some ds => convert (replaceAllChars ds ['.'] cs)
        | none, none => convert cs
  | _ => .null

def core_number (from_ grouping decimal : Value) : Outcome Value :=
  .ok (numberValue from_ grouping decimal)

/-- plain text of an integer-valued number with a non-negative exponent (the C07 printer
covers the rest) -/
def intText (d : Dec) : Option (List Char) :=
  if d.exp < 0 then none
  else some ((if d.neg then ['-'] else []) ++ (Nat.toDigits 10 d.coeff) ++ List.replicate d.exp.toNat '0')

/-- `Display for FeelNumber` (`number.rs:357`): the plain rendering.  `D128.plainSpec` is what the printer model of
C07 (`D128.plain`: `decQuadToString`, then `scientific_to_plain`) is proved to print for every well-formed number
(`D128.plain_total`, `Props/C07.lean`): sign, digits, the exponent as trailing zeros or as the place of the period,
never an exponent part; trailing fraction zeros are kept (`1.50`). -/
def numText (d : Dec) : List Char := D128.plainSpec ⟨d.neg, d.coeff, d.exp⟩

def joinSep (sep : List Char) : List (List Char) → List Char
  | [] => []
  | [x] => x
  | x :: y :: rest => x ++ sep ++ joinSep sep (y :: rest)

def quote (escape : Bool) (cs : List Char) : List Char :=
  '"' :: (if escape then cs.flatMap (fun c => if c == '"' then ['\\', '"'] else [c]) else cs) ++ ['"']

mutual
/-- `Display for Value` on the modelled variants -/
def displayValue : Value → Option (List Char)
  | .null => some "null".toList
  | .bool b => some (if b then "true".toList else "false".toList)
  | .num d => some (numText d)
  | .str s => some (quote false s.toList)
  | .list vs => (displayItems vs).map (fun xs => '[' :: joinSep [',', ' '] xs ++ [']'])
  | .ctx es => (displayEntries es).map (fun xs => '{' :: joinSep [',', ' '] xs ++ ['}'])
  | _ => none
def displayItems : List Value → Option (List (List Char))
  | [] => some []
  | v :: vs =>
    match displayValue v, displayItems vs with
    | some x, some xs => some (x :: xs)
    | _, _ => none
def displayEntries : List (String × Value) → Option (List (List Char))
  | [] => some []
  | (k, v) :: es =>
    match displayValue v, displayEntries es with
    | some x, some xs => some ((k.toList ++ [':', ' '] ++ x) :: xs)
    | _, _ => none
end

/-- how `ToFeelString for FeelContext` (`context.rs:96`) writes a key -/
def feelKey (k : String) : List Char :=
  if k == "{" || k == "}" || k == ":" || k == "," then quote false k.toList
  else if k == "\"" then "\"\\\"\"".toList
  else k.toList

mutual
/-- `ToFeelString for Value` (`values.rs:262`): a null is `null` whatever its trace message;
the entries of a context are written with `to_feel_string` like the items of a list -/
def feelString : Value → Option (List Char)
  | .ctx es => (feelStringEntries es).map (fun xs => '{' :: joinSep [',', ' '] xs ++ ['}'])
  | .list vs => (feelStringItems vs).map (fun xs => '[' :: joinSep [',', ' '] xs ++ [']'])
  | .null => some "null".toList
  | .str s => some (quote true s.toList)
  | v => displayValue v
def feelStringItems : List Value → Option (List (List Char))
  | [] => some []
  | v :: vs =>
    match feelString v, feelStringItems vs with
    | some x, some xs => some (x :: xs)
    | _, _ => none
def feelStringEntries : List (String × Value) → Option (List (List Char))
  | [] => some []
  | (k, v) :: es =>
    match feelString v, feelStringEntries es with
    | some x, some xs => some ((feelKey k ++ [':', ' '] ++ x) :: xs)
    | _, _ => none
end

/-- `core::string` (`core.rs:983`); `none` where the text needs the temporal printers (C14), for ranges and functions -/
def stringValue (value : Value) : Option Value :=
  match value with
  | .null => some .null
  | .str s => some (.str s)
  | other => (feelString other).map (fun cs => .str (String.ofList cs))

def core_string (value : Value) : Option (Outcome Value) := (stringValue value).map .ok

/-! ## the call interface used by the dispatch tables -/

/-- an argument of a `core::` call: one value or a slice of values -/
inductive CoreArg where
  | v (x : Value)
  | vs (xs : List Value)
  deriving Inhabited

abbrev CoreFn := IntMode → List CoreArg → Option (Outcome Value)

def fn1 (f : Value → Option (Outcome Value)) : CoreFn := fun _ args =>
  match args with
  | [.v a] => f a
  | _ => none

def fn2 (f : Value → Value → Option (Outcome Value)) : CoreFn := fun _ args =>
  match args with
  | [.v a, .v b] => f a b
  | _ => none

def fn3 (f : Value → Value → Value → Option (Outcome Value)) : CoreFn := fun _ args =>
  match args with
  | [.v a, .v b, .v c] => f a b c
  | _ => none

def fnS (f : List Value → Option (Outcome Value)) : CoreFn := fun _ args =>
  match args with
  | [.vs xs] => f xs
  | _ => none

/-- the modelled `core::` functions by name -/
def coreTable : List (String × CoreFn) := [
  ("substring", fun m args => match args with
    | [.v a, .v b, .v c] => some (core_substring m a b c)
    | _ => none),
  ("string_length", fn1 (fun a => some (core_string_length a))),
  ("contains", fn2 (fun a b => some (core_contains a b))),
  ("starts_with", fn2 (fun a b => some (core_starts_with a b))),
  ("ends_with", fn2 (fun a b => some (core_ends_with a b))),
  ("substring_before", fn2 (fun a b => some (core_substring_before a b))),
  ("substring_after", fn2 (fun a b => some (core_substring_after a b))),
  ("matches", fn3 core_matches),
  ("replace", fun _ args => match args with
    | [.v a, .v b, .v c, .v d] => core_replace a b c d
    | _ => none),
  ("split", fn2 core_split),
  ("count", fn1 (fun a => some (core_count a))),
  ("min", fnS (fun xs => some (core_min xs))),
  ("max", fnS (fun xs => some (core_max xs))),
  ("sum", fnS (fun xs => some (core_sum xs))),
  ("mean", fnS (fun xs => some (core_mean xs))),
  ("median", fnS (fun xs => some (core_median xs))),
  ("mode", fnS (fun xs => some (core_mode xs))),
  ("stddev", fnS (fun xs => some (core_stddev xs))),
  ("all", fnS (fun xs => some (core_all xs))),
  ("any", fnS (fun xs => some (core_any xs))),
  ("sublist2", fun m args => match args with
    | [.v a, .v b] => some (core_sublist2 m a b)
    | _ => none),
  ("sublist3", fun m args => match args with
    | [.v a, .v b, .v c] => some (core_sublist3 m a b c)
    | _ => none),
  ("append", fun _ args => match args with
    | [.v a, .vs xs] => some (core_append a xs)
    | _ => none),
  ("concatenate", fnS (fun xs => some (core_concatenate xs))),
  ("insert_before", fun m args => match args with
    | [.v a, .v b, .v c] => some (core_insert_before m a b c)
    | _ => none),
  ("remove", fun m args => match args with
    | [.v a, .v b] => some (core_remove m a b)
    | _ => none),
  ("reverse", fn1 (fun a => some (core_reverse a))),
  ("index_of", fn2 (fun a b => some (core_index_of a b))),
  ("union", fnS (fun xs => some (core_union xs))),
  ("distinct_values", fn1 (fun a => some (core_distinct_values a))),
  ("flatten", fn1 (fun a => some (core_flatten a))),
  ("list_contains", fn2 (fun a b => some (core_list_contains a b))),
  ("get_value", fn2 (fun a b => some (core_get_value a b))),
  ("get_entries", fn1 (fun a => some (core_get_entries a))),
  ("not", fn1 (fun a => some (core_not a))),
  ("number", fn3 (fun a b c => some (core_number a b c))),
  ("string", fn1 core_string)
]

/-- `core::<fn>(args…)`; `none` for functions and shapes that are not modelled. -/
def core (m : IntMode) (fn : String) (args : List CoreArg) : Option (Outcome Value) :=
  match coreTable.lookup fn with
  | some f => f m args
  | none => none

end Bif
end Dmn
