/-!
# The character classes of FEEL names — written out from the grammar of the DMN specification

DMN 1.3, clause 10.3.1.2 "Grammar rules" (the numbering the comments of `lexer.rs` use; later
versions of the specification shift the numbers by a few):

    25. name = name start , { name part | additional name symbols } ;
    26. name start = name start char, { name part char } ;
    27. name part = name part char , { name part char } ;
    28. name start char = "?" | [A-Z] | "_" | [a-z] | [U+C0-U+D6] | [U+D8-U+F6] | [U+F8-U+2FF] |
          [U+370-U+37D] | [U+37F-U+1FFF] | [U+200C-U+200D] | [U+2070-U+218F] | [U+2C00-U+2FEF] |
          [U+3001-U+D7FF] | [U+F900-U+FDCF] | [U+FDF0-U+FFFD] | [U+10000-U+EFFFF] ;
    29. name part char = name start char | digit | U+B7 | [U+0300-U+036F] | [U+203F-U+2040] ;
    30. additional name symbols = "." | "/" | "-" | "'" | "+" | "*" ;
    61. white space = vertical space | U+0009 | U+0020 | U+0085 | U+00A0 | U+1680 | U+180E |
          [U+2000-U+200B] | U+2028 | U+2029 | U+202F | U+205F | U+3000 | U+FEFF ;
    62. vertical space = [U+000A-U+000D] ;

(The apostrophe of rule 30 is typeset as a right single quotation mark in the specification; it is the ASCII apostrophe
U+0027, as in every FEEL implementation and in the TCK names such as `Applicant's age`.)

This file is a SPECIFICATION: it is written from the text above, not from `lexer.rs`, and imports
nothing.  `Props/C10.lean` proves that the table regenerated from `lexer.rs`
(`Dmn/Gen/NameChars.lean`, `translate/namechars.py`) and the hand-written lexer model denote
exactly these sets, for every code point.
-/

namespace Dmn.NameGrammar

/-- Membership in a union of closed code-point ranges. -/
def inRanges (rs : List (Nat × Nat)) (c : Nat) : Bool := rs.any (fun r => r.1 ≤ c && c ≤ r.2)

/-- Rule 28, alternative by alternative. -/
def nameStartCharRanges : List (Nat × Nat) := [
  (0x3F, 0x3F),        -- "?"
  (0x41, 0x5A),        -- [A-Z]
  (0x5F, 0x5F),        -- "_"
  (0x61, 0x7A),        -- [a-z]
  (0xC0, 0xD6), (0xD8, 0xF6), (0xF8, 0x2FF), (0x370, 0x37D), (0x37F, 0x1FFF), (0x200C, 0x200D),
  (0x2070, 0x218F), (0x2C00, 0x2FEF), (0x3001, 0xD7FF), (0xF900, 0xFDCF), (0xFDF0, 0xFFFD),
  (0x10000, 0xEFFFF)]

/-- Rule 28. -/
def nameStartChar (c : Nat) : Bool := inRanges nameStartCharRanges c

/-- Rule 29, the alternatives beside `name start char`: digit (`[0-9]`, rule 40), U+B7,
`[U+0300-U+036F]`, `[U+203F-U+2040]`. -/
def namePartExtraRanges : List (Nat × Nat) := [(0x30, 0x39), (0xB7, 0xB7), (0x300, 0x36F), (0x203F, 0x2040)]

/-- Rule 29. -/
def namePartChar (c : Nat) : Bool := nameStartChar c || inRanges namePartExtraRanges c

/-- Rule 30. -/
def additionalNameSymbol (c : Nat) : Bool :=
  c == 0x2E || c == 0x2F || c == 0x2D || c == 0x27 || c == 0x2B || c == 0x2A

/-- Rule 62. -/
def verticalSpace (c : Nat) : Bool := 0x0A ≤ c && c ≤ 0x0D

/-- Rule 61, the alternatives beside `vertical space`. -/
def whiteSpaceExtraRanges : List (Nat × Nat) := [(0x09, 0x09), (0x20, 0x20), (0x85, 0x85), (0xA0, 0xA0),
  (0x1680, 0x1680), (0x180E, 0x180E), (0x2000, 0x200B), (0x2028, 0x2028), (0x2029, 0x2029), (0x202F, 0x202F),
  (0x205F, 0x205F), (0x3000, 0x3000), (0xFEFF, 0xFEFF)]

/-- Rule 61. -/
def whiteSpace (c : Nat) : Bool := verticalSpace c || inRanges whiteSpaceExtraRanges c

/-- The code points at which the classification can change: first, last, just-before and
just-after code point of every range of a table (what the correspondence family
`name-char-ranges` walks through). -/
def boundaries (rs : List (Nat × Nat)) : List Nat :=
  rs.flatMap (fun r => [r.1 - 1, r.1, r.2, r.2 + 1])

end Dmn.NameGrammar
