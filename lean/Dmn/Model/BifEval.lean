import Dmn.Model.BifSpec
import Dmn.Gen.BifDispatch

/-!
# Invocation of a built-in function by its FEEL name, through the regenerated tables
-/

namespace Dmn
namespace Bif

open Dmn.Gen.BifDispatch (bifNames positional named)

/-- `Bif::from_str` -/
def variantOf (name : String) : Option String := (bifNames.find? (fun e => e.1 == name)).map (·.2)

def posRowOf (variant : String) : Option PosRow := positional.find? (fun r => r.variant == variant)

def namedRowOf (variant : String) : Option NamedRow := named.find? (fun r => r.variant == variant)

def rowsOf (name : String) : Option (PosRow × NamedRow) :=
  match variantOf name with
  | some v =>
    match posRowOf v, namedRowOf v with
    | some p, some n => some (p, n)
    | _, _ => none
  | none => none

/-- `name(args…)`; `none`: not a built-in function, or an unmodelled `core::` function -/
def callPositional (core : Core) (name : String) (args : List Value) : Option (Outcome Value) :=
  match rowsOf name with
  | some (p, _) => evalPositional core p args
  | none => none

/-- `name(k1: v1, …)` -/
def callNamed (core : Core) (name : String) (nargs : NamedArgs) : Option (Outcome Value) :=
  match rowsOf name with
  | some (_, n) => evalNamed core n nargs
  | none => none

/-- do the two tables agree on this signature (syntactically: same `core::` call, same arguments)? -/
def agrees (sig : Signature) : Bool :=
  match rowsOf sig.name with
  | some (p, n) => rowAgrees p n sig
  | none => false

/-- the signatures on which the two dispatch tables differ — computed from the regenerated tables -/
def offending : List (String × List String) :=
  (Spec.signatures.filter (fun s => !agrees s)).map (fun s => (s.name, s.params))

/-- do the two tables differ on this signature whatever the arguments are (for some
admissible number of arguments, for every shape)? -/
def differsEverywhere (sig : Signature) : Bool :=
  match rowsOf sig.name with
  | some (p, n) => (arities sig).any (fun k => (shapes k).all (fun sh => !formAgrees p n sig.params sh))
  | none => true

/-- … the rows that are wrong as such (a different `core::` function, another parameter name),
as opposed to rows that differ only for arguments of the wrong shape -/
def offendingEverywhere : List (String × List String) :=
  (Spec.signatures.filter differsEverywhere).map (fun s => (s.name, s.params))

/-- the FEEL names `Bif::from_str` accepts -/
def names : List String := bifNames.map (·.1)

end Bif
end Dmn
