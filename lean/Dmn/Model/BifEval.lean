import Dmn.Model.BifSpec
import Dmn.Gen.BifDispatch

/-!
# Invocation of a built-in function by its FEEL name, through the regenerated tables
-/

namespace Dmn
namespace Bif

open Dmn.Gen.BifDispatch (bifNames positional named)

/-- `Bif::from_str` -/
def variantOf (name : String) : Option String := (bifNames.find? (fun e => e.1 == name)).map (·.2)

def posRowOf (variant : String) : Option PosRow := positional.find? (fun r => r.variant == variant)

def namedRowOf (variant : String) : Option NamedRow := named.find? (fun r => r.variant == variant)

def rowsOf (name : String) : Option (PosRow × NamedRow) :=
  match variantOf name with
  | some v =>
    match posRowOf v, namedRowOf v with
    | some p, some n => some (p, n)
    | _, _ => none
  | none => none

/-- `name(args…)`; `none`: not a built-in function, or an unmodelled `core::` function -/
def callPositional (core : Core) (name : String) (args : List Value) : Option (Outcome Value) :=
  match rowsOf name with
  | some (p, _) => evalPositional core p args
  | none => none

/-- `name(k1: v1, …)` -/
def callNamed (core : Core) (name : String) (nargs : NamedArgs) : Option (Outcome Value) :=
  match rowsOf name with
  | some (_, n) => evalNamed core n nargs
  | none => none

/-- do the two tables agree on this signature (syntactically: same `core::` call, same arguments)? -/
def agrees (sig : Signature) : Bool :=
  match rowsOf sig.name with
  | some (p, n) => rowAgrees p n sig
  | none => false

/-- the signatures on which the two dispatch tables differ — computed from the regenerated tables -/
def offending : List (String × List String) :=
  (Spec.signatures.filter (fun s => !agrees s)).map (fun s => (s.name, s.params))

/-- do the two tables differ on this signature whatever the arguments are (for some
admissible number of arguments, for every shape)? -/
def differsEverywhere (sig : Signature) : Bool :=
  match rowsOf sig.name with
  | some (p, n) => (arities sig).any (fun k => (shapes k).all (fun sh => !formAgrees p n sig.params sh))
  | none => true

/-- … the rows that are wrong as such (a different `core::` function, another parameter name),
as opposed to rows that differ only for arguments of the wrong shape -/
def offendingEverywhere : List (String × List String) :=
  (Spec.signatures.filter differsEverywhere).map (fun s => (s.name, s.params))


/-! ## the signatures of the code: parameter names read from the regenerated table `named` -/

/-- the `core::` calls an arm of `named::evaluate_bif` can make -/
def NBody.calls : NBody → List NCall
  | .call c => [c]
  | .null => []
  | .ifParam _ _ t e => t.calls ++ e.calls

def NArg.name? : NArg → Option String
  | .var n => some n
  | .itemsOf n => some n
  | .single n => some n
  | .nullLit => none

/-- FEEL name of a `Bif` variant -/
def nameOfVariant (variant : String) : Option String := (bifNames.find? (fun e => e.2 == variant)).map (·.1)

/-- One signature for every `core::` call of every arm of `named::evaluate_bif`: the parameter names the call reads
(`get_param(parameters, &NAME_…)`, resolved through the `lazy_static` table of `named.rs`), in the order in which it
passes them, all of them required.  `substring` gives `[string, start position, length]` and
`[string, start position]`; `after` its four forms; a function without a named form (`append`) none. -/
def codeSignatures : List Signature :=
  named.flatMap (fun row =>
    match nameOfVariant row.variant with
    | some name => row.body.calls.map (fun c =>
        let ps := c.args.filterMap NArg.name?
        ⟨name, ps, ps.length⟩)
    | none => [])

/-- a signature of the specification read at each admissible number of arguments -/
def Signature.forms (sig : Signature) : List Signature :=
  (arities sig).map (fun n => ⟨sig.name, sig.params.take n, n⟩)

def inCode (s : Signature) : Bool := codeSignatures.any (fun c => c.name == s.name && c.params == s.params)

/-- the forms of the specification's signatures the code has no named form for (other names, or no named form at all) -/
def specFormsNotInCode : List (String × List String) :=
  ((Spec.signatures.flatMap Signature.forms).filter (fun s => !inCode s)).map (fun s => (s.name, s.params))

/-- the named forms of the code the specification's tables do not have -/
def codeFormsNotInSpec : List (String × List String) :=
  (codeSignatures.filter (fun c => !(Spec.signatures.flatMap Signature.forms).any
    (fun s => c.name == s.name && c.params == s.params))).map (fun s => (s.name, s.params))

/-- the FEEL names `Bif::from_str` accepts -/
def names : List String := bifNames.map (·.1)

end Bif
end Dmn
