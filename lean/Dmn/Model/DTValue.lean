import Dmn.Model.FType
import Dmn.Model.Coerce
import Dmn.Model.DNum

/-!
# Values of the DMN model layer (C03, C11, C12)

The FEEL evaluator is modelled elsewhere; the model layer only needs a small value type:
what a decision table, an item-definition check and the output coercion *look at*.

* `num n` — an exact **decimal** (`DNum`, `Model/DNum.lean`): the value `coeff / 10^scale` in
  normal form, so that the structural equality of this type is `FeelNumber`'s numeric equality
  (`1.0 = 1`, `1.10 = 1.1`); order and sum are exact, the 34-digit rounding of `+=` is
  `DNum.addR`.
* `str s` — a string as its list of code points (`List Char`); ordering is code-point
  lexicographic (= Rust's byte-wise `String` ordering on UTF-8).
* `atom k text` — a value whose only observable features are its kind (date, time, date and
  time, days-and-time duration, years-and-months duration) and its printed text.
* `ctx es` — association list; `Ctx.insert` keeps it in strictly increasing key order
  (`BTreeMap<Name, Value>`), keys are single-segment names.
* a `null` carries no message: `Value`'s derived `PartialEq` compares the messages of nulls
  too; every null that reaches the model layer in the correspondence is `Null(None)`
  (recorded as an assumption of C03).
-/

namespace Dmn

namespace DT

/-- Result of a modelled Rust function: a value, a returned `Err`, or a panic (with site). -/
inductive Outcome (α : Type) where
  | ok (a : α)
  | error (e : String)
  | panic (site : String)
  deriving Repr, Inhabited, DecidableEq

def Outcome.isPanic {α : Type} : Outcome α → Bool
  | .panic _ => true
  | _ => false

def Outcome.isError {α : Type} : Outcome α → Bool
  | .error _ => true
  | _ => false

end DT

/-- Kinds of opaque simple values. -/
inductive AKind where
  | date | time | dateTime | dtDur | ymDur
  deriving Repr, Inhabited, DecidableEq

inductive DTValue where
  | null
  | bool (b : Bool)
  | num (n : DNum)
  | str (s : List Char)
  | atom (k : AKind) (text : List Char)
  | list (xs : List DTValue)
  | ctx (es : List (List Char × DTValue))
  deriving Repr, Inhabited

namespace DTValue

/-! ## Equality (`Value: PartialEq`, derived) -/

mutual
def beq : DTValue → DTValue → Bool
  | .null, .null => true
  | .bool a, .bool b => a == b
  | .num a, .num b => a == b
  | .str a, .str b => a == b
  | .atom k a, .atom l b => k == l && a == b
  | .list xs, .list ys => beqList xs ys
  | .ctx es, .ctx fs => beqEntries es fs
  | _, _ => false
termination_by structural a => a
def beqList : List DTValue → List DTValue → Bool
  | [], [] => true
  | x :: xs, y :: ys => beq x y && beqList xs ys
  | _, _ => false
termination_by structural xs => xs
def beqEntries : List (List Char × DTValue) → List (List Char × DTValue) → Bool
  | [], [] => true
  | (k, x) :: es, (l, y) :: fs => k == l && (beq x y && beqEntries es fs)
  | _, _ => false
termination_by structural es => es
end

mutual
theorem beq_iff : ∀ a b : DTValue, beq a b = true ↔ a = b
  | .null, b => by cases b <;> simp [beq]
  | .bool a, b => by cases b <;> simp [beq]
  | .num a, b => by cases b <;> simp [beq]
  | .str a, b => by cases b <;> simp [beq]
  | .atom k a, b => by cases b <;> simp [beq]
  | .list xs, b => by
    cases b <;> simp [beq]
    exact beqList_iff xs _
  | .ctx es, b => by
    cases b <;> simp [beq]
    exact beqEntries_iff es _
theorem beqList_iff : ∀ xs ys : List DTValue, beqList xs ys = true ↔ xs = ys
  | [], ys => by cases ys <;> simp [beqList]
  | x :: xs, ys => by
    cases ys with
    | nil => simp [beqList]
    | cons y ys => simp [beqList, beq_iff x y, beqList_iff xs ys]
theorem beqEntries_iff : ∀ es fs : List (List Char × DTValue), beqEntries es fs = true ↔ es = fs
  | [], fs => by cases fs <;> simp [beqEntries]
  | (k, x) :: es, fs => by
    cases fs with
    | nil => simp [beqEntries]
    | cons f fs =>
      obtain ⟨l, y⟩ := f
      simp [beqEntries, beq_iff x y, beqEntries_iff es fs, and_assoc]
end

instance : DecidableEq DTValue := fun a b => decidable_of_iff _ (beq_iff a b)

/-! ## Ordering of strings (Rust `String: Ord` = code-point lexicographic) -/

def strLt : List Char → List Char → Bool
  | [], [] => false
  | [], _ :: _ => true
  | _ :: _, [] => false
  | a :: as, b :: bs => if a.toNat < b.toNat then true else if b.toNat < a.toNat then false else strLt as bs

/-! ## Contexts: `BTreeMap<Name, Value>` as a sorted association list -/

/-- `BTreeMap::insert`: replaces the value of an existing key, else inserts in key order. -/
def ctxInsert (k : List Char) (v : DTValue) : List (List Char × DTValue) → List (List Char × DTValue)
  | [] => [(k, v)]
  | (k', v') :: es =>
    if strLt k k' then (k, v) :: (k', v') :: es
    else if k = k' then (k, v) :: es
    else (k', v') :: ctxInsert k v es

/-- `BTreeMap::get`. -/
def ctxGet (k : List Char) : List (List Char × DTValue) → Option DTValue
  | [] => none
  | (k', v) :: es => if k = k' then some v else ctxGet k es

/-! ## `Value::type_of` on this value type, and the interface `coerced` needs -/

def _root_.Dmn.AKind.ftype : AKind → FType
  | .date => .date | .time => .time | .dateTime => .dateTime | .dtDur => .dtDur | .ymDur => .ymDur

mutual
/-- `Value::type_of` (`feel/src/values.rs`). -/
def typeOf : DTValue → FType
  | .null => .null
  | .bool _ => .boolean
  | .num _ => .number
  | .str _ => .string
  | .atom k _ => k.ftype
  | .list [] => .list .null
  | .list (v :: vs) =>
    let t := typeOf v
    if allSame t vs then .list t else .list .any
  | .ctx es => .ctx (typeOfEntries es)
def allSame (t : FType) : List DTValue → Bool
  | [] => true
  | v :: vs => FType.beq (typeOf v) t && allSame t vs
def typeOfEntries : List (List Char × DTValue) → List (String × FType)
  | [] => []
  | (k, v) :: es => (String.ofList k, typeOf v) :: typeOfEntries es
end

def ops : ValOps DTValue where
  typeOf := typeOf
  asList := fun v => match v with
    | .list vs => some vs
    | _ => none
  mkList := .list
  null := .null

end DTValue
end Dmn
