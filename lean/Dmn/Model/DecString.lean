import Dmn.Model.Dec

/-!
# Text of numbers

* `toSci` — `decQuadToString` (`decCommon.c:1500`, the "to-scientific-string" conversion),
* `sciToPlain` — `scientific_to_plain` (`/repo/feel-number/src/number.rs:453-487`) character by
  character, including where it would panic,
* `plain` — `impl Display for FeelNumber` / `Jsonify` (`number.rs:357-369`),
* `ofString` — `decQuadFromString` as used by `FromStr for FeelNumber` (`number.rs:371`),
* `ofLiteral` — `build_numeric` (`/repo/feel-evaluator/src/builders.rs:1234`),
* specification side: `plainSpec` (the plain rendering one expects), `isPlain` (the shape
  `-?[0-9]+(\.[0-9]+)?`), `plainValue` (reader giving sign, digits as one integer, number of
  fraction digits), `isJsonNumber`.

Text is `List Char` (string literals do not reduce in the kernel).
-/

namespace Dmn
namespace D128

/-! ## digits -/

def digitChar (n : Nat) : Char := Char.ofNat (48 + n % 10)

/-- decimal digits of `n`, most significant first; `[]` for 0; `fuel ≥ n` suffices -/
def natDigitsAux : Nat → Nat → List Char
  | 0, _ => []
  | fuel + 1, n => if n = 0 then [] else natDigitsAux fuel (n / 10) ++ [digitChar n]

/-- decimal digits of `n`, `"0"` for 0 -/
def natDigits (n : Nat) : List Char := if n = 0 then ['0'] else natDigitsAux n n

def isDigit (c : Char) : Bool := '0' ≤ c && c ≤ '9'

def digitVal (c : Char) : Nat := c.toNat - 48

/-- the integer a digit string denotes -/
def readNat (ds : List Char) : Nat := ds.foldl (fun acc c => acc * 10 + digitVal c) 0

def zeros (k : Nat) : List Char := List.replicate k '0'

/-! ## decQuadToString -/

/-- `decQuadToString` of a finite number: plain notation when `exp ≤ 0` and the adjusted
exponent is at least −6 (`pre ≥ −5`), otherwise `d.dddE±n`. -/
def toSci (d : D128) : List Char :=
  let ds := natDigits d.coeff
  let len : Int := ds.length
  let sign : List Char := if d.neg then ['-'] else []
  let pre : Int := len + d.exp
  if d.exp > 0 ∨ pre < -5 then
    -- exponential form
    let e : Int := pre - 1
    let mant : List Char :=
      match ds with
      | [] => []
      | [c] => [c]
      | c :: rest => c :: '.' :: rest
    sign ++ mant ++ ['E'] ++ [if e < 0 then '-' else '+'] ++ natDigits e.natAbs
  else if pre > 0 then
    if pre < len then sign ++ ds.take pre.toNat ++ ['.'] ++ ds.drop pre.toNat
    else sign ++ ds
  else
    sign ++ ['0', '.'] ++ zeros (-pre).toNat ++ ds

/-- `decQuadToString` including the special values -/
def sciR : D128R → List Char
  | .fin d => D128.toSci d
  | .inf s => (if s then ['-'] else []) ++ "Infinity".toList
  | .nan => "NaN".toList

/-! ## scientific_to_plain (number.rs:453) -/

/-- `s.split(pat)` for a two-character pattern: text before the first occurrence and the text
after it; `none` when the pattern does not occur (`s.contains(pat)` is false). -/
def breakOn2 (c1 c2 : Char) : List Char → Option (List Char × List Char)
  | [] => none
  | [_] => none
  | a :: b :: rest =>
    if a = c1 ∧ b = c2 then some ([], rest)
    else
      match breakOn2 c1 c2 (b :: rest) with
      | some (x, y) => some (a :: x, y)
      | none => none

/-- `s.split(c)` for one character: before the first occurrence, and after it -/
def breakOn1 (c : Char) : List Char → Option (List Char × List Char)
  | [] => none
  | a :: rest =>
    if a = c then some ([], rest)
    else
      match breakOn1 c rest with
      | some (x, y) => some (a :: x, y)
      | none => none

/-- the second `next()` of a `split`: the text up to the next occurrence of the pattern -/
def upTo2 (c1 c2 : Char) (s : List Char) : List Char :=
  match breakOn2 c1 c2 s with
  | some (x, _) => x
  | none => s

def upTo1 (c : Char) (s : List Char) : List Char :=
  match breakOn1 c s with
  | some (x, _) => x
  | none => s


/-- `usize::from_str(..)`: optional `+`, at least one digit, nothing else, below `2^64`;
`none` is the `unwrap()` panic -/
def stripPlus : List Char → List Char
  | '+' :: r => r
  | s => s

def parseUsize (s : List Char) : Option Nat :=
  let ds := stripPlus s
  if ds.isEmpty then none
  else if ds.all isDigit then
    let n := readNat ds
    if n < 2 ^ 64 then some n else none
  else none

/-- `scientific_to_plain` after the sign has been put aside (number.rs:467-500); `none` = the
function panics (an `unwrap()` on a malformed exponent, or the `usize` subtraction
`exponent_digits - after_decimal.len()` underflowing). -/
def sciToPlainU (s : List Char) : Option (List Char) :=
  match breakOn2 'E' '+' s with
  | some (beforeExponent, r) =>
    -- the `E+` branch
    let afterExponent := upTo2 'E' '+' r
    match parseUsize afterExponent with
    | none => none
    | some exponentDigits =>
      match breakOn1 '.' beforeExponent with
      | some (beforeDecimal, r2) =>
        let afterDecimal := upTo1 '.' r2
        if exponentDigits < afterDecimal.length then none
        else some (beforeDecimal ++ afterDecimal ++ zeros (exponentDigits - afterDecimal.length))
      | none =>
        -- a zero with a positive exponent is just zero (fix de58a23)
        if beforeExponent.all (· == '0') then some ['0']
        else some (beforeExponent ++ zeros exponentDigits)
  | none =>
    match breakOn2 'E' '-' s with
    | some (beforeExponent, r) =>
      -- the `E-` branch
      let afterExponent := upTo2 'E' '-' r
      match parseUsize afterExponent with
      | none => none
      | some exponentDigits =>
        match breakOn1 '.' beforeExponent with
        | some (beforeDecimal, r2) =>
          let afterDecimal := upTo1 '.' r2
          some (['0', '.'] ++ zeros (exponentDigits - 1) ++ beforeDecimal ++ afterDecimal)
        | none => some (['0', '.'] ++ zeros (exponentDigits - 1) ++ beforeExponent)
    | none => some s

/-- `scientific_to_plain` (number.rs:462): a leading `-` is kept aside and put in front of the
rewritten digits (fix 4df4c0b; the function calls itself on the rest) -/
def sciToPlain : List Char → Option (List Char)
  | '-' :: r =>
    match sciToPlain r with
    | some t => some ('-' :: t)
    | none => none
  | s => sciToPlainU s

/-- `impl Display for FeelNumber` / `jsonify` (number.rs:357-369) -/
def plain (d : D128) : Option (List Char) := sciToPlain (toSci d)

/-- `Display` of a `FeelNumber` that may hold a special value -/
def plainR (r : D128R) : Option (List Char) := sciToPlain (sciR r)

/-! ## decQuadFromString -/

def spanDigits : List Char → List Char × List Char
  | [] => ([], [])
  | c :: cs =>
    if isDigit c then
      let (a, b) := spanDigits cs
      (c :: a, b)
    else ([], c :: cs)

def lower (c : Char) : Char := if 'A' ≤ c ∧ c ≤ 'Z' then Char.ofNat (c.toNat + 32) else c

/-- exponent part: `E`, optional sign, at least one digit, up to the end -/
def parseExp (s : List Char) : Option Int :=
  match s with
  | [] => some 0
  | c :: r =>
    if c = 'E' ∨ c = 'e' then
      let (neg, ds) := match r with
        | '-' :: t => (true, t)
        | '+' :: t => (false, t)
        | _ => (false, r)
      if ds.isEmpty then none
      else if ds.all isDigit then some (if neg then -(readNat ds : Int) else (readNat ds : Int))
      else none
    else none

/-- an optional leading sign -/
def stripSign : List Char → Bool × List Char
  | '-' :: r => (true, r)
  | '+' :: r => (false, r)
  | s => (false, s)

/-- fraction part: the digits after a `.`, if there is one -/
def fracPart : List Char → List Char × List Char
  | '.' :: r => spanDigits r
  | r => ([], r)

/-- the number `±(ip.fp)·10^e`, rounded like every arithmetic result -/
def ofDigits (neg : Bool) (ip fp : List Char) (e : Int) : D128R :=
  let c := readNat (ip ++ fp)
  let e' := e - (fp.length : Int)
  -- exponents far outside the range decide the result by themselves (decNumber clamps the
  -- exponent it reads in the same way); this also keeps `10^k` small
  if c ≠ 0 ∧ e' > 7000 then .inf neg
  else if c ≠ 0 ∧ e' + ((ip ++ fp).length : Int) < -7000 then .fin ⟨neg, 0, eTiny⟩
  else if c = 0 then .fin ⟨neg, 0, clampExp e'⟩
  else finalize neg c e' false

/-- `decQuadFromString` under the default context: sign, digits with at most one `.`, optional
exponent; `Inf`/`Infinity`; anything else is a (quiet) NaN.  More than 34 digits are rounded
half-even; out-of-range exponents overflow / underflow as in arithmetic. -/
def ofString (s : List Char) : D128R :=
  match stripSign s with
  | (neg, s1) =>
    match spanDigits s1 with
    | (ip, r1) =>
      match fracPart r1 with
      | (fp, r2) =>
        if ip.isEmpty ∧ fp.isEmpty then
          let w := s1.map lower
          if w = "inf".toList ∨ w = "infinity".toList then .inf neg else .nan
        else
          match parseExp r2 with
          | none => .nan
          | some e => ofDigits neg ip fp e

/-- `FromStr for FeelNumber` (number.rs:371): non-finite results are an error -/
def fromStr (s : List Char) : Option D128 := (ofString s).toOption

/-- `build_numeric` (builders.rs:1234): the literal token `(before, after)` is parsed from
the text `"{before}.{after}"`; failure gives `null` -/
def ofLiteral (before after : List Char) : Option D128 := fromStr (before ++ ['.'] ++ after)

/-! ## specification side -/

/-- number of zeros appended to the digits of an integer: the exponent, but none for a zero -/
def zexp (d : D128) : Nat := if d.coeff = 0 then 0 else d.exp.toNat

/-- the expected plain rendering of a finite number -/
def plainSpec (d : D128) : List Char :=
  let ds := natDigits d.coeff
  let sign : List Char := if d.neg then ['-'] else []
  if d.exp ≥ 0 then sign ++ ds ++ zeros (zexp d)
  else
    let f := (-d.exp).toNat
    if f < ds.length then sign ++ ds.take (ds.length - f) ++ ['.'] ++ ds.drop (ds.length - f)
    else sign ++ ['0', '.'] ++ zeros (f - ds.length) ++ ds

/-- **Specification reader for the lexical forms of a decimal number** (the decNumber numeric
string, which contains the lexical spaces of `xsd:integer`, `xsd:decimal`, `xsd:double` without
the special values, and the FEEL literal):
`[+-]? ( digits ('.' digits?)? | '.' digits ) ( [eE] [+-]? digits )?`.
Result: sign, all mantissa digits read as one integer `N`, and `e` = the written exponent minus
the number of fraction digits — the text denotes exactly `(-1)^sign · N · 10^e`.  `none`: the
text is not of this form (nothing before or after it, no blanks). -/
def lexValue (s : List Char) : Option (Bool × Nat × Int) :=
  match stripSign s with
  | (neg, s1) =>
    match spanDigits s1 with
    | (ip, r1) =>
      match fracPart r1 with
      | (fp, r2) =>
        if ip.isEmpty ∧ fp.isEmpty then none
        else
          match parseExp r2 with
          | none => none
          | some e => some (neg, readNat (ip ++ fp), e - (fp.length : Int))

/-- number of mantissa digits written in a text of the form above (0 otherwise) -/
def lexDigits (s : List Char) : Nat :=
  match spanDigits (stripSign s).2 with
  | (ip, r1) => ip.length + (fracPart r1).1.length

/-- an optional leading `-` -/
def stripMinus : List Char → Bool × List Char
  | '-' :: r => (true, r)
  | s => (false, s)

/-- `[0-9]+(\.[0-9]+)?` -/
def isUnsignedPlain (s : List Char) : Bool :=
  match spanDigits s with
  | ([], _) => false
  | (_ :: _, []) => true
  | (_ :: _, c :: fr) => c == '.' && !fr.isEmpty && fr.all isDigit

/-- the shape `-?[0-9]+(\.[0-9]+)?` -/
def isPlain (s : List Char) : Bool := isUnsignedPlain (stripMinus s).2

/-- `digits(.digits)?` read as (all digits as one integer, number of fraction digits) -/
def unsignedValue (s : List Char) : Option (Nat × Nat) :=
  match spanDigits s with
  | ([], _) => none
  | (c0 :: ip, []) => some (readNat (c0 :: ip), 0)
  | (c0 :: ip, c :: fr) =>
    if c = '.' ∧ fr ≠ [] ∧ fr.all isDigit = true then some (readNat (c0 :: ip ++ fr), fr.length)
    else none

/-- Specification reader for `-?digits(.digits)?`: sign, all digits read as one integer, number
of fraction digits — the text denotes `(-1)^sign · n · 10^(-f)`. -/
def plainValue (s : List Char) : Option (Bool × Nat × Nat) :=
  match unsignedValue (stripMinus s).2 with
  | some (n, f) => some ((stripMinus s).1, n, f)
  | none => none

/-- the text denotes exactly the value of `d` -/
def denotes (v : Bool × Nat × Nat) (d : D128) : Bool :=
  let (neg, n, f) := v
  (neg == d.neg) &&
    (if d.exp ≥ 0 then n * 10 ^ 0 == d.coeff * 10 ^ (d.exp.toNat + f)
     else n * 10 ^ (-d.exp).toNat == d.coeff * 10 ^ f)

/-- JSON `int`: `0` or a digit string not starting with `0` -/
def jsonIntOk : List Char → Bool
  | [] => false
  | ['0'] => true
  | c :: _ => c != '0'

/-- JSON exponent part: empty, or `[eE][+-]?[0-9]+` -/
def jsonExpOk : List Char → Bool
  | [] => true
  | c :: er =>
    (c == 'e' || c == 'E') &&
      (let ds := match er with
        | '+' :: t => t
        | '-' :: t => t
        | _ => er
       !ds.isEmpty && ds.all isDigit)

/-- JSON `frac? exp?` after the integer part -/
def jsonTailOk : List Char → Bool
  | '.' :: fr =>
    match spanDigits fr with
    | ([], _) => false
    | (_ :: _, r) => jsonExpOk r
  | r => jsonExpOk r

/-- JSON number grammar: `-?(0|[1-9][0-9]*)(\.[0-9]+)?([eE][+-]?[0-9]+)?` -/
def isJsonNumber (s : List Char) : Bool :=
  match spanDigits (stripMinus s).2 with
  | (ip, r) => jsonIntOk ip && jsonTailOk r

end D128
end Dmn
