import Dmn.Model.Dec
import Dmn.Model.Num

/-!
# Numbers of the DMN model layer: exact decimals in normal form (C03, C04, C11, C12)

`Value::Number(FeelNumber)` reaches the model layer (decision tables, item-definition checks)
through three operations only: equality (`Value`'s derived `PartialEq`, which on numbers is
`FeelNumber: PartialEq` = `dec_is_zero(dec_compare(..))`, `number.rs:218` — **numeric**: `1.0 = 1`,
`1.10 = 1.1`), ordering (`FeelNumber: PartialOrd`, `number.rs:236`, numeric) and `+=`
(`number.rs:283`: `dec_reduce(dec_add(..))`).  None of them observes the representation
(coefficient / exponent) of a number, only its value.  The model therefore carries a number as
its **value**: the decimal `coeff / 10^scale` in the unique normal form

    scale = 0  ∨  coeff % 10 ≠ 0

(an integer has scale 0 whatever its trailing zeros; a fraction has no trailing zero), so that
structural equality of `DNum` *is* numeric equality (`Lemmas/DNum.lean`: `eq_iff_cmp_eq`,
`ofDec_eq_iff`) and `DTValue` keeps its lawful `DecidableEq`.

* `+` is the exact sum of two decimals;
* `round34` is the one rounding step of `decQuadAdd` (`DEC_INIT_DECQUAD`: 34 digits, half-even;
  `D128.divRound` of `Model/Dec.lean` is reused), `addR a b = round34 (a + b)` is what `+=` yields
  as a value; inside the 34-digit envelope (`Fits`) it is the exact sum (`addR_of_fits`).
* The exponent range of decimal128 (±6144) is *not* modelled: `scale` is any `Nat`, `coeff` any
  `Int` (recorded as an assumption of C03: the correspondence keeps exponents small).

Imports `Model/Dec.lean` (digit count, half-even division) and `Model/Num.lean` (`Dec`, the
number of the evaluator model, for `ofDec` / `toDec`); nothing else.
-/

namespace Dmn

/-- An exact decimal `coeff / 10^scale` in normal form. -/
structure DNum where
  coeff : Int
  scale : Nat
  nf : scale = 0 ∨ coeff % 10 ≠ 0
  deriving DecidableEq, Repr

namespace DNum

instance : Inhabited DNum := ⟨⟨0, 0, Or.inl rfl⟩⟩

/-- Strips trailing zeros of the fraction: `c / 10^s` in normal form (structural on `s`). -/
def normPair : Int → Nat → Int × Nat
  | c, 0 => (c, 0)
  | c, s + 1 => if c % 10 = 0 then normPair (c / 10) s else (c, s + 1)

theorem normPair_nf (c : Int) (s : Nat) : (normPair c s).2 = 0 ∨ (normPair c s).1 % 10 ≠ 0 := by
  induction s generalizing c with
  | zero => left; rfl
  | succ s ih =>
    unfold normPair
    split
    · exact ih _
    · right; assumption

/-- The decimal `c / 10^s`. -/
def norm (c : Int) (s : Nat) : DNum := ⟨(normPair c s).1, (normPair c s).2, normPair_nf c s⟩

def ofInt (n : Int) : DNum := ⟨n, 0, Or.inl rfl⟩

instance {n : Nat} : OfNat DNum n := ⟨ofInt n⟩
instance : NatCast DNum := ⟨fun n => ofInt n⟩
instance : IntCast DNum := ⟨ofInt⟩

/-- Exact sum. -/
def add (a b : DNum) : DNum :=
  norm (a.coeff * 10 ^ b.scale + b.coeff * 10 ^ a.scale) (a.scale + b.scale)

instance : Add DNum := ⟨add⟩

/-- Numeric order (`decQuadCompare`): cross-multiplication by the positive denominators. -/
instance : LT DNum := ⟨fun a b => a.coeff * 10 ^ b.scale < b.coeff * 10 ^ a.scale⟩
instance : LE DNum := ⟨fun a b => a.coeff * 10 ^ b.scale ≤ b.coeff * 10 ^ a.scale⟩
instance (a b : DNum) : Decidable (a < b) := Int.decLt _ _
instance (a b : DNum) : Decidable (a ≤ b) := Int.decLe _ _

theorem lt_def (a b : DNum) : a < b ↔ a.coeff * 10 ^ b.scale < b.coeff * 10 ^ a.scale := Iff.rfl
theorem le_def (a b : DNum) : a ≤ b ↔ a.coeff * 10 ^ b.scale ≤ b.coeff * 10 ^ a.scale := Iff.rfl

/-- Number of significant digits of the coefficient as written in normal form. -/
def digits (d : DNum) : Nat := D128.ndigits d.coeff.natAbs

/-- The 34-digit envelope (sufficient condition for being a decimal128 coefficient; an integer
with trailing zeros such as `10^40` has more digits here but is left unchanged by `round34`
all the same). -/
def Fits (d : DNum) : Prop := d.digits ≤ 34

instance (d : DNum) : Decidable (Fits d) := Nat.decLe _ _

/-- The rounding of `decQuadAdd`'s exact result to 34 significant digits, half-even
(`decFinalize`, `decCommon.c`; `D128.divRound`), as a value. -/
def round34 (d : DNum) : DNum :=
  if d.digits ≤ 34 then d
  else
    let k := d.digits - 34
    let q : Int := (D128.divRound d.coeff.natAbs k false : Nat)
    let c : Int := if d.coeff < 0 then -q else q
    if k ≤ d.scale then norm c (d.scale - k) else ofInt (c * 10 ^ (k - d.scale))

/-- `FeelNumber: AddAssign` (`number.rs:283`) as a value: the exact sum rounded to 34 digits. -/
def addR (a b : DNum) : DNum := round34 (a + b)

theorem round34_of_fits {d : DNum} (h : Fits d) : round34 d = d := by
  unfold round34
  exact if_pos h

theorem addR_of_fits {a b : DNum} (h : Fits (a + b)) : addR a b = a + b := round34_of_fits h

/-- The 34-digit envelope of a sum taken from the left: every partial sum fits. -/
def SumFits : DNum → List DNum → Prop
  | _, [] => True
  | acc, v :: vs => Fits (acc + v) ∧ SumFits (acc + v) vs

instance : (acc : DNum) → (vs : List DNum) → Decidable (SumFits acc vs)
  | _, [] => isTrue trivial
  | acc, v :: vs =>
    have := instDecidableSumFits (acc + v) vs
    inferInstanceAs (Decidable (Fits (acc + v) ∧ SumFits (acc + v) vs))

theorem foldl_addR_of_fits (n : DNum) (ns : List DNum) (h : SumFits n ns) :
    ns.foldl addR n = ns.foldl (· + ·) n := by
  induction ns generalizing n with
  | nil => rfl
  | cons v vs ih =>
    obtain ⟨h1, h2⟩ := h
    rw [List.foldl_cons, List.foldl_cons, addR_of_fits h1]
    exact ih _ h2

/-- The value of a number of the evaluator model (`(-1)^neg · coeff · 10^exp`). -/
def ofDec (d : Dec) : DNum :=
  if d.exp ≥ 0 then ofInt (d.scoeff * (10 : Int) ^ d.exp.toNat) else norm d.scoeff (-d.exp).toNat

/-- Back: the representation with exponent `-scale` (no trailing fraction zeros). -/
def toDec (n : DNum) : Dec := ⟨decide (n.coeff < 0), n.coeff.natAbs, -(n.scale : Int)⟩

/-- The representation is the normal form already: a non-negative exponent, or a coefficient
without trailing zero (then `toDec (ofDec d)` prints as `d` does). -/
def reducedRep (d : Dec) : Bool := decide (d.exp ≥ 0) || d.coeff % 10 != 0

end DNum
end Dmn
