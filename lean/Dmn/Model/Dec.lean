/-!
# D128 — executable model of decimal128 arithmetic as dmntk's `FeelNumber` uses it

Code modelled: `/repo/feel-number/src/dec.rs` (FFI wrappers), `/repo/feel-number/src/number.rs`
(`FeelNumber`), and behind them the bundled C library decNumber (`decQuad*` from
`decBasic.c`/`decCommon.c`, `decNumber{Reduce,Rescale,SquareRoot,ScaleB}` from `decNumber.c`)
under the context `digits=34 emax=6144 emin=-6143 round=HALF_EVEN clamp=1`
(`dec.rs:117-124`, `decContextDefault(.., DEC_INIT_DECQUAD)`).

A finite decimal128 is `(-1)^neg · coeff · 10^exp` with `coeff < 10^34`, `-6176 ≤ exp ≤ 6111`.
Everything is computed on `Nat`/`Int`: align exponents, integer add/multiply, count digits,
divide by `10^k` with remainder, compare the remainder with half, tie → parity, long division
to 35 digits + sticky, integer square root.  No rationals.

All recursion is structural on a fuel argument (so that `decide`/`rfl` evaluate closed
instances in the kernel); the fuel is always large enough, which the lemmas in
`Dmn/Lemmas/D128*.lean` prove.

This file imports nothing (it is linked into the driver executable).
-/

namespace Dmn

/-- finite decimal128: `(-1)^neg · coeff · 10^exp` -/
structure D128 where
  neg : Bool
  coeff : Nat
  exp : Int
  deriving Repr, DecidableEq, Inhabited

/-- result of an operation: finite, ±Infinity, NaN (quiet; decNumber's NaN payload/sign and
signalling NaNs never arise from finite operands and are not modelled) -/
inductive D128R where
  | fin (d : D128)
  | inf (neg : Bool)
  | nan
  deriving Repr, DecidableEq, Inhabited

namespace D128

/-- precision of decimal128 -/
def prec : Nat := 34
/-- smallest exponent of a (subnormal) coefficient: `emin - (digits-1)` -/
def eTiny : Int := -6176
/-- largest exponent of a full coefficient: `emax - (digits-1)` -/
def eTop : Int := 6111
/-- largest adjusted exponent -/
def eMax : Int := 6144

/-- the representable finite decimal128 triples -/
def WF (d : D128) : Prop := d.coeff < 10 ^ 34 ∧ -6176 ≤ d.exp ∧ d.exp ≤ 6111

instance (d : D128) : Decidable (WF d) := by unfold WF; exact inferInstance

def isZero (d : D128) : Bool := d.coeff == 0

/-- signed integer `(-1)^neg · c` -/
def sint (neg : Bool) (c : Nat) : Int := if neg then -(c : Int) else (c : Int)

/-! ## digit counting -/

/-- number of decimal digits of `n` (0 for 0); `fuel ≥ n` suffices -/
def ndigitsAux : Nat → Nat → Nat
  | 0, _ => 0
  | fuel + 1, n => if n = 0 then 0 else ndigitsAux fuel (n / 10) + 1

/-- digit count by repeated division (the reference definition) -/
def ndigitsSlow (n : Nat) : Nat := ndigitsAux n n

/-- number of decimal digits of `n`; `ndigits 0 = 0`.
A guess from the binary logarithm (`log₁₀ 2 ≈ 1233/4096`) is *checked* against the defining
inequalities `10^(g-1) ≤ n < 10^g`; only if both nearby guesses fail is the digit count
obtained by repeated division (the driver handles 12 000-digit exact sums). -/
def ndigits (n : Nat) : Nat :=
  if n = 0 then 0
  else
    let g := Nat.log2 n * 1233 / 4096 + 1
    if 10 ^ (g - 1) ≤ n ∧ n < 10 ^ g then g
    else if 10 ^ g ≤ n ∧ n < 10 ^ (g + 1) then g + 1
    else ndigitsSlow n

/-- number of trailing decimal zeros of `n` that may be stripped, at most `limit` -/
def stripZeros : Nat → Nat → Nat × Nat
  | 0, n => (n, 0)
  | limit + 1, n =>
    if n ≠ 0 ∧ n % 10 = 0 then
      let (m, k) := stripZeros limit (n / 10)
      (m, k + 1)
    else (n, 0)

/-! ## rounding -/

/-- Half-even decision.  `q` is the kept part, `r` the discarded part out of `p`
(`0 ≤ r < p`), `sticky` says that the exact value has further non-zero digits below `r`. -/
def roundsUp (q r p : Nat) (sticky : Bool) : Bool :=
  if 2 * r > p then true
  else if 2 * r = p then (sticky || q % 2 == 1)
  else false

/-- `c / 10^k` rounded half-even (`sticky`: the exact value is strictly between `c` and `c+1`;
then `k ≥ 1` is required for the result to be the correct rounding). -/
def divRound (c k : Nat) (sticky : Bool) : Nat :=
  let p := 10 ^ k
  let q := c / p
  let r := c % p
  if roundsUp q r p sticky then q + 1 else q

/-- exponent of an exact zero result: clamped into the exponent range
(decFinalize, `decCommon.c`: zero with exponent outside the range is clamped) -/
def clampExp (e : Int) : Int := if e < eTiny then eTiny else if e > eTop then eTop else e

/-- Exponent at which the coefficient `c` (at exponent `e`) is cut: the exponent of its 34th
digit when it has more than 34, but never below `eTiny` (subnormal results are rounded at the
fixed exponent −6176). -/
def cutExp (c : Nat) (e : Int) : Int :=
  let nd : Int := ndigits c
  let e1 : Int := if nd > 34 then e + (nd - 34) else e
  if e1 < eTiny then eTiny else e1

/-- Range handling of a rounded coefficient `q ≤ 10^34` at exponent `et ≥ eTiny`:
* a carry out of 34 nines gives `10^33` at the next exponent;
* a zero stays a zero (underflow to zero keeps the exponent `eTiny`);
* adjusted exponent above 6144: overflow to infinity (half-even always overflows to ∞);
* exponent above 6111 but value in range: the coefficient is padded with zeros (clamp=1). -/
def pack (neg : Bool) (q : Nat) (et : Int) : D128R :=
  let q' := if q = 10 ^ 34 then 10 ^ 33 else q
  let et' := if q = 10 ^ 34 then et + 1 else et
  if q' = 0 then .fin ⟨neg, 0, et'⟩
  else if et' + (ndigits q' : Int) - 1 > eMax then .inf neg
  else if et' > eTop then .fin ⟨neg, q' * 10 ^ (et' - eTop).toNat, eTop⟩
  else .fin ⟨neg, q', et'⟩

/-- The single rounding step every arithmetic result goes through (`decFinalize` in
`decCommon.c` for decQuad operations, `decFinalize`/`decSetSubnormal`/`decSetOverflow` in
`decNumber.c`): the exact result is `(-1)^neg · (c + θ) · 10^e` with `θ = 0` when `sticky` is
false and `0 < θ < 1` otherwise.  Digits below `cutExp` are dropped *once*, half-even
(`divRound`), then `pack` handles carry, overflow, clamp and underflow to zero.  An exact zero
keeps its sign and gets the exponent clamped into the range. -/
def finalize (neg : Bool) (c : Nat) (e : Int) (sticky : Bool) : D128R :=
  if c = 0 ∧ sticky = false then .fin ⟨neg, 0, clampExp e⟩
  else pack neg (divRound c (cutExp c e - e).toNat sticky) (cutExp c e)

/-! ## sign operations -/

/-- `decQuadMinus` (`decBasic.c:2640`): flips the sign, except that a zero gets sign 0 -/
/- (named `negate`: `D128.neg` is the sign field) -/
def negate (a : D128) : D128 := if a.coeff = 0 then { a with neg := false } else { a with neg := !a.neg }

/-- `decQuadAbs` (`decBasic.c:1069`): clears the sign -/
def abs (a : D128) : D128 := { a with neg := false }

/-- sign flip used inside subtraction (`decQuadSubtract` flips the sign bit of the right
operand, also of a zero) -/
def flip (a : D128) : D128 := { a with neg := !a.neg }

/-! ## addition, subtraction, multiplication -/

/-- `decQuadAdd`: align to the smaller exponent, add as integers, round once.
An exact zero sum is negative only when both operands are negative (round-half-even). -/
def add (a b : D128) : D128R :=
  let e := min a.exp b.exp
  let x : Int := sint a.neg (a.coeff * 10 ^ (a.exp - e).toNat)
  let y : Int := sint b.neg (b.coeff * 10 ^ (b.exp - e).toNat)
  let s := x + y
  if s = 0 then .fin ⟨a.neg && b.neg, 0, clampExp e⟩
  else finalize (decide (s < 0)) s.natAbs e false

/-- `decQuadSubtract` -/
def sub (a b : D128) : D128R := add a (flip b)

/-- `decQuadMultiply`: multiply coefficients, add exponents, round once -/
def mul (a b : D128) : D128R :=
  finalize (a.neg != b.neg) (a.coeff * b.coeff) (a.exp + b.exp) false

/-! ## division -/

/-- Long division `a / b` (`b > 0`), one decimal digit per step.
State `(q, r, k)` with `q·b + r = a·10^k`, `r < b`.  Stops when the remainder is zero
(exact: the exponent stays as close to the ideal exponent as possible) or when the quotient
has 35 digits (34 + one guard digit; the rest is sticky). -/
def divLoop : Nat → Nat → Nat → Nat → Nat → Nat × Nat × Nat
  | 0, q, r, _, k => (q, r, k)
  | fuel + 1, q, r, b, k =>
    if r = 0 ∨ ndigits q ≥ 35 then (q, r, k)
    else divLoop fuel (q * 10 + (r * 10) / b) ((r * 10) % b) b (k + 1)

/-- fuel for `divLoop`: at most 34 steps until the quotient is non-zero, then 34 more -/
def divFuel : Nat := 72

/-- `decQuadDivide`: `0/0 = NaN`, `x/0 = ±Infinity`, `0/x = 0` with the ideal exponent
(clamped); otherwise long division to 35 digits + sticky and one rounding. -/
def div (a b : D128) : D128R :=
  let s := a.neg != b.neg
  if b.coeff = 0 then (if a.coeff = 0 then .nan else .inf s)
  else if a.coeff = 0 then .fin ⟨s, 0, clampExp (a.exp - b.exp)⟩
  else
    let (q, r, k) := divLoop divFuel (a.coeff / b.coeff) (a.coeff % b.coeff) b.coeff 0
    finalize s q (a.exp - b.exp - (k : Int)) (decide (r ≠ 0))

/-! ## comparison -/

/-- `decQuadCompare` on finite operands: numeric comparison at a common exponent
(`-0 = +0`, trailing zeros irrelevant). -/
def cmp (a b : D128) : Ordering :=
  let e := min a.exp b.exp
  compare (sint a.neg (a.coeff * 10 ^ (a.exp - e).toNat)) (sint b.neg (b.coeff * 10 ^ (b.exp - e).toNat))

def eq (a b : D128) : Bool := cmp a b == .eq
def lt (a b : D128) : Bool := cmp a b == .lt
def le (a b : D128) : Bool := cmp a b != .gt

/-- `decQuadIsNegative`: signed and non-zero -/
def isNegative (a : D128) : Bool := a.neg && a.coeff != 0
/-- `decQuadIsPositive`: unsigned and non-zero -/
def isPositive (a : D128) : Bool := !a.neg && a.coeff != 0

/-! ## reduce -/

/-- `decNumberReduce` (`decNumber.c:2307`, `decTrim` `:6589`): a zero becomes `0E+0` (sign
kept); otherwise trailing zeros are removed, but never so many that the exponent would exceed
`eTop` (clamp). -/
def reduce (a : D128) : D128 :=
  if a.coeff = 0 then ⟨a.neg, 0, 0⟩
  else
    let (m, k) := stripZeros (eTop - a.exp).toNat a.coeff
    ⟨a.neg, m, a.exp + (k : Int)⟩

/-! ## integral values -/

/-- `decQuadIsInteger` (`DFISINT`, `decNumberLocal.h:407`): *the exponent is zero* — not
"the value is an integer". -/
def isInteger (a : D128) : Bool := a.exp == 0

/-- the value is an integer (specification-level notion) -/
def isIntegral (a : D128) : Bool :=
  a.coeff == 0 || a.exp ≥ 0 || a.coeff % 10 ^ (-a.exp).toNat == 0

inductive RMode where
  | floor | ceiling | down | halfEven
  deriving Repr, DecidableEq

/-- `decQuadToIntegralValue(mode)` (`decBasic.c:3874`): unchanged when `exp ≥ 0`; otherwise
quantized to exponent 0 under the given rounding mode (the sign is kept, also for a zero
result). -/
def toIntegral (m : RMode) (a : D128) : D128 :=
  if a.exp ≥ 0 then a
  else
    let p := 10 ^ (-a.exp).toNat
    let q := a.coeff / p
    let r := a.coeff % p
    let up : Bool :=
      match m with
      | .floor => a.neg && r != 0
      | .ceiling => !a.neg && r != 0
      | .down => false
      | .halfEven => roundsUp q r p false
    ⟨a.neg, if up then q + 1 else q, 0⟩

/-- `dec_floor` (`dec.rs:232`) -/
def floor (a : D128) : D128 := toIntegral .floor a

/-- `dec_ceiling` (`dec.rs:241`): a negative non-zero argument whose ceiling is zero gives `+0` -/
def ceiling (a : D128) : D128 :=
  let r := toIntegral .ceiling a
  if isNegative a && r.coeff == 0 then ⟨false, 0, 0⟩ else r

/-- `dec_trunc` (`dec.rs:254`) -/
def trunc (a : D128) : D128 := toIntegral .down a

/-- `dec_fract` (`dec.rs:263`): `a - trunc a` -/
def fract (a : D128) : D128R := sub a (trunc a)

/-! ## rescale (FEEL `decimal(n, scale)`) -/

/-- `decNumberRescale(a, newExp)` (`decQuantizeOp`, `decNumber.c:5829`), `newExp` already
checked to lie in `eTiny..eMax` (FEEL checks `-6111 ≤ scale ≤ 6176`, `core.rs:292`, fix 10239df):
a zero just gets the exponent; digits are dropped half-even or zeros appended; a result that
would need more than 34 digits is `NaN` (Invalid operation). -/
def rescaleExp (a : D128) (newExp : Int) : D128R :=
  if newExp < eTiny ∨ newExp > eMax then .nan
  else if a.coeff = 0 then .fin ⟨a.neg, 0, newExp⟩
  else
    let adjust := newExp - a.exp
    if (ndigits a.coeff : Int) - adjust > 34 then .nan
    else if adjust > 0 then
      let q := divRound a.coeff adjust.toNat false
      if ndigits q > 34 then .nan else .fin ⟨a.neg, q, newExp⟩
    else .fin ⟨a.neg, a.coeff * 10 ^ (-adjust).toNat, newExp⟩

/-- `FeelNumber::round(scale)` (`number.rs:164`): `rescale(self, -scale)`, round half-even to
`scale` fraction digits -/
def rescale (a : D128) (scale : Int) : D128R := rescaleExp a (-scale)

/-! ## remainder (decQuadRemainder), used by `even`/`odd` -/

/-- `decQuadRemainder` (`decDivide(.., REMAINDER)`): `a - b·trunc(a/b)`, sign of `a`, exponent
`min a.exp b.exp`; `NaN` for a zero divisor and when the integer quotient needs more than 34
digits (Division impossible). -/
def remainder (a b : D128) : D128R :=
  if b.coeff = 0 then .nan
  else
    let e := min a.exp b.exp
    let x := a.coeff * 10 ^ (a.exp - e).toNat
    let y := b.coeff * 10 ^ (b.exp - e).toNat
    if a.coeff = 0 then .fin ⟨a.neg, 0, e⟩
    else if ndigits (x / y) > 34 then .nan
    else finalize a.neg (x % y) e false

/-! ## square root -/

/-- integer square root by halving: `isqrt n = ⌊√n⌋`; `fuel ≥ n` suffices -/
def isqrtAux : Nat → Nat → Nat
  | 0, _ => 0
  | fuel + 1, n =>
    if n < 2 then n
    else
      let r := 2 * isqrtAux fuel (n / 4)
      if (r + 1) * (r + 1) ≤ n then r + 1 else r

def isqrt (n : Nat) : Nat := isqrtAux n n

/-- `decNumberSquareRoot` (`decNumber.c:2801`): `√(±0) = ±0` with exponent `⌊e/2⌋`;
negative → NaN; an exact root gets the ideal exponent `⌊e/2⌋`; otherwise 34 digits, half-even
(here: 35+ digits of the integer root of the scaled coefficient, the rest sticky). -/
def sqrt (a : D128) : D128R :=
  let ideal : Int := a.exp / 2
  if a.coeff = 0 then .fin ⟨a.neg, 0, ideal⟩
  else if a.neg then .nan
  else
    -- make the exponent even
    let c := if a.exp % 2 = 0 then a.coeff else a.coeff * 10
    let r0 := isqrt c
    if r0 * r0 = c then finalize false r0 ideal false
    else
      let k := 36 - ndigits r0
      let r := isqrt (c * 100 ^ k)
      finalize false r (ideal - (k : Int)) true

/-! ## conversions -/

def ofNat (n : Nat) : D128 := ⟨false, n, 0⟩

/-- an integer as `dec_from_string(&format!("{}", n))` makes it (exponent 0; only exact for
`|n| < 10^34`) -/
def ofInt (n : Int) : D128 := ⟨decide (n < 0), n.natAbs, 0⟩

/-- the integer value, when the value is an integer -/
def toInt? (a : D128) : Option Int :=
  if a.exp ≥ 0 then some (sint a.neg (a.coeff * 10 ^ a.exp.toNat))
  else
    let p := 10 ^ (-a.exp).toNat
    if a.coeff % p = 0 then some (sint a.neg (a.coeff / p)) else none

/-- `decNumberScaleB(a, k)`: adds `k` to the exponent, then the usual range handling -/
def scaleb (a : D128) (k : Int) : D128R := finalize a.neg a.coeff (a.exp + k) false

/-- `FeelNumber::new(n, s)` (`number.rs:66`): `n · 10^(-s)` -/
def ofScaled (n : Int) (s : Int) : D128R := finalize (decide (n < 0)) n.natAbs (-s) false

end D128

/-! ## operations on results (`FeelNumber` may hold Infinity / NaN: the operators do not check) -/

namespace D128R

def isFinite : D128R → Bool
  | .fin _ => true
  | _ => false

def isNaN : D128R → Bool
  | .nan => true
  | _ => false

def toOption : D128R → Option D128
  | .fin d => some d
  | _ => none

/-- decNumber rules for special operands of `add` -/
def add : D128R → D128R → D128R
  | .nan, _ => .nan
  | _, .nan => .nan
  | .fin a, .fin b => D128.add a b
  | .inf s, .fin _ => .inf s
  | .fin _, .inf s => .inf s
  | .inf s, .inf t => if s = t then .inf s else .nan

def negate : D128R → D128R
  | .fin a => .fin (D128.negate a)
  | .inf s => .inf (!s)
  | .nan => .nan

/-- sign flip of the right operand of a subtraction -/
def flip : D128R → D128R
  | .fin a => .fin (D128.flip a)
  | .inf s => .inf (!s)
  | .nan => .nan

def sub (a b : D128R) : D128R := add a (flip b)

def mul : D128R → D128R → D128R
  | .nan, _ => .nan
  | _, .nan => .nan
  | .fin a, .fin b => D128.mul a b
  | .inf s, .fin b => if b.coeff = 0 then .nan else .inf (s != b.neg)
  | .fin a, .inf t => if a.coeff = 0 then .nan else .inf (a.neg != t)
  | .inf s, .inf t => .inf (s != t)

def div : D128R → D128R → D128R
  | .nan, _ => .nan
  | _, .nan => .nan
  | .fin a, .fin b => D128.div a b
  | .inf s, .fin b => .inf (s != b.neg)
  | .fin a, .inf t => .fin ⟨a.neg != t, 0, D128.eTiny⟩
  | .inf _, .inf _ => .nan

def abs : D128R → D128R
  | .fin a => .fin (D128.abs a)
  | .inf _ => .inf false
  | .nan => .nan

def reduce : D128R → D128R
  | .fin a => .fin (D128.reduce a)
  | .inf s => .inf s
  | .nan => .nan

def map (f : D128 → D128) : D128R → D128R
  | .fin a => .fin (f a)
  | .inf s => .inf s
  | .nan => .nan

/-- `decQuadCompare` with specials: `none` when a NaN is involved -/
def cmp? : D128R → D128R → Option Ordering
  | .nan, _ => none
  | _, .nan => none
  | .fin a, .fin b => some (D128.cmp a b)
  | .inf s, .inf t => some (if s = t then .eq else if s then .lt else .gt)
  | .inf s, .fin _ => some (if s then .lt else .gt)
  | .fin _, .inf t => some (if t then .gt else .lt)

def isZero : D128R → Bool
  | .fin a => a.coeff == 0
  | _ => false

end D128R

/-! ## `FeelNumber` (`number.rs`): which results are reduced, which are checked -/

namespace FNum

/-- `impl Add` (`number.rs:264`): `dec_reduce(dec_add(..))`, no finiteness check -/
def add (a b : D128R) : D128R := (D128R.add a b).reduce
/-- `impl Sub` (`number.rs:280`) -/
def sub (a b : D128R) : D128R := (D128R.sub a b).reduce
/-- `impl Mul` (`number.rs:296`) -/
def mul (a b : D128R) : D128R := (D128R.mul a b).reduce
/-- `impl Div` (`number.rs:312`) -/
def div (a b : D128R) : D128R := (D128R.div a b).reduce
/-- `impl Neg` (`number.rs:339`): `dec_minus`, not reduced -/
def neg (a : D128R) : D128R := a.negate
/-- `FeelNumber::abs` (`number.rs:104`): not reduced -/
def abs (a : D128R) : D128R := a.abs
/-- `FeelNumber::floor` (`number.rs:120`): reduced -/
def floor (a : D128R) : D128R := (a.map D128.floor).reduce
/-- `FeelNumber::ceiling` (`number.rs:108`): reduced -/
def ceiling (a : D128R) : D128R := (a.map D128.ceiling).reduce
/-- `FeelNumber::trunc` (`number.rs:189`): not reduced -/
def trunc (a : D128R) : D128R := a.map D128.trunc

/-- `impl PartialEq` (`number.rs:207`): `dec_is_zero(dec_compare(..))`; false with a NaN -/
def eq (a b : D128R) : Bool := D128R.cmp? a b == some .eq

/-- `impl PartialOrd` (`number.rs:225`): compare flag zero → Equal, positive → Greater, anything
else (negative, NaN) → Less -/
def cmp (a b : D128R) : Ordering :=
  match D128R.cmp? a b with
  | some .eq => .eq
  | some .gt => .gt
  | _ => .lt

/-- `impl Rem` (`number.rs:328`) and FEEL `modulo` (`core.rs:690`, where every operator reduces;
the final value is the same): `a - b·floor(a / b)`, every step rounded — which is not the
mathematical modulo when the quotient or the product needs more than 34 digits (finding
F65-modulo; specification: `ModuloSpec`, `Model/DecSpec.lean`) -/
def modulo (a b : D128R) : D128R :=
  sub a (mul b (floor (div a b)))

/-- `FeelNumber::round` (`number.rs:164`): `dec_rescale(self, dec_minus(scale))`; not reduced -/
def round (a : D128R) (scale : Int) : D128R :=
  match a with
  | .fin d => D128.rescale d scale
  | .inf _ => .nan      -- decQuantizeOp: one infinity but not both → Invalid operation
  | .nan => .nan

/-- `FeelNumber::sqrt` (`number.rs:168`): `None` when not finite, else reduced -/
def sqrt (a : D128R) : Option D128 :=
  match a with
  | .fin d =>
    match D128.sqrt d with
    | .fin r => some (D128.reduce r)
    | _ => none
  | .inf false => none
  | _ => none

/-- `FeelNumber::is_integer` (`number.rs:133`, fix 5501a2e): finite and `trunc(x) = x` — the
*value* is integral, whatever the exponent -/
def isInteger (a : D128R) : Bool :=
  match a with
  | .fin d => D128.cmp (D128.trunc d) d == .eq
  | _ => false

/-- `FeelNumber::even` (`number.rs:110`): the remainder by 2 is zero; when the remainder is not
finite (the integer quotient needs more than 34 digits) the answer is `is_integer()` -/
def even (a : D128R) : Bool :=
  match a with
  | .fin d =>
    match D128.remainder d ⟨false, 2, 0⟩ with
    | .fin r => r.coeff == 0
    | _ => isInteger a
  | _ => false

/-- `FeelNumber::odd` (`number.rs:159`): `is_integer()`, and the remainder by 2 is finite and
not zero -/
def odd (a : D128R) : Bool :=
  match a with
  | .fin d =>
    isInteger a &&
      (match D128.remainder d ⟨false, 2, 0⟩ with
       | .fin r => r.coeff != 0
       | _ => false)
  | _ => false

end FNum

/-- FEEL `modulo(a, b)` on finite operands (`core.rs:690`), for convenience -/
def D128.modulo (a b : D128) : D128R := FNum.modulo (.fin a) (.fin b)

end Dmn
