import Dmn.Model.Json
import Dmn.Model.Dto

/-!
# The TCK DTOs on the wire (`server/src/dto.rs:43-119`, `serde` / `serde_json`)

The structs of `dto.rs` carry `#[derive(Serialize)]` / `#[derive(Deserialize)]`; what goes over the wire is what
`serde_json` makes of them.  Modelled here, literally:

* `Json.render` — `serde_json::to_string` on the JSON data model (compact: no blanks; strings escaped as
  `Json.escape`; `None` as `null`; struct fields in declaration order).
* `Dto.json`, `outJson`, `tckBody` — `Serialize` of `ValueDto` / `ComponentDto` / `ListDto` / `OutputNodeDto`
  and of `ResultDto::data(OutputNodeDto)` (`server.rs:69-77`: `errors` is skipped when empty).
* `readValue` … `readParams` — the derived `Deserialize` (`visit_map`) of `ValueDto`, `SimpleDto`,
  `ComponentDto`, `ListDto`, `InputNodeDto`, `TckEvaluateParams`, statement by statement: members are taken in
  document order; a member whose name is a field is read (a second one of the same name is the error
  `duplicate field`, tested before the value is read); a member of any other name is skipped; at the end a missing
  `Option` field is `None`, a missing `bool` / `Vec` / `String` field is the error `missing field`; `null` in an
  `Option` field is `None`.  A value of the wrong JSON kind is the error `invalid type`.
  The result of reading a `ValueDto` is given as the view `TryFrom<&ValueDto>` takes of it (`Dto`: `simple` if
  present, else `components`, else `list`, else none of them) — all three fields are read and must be readable.
* `toOutput` — `TryFrom<Value> for OutputNodeDto` (`dto.rs:121-211`); `fromInputs` —
  `TryFrom<&Vec<InputNodeDto>> for WrappedValue` (`dto.rs:283-304`).

Not modelled: the sequence form of a struct (serde's derived `visit_seq`: a JSON array in place of an object,
fields by position) — `readValue` answers `invalidType` for it; the texts of serde's messages (only the kind of
error and the field); the UTF-8 layer.
-/

namespace Dmn.Json

mutual
/-- `serde_json::to_string`: the compact writer. -/
def render : Json → List Char
  | .null => ['n', 'u', 'l', 'l']
  | .bool true => ['t', 'r', 'u', 'e']
  | .bool false => ['f', 'a', 'l', 's', 'e']
  | .num t => t
  | .str s => quote s
  | .arr xs => '[' :: (renderElems xs ++ [']'])
  | .obj ms => '{' :: (renderMembers ms ++ ['}'])
def renderElems : List Json → List Char
  | [] => []
  | x :: xs => render x ++ renderMore xs
def renderMore : List Json → List Char
  | [] => []
  | x :: xs => ',' :: (render x ++ renderMore xs)
def renderMembers : List (List Char × Json) → List Char
  | [] => []
  | (k, v) :: ms => quote k ++ ':' :: (render v ++ renderMoreMembers ms)
def renderMoreMembers : List (List Char × Json) → List Char
  | [] => []
  | (k, v) :: ms => ',' :: (quote k ++ ':' :: (render v ++ renderMoreMembers ms))
end

mutual
/-- every number lexeme in the document is a number of the grammar -/
def lexemesOk : Json → Bool
  | .num t => isNumber t
  | .arr xs => lexemesOkList xs
  | .obj ms => lexemesOkMembers ms
  | _ => true
def lexemesOkList : List Json → Bool
  | [] => true
  | x :: xs => lexemesOk x && lexemesOkList xs
def lexemesOkMembers : List (List Char × Json) → Bool
  | [] => true
  | (_, v) :: ms => lexemesOk v && lexemesOkMembers ms
end

end Dmn.Json

namespace Dmn.Dto
open Dmn.Json

/-! ## Field names (`#[serde(rename = …)]`) and type names -/

def kSimple : List Char := ['s', 'i', 'm', 'p', 'l', 'e']
def kComponents : List Char := ['c', 'o', 'm', 'p', 'o', 'n', 'e', 'n', 't', 's']
def kList : List Char := ['l', 'i', 's', 't']
def kType : List Char := ['t', 'y', 'p', 'e']
def kText : List Char := ['t', 'e', 'x', 't']
def kIsNil : List Char := ['i', 's', 'N', 'i', 'l']
def kName : List Char := ['n', 'a', 'm', 'e']
def kValue : List Char := ['v', 'a', 'l', 'u', 'e']
def kItems : List Char := ['i', 't', 'e', 'm', 's']
def kModel : List Char := ['m', 'o', 'd', 'e', 'l']
def kInvocable : List Char := ['i', 'n', 'v', 'o', 'c', 'a', 'b', 'l', 'e']
def kInput : List Char := ['i', 'n', 'p', 'u', 't']
def kData : List Char := ['d', 'a', 't', 'a']

def nString : List Char := ['x', 's', 'd', ':', 's', 't', 'r', 'i', 'n', 'g']
def nInteger : List Char := ['x', 's', 'd', ':', 'i', 'n', 't', 'e', 'g', 'e', 'r']
def nDecimal : List Char := ['x', 's', 'd', ':', 'd', 'e', 'c', 'i', 'm', 'a', 'l']
def nDouble : List Char := ['x', 's', 'd', ':', 'd', 'o', 'u', 'b', 'l', 'e']
def nBoolean : List Char := ['x', 's', 'd', ':', 'b', 'o', 'o', 'l', 'e', 'a', 'n']
def nDate : List Char := ['x', 's', 'd', ':', 'd', 'a', 't', 'e']
def nTime : List Char := ['x', 's', 'd', ':', 't', 'i', 'm', 'e']
def nDateTime : List Char := ['x', 's', 'd', ':', 'd', 'a', 't', 'e', 'T', 'i', 'm', 'e']
def nDuration : List Char := ['x', 's', 'd', ':', 'd', 'u', 'r', 'a', 't', 'i', 'o', 'n']

/-- the text of the `type` attribute -/
def XsdType.name : XsdType → List Char
  | .string => nString
  | .integer => nInteger
  | .decimal => nDecimal
  | .double => nDouble
  | .boolean => nBoolean
  | .date => nDate
  | .time => nTime
  | .dateTime => nDateTime
  | .duration => nDuration
  | .other n => n

/-- `match typ.as_str()` (`dto.rs:341-352`) -/
def xsdOfName (n : List Char) : XsdType :=
  if n = nString then .string
  else if n = nInteger then .integer
  else if n = nDecimal then .decimal
  else if n = nDouble then .double
  else if n = nBoolean then .boolean
  else if n = nDate then .date
  else if n = nTime then .time
  else if n = nDateTime then .dateTime
  else if n = nDuration then .duration
  else .other n

/-! ## `Serialize` -/

def optStr : Option (List Char) → Json
  | some t => .str t
  | none => .null

mutual
/-- `ValueDto` as `serde_json` writes it: the three fields in declaration order, `None` as `null`. -/
def Dto.json : Dto → Json
  | .simple typ text isNil =>
    .obj [(kSimple, .obj [(kType, optStr (typ.map XsdType.name)), (kText, optStr text), (kIsNil, .bool isNil)]),
          (kComponents, .null), (kList, .null)]
  | .components cs => .obj [(kSimple, .null), (kComponents, .arr cs.json), (kList, .null)]
  | .list items isNil =>
    .obj [(kSimple, .null), (kComponents, .null), (kList, .obj [(kItems, .arr items.json), (kIsNil, .bool isNil)])]
  | .empty => .obj [(kSimple, .null), (kComponents, .null), (kList, .null)]
  | .missing => .null                                     -- `value: None` of a component
/-- `Vec<ComponentDto>` -/
def DtoComps.json : DtoComps → List Json
  | .nil => []
  | .cons name value isNil rest =>
    .obj [(kName, optStr name), (kValue, value.json), (kIsNil, .bool isNil)] :: rest.json
/-- `Vec<ValueDto>` -/
def DtoList.json : DtoList → List Json
  | .nil => []
  | .cons d rest => d.json :: rest.json
end

/-- `OutputNodeDto { value: Option<ValueDto> }` -/
abbrev OutputNode := Option Dto

/-- `TryFrom<Value> for OutputNodeDto` (`dto.rs:121-211`): the arms are those of `TryFrom<&Value> for ValueDto`,
except the last: a value of another kind is `OutputNodeDto { value: None }`. -/
def toOutput : TV → OutputNode
  | .other _ => none
  | v => some (toDto v)

def optDtoJson : Option Dto → Json
  | some d => d.json
  | none => .null

def outJson (o : OutputNode) : Json := .obj [(kValue, optDtoJson o)]

/-- the body of a successful `POST /tck/evaluate`: `Json(ResultDto::data(output))` -/
def tckJson (o : OutputNode) : Json := .obj [(kData, outJson o)]
def tckBody (o : OutputNode) : List Char := render (tckJson o)

/-- `InputNodeDto { name, value }` as a client writes it -/
def inputJson (i : List Char × Option Dto) : Json := .obj [(kName, .str i.1), (kValue, optDtoJson i.2)]

/-- the body of a request to `POST /tck/evaluate` -/
def paramsJson (model invocable : List Char) (inputs : List (List Char × Option Dto)) : Json :=
  .obj [(kModel, .str model), (kInvocable, .str invocable), (kInput, .arr (inputs.map inputJson))]

/-! ## `Deserialize` -/

inductive DeErr where
  /-- `invalid type: …, expected …` -/
  | invalidType
  /-- `missing field` -/
  | missingField (field : List Char)
  /-- `duplicate field` -/
  | duplicateField (field : List Char)
  deriving DecidableEq, Repr

/-- `Option<String>` -/
def readOptString : Json → Except DeErr (Option (List Char))
  | .null => .ok none
  | .str s => .ok (some s)
  | _ => .error .invalidType

/-- `String` -/
def readString : Json → Except DeErr (List Char)
  | .str s => .ok s
  | _ => .error .invalidType

/-- `bool` -/
def readBool : Json → Except DeErr Bool
  | .bool b => .ok b
  | _ => .error .invalidType

/-- `SimpleDto`: type, text, isNil -/
abbrev Simple := Option XsdType × Option (List Char) × Bool

/-- the `visit_map` loop of `SimpleDto` -/
def readSimpleMembers : List (List Char × Json) → Option (Option (List Char)) → Option (Option (List Char)) → Option Bool →
    Except DeErr (Option (Option (List Char)) × Option (Option (List Char)) × Option Bool)
  | [], t, x, n => .ok (t, x, n)
  | (k, v) :: ms, t, x, n =>
    if k = kType then
      match t with
      | some _ => .error (.duplicateField kType)
      | none =>
        match readOptString v with
        | .error e => .error e
        | .ok r => readSimpleMembers ms (some r) x n
    else if k = kText then
      match x with
      | some _ => .error (.duplicateField kText)
      | none =>
        match readOptString v with
        | .error e => .error e
        | .ok r => readSimpleMembers ms t (some r) n
    else if k = kIsNil then
      match n with
      | some _ => .error (.duplicateField kIsNil)
      | none =>
        match readBool v with
        | .error e => .error e
        | .ok r => readSimpleMembers ms t x (some r)
    else readSimpleMembers ms t x n                      -- `_ => { let _ = map.next_value::<IgnoredAny>()?; }`

/-- `Option<SimpleDto>` -/
def readOptSimple : Json → Except DeErr (Option Simple)
  | .null => .ok none
  | .obj ms =>
    match readSimpleMembers ms none none none with
    | .error e => .error e
    | .ok (t, x, n) =>
      match n with
      | none => .error (.missingField kIsNil)
      | some n => .ok (some ((t.getD none).map xsdOfName, x.getD none, n))
  | _ => .error .invalidType

/-- The view `TryFrom<&ValueDto>` takes of the three fields (`dto.rs:317-331`). -/
def view (s : Option Simple) (c : Option DtoComps) (l : Option (DtoList × Bool)) : Dto :=
  match s with
  | some (t, x, n) => .simple t x n
  | none =>
    match c with
    | some cs => .components cs
    | none =>
      match l with
      | some (items, n) => .list items n
      | none => .empty

abbrev ValueFields := Option (Option Simple) × Option (Option DtoComps) × Option (Option (DtoList × Bool))

def finishValue : Except DeErr ValueFields → Except DeErr Dto
  | .error e => .error e
  | .ok (s, c, l) => .ok (view (s.getD none) (c.getD none) (l.getD none))

def finishComp : Except DeErr (Option (Option (List Char)) × Option (Option Dto) × Option Bool) →
    Except DeErr (Option (List Char) × Dto × Bool)
  | .error e => .error e
  | .ok (n, v, b) =>
    match b with
    | none => .error (.missingField kIsNil)
    | some b => .ok (n.getD none, (v.getD none).getD .missing, b)

def finishList : Except DeErr (Option DtoList × Option Bool) → Except DeErr (Option (DtoList × Bool))
  | .error e => .error e
  | .ok (items, b) =>
    match items with
    | none => .error (.missingField kItems)
    | some items =>
      match b with
      | none => .error (.missingField kIsNil)
      | some b => .ok (some (items, b))

mutual
/-- `ValueDto` -/
def readValue : Json → Except DeErr Dto
  | .obj ms => finishValue (readValueMembers ms none none none)
  | _ => .error .invalidType
/-- the `visit_map` loop of `ValueDto` -/
def readValueMembers : List (List Char × Json) → Option (Option Simple) → Option (Option DtoComps) →
    Option (Option (DtoList × Bool)) → Except DeErr ValueFields
  | [], s, c, l => .ok (s, c, l)
  | (k, v) :: ms, s, c, l =>
    if k = kSimple then
      match s with
      | some _ => .error (.duplicateField kSimple)
      | none =>
        match readOptSimple v with
        | .error e => .error e
        | .ok r => readValueMembers ms (some r) c l
    else if k = kComponents then
      match c with
      | some _ => .error (.duplicateField kComponents)
      | none =>
        match readOptComps v with
        | .error e => .error e
        | .ok r => readValueMembers ms s (some r) l
    else if k = kList then
      match l with
      | some _ => .error (.duplicateField kList)
      | none =>
        match readOptList v with
        | .error e => .error e
        | .ok r => readValueMembers ms s c (some r)
    else readValueMembers ms s c l
/-- `Option<ValueDto>` -/
def readOptValue : Json → Except DeErr (Option Dto)
  | .null => .ok none
  | .obj ms =>
    match finishValue (readValueMembers ms none none none) with
    | .error e => .error e
    | .ok d => .ok (some d)
  | _ => .error .invalidType
/-- `Option<Vec<ComponentDto>>` -/
def readOptComps : Json → Except DeErr (Option DtoComps)
  | .null => .ok none
  | .arr xs =>
    match readComps xs with
    | .error e => .error e
    | .ok cs => .ok (some cs)
  | _ => .error .invalidType
/-- `Vec<ComponentDto>` -/
def readComps : List Json → Except DeErr DtoComps
  | [] => .ok .nil
  | x :: xs =>
    match readComp x with
    | .error e => .error e
    | .ok (n, d, b) =>
      match readComps xs with
      | .error e => .error e
      | .ok rest => .ok (.cons n d b rest)
/-- `ComponentDto` -/
def readComp : Json → Except DeErr (Option (List Char) × Dto × Bool)
  | .obj ms => finishComp (readCompMembers ms none none none)
  | _ => .error .invalidType
/-- the `visit_map` loop of `ComponentDto` -/
def readCompMembers : List (List Char × Json) → Option (Option (List Char)) → Option (Option Dto) → Option Bool →
    Except DeErr (Option (Option (List Char)) × Option (Option Dto) × Option Bool)
  | [], n, v, b => .ok (n, v, b)
  | (k, x) :: ms, n, v, b =>
    if k = kName then
      match n with
      | some _ => .error (.duplicateField kName)
      | none =>
        match readOptString x with
        | .error e => .error e
        | .ok r => readCompMembers ms (some r) v b
    else if k = kValue then
      match v with
      | some _ => .error (.duplicateField kValue)
      | none =>
        match readOptValue x with
        | .error e => .error e
        | .ok r => readCompMembers ms n (some r) b
    else if k = kIsNil then
      match b with
      | some _ => .error (.duplicateField kIsNil)
      | none =>
        match readBool x with
        | .error e => .error e
        | .ok r => readCompMembers ms n v (some r)
    else readCompMembers ms n v b
/-- `Option<ListDto>` -/
def readOptList : Json → Except DeErr (Option (DtoList × Bool))
  | .null => .ok none
  | .obj ms => finishList (readListMembers ms none none)
  | _ => .error .invalidType
/-- the `visit_map` loop of `ListDto` -/
def readListMembers : List (List Char × Json) → Option DtoList → Option Bool → Except DeErr (Option DtoList × Option Bool)
  | [], i, b => .ok (i, b)
  | (k, x) :: ms, i, b =>
    if k = kItems then
      match i with
      | some _ => .error (.duplicateField kItems)
      | none =>
        match readItemsJson x with
        | .error e => .error e
        | .ok r => readListMembers ms (some r) b
    else if k = kIsNil then
      match b with
      | some _ => .error (.duplicateField kIsNil)
      | none =>
        match readBool x with
        | .error e => .error e
        | .ok r => readListMembers ms i (some r)
    else readListMembers ms i b
/-- `Vec<ValueDto>` -/
def readItemsJson : Json → Except DeErr DtoList
  | .arr xs => readItems xs
  | _ => .error .invalidType
def readItems : List Json → Except DeErr DtoList
  | [] => .ok .nil
  | x :: xs =>
    match readValue x with
    | .error e => .error e
    | .ok d =>
      match readItems xs with
      | .error e => .error e
      | .ok rest => .ok (.cons d rest)
end

/-- what a client reads out of the answer: `OutputNodeDto` (the member `value`) -/
def readOutputMembers : List (List Char × Json) → Option (Option Dto) → Except DeErr (Option (Option Dto))
  | [], v => .ok v
  | (k, x) :: ms, v =>
    if k = kValue then
      match v with
      | some _ => .error (.duplicateField kValue)
      | none =>
        match readOptValue x with
        | .error e => .error e
        | .ok r => readOutputMembers ms (some r)
    else readOutputMembers ms v

def readOutput : Json → Except DeErr OutputNode
  | .obj ms =>
    match readOutputMembers ms none with
    | .error e => .error e
    | .ok v => .ok (v.getD none)
  | _ => .error .invalidType

/-- the `visit_map` loop of `InputNodeDto` -/
def readInputMembers : List (List Char × Json) → Option (List Char) → Option (Option Dto) →
    Except DeErr (Option (List Char) × Option (Option Dto))
  | [], n, v => .ok (n, v)
  | (k, x) :: ms, n, v =>
    if k = kName then
      match n with
      | some _ => .error (.duplicateField kName)
      | none =>
        match readString x with
        | .error e => .error e
        | .ok r => readInputMembers ms (some r) v
    else if k = kValue then
      match v with
      | some _ => .error (.duplicateField kValue)
      | none =>
        match readOptValue x with
        | .error e => .error e
        | .ok r => readInputMembers ms n (some r)
    else readInputMembers ms n v

/-- `InputNodeDto` -/
def readInput : Json → Except DeErr (List Char × Option Dto)
  | .obj ms =>
    match readInputMembers ms none none with
    | .error e => .error e
    | .ok (n, v) =>
      match n with
      | none => .error (.missingField kName)
      | some n => .ok (n, v.getD none)
  | _ => .error .invalidType

/-- `Vec<InputNodeDto>` -/
def readInputs : List Json → Except DeErr (List (List Char × Option Dto))
  | [] => .ok []
  | x :: xs =>
    match readInput x with
    | .error e => .error e
    | .ok i =>
      match readInputs xs with
      | .error e => .error e
      | .ok rest => .ok (i :: rest)

/-- `Option<Vec<InputNodeDto>>` -/
def readOptInputs : Json → Except DeErr (Option (List (List Char × Option Dto)))
  | .null => .ok none
  | .arr xs =>
    match readInputs xs with
    | .error e => .error e
    | .ok is => .ok (some is)
  | _ => .error .invalidType

structure TckParams where
  model : Option (List Char)
  invocable : Option (List Char)
  input : Option (List (List Char × Option Dto))

/-- the `visit_map` loop of `TckEvaluateParams` (`server.rs:183-195`) -/
def readParamsMembers : List (List Char × Json) → Option (Option (List Char)) → Option (Option (List Char)) →
    Option (Option (List (List Char × Option Dto))) → Except DeErr TckParams
  | [], m, i, x => .ok ⟨m.getD none, i.getD none, x.getD none⟩
  | (k, v) :: ms, m, i, x =>
    if k = kModel then
      match m with
      | some _ => .error (.duplicateField kModel)
      | none =>
        match readOptString v with
        | .error e => .error e
        | .ok r => readParamsMembers ms (some r) i x
    else if k = kInvocable then
      match i with
      | some _ => .error (.duplicateField kInvocable)
      | none =>
        match readOptString v with
        | .error e => .error e
        | .ok r => readParamsMembers ms m (some r) x
    else if k = kInput then
      match x with
      | some _ => .error (.duplicateField kInput)
      | none =>
        match readOptInputs v with
        | .error e => .error e
        | .ok r => readParamsMembers ms m i (some r)
    else readParamsMembers ms m i x

/-- `TckEvaluateParams` -/
def readParams : Json → Except DeErr TckParams
  | .obj ms => readParamsMembers ms none none none
  | _ => .error .invalidType

/-! ## The conversion of the input nodes -/

/-- `TryFrom<&Vec<InputNodeDto>> for WrappedValue` (`dto.rs:283-304`): for every node the name is read first
(`parse_longest_name(&item.name)?`), then the value (`None` is "missing parameter: InputNodeDto.value"),
and the entry is set (a later node of the same name replaces the value of the earlier one). -/
def fromInputs (rd : Readers) : List (List Char × Option Dto) → List (List Char × TV) → Option (List (List Char × TV))
  | [], acc => some acc
  | (n, od) :: rest, acc =>
    match rd.name n with
    | none => none
    | some key =>
      match od with
      | none => none
      | some d =>
        match fromDto rd d with
        | none => none
        | some v => fromInputs rd rest (setEntry acc key v)

/-- `WrappedValue::try_from(input_values)` as `do_evaluate_tck` uses it: the context of the inputs. -/
def inputContext (rd : Readers) (inputs : List (List Char × Option Dto)) : Option TV :=
  (fromInputs rd inputs []).map .ctx

end Dmn.Dto
