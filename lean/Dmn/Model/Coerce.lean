import Dmn.Model.FType

/-!
# Coercion: model of `FeelType::coerced` (`feel/src/types.rs`)

The function only looks at a value through `type_of`, through "is it a
`Value::List` and what are its items", and builds `[v]` or `null`.  It is
therefore written over an abstract value interface `ValOps`; `Model/Value.lean`
instantiates it with the project's `Value` and proves the laws.
-/

namespace Dmn

structure ValOps (V : Type) where
  typeOf : V → FType
  asList : V → Option (List V)
  mkList : List V → V
  null : V

namespace ValOps

/-- The three laws of `Value::type_of` that coercion relies on. -/
structure Laws {V : Type} (o : ValOps V) : Prop where
  typeOf_null : o.typeOf o.null = .null
  typeOf_singleton : ∀ v, o.typeOf (o.mkList [v]) = .list (o.typeOf v)
  typeOf_asList_singleton : ∀ v x, o.asList v = some [x] → o.typeOf v = .list (o.typeOf x)

/-- target is `list<tt>` and the actual type conforms to `tt` (the "to singleton list" test). -/
def wrapOk (t tv : FType) : Bool :=
  match t with
  | .list tt => FType.conf tv tt
  | _ => false

/-- the actual type is `list<at>` and `at` conforms to the target (the "from singleton list" test). -/
def unwrapOk (t tv : FType) : Bool :=
  match tv with
  | .list at' => FType.conf at' t
  | _ => false

/-- `if let Value::List(values) = v { if values.len() == 1 { values[0] } }`. -/
def single {V : Type} (o : ValOps V) (v : V) : Option V :=
  match o.asList v with
  | some [x] => some x
  | _ => none

/-- `target.coerced(v)`. -/
def coerced {V : Type} (o : ValOps V) (t : FType) (v : V) : V :=
  -- conforms to
  if FType.conf (o.typeOf v) t then v
  -- to singleton list
  else if wrapOk t (o.typeOf v) then o.mkList [v]
  -- from singleton list
  else if unwrapOk t (o.typeOf v) then
    match single o v with
    | some x => x
    | none => o.null
  else o.null

end ValOps
end Dmn

namespace Dmn

/-- The skeleton of a value that `Value::type_of` and `coerced` look at: simple values are
represented by their type alone. -/
inductive TV where
  | atom (t : FType)
  | list (vs : List TV)
  | ctx (es : List (String × TV))
  | range (lo hi : TV)
  | fn (ps : List FType) (r : FType)
  deriving Inhabited

namespace TV

mutual
/-- `Value::type_of` (`feel/src/values.rs`). -/
def typeOf : TV → FType
  | .atom t => t
  | .list [] => .list .null
  | .list (v :: vs) =>
    let t := typeOf v
    if allSame t vs then .list t else .list .any
  | .ctx es => .ctx (typeOfEntries es)
  | .range lo hi =>
    let a := typeOf lo
    let b := typeOf hi
    if FType.beq a b then .range a else .range .any
  | .fn ps r => .fn ps r
def allSame (t : FType) : List TV → Bool
  | [] => true
  | v :: vs => FType.beq (typeOf v) t && allSame t vs
def typeOfEntries : List (String × TV) → List (String × FType)
  | [] => []
  | (k, v) :: es => (k, typeOf v) :: typeOfEntries es
end

def ops : ValOps TV where
  typeOf := typeOf
  asList := fun v => match v with
    | .list vs => some vs
    | _ => none
  mkList := .list
  null := .atom .null

theorem ops_laws : ValOps.Laws ops where
  typeOf_null := by simp [ops, typeOf]
  typeOf_singleton := by intro v; simp [ops, typeOf, allSame]
  typeOf_asList_singleton := by
    intro v x h
    cases v with
    | list vs =>
      simp only [ops, Option.some.injEq] at h
      subst h
      simp [ops, typeOf, allSame]
    | _ => simp [ops] at h

end TV
end Dmn
