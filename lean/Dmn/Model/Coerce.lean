import Dmn.Model.FType

/-!
# Coercion: model of `FeelType::coerced` (`feel/src/types.rs`)

The function only looks at a value through `type_of`, through "is it a
`Value::List` and what are its items", and builds `[v]` or `null`.  It is
therefore written over an abstract value interface `ValOps`; `Model/Value.lean`
instantiates it with the project's `Value` and proves the laws.
-/

namespace Dmn

structure ValOps (V : Type) where
  typeOf : V → FType
  asList : V → Option (List V)
  mkList : List V → V
  null : V

namespace ValOps

/-- The three laws of `Value::type_of` that coercion relies on. -/
structure Laws {V : Type} (o : ValOps V) : Prop where
  typeOf_null : o.typeOf o.null = .null
  typeOf_singleton : ∀ v, o.typeOf (o.mkList [v]) = .list (o.typeOf v)
  typeOf_asList_singleton : ∀ v x, o.asList v = some [x] → o.typeOf v = .list (o.typeOf x)

/-- target is `list<tt>` and the actual type conforms to `tt` (the "to singleton list" test). -/
def wrapOk (t tv : FType) : Bool :=
  match t with
  | .list tt => FType.conf tv tt
  | _ => false

/-- the actual type is `list<at>` and `at` conforms to the target (the "from singleton list" test). -/
def unwrapOk (t tv : FType) : Bool :=
  match tv with
  | .list at' => FType.conf at' t
  | _ => false

/-- `if let Value::List(values) = v { if values.len() == 1 { values[0] } }`. -/
def single {V : Type} (o : ValOps V) (v : V) : Option V :=
  match o.asList v with
  | some [x] => some x
  | _ => none

/-- `target.coerced(v)`. -/
def coerced {V : Type} (o : ValOps V) (t : FType) (v : V) : V :=
  -- conforms to
  if FType.conf (o.typeOf v) t then v
  -- to singleton list
  else if wrapOk t (o.typeOf v) then o.mkList [v]
  -- from singleton list
  else if unwrapOk t (o.typeOf v) then
    match single o v with
    | some x => x
    | none => o.null
  else o.null

/-! ## where coercion is applied: the arguments of a function value (`feel-evaluator/src/builders.rs`) -/

/-- The loop of `eval_function_positional` (`builders.rs:2247`): parameter `i` receives argument `i` coerced to
the parameter's own type; `none` is the early `return null` when an argument is missing. -/
def bindLoop {V : Type} (o : ValOps V) : List (String × FType) → List V → Option (List (String × V))
  | [], _ => some []
  | _ :: _, [] => none
  | (k, t) :: ps, a :: as => (bindLoop o ps as).map ((k, o.coerced t a) :: ·)

/-- `eval_function_positional` up to the evaluation of the body: the entries the body is evaluated with
(`ctx.set_entry` in this order), `none` for "invalid number of arguments". -/
def bindPositional {V : Type} (o : ValOps V) (ps : List (String × FType)) (args : List V) :
    Option (List (String × V)) :=
  if args.length > ps.length then none else bindLoop o ps args

/-- `build_named_parameters` (`builders.rs:1292`): the named arguments are inserted into a `BTreeMap` in the order
they are written, so of two arguments with one name the LATER one stays; `map.get(name)`. -/
def namedLookup {V : Type} : List (String × V) → String → Option V
  | [], _ => none
  | (n, v) :: rest, k =>
    match namedLookup rest k with
    | some w => some w
    | none => if n == k then some v else none

/-- The loop of `eval_function_named` (`builders.rs:2264`): every parameter, in the order of the declaration,
receives the argument of its name coerced to the parameter's own type; `none` is the early `return null` when there
is no argument of that name. -/
def bindNamedLoop {V : Type} (o : ValOps V) (m : String → Option V) : List (String × FType) → Option (List (String × V))
  | [] => some []
  | (k, t) :: ps =>
    match m k with
    | none => none
    | some a => (bindNamedLoop o m ps).map ((k, o.coerced t a) :: ·)

/-- `eval_function_named` up to the evaluation of the body: `none` ("invalid name of an argument") when an
argument carries a name that no parameter has (`builders.rs:2261`), `none` ("invalid number of arguments") when a
parameter has no argument, otherwise the entries the body is evaluated with. -/
def bindNamed {V : Type} (o : ValOps V) (ps : List (String × FType)) (args : List (String × V)) :
    Option (List (String × V)) :=
  if args.any (fun a => !(ps.any (fun p => p.1 == a.1))) then none
  else bindNamedLoop o (namedLookup args) ps

/-- The closure `precedes` of `core::sort` (`bifs/core.rs:920`): the two items under comparison bound to the two
parameters of the ordering function, each coerced to the type of ITS parameter. -/
def sortBindings {V : Type} (o : ValOps V) (p q : String × FType) (x y : V) : List (String × V) :=
  [(p.1, o.coerced p.2 x), (q.1, o.coerced q.2 y)]

/-- `eval_function_definition`: the value of the body coerced to the result type. -/
def invokeResult {V : Type} (o : ValOps V) (rt : FType) (bodyValue : V) : V := o.coerced rt bodyValue

end ValOps
end Dmn

namespace Dmn

/-- The skeleton of a value that `Value::type_of` and `coerced` look at: simple values are
represented by their type alone. -/
inductive TV where
  | atom (t : FType)
  | list (vs : List TV)
  | ctx (es : List (String × TV))
  | range (lo hi : TV)
  | fn (ps : List FType) (r : FType)
  deriving Inhabited

namespace TV

mutual
/-- `Value::type_of` (`feel/src/values.rs`). -/
def typeOf : TV → FType
  | .atom t => t
  | .list [] => .list .null
  | .list (v :: vs) =>
    let t := typeOf v
    if allSame t vs then .list t else .list .any
  | .ctx es => .ctx (typeOfEntries es)
  | .range lo hi =>
    let a := typeOf lo
    let b := typeOf hi
    if FType.beq a b then .range a else .range .any
  | .fn ps r => .fn ps r
def allSame (t : FType) : List TV → Bool
  | [] => true
  | v :: vs => FType.beq (typeOf v) t && allSame t vs
def typeOfEntries : List (String × TV) → List (String × FType)
  | [] => []
  | (k, v) :: es => (k, typeOf v) :: typeOfEntries es
end

/-- `build_instance_of` (`feel-evaluator/src/builders.rs:1055`) on the skeleton of the left operand: a simple
value answers by its kind (`null` is an instance of `Null` only, every other simple value of its own type and of
`Any`); a list, context, range or function value is an instance of `Any` and of the type that is structurally
equal (`==`, the derived `PartialEq`) to its `type_of`. -/
def instanceOf (v : TV) (t : FType) : Bool :=
  match v with
  | .atom .null => FType.beq t .null
  | .atom k => FType.beq t .any || FType.beq t k
  | v => FType.beq t .any || FType.beq (typeOf v) t

def ops : ValOps TV where
  typeOf := typeOf
  asList := fun v => match v with
    | .list vs => some vs
    | _ => none
  mkList := .list
  null := .atom .null

theorem ops_laws : ValOps.Laws ops where
  typeOf_null := by simp [ops, typeOf]
  typeOf_singleton := by intro v; simp [ops, typeOf, allSame]
  typeOf_asList_singleton := by
    intro v x h
    cases v with
    | list vs =>
      simp only [ops, Option.some.injEq] at h
      subst h
      simp [ops, typeOf, allSame]
    | _ => simp [ops] at h

end TV
end Dmn
