/-!
# Concurrency: why a built model evaluator may be shared between threads (C20)

Two parts.

1. The vocabulary of the table extracted by `translate/shared_state.py`
   (`Dmn/Gen/SharedState.lean`): shared locations, lock operations per function, call
   edges, the evaluation-phase reachability mask, FFI calls — and the Boolean checks run on
   it (`closed`, `evalPhaseReadOnly`, `ffiPrivate`, …).

2. A small-step interleaving semantics.  `n` threads, each performing a sequence of actions
   (`Act`): acquire/release a read or write lock, compute on private state (reading the
   registries), mutate the registries.  A step of thread `i` performs its next action if it
   is enabled.  Lock policy = the strictest one `std::sync::RwLock` may have on any platform:
   a reader waits for a writer that holds *or is queued for* the lock (writer preference), a
   writer waits for readers and writers.  Scheduling and the memory model are not modelled:
   a schedule is any list of thread indices.

What ties 1 to 2: `Op.actKind` maps an extracted operation to the kind of action it is; the
evaluation phase consists of read-only kinds exactly when `evalPhaseReadOnly` holds.
-/

namespace Dmn.Conc

/-! ## 1. The extracted table -/

inductive LocKind where
  | lazyStatic | static | staticMut | threadLocal | rwlock | mutex | refCell | cell | atomic
  | unsafeCell | onceCell | unsafeImpl
  deriving DecidableEq, Repr

structure Loc where
  kind : LocKind
  name : String
  type : String
  file : String
  line : Nat
  /-- reachable from more than one thread (a global, or a field of the shared evaluator) -/
  shared : Bool
  /-- how it gets its value -/
  init : String
  deriving Repr

inductive OpKind where
  | read | write | lock | borrowMut
  /-- a mutation of an atomic / once-cell / cell that takes no guard: `.store`, `.fetch_add`, `.swap`,
  `.compare_exchange`, `.get_or_init`, `.call_once` -/
  | atomic
  deriving DecidableEq, Repr

/-- One lock operation in the source: the function performing it (number), its kind, the
location it acts on (index into `locations`; `unknownLoc` if the receiver is no known field). -/
structure Op where
  fn : Nat
  kind : OpKind
  loc : Nat
  line : Nat
  deriving Repr

def unknownLoc : Nat := 1000000

inductive CtxArg where
  | none        -- the C function takes no context
  | freshClone  -- `&mut DEFAULT_CONTEXT.clone()`
  | localFresh  -- `&mut c` with `let mut c = DecContext::default()` in the same function
  | shared      -- anything else
  deriving DecidableEq, Repr

structure Ffi where
  fn : Nat
  callee : String
  ctx : CtxArg
  arg : String
  line : Nat
  deriving Repr

/-- membership in a set of function numbers given as a bit mask -/
def reach (mask : Nat) (i : Nat) : Bool := mask.testBit i

/-- the mask is closed under the call edges -/
def closed (mask : Nat) (edges : List (Nat × Nat)) : Bool :=
  edges.all (fun e => !reach mask e.1 || reach mask e.2)

def containsAll (mask : Nat) (roots : List Nat) : Bool := roots.all (reach mask)

/-- Kinds of actions of the interleaving semantics. -/
inductive ActKind where
  | acqRead | relRead | acqWrite | relWrite | compute | mutate
  deriving DecidableEq, Repr

def ActKind.readOnly : ActKind → Bool
  | .acqRead | .relRead | .compute => true
  | .acqWrite | .relWrite | .mutate => false

def isPrivateCell (locs : List Loc) (i : Nat) : Bool :=
  match locs[i]? with
  | some l => l.kind == .refCell && !l.shared
  | none => false

/-- What an extracted operation is in the semantics: `.read()` acquires a read lock;
`.write()` / `.lock()` acquire exclusively; `.borrow_mut()` on the `RefCell` of a per-call
value is computation on private state, on anything else a mutation of shared state. -/
def Op.actKind (locs : List Loc) (o : Op) : ActKind :=
  match o.kind with
  | .read => .acqRead
  | .write => .acqWrite
  | .lock => .acqWrite
  | .borrowMut => if isPrivateCell locs o.loc then .compute else .mutate
  | .atomic => .mutate

/-- No operation of a function reachable in the evaluation phase writes. -/
def evalPhaseReadOnly (mask : Nat) (locs : List Loc) (ops : List Op) : Bool :=
  ops.all (fun o => !reach mask o.fn || (o.actKind locs).readOnly)

/-- Globals are immutable after initialisation or lock-protected: no `static mut`, no
`thread_local!`, no `Mutex`/`Cell`/atomic/`UnsafeCell` fields, no hand-written `Send`/`Sync`. -/
def noUnsynchronisedGlobals (locs : List Loc) : Bool :=
  locs.all (fun l =>
    match l.kind with
    | .lazyStatic | .static | .rwlock => true
    | .refCell => !l.shared
    | _ => false)

/-- Every decNumber call gets a context nobody else can see; in the evaluation phase always a
fresh clone of the default context. -/
def ffiPrivate (mask : Nat) (calls : List Ffi) : Bool :=
  calls.all (fun c => c.ctx != .shared && (!reach mask c.fn || c.ctx == .none || c.ctx == .freshClone))

/-! ### The service around the evaluator (`Dmn/Gen/ServerState.lean`, translate/server_state.py) -/

/-- the mask is closed under the call edges read backwards (callers of members are members): with
the entries inside, it contains every function from which an entry is reachable -/
def closedBackward (mask : Nat) (edges : List (Nat × Nat)) : Bool :=
  edges.all (fun e => !reach mask e.2 || reach mask e.1)

/-- No function takes two guards (a handler that would take the workspace lock twice can deadlock
with itself as soon as a writer is queued in between: `Dmn.Conc.nested_read_deadlocks_with_writer`). -/
def oneAcquisitionPerFn (ops : List Op) : Bool :=
  ops.all (fun o => (ops.filter (fun p => p.fn == o.fn)).length == 1)

/-- Every exclusive acquisition is made by a function from which no evaluation is reachable. -/
def writesOutside (mask : Nat) (ops : List Op) : Bool :=
  ops.all (fun o => o.kind == .read || !reach mask o.fn)

/-- **Lock order of a table with one lock.**  `mask` (computed by the translator, checked here) contains every
callee of a function that acquires and is closed under the call edges — so it contains everything that can run
while the lock is held — and contains no function that acquires: a call never asks for a lock of this table
while it holds one, so a call that waits holds nothing and the wait-for graph has no cycle. -/
def noNestedAcquisition (mask : Nat) (edges : List (Nat × Nat)) (ops : List Op) : Bool :=
  closed mask edges && edges.all (fun e => !(ops.any (fun o => o.fn == e.1)) || reach mask e.2) &&
  ops.all (fun p => !reach mask p.fn)

/-- every operation is a read or a write acquisition of the one location `loc` -/
def singleRwLock (locs : List Loc) (ops : List Op) (loc : Nat) : Bool :=
  (match locs[loc]? with | some l => l.kind == .rwlock | none => false) &&
  ops.all (fun o => o.loc == loc && (o.kind == .read || o.kind == .write))

/-! ## 2. Interleaving semantics -/

/-- `σ`: the private state of a call (its scope, locals, result); `R`: the registries of the
shared evaluator and the lazily initialised constants. -/
inductive Act (σ R : Type) where
  | acqRead (l : Nat)
  | relRead (l : Nat)
  | acqWrite (l : Nat)
  | relWrite (l : Nat)
  /-- local computation; may read the registries -/
  | compute (f : R → σ → σ)
  /-- mutation of shared state -/
  | mutate (g : σ → R → R)

def Act.kind {σ R : Type} : Act σ R → ActKind
  | .acqRead _ => .acqRead
  | .relRead _ => .relRead
  | .acqWrite _ => .acqWrite
  | .relWrite _ => .relWrite
  | .compute _ => .compute
  | .mutate _ => .mutate

def Act.readOnly {σ R : Type} (a : Act σ R) : Bool := a.kind.readOnly

structure LockSt where
  readers : Nat := 0
  writer : Bool := false
  /-- threads queued for writing -/
  waitingWriters : Nat := 0
  deriving Repr, DecidableEq

structure Thread (σ R : Type) where
  todo : List (Act σ R)
  st : σ
  /-- queued for writing on this lock -/
  queued : Option Nat := none

structure World (σ R : Type) where
  locks : Nat → LockSt
  reg : R
  threads : List (Thread σ R)

def setLock (locks : Nat → LockSt) (l : Nat) (v : LockSt) : Nat → LockSt :=
  fun k => if k = l then v else locks k

inductive Outcome (σ R : Type) where
  /-- the action was performed -/
  | done (w : World σ R)
  /-- the thread has to wait (a writer that was not queued yet is queued now) -/
  | blocked (w : World σ R)
  | finished
  | noThread

/-- Thread `i` tries to perform its next action. -/
def stepThread {σ R : Type} (w : World σ R) (i : Nat) : Outcome σ R :=
  match w.threads[i]? with
  | none => .noThread
  | some t =>
    match t.todo with
    | [] => .finished
    | a :: rest =>
      match a with
      | .acqRead l =>
        let ls := w.locks l
        if ls.writer || ls.waitingWriters != 0 then .blocked w
        else .done { w with locks := setLock w.locks l { ls with readers := ls.readers + 1 }
                            threads := w.threads.set i { t with todo := rest } }
      | .relRead l =>
        let ls := w.locks l
        .done { w with locks := setLock w.locks l { ls with readers := ls.readers - 1 }
                       threads := w.threads.set i { t with todo := rest } }
      | .acqWrite l =>
        let ls := w.locks l
        if ls.writer || ls.readers != 0 then
          match t.queued with
          | some _ => .blocked w
          | none => .blocked { w with locks := setLock w.locks l { ls with waitingWriters := ls.waitingWriters + 1 }
                                      threads := w.threads.set i { t with queued := some l } }
        else
          let waiting := match t.queued with
            | some _ => ls.waitingWriters - 1
            | none => ls.waitingWriters
          .done { w with locks := setLock w.locks l { ls with writer := true, waitingWriters := waiting }
                         threads := w.threads.set i { t with todo := rest, queued := none } }
      | .relWrite l =>
        let ls := w.locks l
        .done { w with locks := setLock w.locks l { ls with writer := false }
                       threads := w.threads.set i { t with todo := rest } }
      | .compute f =>
        .done { w with threads := w.threads.set i { t with todo := rest, st := f w.reg t.st } }
      | .mutate g =>
        .done { w with reg := g t.st w.reg, threads := w.threads.set i { t with todo := rest } }

def applyStep {σ R : Type} (w : World σ R) (i : Nat) : World σ R :=
  match stepThread w i with
  | .done w' => w'
  | .blocked w' => w'
  | .finished => w
  | .noThread => w

/-- The world after a schedule (a list of thread indices; a pick of a finished, waiting or
non-existent thread changes nothing but a writer's queueing). -/
def run {σ R : Type} (w : World σ R) : List Nat → World σ R
  | [] => w
  | i :: sched => run (applyStep w i) sched

/-- A call run alone: locks are always free, only its computations matter. -/
def alone {σ R : Type} (r : R) : List (Act σ R) → σ → σ
  | [], s => s
  | .compute f :: rest, s => alone r rest (f r s)
  | _ :: rest, s => alone r rest s

/-- Evaluation phase: no writer holds or waits for any lock, and what every thread still has
to do is read-only. -/
structure EvalPhase {σ R : Type} (w : World σ R) : Prop where
  noWriter : ∀ l, (w.locks l).writer = false ∧ (w.locks l).waitingWriters = 0
  readOnly : ∀ t ∈ w.threads, ∀ a ∈ t.todo, a.readOnly = true

/-- Number of actions still to be performed. -/
def remaining {σ R : Type} (w : World σ R) : Nat := (w.threads.map (fun t => t.todo.length)).sum

def initWorld {σ R : Type} (r : R) (calls : List (List (Act σ R) × σ)) : World σ R :=
  { locks := fun _ => {}, reg := r, threads := calls.map (fun c => { todo := c.1, st := c.2 }) }

end Dmn.Conc
