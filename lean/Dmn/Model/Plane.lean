/-!
# Plane: model of the plane-level half of the decision table recogniser

Mirrors `/repo/recognizer/src/{plane.rs, recognizer.rs, builder.rs, rect.rs}`.

The recogniser works in two halves:

* the *scanner* (`canvas.rs`): text → layered canvas → regions → `Plane` (a matrix of cells
  tagged with region numbers and texts, interleaved with cells standing for the double lines)
  plus the optional information item name.  The scanner is modelled in `Model/Canvas.lean`
  (`scanText`); here it appears only through its result type `Plane` and through `planeOf`, the
  plane a drawing denotes (`harness/src/c19.rs` compares the plane the real scanner produces
  for `draw t` with `planeOf t`, and the real scanner with `scanText` on every text).
* the *plane logic* (`plane.rs`, `recognizer.rs`, `builder.rs`): orientation, hit policy and
  rule number placement, the header-row-count case analysis, `pivot`, size validation and the
  construction of the `DecisionTable`.  This half is modelled statement by statement below;
  every index access of the Rust code is explicit: it yields `ok`, `error` (an `Err(..)` of
  the Rust code) or `panic` (an unchecked index of the Rust code; after the repair of F19e only
  the `xs[i]` of `builder.rs` are left, and `plane_no_panic` shows they are in range).

Texts are `List Char` (kernel-reducible).  A region's `Rect` is dropped: it is used only in
debug output.

Contents: the abstract table `TableSpec`; outcomes; texts (`trim`, `parseUsize`,
`hitPolicyOfText`); cells, planes, rectangles; `pivot`; crossings and the `horz_*_rect` family;
region comparisons; hit policy / rule number placement; `recognizeOrientation`,
`recognizeHorizontal` (header row-count case analysis: `inputValuesPresent`, `outputHeader`),
`recognizeComponents`; `validateSize`, `buildTable`; `recognizePlane`; the scanner's shape
(`scannerShape`); `planeOf` (the plane a drawing denotes, region numbers in scanning order, both
orientations, `Decor` = the texts and variants of a drawing that are not part of the table);
`Display`; `draw` (the box-drawing text, `Sheet` renderer); `planeOfMerged` (merged input entry
cells); `autoLayout` (fits and pads logical texts; used by the correspondence only).

The model mirrors the code after the repairs of the findings F19a/F19b (the hit policy
corner and the rule number lane are chosen by where the rule numbers are, not by the first
text that parses), F19c/F19d (a blank allowed-values cell means no allowed values), F19e
(checked indexing: ragged planes are errors) and F67-mixed-header (the header is read by its
regions: the label lane is the lane that is one region, an allowed-values cell that continues
the cell above it holds no allowed values — `valuesRows`, `allowedValuesText`, `outputHeader`).
-/

namespace Dmn.Recog

abbrev Text := List Char

/-! ## The abstract table -/

/-- `BuiltinAggregator` (model/src/model/mod.rs:2066). -/
inductive Agg where
  | list | count | sum | min | max
  deriving DecidableEq, Repr, Inhabited

/-- `HitPolicy` (model/src/model/mod.rs:2004). The aggregator of `DecisionTable.aggregation`
is a function of the hit policy (builder.rs:186). -/
inductive HitPolicy where
  | unique | any | priority | first
  | collect (a : Agg)
  | outputOrder | ruleOrder
  deriving DecidableEq, Repr, Inhabited

/-- `DecisionTableOrientation` (model/src/model/mod.rs:1969). -/
inductive Orientation where
  | ruleAsRow | ruleAsColumn | crossTable
  deriving DecidableEq, Repr, Inhabited

/-- `InputClause`: input expression and optional allowed values. -/
structure InputClause where
  expr : Text
  values : Option Text
  deriving DecidableEq, Repr, Inhabited

/-- `OutputClause`: optional component name and optional allowed values
(`type_ref` and `default_output_entry` are always `None` in builder.rs:208). -/
structure OutputClause where
  name : Option Text
  values : Option Text
  deriving DecidableEq, Repr, Inhabited

/-- `DecisionRule`: input entries, output entries, annotation entries. -/
structure Rule where
  ins : List Text
  outs : List Text
  anns : List Text
  deriving DecidableEq, Repr, Inhabited

/-- The abstract table = the observable content of `DecisionTable` (builder.rs:261). -/
structure TableSpec where
  orientation : Orientation
  hitPolicy : HitPolicy
  infoName : Option Text
  inputs : List InputClause
  outputs : List OutputClause
  label : Option Text
  annotations : List Text
  rules : List Rule
  deriving DecidableEq, Repr, Inhabited

def HitPolicy.aggregation : HitPolicy → Option Agg
  | .collect a => some a
  | _ => none

/-! ## Outcomes -/

/-- The `Err(..)` results of the plane logic (recognizer/src/errors.rs), without payload texts. -/
inductive Err where
  | planeIsEmpty | rowOutOfRange | colOutOfRange | noMainDoubleCrossing
  | invalidOutputClause | invalidRuleNumber (n : Nat) | cellIsNotRegion
  | invalidInputExpressions | tooManyRows | noOutputClause
  | expectedLeftBelow | expectedRightAfter | expectedTopLeft | expectedBottomLeft
  | expectedNoRuleNumbers | crossTabNotSupported
  | invalidSize (check : Nat)
  deriving DecidableEq, Repr, Inhabited

/-- Places where the Rust code panics instead of returning an error.  After the repair of
F19e (checked indexing in `plane.rs`, saturating `Rect::width/height`) the only unchecked
index accesses left are those of `builder.rs`, which `validate_size` excludes
(`plane_no_panic`). -/
inductive Site where
  /-- builder.rs:197.. `recognizer.xs[i]` (excluded by `validate_size`, kept explicit) -/
  | builderIndex
  deriving DecidableEq, Repr, Inhabited

inductive Outcome (α : Type) where
  | ok (a : α)
  | error (e : Err)
  | panic (s : Site)
  deriving DecidableEq, Repr, Inhabited

namespace Outcome

def bind (x : Outcome α) (f : α → Outcome β) : Outcome β :=
  match x with
  | ok a => f a
  | error e => error e
  | .panic s => .panic s

instance : Monad Outcome where
  pure := ok
  bind := bind

@[simp] theorem ok_bind (a : α) (f : α → Outcome β) : (ok a >>= f) = f a := rfl
@[simp] theorem error_bind (e : Err) (f : α → Outcome β) : (error e >>= f) = error e := rfl
@[simp] theorem panic_bind (s : Site) (f : α → Outcome β) : (.panic s >>= f) = .panic s := rfl
@[simp] theorem pure_eq (a : α) : (pure a : Outcome α) = ok a := rfl

def isPanic : Outcome α → Bool
  | panic _ => true
  | _ => false

/-- Sequential `map` with early exit on the first error / panic (a Rust `for` loop with `?`). -/
def mapM (f : α → Outcome β) : List α → Outcome (List β)
  | [] => ok []
  | a :: as =>
    match f a with
    | ok b =>
      match mapM f as with
      | ok bs => ok (b :: bs)
      | error e => error e
      | .panic s => .panic s
    | error e => error e
    | .panic s => .panic s

end Outcome

open Outcome (ok error)

/-! ## Texts: `str::trim`, `usize::from_str`, `HitPolicy::try_from` -/

/-- `char::is_whitespace` (Unicode `White_Space`). -/
def isWs (c : Char) : Bool :=
  let n := c.toNat
  (9 ≤ n && n ≤ 13) || n == 32 || n == 0x85 || n == 0xA0 || n == 0x1680 ||
  (0x2000 ≤ n && n ≤ 0x200A) || n == 0x2028 || n == 0x2029 || n == 0x202F ||
  n == 0x205F || n == 0x3000

/-- `str::trim`. -/
def trim (t : Text) : Text :=
  ((t.dropWhile isWs).reverse.dropWhile isWs).reverse

def digitsVal : List Char → Nat → Option Nat
  | [], acc => some acc
  | c :: cs, acc =>
    if c.isDigit then
      let v := acc * 10 + (c.toNat - 48)
      if v < 2 ^ 64 then digitsVal cs v else none
    else none

/-- `usize::from_str` (64-bit): optional `+`, at least one ASCII digit, no overflow. -/
def parseUsize (t : Text) : Option Nat :=
  match t with
  | [] => none
  | '+' :: rest => if rest.isEmpty then none else digitsVal rest 0
  | _ => digitsVal t 0

/-- `HitPolicy::try_from(&str)` (model/src/model/mod.rs:2043): trims, then matches the marker. -/
def hitPolicyOfText (t : Text) : Option HitPolicy :=
  match trim t with
  | ['U'] => some .unique
  | ['A'] => some .any
  | ['P'] => some .priority
  | ['F'] => some .first
  | ['R'] => some .ruleOrder
  | ['O'] => some .outputOrder
  | ['C'] => some (.collect .list)
  | ['C', '+'] => some (.collect .sum)
  | ['C', '#'] => some (.collect .count)
  | ['C', '<'] => some (.collect .min)
  | ['C', '>'] => some (.collect .max)
  | _ => none

/-- The marker of a hit policy (inverse of `hitPolicyOfText`). -/
def HitPolicy.marker : HitPolicy → Text
  | .unique => ['U'] | .any => ['A'] | .priority => ['P'] | .first => ['F']
  | .ruleOrder => ['R'] | .outputOrder => ['O']
  | .collect .list => ['C'] | .collect .sum => ['C', '+'] | .collect .count => ['C', '#']
  | .collect .min => ['C', '<'] | .collect .max => ['C', '>']

/-! ## Cells, planes, rectangles -/

/-- `plane::Cell` (plane.rs:46). -/
inductive Cell where
  | region (n : Nat) (text : Text)
  /-- `VerticalOutputDoubleLine` -/
  | vOut
  /-- `VerticalAnnotationDoubleLine` -/
  | vAnn
  /-- `HorizontalOutputDoubleLine` -/
  | hOut
  /-- `HorizontalAnnotationsDoubleLine` -/
  | hAnn
  /-- `MainDoubleCrossing` -/
  | mainX
  /-- `HorizontalDoubleCrossing` -/
  | horzX
  /-- `VerticalDoubleCrossing` -/
  | vertX
  deriving DecidableEq, Repr, Inhabited

/-- The result of the scanner: `Canvas::information_item_name` and `Canvas::plane()`. -/
structure Plane where
  infoName : Option Text
  rows : List (List Cell)
  deriving DecidableEq, Repr, Inhabited

/-- `rect::Rect`: left/top inclusive, right/bottom exclusive. -/
structure Rect where
  left : Nat
  top : Nat
  right : Nat
  bottom : Nat
  deriving DecidableEq, Repr, Inhabited

/-- rect.rs:86 `width`: `self.right.saturating_sub(self.left)`. -/
def Rect.width (r : Rect) : Outcome Nat := ok (r.right - r.left)

/-- rect.rs:91 `height`: `self.bottom.saturating_sub(self.top)`. -/
def Rect.height (r : Rect) : Outcome Nat := ok (r.bottom - r.top)

def Rect.incTop (r : Rect) (k : Nat) : Rect := { r with top := r.top + k }

/-- `RECT_ZERO`. -/
def Rect.zero : Rect := ⟨0, 0, 0, 0⟩

namespace Plane

/-- plane.rs:208 `cell`. -/
def cell (P : Plane) (row col : Nat) : Outcome Cell :=
  if P.rows.isEmpty then error .planeIsEmpty
  else
    match P.rows[row]? with
    | none => error .rowOutOfRange
    | some r =>
      match r[col]? with
      | none => error .colOutOfRange
      | some c => ok c

/-- plane.rs:221 `region_text`. -/
def regionText (P : Plane) (row col : Nat) : Outcome Text :=
  match P.cell row col with
  | ok (.region _ t) => ok t
  | ok _ => error .cellIsNotRegion
  | error e => error e
  | .panic s => .panic s

/-- plane.rs:230 `region_number`. -/
def regionNumber (P : Plane) (row col : Nat) : Outcome Nat :=
  match P.cell row col with
  | ok (.region n _) => ok n
  | ok _ => error .cellIsNotRegion
  | error e => error e
  | .panic s => .panic s

/-- plane.rs:314 `width`: the length of the first row. -/
def width (P : Plane) : Nat :=
  match P.rows with
  | [] => 0
  | r :: _ => r.length

/-- plane.rs:323 `height`. -/
def height (P : Plane) : Nat := P.rows.length

/-- plane.rs:243 `remove_first_column`. -/
def removeFirstColumn (P : Plane) : Plane := { P with rows := P.rows.map (·.drop 1) }

/-- plane.rs:252 `remove_last_row`. -/
def removeLastRow (P : Plane) : Plane := { P with rows := P.rows.dropLast }

end Plane

/-- The cell translation inside `pivot` (plane.rs:336). -/
def pivotCell : Cell → Cell
  | .region n t => .region n t
  | .hOut => .vOut
  | .vOut => .hOut
  | .hAnn => .vAnn
  | .vAnn => .hAnn
  | .mainX => .mainX
  | .horzX => .vertX
  | .vertX => .horzX

/-- One pass of the inner loop of `pivot`: `remove(0)` on every row; a row that has no cell
left is an error (`plane_column_is_out_of_range`). -/
def takeHeads : List (List Cell) → Outcome (List Cell × List (List Cell))
  | [] => ok ([], [])
  | [] :: _ => error .colOutOfRange
  | (c :: cs) :: rest =>
    match takeHeads rest with
    | ok (hs, ts) => ok (pivotCell c :: hs, cs :: ts)
    | error e => error e
    | .panic s => .panic s

/-- The outer `while !self.content[0].is_empty()` loop; the fuel is the length of row 0,
which decreases by one per pass. -/
def pivotLoop : Nat → List (List Cell) → Outcome (List (List Cell))
  | 0, _ => ok []
  | k + 1, rows =>
    match takeHeads rows with
    | ok (hs, ts) =>
      match pivotLoop k ts with
      | ok rest => ok (hs :: rest)
      | error e => error e
      | .panic s => .panic s
    | error e => error e
    | .panic s => .panic s

/-- plane.rs:330 `pivot`. -/
def pivotRows (rows : List (List Cell)) : Outcome (List (List Cell)) :=
  match rows with
  | [] => error .planeIsEmpty
  | r0 :: _ => pivotLoop r0.length rows

def Plane.pivot (P : Plane) : Outcome Plane :=
  match pivotRows P.rows with
  | ok rows => ok { P with rows := rows }
  | error e => error e
  | .panic s => .panic s

/-! ### Crossings (plane.rs:403-436) -/

def findInRow (p : Cell → Bool) : List Cell → Nat → Option Nat
  | [], _ => none
  | c :: cs, x => if p c then some x else findInRow p cs (x + 1)

/-- First cell satisfying `p` in row-major order, as `(x, y)`. -/
def findCell (p : Cell → Bool) : List (List Cell) → Nat → Option (Nat × Nat)
  | [], _ => none
  | r :: rs, y =>
    match findInRow p r 0 with
    | some x => some (x, y)
    | none => findCell p rs (y + 1)

def Cell.isMainX : Cell → Bool | .mainX => true | _ => false
def Cell.isHorzX : Cell → Bool | .horzX => true | _ => false
def Cell.isVertX : Cell → Bool | .vertX => true | _ => false
def Cell.isHOut : Cell → Bool | .hOut => true | _ => false
def Cell.isVOut : Cell → Bool | .vOut => true | _ => false

namespace Plane

def mainDoubleCrossing (P : Plane) : Outcome (Nat × Nat) :=
  match findCell Cell.isMainX P.rows 0 with
  | some p => ok p
  | none => error .noMainDoubleCrossing

def horizontalDoubleCrossing (P : Plane) : Option (Nat × Nat) := findCell Cell.isHorzX P.rows 0
def verticalDoubleCrossing (P : Plane) : Option (Nat × Nat) := findCell Cell.isVertX P.rows 0

/-! ### The `horz_*_rect` family (plane.rs:358-400) -/

def horzInputClauseRect (P : Plane) : Outcome Rect :=
  match P.mainDoubleCrossing with
  | ok (x, y) => ok ⟨0, 0, x, y⟩
  | error e => error e
  | .panic s => .panic s

def horzInputEntriesRect (P : Plane) : Outcome Rect :=
  match P.mainDoubleCrossing with
  | ok (x, y) => ok ⟨0, y + 1, x, P.height⟩
  | error e => error e
  | .panic s => .panic s

def horzOutputClauseRect (P : Plane) : Outcome Rect :=
  match P.mainDoubleCrossing with
  | ok (x, y) =>
    match P.horizontalDoubleCrossing with
    | some (qx, _) => ok ⟨x + 1, 0, qx, y⟩
    | none => ok ⟨x + 1, 0, P.width, y⟩
  | error e => error e
  | .panic s => .panic s

def horzOutputEntriesRect (P : Plane) : Outcome Rect :=
  match P.mainDoubleCrossing with
  | ok (x, y) =>
    match P.horizontalDoubleCrossing with
    | some (qx, _) => ok ⟨x + 1, y + 1, qx, P.height⟩
    | none => ok ⟨x + 1, y + 1, P.width, P.height⟩
  | error e => error e
  | .panic s => .panic s

def horzAnnotationClausesRect (P : Plane) : Outcome Rect :=
  match P.horizontalDoubleCrossing with
  | some (x, y) => ok ⟨x + 1, 0, P.width, y⟩
  | none => ok Rect.zero

def horzAnnotationEntriesRect (P : Plane) : Outcome Rect :=
  match P.horizontalDoubleCrossing with
  | some (x, y) => ok ⟨x + 1, y + 1, P.width, P.height⟩
  | none => ok Rect.zero

/-! ### Region comparisons (plane.rs:260-311) -/

/-- The cells of a rectangle in the order of the two nested `for` loops. -/
def coords (r : Rect) : List (Nat × Nat) :=
  (List.range' r.top (r.bottom - r.top)).flatMap fun row =>
    (List.range' r.left (r.right - r.left)).map fun col => (row, col)

def equalRegionsLoop (P : Plane) (number : Nat) : List (Nat × Nat) → Outcome Bool
  | [] => ok true
  | (row, col) :: rest =>
    match P.regionNumber row col with
    | ok n => if n ≠ number then ok false else equalRegionsLoop P number rest
    | error e => error e
    | .panic s => .panic s

/-- plane.rs:260 `equal_regions`. -/
def equalRegions (P : Plane) (r : Rect) : Outcome Bool :=
  match P.regionNumber r.top r.left with
  | ok number => equalRegionsLoop P number (coords r)
  | error e => error e
  | .panic s => .panic s

def equalColumnsLoop (P : Plane) (rect : Rect) : List Nat → Outcome Bool
  | [] => ok true
  | x :: xs =>
    match P.equalRegions ⟨x, rect.top, x + 1, rect.bottom⟩ with
    | ok b => if !b then ok false else equalColumnsLoop P rect xs
    | error e => error e
    | .panic s => .panic s

/-- plane.rs:274 `equal_regions_in_columns`. -/
def equalRegionsInColumns (P : Plane) (rect : Rect) : Outcome Bool :=
  equalColumnsLoop P rect (List.range' rect.left (rect.right - rect.left))

def uniqueRegionsLoop (P : Plane) : List Nat → List (Nat × Nat) → Outcome Bool
  | _, [] => ok true
  | seen, (row, col) :: rest =>
    match P.regionNumber row col with
    | ok n => if seen.contains n then ok false else uniqueRegionsLoop P (n :: seen) rest
    | error e => error e
    | .panic s => .panic s

/-- plane.rs:286 `unique_regions` (the `HashSet` as a list). -/
def uniqueRegions (P : Plane) (r : Rect) : Outcome Bool := uniqueRegionsLoop P [] (coords r)

def uniqueColumnsLoop (P : Plane) (rect : Rect) : List Nat → Outcome Bool
  | [] => ok true
  | x :: xs =>
    match P.uniqueRegions ⟨x, rect.top, x + 1, rect.bottom⟩ with
    | ok b => if !b then ok false else uniqueColumnsLoop P rect xs
    | error e => error e
    | .panic s => .panic s

/-- plane.rs:303 `unique_regions_in_columns`. -/
def uniqueRegionsInColumns (P : Plane) (rect : Rect) : Outcome Bool :=
  uniqueColumnsLoop P rect (List.range' rect.left (rect.right - rect.left))

/-! ### Texts of a row segment / of a rectangle (the `for col in r.left..r.right` loops) -/

def rowTexts (P : Plane) (row left right : Nat) : Outcome (List Text) :=
  Outcome.mapM (fun col => P.regionText row col) (List.range' left (right - left))

def rectTexts (P : Plane) (r : Rect) : Outcome (List (List Text)) :=
  Outcome.mapM (fun row => P.rowTexts row r.left r.right) (List.range' r.top (r.bottom - r.top))

end Plane

/-! ## Hit policy and rule number placement (plane.rs:442-531) -/

inductive HpPlacement where
  | topLeft (h : HitPolicy)
  | bottomLeft (h : HitPolicy)
  | notPresent
  deriving DecidableEq, Repr, Inhabited

def HpPlacement.hitPolicy : HpPlacement → HitPolicy
  | .topLeft h => h
  | .bottomLeft h => h
  | .notPresent => .unique

inductive RnPlacement where
  | leftBelow (n : Nat)
  | rightAfter (n : Nat)
  | notPresent
  deriving DecidableEq, Repr, Inhabited

def RnPlacement.ruleCount : RnPlacement → Nat
  | .leftBelow n => n
  | .rightAfter n => n
  | .notPresent => 0

def hpOfCell : Cell → Option HitPolicy
  | .region _ t => hitPolicyOfText t
  | _ => none

/-- plane.rs `while !self.is_horizontal_output_double_line(row, 0)? { row += 1 }; row += 1`:
the rows below the first row whose first cell is the horizontal double line.  The cell is read
with the checked `Plane::cell`: running past the last row is `plane_row_is_out_of_range`, a row
without cells `plane_column_is_out_of_range`. -/
def skipToHOut : List (List Cell) → Outcome (List (List Cell))
  | [] => error .rowOutOfRange
  | [] :: _ => error .colOutOfRange
  | (c :: _) :: rest => if c.isHOut then ok rest else skipToHOut rest

/-- The numbering loop shared by the horizontal and the vertical search, over the sequence of
cells it visits. `none` = the visited cell does not exist (`self.cell(row, 0)?` on a row
without cells). -/
def scanNumbers : List (Option Cell) → Nat → Outcome (Option Nat)
  | [], mx => ok (if mx > 0 then some mx else none)
  | none :: _, _ => error .colOutOfRange
  | some (.region _ t) :: rest, mx =>
    match parseUsize (trim t) with
    | some k => if k ≠ mx + 1 then error (.invalidRuleNumber k) else scanNumbers rest k
    | none => ok none
  | some _ :: _, _ => ok none

/-- plane.rs `recognize_horizontal_rule_numbers`. -/
def recognizeHorizontalRuleNumbers (P : Plane) : Outcome RnPlacement :=
  if P.rows.isEmpty then error .planeIsEmpty
  else
    match skipToHOut P.rows with
    | ok below =>
      match scanNumbers (below.map (·.head?)) 0 with
      | ok (some n) => ok (.leftBelow n)
      | ok none => ok .notPresent
      | error e => error e
      | .panic s => .panic s
    | error e => error e
    | .panic s => .panic s

/-- the cells of the last row after the first vertical output double line; running past the
end of the row is `plane_column_is_out_of_range` -/
def skipToVOut : List Cell → Outcome (List Cell)
  | [] => error .colOutOfRange
  | c :: rest => if c.isVOut then ok rest else skipToVOut rest

/-- plane.rs `recognize_vertical_rule_numbers`. -/
def recognizeVerticalRuleNumbers (P : Plane) : Outcome RnPlacement :=
  match P.rows.getLast? with
  | none => error .planeIsEmpty
  | some last =>
    match skipToVOut last with
    | ok after =>
      match scanNumbers (after.map some) 0 with
      | ok (some n) => ok (.rightAfter n)
      | ok none => ok .notPresent
      | error e => error e
      | .panic s => .panic s
    | error e => error e
    | .panic s => .panic s

/-- plane.rs `recognize_rule_numbers_placement`: left-below rule numbers first; when there
are none, or when the first column below the double line does not hold a valid numbering
(in a rules-as-columns table it holds the output names), the rule numbers right after the
vertical double line in the last row. -/
def recognizeRuleNumbersPlacement (P : Plane) : Outcome RnPlacement :=
  match recognizeHorizontalRuleNumbers P with
  | ok .notPresent => recognizeVerticalRuleNumbers P
  | error e =>
    match recognizeVerticalRuleNumbers P with
    | ok (.rightAfter n) => ok (.rightAfter n)
    | _ => error e
  | other => other

/-- plane.rs `recognize_hit_policy_placement`: the top-left corner — unless the rule numbers
are placed in the last row, in which case the top-left cell is the first input expression —
then the bottom-left corner. -/
def recognizeHitPolicyPlacement (P : Plane) : Outcome HpPlacement :=
  match P.rows with
  | [] => error .planeIsEmpty
  | first :: rest =>
    let vertical := match recognizeRuleNumbersPlacement P with
      | ok (.rightAfter _) => true
      | _ => false
    match (if vertical then none else first.head?.bind hpOfCell) with
    | some h => ok (.topLeft h)
    | none =>
      match ((first :: rest).getLast?.bind (·.head?)).bind hpOfCell with
      | some h => ok (.bottomLeft h)
      | none => ok .notPresent

/-! ## recognizer.rs -/

/-- The part of `Recognizer` set by `recognize_orientation`. -/
structure Oriented where
  hitPolicy : HitPolicy
  orientation : Orientation
  ruleCount : Nat
  deriving DecidableEq, Repr, Inhabited

/-- recognizer.rs:291 `recognize_orientation`. -/
def recognizeOrientation (P : Plane) : Outcome Oriented :=
  match recognizeHitPolicyPlacement P with
  | error e => error e
  | .panic s => .panic s
  | ok hp =>
    match recognizeRuleNumbersPlacement P with
    | error e => error e
    | .panic s => .panic s
    | ok rn =>
      if P.horizontalDoubleCrossing.isSome then
        match hp with
        | .topLeft h =>
          match rn with
          | .leftBelow n => ok ⟨h, .ruleAsRow, n⟩
          | _ => error .expectedLeftBelow
        | _ => error .expectedTopLeft
      else if P.verticalDoubleCrossing.isSome then
        match hp with
        | .bottomLeft h =>
          match rn with
          | .rightAfter n => ok ⟨h, .ruleAsColumn, n⟩
          | _ => error .expectedRightAfter
        | _ => error .expectedBottomLeft
      else
        match hp with
        | .topLeft h =>
          match rn with
          | .leftBelow n => ok ⟨h, .ruleAsRow, n⟩
          | _ => error .expectedLeftBelow
        | .bottomLeft h =>
          match rn with
          | .rightAfter n => ok ⟨h, .ruleAsColumn, n⟩
          | _ => error .expectedRightAfter
        | .notPresent =>
          match rn with
          | .notPresent => ok ⟨.unique, .crossTable, 0⟩
          | _ => error .expectedNoRuleNumbers

/-- The part of `Recognizer` set by `recognize_horizontal_table`. -/
structure Horz where
  inputClauseCount : Nat
  inputExpressions : List Text
  inputValues : List Text
  inputEntries : List (List Text)
  outputClauseCount : Nat
  outputLabel : Option Text
  outputComponents : List Text
  outputValues : List Text
  outputEntries : List (List Text)
  annotationClauseCount : Nat
  annotations : List Text
  annotationEntries : List (List Text)
  deriving DecidableEq, Repr, Inhabited

/-- recognizer.rs `values_rows`: the rows of the header that hold the allowed values — the last
row and the row above it.  One header row: none; three rows: every input expression must span
the two upper rows (`invalid_input_expressions` otherwise). -/
def valuesRows (P : Plane) (r : Rect) (height : Nat) : Outcome (Option (Nat × Nat)) :=
  match height with
  | 1 => ok none
  | 2 => ok (some (r.top, r.top + 1))
  | 3 =>
    match P.equalRegionsInColumns ⟨r.left, r.top, r.right, r.top + 2⟩ with
    | ok b => if !b then error .invalidInputExpressions else ok (some (r.top + 1, r.top + 2))
    | error e => error e
    | .panic s => .panic s
  | _ => error .tooManyRows

/-- recognizer.rs `input_values_present`: in some column the cell in the last header row is not
the continuation of the cell above it. -/
def valuesPresentIn (P : Plane) (r : Rect) (vr : Option (Nat × Nat)) : Outcome Bool :=
  match vr with
  | some (above, last) =>
    match P.equalRegionsInColumns ⟨r.left, above, r.right, last + 1⟩ with
    | ok b => ok (!b)
    | error e => error e
    | .panic s => .panic s
  | none => ok false

/-- recognizer.rs: are input values present?  The case analysis on the number of header rows
(`values_rows` followed by `input_values_present`). -/
def inputValuesPresent (P : Plane) (r : Rect) (height : Nat) : Outcome Bool :=
  match valuesRows P r height with
  | ok vr => valuesPresentIn P r vr
  | error e => error e
  | .panic s => .panic s

/-- recognizer.rs `allowed_values_text`: the text of the allowed-values cell in a column; empty
when the cell is the continuation of the cell above it (the same region). -/
def Plane.allowedValuesText (P : Plane) (above row col : Nat) : Outcome Text :=
  match P.regionNumber row col with
  | ok a =>
    match P.regionNumber above col with
    | ok b => if a = b then ok [] else P.regionText row col
    | error e => error e
    | .panic s => .panic s
  | error e => error e
  | .panic s => .panic s

/-- the `for col in r.left..r.right` loop over `allowed_values_text` -/
def Plane.valuesTexts (P : Plane) (above row left right : Nat) : Outcome (List Text) :=
  Outcome.mapM (fun col => P.allowedValuesText above row col) (List.range' left (right - left))

/-- What the output clause analysis yields: label, component names, output values. -/
structure OutHeader where
  label : Option Text
  components : List Text
  values : List Text
  deriving DecidableEq, Repr, Inhabited

/-- recognizer.rs: a single output column.  Two rows: the label, and the output values when the
cell below the label is a separate region. -/
def outputHeaderSingle (P : Plane) (r : Rect) (height : Nat) : Outcome OutHeader :=
  match height with
  | 1 => do
    let l ← P.regionText r.top r.left
    ok ⟨some l, [], []⟩
  | 2 => do
    let l ← P.regionText r.top r.left
    match P.equalRegions r with
    | .ok true => ok ⟨some l, [], []⟩
    | .ok false => do
      let v ← P.regionText (r.top + 1) r.left
      ok ⟨some l, [], [v]⟩
    | .error e => error e
    | .panic s => .panic s
  | _ => error .tooManyRows

/-- recognizer.rs: several output columns.  Two rows: label and component names when the first
row is a single region, component names and output values otherwise.  Three rows: the label must
be a single region (`plane_invalid_output_clause` otherwise). -/
def outputHeaderMulti (P : Plane) (r : Rect) (height : Nat) : Outcome OutHeader :=
  match height with
  | 1 => do
    let cs ← P.rowTexts r.top r.left r.right
    ok ⟨none, cs, []⟩
  | 2 =>
    match P.equalRegions ⟨r.left, r.top, r.right, r.top + 1⟩ with
    | .ok true => do
      let l ← P.regionText r.top r.left
      let cs ← P.rowTexts (r.top + 1) r.left r.right
      ok ⟨some l, cs, []⟩
    | .ok false => do
      let cs ← P.rowTexts r.top r.left r.right
      let vs ← P.valuesTexts r.top (r.top + 1) r.left r.right
      ok ⟨none, cs, vs⟩
    | .error e => error e
    | .panic s => .panic s
  | 3 =>
    match P.equalRegions ⟨r.left, r.top, r.right, r.top + 1⟩ with
    | .ok true => do
      let l ← P.regionText r.top r.left
      let cs ← P.rowTexts (r.top + 1) r.left r.right
      let vs ← P.valuesTexts (r.top + 1) (r.top + 2) r.left r.right
      ok ⟨some l, cs, vs⟩
    | .ok false => error .invalidOutputClause
    | .error e => error e
    | .panic s => .panic s
  | _ => error .tooManyRows

/-- recognizer.rs: the case analysis on the width and height of the output clause (it does not
depend on the input clause: the regions of the output header decide). -/
def outputHeader (P : Plane) (r : Rect) (width height : Nat) : Outcome OutHeader :=
  match width with
  | 0 => error .noOutputClause
  | 1 => outputHeaderSingle P r height
  | _ => outputHeaderMulti P r height

/-- recognizer.rs: the input values, read from the last header row (empty texts for the columns
whose cell continues the cell above). -/
def inputValuesRow (P : Plane) (r : Rect) (ivp : Bool) (vr : Option (Nat × Nat)) : Outcome (List Text) :=
  match ivp, vr with
  | true, some (above, last) => P.valuesTexts above last r.left r.right
  | _, _ => ok []

/-- `r.height()` of the output clause is evaluated only for a non-zero width
(recognizer.rs:192-199). -/
def outputClauseHeight (r : Rect) (occ : Nat) : Outcome Nat :=
  if occ = 0 then ok 0 else r.height

/-- recognizer.rs:145 `recognize_horizontal_table`. -/
def recognizeHorizontal (P : Plane) : Outcome Horz := do
  let r ← P.horzInputClauseRect
  let icc ← r.width
  let h ← r.height
  let vr ← valuesRows P r h
  let ivp ← valuesPresentIn P r vr
  let exprs ← P.rowTexts 0 r.left r.right
  let ivals ← inputValuesRow P r ivp vr
  let r ← P.horzInputEntriesRect
  let ients ← P.rectTexts r
  let r ← P.horzOutputClauseRect
  let occ ← r.width
  let oh ← outputClauseHeight r occ
  let out ← outputHeader P r occ oh
  let r ← P.horzOutputEntriesRect
  let oents ← P.rectTexts r
  let r ← P.horzAnnotationClausesRect
  let acc ← r.width
  let anns ← P.rowTexts r.top r.left r.right
  let r ← P.horzAnnotationEntriesRect
  let aents ← P.rectTexts r
  ok { inputClauseCount := icc, inputExpressions := exprs, inputValues := ivals,
       inputEntries := ients, outputClauseCount := occ, outputLabel := out.label,
       outputComponents := out.components, outputValues := out.values,
       outputEntries := oents, annotationClauseCount := acc, annotations := anns,
       annotationEntries := aents }

/-- The whole `Recognizer` after `recognize` (the fields `build` reads). -/
structure Recognized where
  infoName : Option Text
  oriented : Oriented
  horz : Horz
  /-- the `plane` field as it is left behind (first column removed / pivoted) -/
  plane : Plane
  deriving DecidableEq, Repr, Inhabited

/-- recognizer.rs:124 `recognize_table_components` (after the scanner). -/
def recognizeComponents (P : Plane) : Outcome Recognized := do
  let o ← recognizeOrientation P
  match o.orientation with
  | .ruleAsRow =>
    let P' := P.removeFirstColumn
    let h ← recognizeHorizontal P'
    ok ⟨P.infoName, o, h, P'⟩
  | .ruleAsColumn =>
    let P' ← P.removeLastRow.pivot
    let h ← recognizeHorizontal P'
    ok ⟨P.infoName, o, h, P'⟩
  | .crossTable => error .crossTabNotSupported

/-! ## builder.rs -/

/-- `xs[i]` of builder.rs. -/
def idx (xs : List α) (i : Nat) : Outcome α :=
  match xs[i]? with
  | some a => ok a
  | none => .panic .builderIndex

/-- builder.rs:53 `validate_size`; the number in `invalidSize` is the ordinal of the failing check. -/
def validateSize (o : Oriented) (h : Horz) : Outcome Unit :=
  if h.inputClauseCount = 0 then error (.invalidSize 1)
  else if h.inputExpressions.length ≠ h.inputClauseCount then error (.invalidSize 2)
  else if h.inputValues.length > 0 ∧ h.inputValues.length ≠ h.inputClauseCount then error (.invalidSize 3)
  else if h.outputClauseCount = 0 then error (.invalidSize 4)
  else if h.outputClauseCount > 1 ∧ h.outputComponents.length ≠ h.outputClauseCount then error (.invalidSize 5)
  else if ¬ h.outputClauseCount > 1 ∧ h.outputComponents.length ≠ 0 then error (.invalidSize 6)
  else if h.outputValues.length > 0 ∧ h.outputValues.length ≠ h.outputClauseCount then error (.invalidSize 7)
  else if o.ruleCount = 0 then error (.invalidSize 8)
  else if h.inputEntries.length ≠ o.ruleCount then error (.invalidSize 9)
  else if h.inputEntries.any (fun row => row.length ≠ h.inputClauseCount) then error (.invalidSize 10)
  else if h.outputEntries.length ≠ o.ruleCount then error (.invalidSize 11)
  else if h.outputEntries.any (fun row => row.length ≠ h.outputClauseCount) then error (.invalidSize 12)
  else if h.annotationClauseCount > 0 ∧ h.annotationEntries.length ≠ o.ruleCount then error (.invalidSize 13)
  else if h.annotationClauseCount > 0 ∧
      h.annotationEntries.any (fun row => row.length ≠ h.annotationClauseCount) then error (.invalidSize 14)
  else ok ()

/-- builder.rs:232-259: one rule. -/
def buildRule (h : Horz) (ruleIndex : Nat) : Outcome Rule := do
  let ins ← Outcome.mapM (fun c => do let row ← idx h.inputEntries ruleIndex; idx row c)
    (List.range' 0 h.inputClauseCount)
  let outs ← Outcome.mapM (fun c => do let row ← idx h.outputEntries ruleIndex; idx row c)
    (List.range' 0 h.outputClauseCount)
  let anns ← Outcome.mapM (fun c => do let row ← idx h.annotationEntries ruleIndex; idx row c)
    (List.range' 0 h.annotationClauseCount)
  ok ⟨ins, outs, anns⟩

/-- builder.rs:210: `if count > 0 { Some(xs[i].clone()) } else { None }`. -/
def optAt (xs : List Text) (i : Nat) : Outcome (Option Text) :=
  if xs.length > 0 then
    match idx xs i with
    | .ok v => ok (some v)
    | .error e => error e
    | .panic s => .panic s
  else ok none

/-- builder.rs `non_blank`: the text of an allowed-values cell, `None` for a blank cell. -/
def nonBlank (t : Text) : Option Text := if (trim t).isEmpty then none else some t

/-- builder.rs:198 / 215: `if count > 0 { non_blank(&xs[i]) } else { None }`. -/
def optValueAt (xs : List Text) (i : Nat) : Outcome (Option Text) :=
  if xs.length > 0 then
    match idx xs i with
    | .ok v => ok (nonBlank v)
    | .error e => error e
    | .panic s => .panic s
  else ok none

/-- builder.rs:195-204: one input clause. -/
def buildInput (h : Horz) (i : Nat) : Outcome InputClause := do
  let e ← idx h.inputExpressions i
  let v ← optValueAt h.inputValues i
  ok ⟨e, v⟩

/-- builder.rs:207-222: one output clause. -/
def buildOutput (h : Horz) (i : Nat) : Outcome OutputClause := do
  let n ← optAt h.outputComponents i
  let v ← optValueAt h.outputValues i
  ok ⟨n, v⟩

/-- builder.rs:178 `build` after `Recognizer::recognize`. -/
def buildTable (r : Recognized) : Outcome TableSpec := do
  validateSize r.oriented r.horz
  let h := r.horz
  let inputs ← Outcome.mapM (buildInput h) (List.range' 0 h.inputClauseCount)
  let outputs ← Outcome.mapM (buildOutput h) (List.range' 0 h.outputClauseCount)
  let annotations ← Outcome.mapM (fun i => idx h.annotations i) (List.range' 0 h.annotationClauseCount)
  let rules ← Outcome.mapM (buildRule h) (List.range' 0 r.oriented.ruleCount)
  ok { orientation := r.oriented.orientation, hitPolicy := r.oriented.hitPolicy,
       infoName := r.infoName, inputs := inputs, outputs := outputs, label := h.outputLabel,
       annotations := annotations, rules := rules }

/-- `dmntk_recognizer::build` from the scanner's result on. -/
def recognizePlane (P : Plane) : Outcome TableSpec :=
  match recognizeComponents P with
  | ok r => buildTable r
  | error e => error e
  | .panic s => .panic s


/-! ## The shape of the planes the scanner produces

`Canvas::plane()` (canvas.rs:274) emits, for every text row of the grid that has cell
corners, one row of region cells (with a `VerticalOutputDoubleLine` cell before the column of
the main crossing), and before the row of the main crossing a full row of
`HorizontalOutputDoubleLine` cells.  The predicate below collects what the plane logic relies
on to stay inside its index ranges; the correspondence checks it on every plane the real
scanner produces (drawings, corrupted drawings, arbitrary text). -/

/-- the annotation crossing, if any, lies to the right of the main crossing -/
def Plane.crossingsOrdered (P : Plane) : Bool :=
  match P.mainDoubleCrossing, P.horizontalDoubleCrossing with
  | .ok (x, _), some (qx, _) => decide (x < qx)
  | _, _ => true

def Plane.scannerShape (P : Plane) : Bool :=
  decide (2 ≤ P.rows.length) && decide (0 < P.width) &&
  P.rows.all (fun r => r.length == P.width) &&
  P.rows.any (fun r => r.head? == some Cell.hOut) &&
  (match P.rows.getLast? with
   | some last => last.contains Cell.vOut
   | none => false) &&
  P.removeFirstColumn.crossingsOrdered &&
  (match P.removeLastRow.pivot with
   | .ok P' => P'.crossingsOrdered
   | _ => true)

/-! ## The plane a drawing of a table denotes (`planeOf`)

The cells of a drawing that carry no information of the table — the hit policy marker, the
rule numbers, and (in the `split` variant) the blank cells that continue the hit policy and
annotation header cells through the allowed-values lane — have raw texts of their own,
collected in `Decor`.  All other texts are the (raw, padded, possibly multi-line) texts of
the table itself. -/

structure Decor where
  /-- raw text of the hit policy cell -/
  hp : Text
  /-- raw texts of the rule number cells -/
  ruleNos : List Text
  /-- `true`: the hit policy cell and the annotation header cells stop before the
  allowed-values lane, which is continued by blank cells (as in `EX_07`, `EX_09` of the
  recogniser's tests); `false`: they span all header lanes (as in `EX_02`, `EX_03`) -/
  split : Bool
  hpBlank : Text
  annBlanks : List Text
  /-- `true`: input entries of consecutive rules with the same text are drawn as one merged
  cell (as in `EX_05`, `EX_08` of the recogniser's tests) -/
  merge : Bool := false
  /-- raw (blank) texts of the allowed-values cells of the inputs without allowed values,
  by input position (the allowed-values lane is shared by all inputs and outputs) -/
  inBlanks : List Text := []
  /-- the same for the outputs -/
  outBlanks : List Text := []
  deriving DecidableEq, Repr, Inhabited

/-- Region numbers of the cells of a drawing. -/
structure Ids where
  hp : Nat
  hpBlank : Nat
  label : Nat
  expr : Nat → Nat
  comp : Nat → Nat
  inVal : Nat → Nat
  outVal : Nat → Nat
  ann : Nat → Nat
  annBlank : Nat → Nat
  ruleNo : Nat → Nat
  inE : Nat → Nat → Nat
  outE : Nat → Nat → Nat
  annE : Nat → Nat → Nat

/-- Region cells numbered by `f`, starting at index `j`. -/
def regsFrom (f : Nat → Nat) : Nat → List Text → List Cell
  | _, [] => []
  | j, t :: ts => .region (f j) t :: regsFrom f (j + 1) ts

namespace TableSpec

/-- allowed values drawn? (one lane for the allowed values of all inputs and outputs; it is
drawn when at least one of them has allowed values, the others have a blank cell there) -/
def hasValues (t : TableSpec) : Bool :=
  t.inputs.any (·.values.isSome) || t.outputs.any (·.values.isSome)

/-- a separate lane for the output label (several outputs and a label) -/
def hasLabelRow (t : TableSpec) : Bool := decide (1 < t.outputs.length) && t.label.isSome

def headerRows (t : TableSpec) : Nat :=
  (if t.hasLabelRow then 1 else 0) + 1 + (if t.hasValues then 1 else 0)

def exprs (t : TableSpec) : List Text := t.inputs.map (·.expr)
def names (t : TableSpec) : List Text := t.outputs.map (·.name.getD [])
def labelText (t : TableSpec) : Text := t.label.getD []

/-- Well-formed tables: what a drawing can express. -/
def wf (t : TableSpec) : Bool :=
  t.orientation != .crossTable &&
  !t.inputs.isEmpty && !t.outputs.isEmpty && !t.rules.isEmpty &&
  t.rules.all (fun r => r.ins.length == t.inputs.length && r.outs.length == t.outputs.length
    && r.anns.length == t.annotations.length) &&
  t.inputs.all (fun i => i.values.all (fun v => !(trim v).isEmpty)) &&
  t.outputs.all (fun o => o.values.all (fun v => !(trim v).isEmpty)) &&
  (if t.outputs.length = 1 then t.label.isSome && t.outputs.all (fun o => o.name.isNone)
   else t.outputs.all (fun o => o.name.isSome))

end TableSpec

/-- The texts of an allowed-values lane: the allowed values, or the blank text of the cell. -/
def valuesFrom : List (Option Text) → List Text → List Text
  | [], _ => []
  | v :: vs, bs => v.getD (bs.headD []) :: valuesFrom vs bs.tail

def TableSpec.ivals (t : TableSpec) (d : Decor) : List Text :=
  valuesFrom (t.inputs.map (·.values)) d.inBlanks
def TableSpec.ovals (t : TableSpec) (d : Decor) : List Text :=
  valuesFrom (t.outputs.map (·.values)) d.outBlanks

/-- A row of the body: input cells ‖ output cells [‖ annotation cells]. -/
def mkRow (k : Nat) (a b c : List Cell) : List Cell :=
  a ++ Cell.vOut :: (b ++ (if k = 0 then [] else Cell.vAnn :: c))

def entryRowsFrom (ids : Ids) (k : Nat) : Nat → List Rule → List (List Cell)
  | _, [] => []
  | i, r :: rs =>
    mkRow k (regsFrom (ids.inE i) 0 r.ins) (regsFrom (ids.outE i) 0 r.outs)
      (regsFrom (ids.annE i) 0 r.anns) :: entryRowsFrom ids k (i + 1) rs

def labelRow (ids : Ids) (t : TableSpec) : List Cell :=
  mkRow t.annotations.length (regsFrom ids.expr 0 t.exprs)
    (List.replicate t.outputs.length (.region ids.label t.labelText))
    (regsFrom ids.ann 0 t.annotations)

def nameRow (ids : Ids) (t : TableSpec) : List Cell :=
  mkRow t.annotations.length (regsFrom ids.expr 0 t.exprs)
    (if t.outputs.length = 1 then [.region ids.label t.labelText] else regsFrom ids.comp 0 t.names)
    (regsFrom ids.ann 0 t.annotations)

def valuesRow (ids : Ids) (d : Decor) (t : TableSpec) : List Cell :=
  mkRow t.annotations.length (regsFrom ids.inVal 0 (t.ivals d)) (regsFrom ids.outVal 0 (t.ovals d))
    (if d.split then regsFrom ids.annBlank 0 d.annBlanks else regsFrom ids.ann 0 t.annotations)

def doubleRow (t : TableSpec) : List Cell :=
  List.replicate t.inputs.length Cell.hOut ++ Cell.mainX ::
    (List.replicate t.outputs.length Cell.hOut ++
      (if t.annotations.length = 0 then [] else Cell.horzX :: List.replicate t.annotations.length Cell.hOut))

def headerOf (ids : Ids) (d : Decor) (t : TableSpec) : List (List Cell) :=
  (if t.hasLabelRow then [labelRow ids t] else []) ++ nameRow ids t ::
    (if t.hasValues then [valuesRow ids d t] else [])

/-- The plane of a rules-as-rows drawing without its first column (hit policy, rule
numbers) = the pivoted plane of a rules-as-columns drawing without its last row. -/
def bodyH (ids : Ids) (d : Decor) (t : TableSpec) : List (List Cell) :=
  headerOf ids d t ++ doubleRow t :: entryRowsFrom ids t.annotations.length 0 t.rules

/-- The hit policy lane over the header: the marker cell, and in the `split` variant a
blank cell beside the allowed values. -/
def hpLane (ids : Ids) (d : Decor) (t : TableSpec) : List Cell :=
  List.replicate ((if t.hasLabelRow then 1 else 0) + 1) (.region ids.hp d.hp) ++
    (if t.hasValues then [if d.split then .region ids.hpBlank d.hpBlank else .region ids.hp d.hp] else [])

def bodyWidth (t : TableSpec) : Nat :=
  t.inputs.length + 1 + t.outputs.length +
    (if t.annotations.length = 0 then 0 else 1 + t.annotations.length)

/-- Pure transposition with the cell translation of `pivot` (rows shorter than `w` are
completed with an arbitrary cell; never happens for rectangular planes). -/
def trPure : Nat → List (List Cell) → List (List Cell)
  | 0, _ => []
  | k + 1, rows => rows.map (fun r => pivotCell (r.headD .mainX)) :: trPure k (rows.map List.tail)

def b2n (b : Bool) : Nat := if b then 1 else 0

/-- Region numbers in scanning order (top-left corners row by row, `canvas.rs:425`) of a
rules-as-rows drawing. -/
def idsRows (d : Decor) (t : TableSpec) : Ids :=
  let o := b2n t.infoName.isSome
  let n := t.inputs.length
  let m := t.outputs.length
  let k := t.annotations.length
  let L := t.hasLabelRow
  let V := t.hasValues
  let S := b2n (d.split && V)
  let T := if L then 1 else m
  let b1 := o + 1 + n + T + k
  let b2 := if L then b1 + m else b1
  let b3 := if V then b2 + S + n + m + S * k else b2
  let per := 1 + n + m + k
  { hp := o, hpBlank := b2, label := o + 1 + n,
    expr := fun j => o + 1 + j,
    comp := fun j => if L then b1 + j else o + 1 + n + j,
    inVal := fun j => b2 + S + j,
    outVal := fun j => b2 + S + n + j,
    ann := fun j => o + 1 + n + T + j,
    annBlank := fun j => b2 + S + n + m + j,
    ruleNo := fun i => b3 + i * per,
    inE := fun i j => b3 + i * per + 1 + j,
    outE := fun i j => b3 + i * per + 1 + n + j,
    annE := fun i j => b3 + i * per + 1 + n + m + j }

/-- Region numbers in scanning order of a rules-as-columns drawing. -/
def idsCols (d : Decor) (t : TableSpec) : Ids :=
  let o := b2n t.infoName.isSome
  let n := t.inputs.length
  let m := t.outputs.length
  let k := t.annotations.length
  let r := t.rules.length
  let L := b2n t.hasLabelRow
  let V := b2n t.hasValues
  let S := b2n (d.split && t.hasValues)
  let per := 1 + V + r
  let bo := o + n * per
  let ba := bo + L + m * per
  let perA := 1 + S + r
  let bl := ba + k * perA
  { hp := bl, hpBlank := bl + 1, label := bo,
    expr := fun j => o + j * per,
    comp := fun j => bo + L + j * per,
    inVal := fun j => o + j * per + 1,
    outVal := fun j => bo + L + j * per + 1,
    ann := fun j => ba + j * perA,
    annBlank := fun j => ba + j * perA + 1,
    ruleNo := fun i => bl + 1 + S + i,
    inE := fun i j => o + j * per + 1 + V + i,
    outE := fun i j => bo + L + j * per + 1 + V + i,
    annE := fun i j => ba + j * perA + 1 + S + i }

/-- The plane of a rules-as-rows drawing. -/
def planeRows (ids : Ids) (d : Decor) (t : TableSpec) : List (List Cell) :=
  List.zipWith (· :: ·)
    (hpLane ids d t ++ Cell.hOut :: regsFrom ids.ruleNo 0 d.ruleNos)
    (bodyH ids d t)

/-- The plane of a rules-as-columns drawing. -/
def planeCols (ids : Ids) (d : Decor) (t : TableSpec) : List (List Cell) :=
  trPure (bodyWidth t) (bodyH ids d t) ++
    [hpLane ids d t ++ Cell.vOut :: regsFrom ids.ruleNo 0 d.ruleNos]

/-- The plane (and information item name) the scanner yields for a drawing of `t`. -/
def planeOf (d : Decor) (t : TableSpec) : Plane :=
  match t.orientation with
  | .ruleAsRow => ⟨t.infoName, planeRows (idsRows d t) d t⟩
  | _ => ⟨t.infoName, planeCols (idsCols d t) d t⟩

/-! ### `Display for Plane` (plane.rs:545) -/

def hexDigit (n : Nat) : Char :=
  if n < 10 then Char.ofNat (48 + n) else Char.ofNat (87 + n)

def hexDigits : Nat → Nat → List Char → List Char
  | 0, _, acc => acc
  | fuel + 1, n, acc =>
    if n < 16 then hexDigit n :: acc else hexDigits fuel (n / 16) (hexDigit (n % 16) :: acc)

/-- `format!(" {:>03x} ", n)` -/
def Cell.display : Cell → Text
  | .region n _ =>
    let ds := hexDigits 64 n []
    ' ' :: (List.replicate (3 - ds.length) '0' ++ ds ++ [' '])
  | .hOut => "═════".toList
  | .hAnn => "─────".toList
  | .vOut => ['║']
  | .vAnn => ['│']
  | .mainX => ['╬']
  | .horzX => ['╪']
  | .vertX => ['╫']

def displayRows (rows : List (List Cell)) : Text :=
  rows.flatMap (fun r => r.flatMap Cell.display ++ ['\n'])

/-! ## `draw`: the box-drawing text of a table

The drawing is a grid of `nrows × ncols` grid cells; every grid cell belongs to one region
(`key`); a line segment separates two neighbouring grid cells exactly when they belong to
different regions; the boundaries named by `vDbl` / `hDbl` are drawn with double lines.
Column widths, row heights and the position of the right edge of the information item box
are parameters (`Layout`); a region's text is written into the region's interior line by
line from the top-left corner (texts are expected to fill the interior exactly; shorter
lines are completed with blanks). -/

inductive Key where
  | hp | hpBlank | label
  | expr (j : Nat) | comp (j : Nat) | inVal (j : Nat) | outVal (j : Nat)
  | ann (j : Nat) | annBlank (j : Nat) | ruleNo (i : Nat)
  | inE (i j : Nat) | outE (i j : Nat) | annE (i j : Nat)
  deriving DecidableEq, Repr, Inhabited

structure Layout where
  /-- interior widths of the columns of the drawing -/
  colW : List Nat
  /-- interior heights of the rows of the drawing -/
  rowH : List Nat
  /-- x position of the right edge of the information item box (used when the table has an
  information item name) -/
  boxRight : Nat
  deriving DecidableEq, Repr, Inhabited

/-- the first index of the run of equal consecutive texts that contains index `i` -/
def runStart (xs : List Text) : Nat → Nat
  | 0 => 0
  | i + 1 =>
    match xs[i]?, xs[i + 1]? with
    | some a, some b => if a = b then runStart xs i else i + 1
    | _, _ => i + 1

/-- the input entries of column `j`, rule by rule -/
def TableSpec.inputColumn (t : TableSpec) (j : Nat) : List Text := t.rules.map (fun r => r.ins.getD j [])

/-- the rule whose input entry cell in column `j` also covers rule `i` -/
def entryOwner (d : Decor) (t : TableSpec) (i j : Nat) : Nat :=
  if d.merge then runStart (t.inputColumn j) i else i

/-- The region of the cell in lane `i` (header lanes, then rules) and position `c`
(0 = hit policy / rule numbers, then inputs, outputs, annotations). -/
def keyH (d : Decor) (t : TableSpec) (i c : Nat) : Key :=
  let H := t.headerRows
  let n := t.inputs.length
  let m := t.outputs.length
  if i < H then
    let isVal := t.hasValues && i + 1 == H
    let isLab := t.hasLabelRow && i == 0
    if c = 0 then (if d.split && isVal then .hpBlank else .hp)
    else if c ≤ n then (if isVal then .inVal (c - 1) else .expr (c - 1))
    else if c ≤ n + m then
      (if isVal then .outVal (c - 1 - n) else if isLab || m == 1 then .label else .comp (c - 1 - n))
    else (if d.split && isVal then .annBlank (c - 1 - n - m) else .ann (c - 1 - n - m))
  else
    let r := i - H
    if c = 0 then .ruleNo r
    else if c ≤ n then .inE (entryOwner d t r (c - 1)) (c - 1)
    else if c ≤ n + m then .outE r (c - 1 - n)
    else .annE r (c - 1 - n - m)

def textOfKey (d : Decor) (t : TableSpec) : Key → Text
  | .hp => d.hp
  | .hpBlank => d.hpBlank
  | .label => t.labelText
  | .expr j => t.exprs.getD j []
  | .comp j => t.names.getD j []
  | .inVal j => (t.ivals d).getD j []
  | .outVal j => (t.ovals d).getD j []
  | .ann j => t.annotations.getD j []
  | .annBlank j => d.annBlanks.getD j []
  | .ruleNo i => d.ruleNos.getD i []
  | .inE i j => ((t.rules.map (·.ins)).getD i []).getD j []
  | .outE i j => ((t.rules.map (·.outs)).getD i []).getD j []
  | .annE i j => ((t.rules.map (·.anns)).getD i []).getD j []

structure Sheet where
  nrows : Nat
  ncols : Nat
  key : Nat → Nat → Key
  text : Key → Text
  colW : List Nat
  rowH : List Nat
  vDbl : Nat → Bool
  hDbl : Nat → Bool

def sheetOf (d : Decor) (L : Layout) (t : TableSpec) : Sheet :=
  let H := t.headerRows
  let n := t.inputs.length
  let m := t.outputs.length
  let k := t.annotations.length
  let r := t.rules.length
  match t.orientation with
  | .ruleAsRow =>
    { nrows := H + r, ncols := 1 + n + m + k, key := keyH d t, text := textOfKey d t,
      colW := L.colW, rowH := L.rowH,
      vDbl := fun b => b == 1 + n || (k != 0 && b == 1 + n + m),
      hDbl := fun b => b == H }
  | _ =>
    { nrows := n + m + k + 1, ncols := H + r,
      key := fun row col => keyH d t col (if row = n + m + k then 0 else row + 1),
      text := textOfKey d t, colW := L.colW, rowH := L.rowH,
      vDbl := fun b => b == H,
      hDbl := fun b => b == n || (k != 0 && b == n + m) }

namespace Sheet

def w (s : Sheet) (c : Nat) : Nat := s.colW.getD c 1
def h (s : Sheet) (r : Nat) : Nat := s.rowH.getD r 1

/-- is there a vertical line segment on boundary `bc` beside grid row `r`? -/
def vSeg (s : Sheet) (r bc : Nat) : Bool :=
  bc == 0 || bc == s.ncols || s.key r (bc - 1) != s.key r bc

/-- is there a horizontal line segment on boundary `br` above grid column `c`? -/
def hSeg (s : Sheet) (br c : Nat) : Bool :=
  br == 0 || br == s.nrows || s.key (br - 1) c != s.key br c

def originRow (s : Sheet) : Nat → Nat → Nat
  | 0, _ => 0
  | r + 1, c => if s.key r c = s.key (r + 1) c then originRow s r c else r + 1

def originCol (s : Sheet) (r : Nat) : Nat → Nat
  | 0 => 0
  | c + 1 => if s.key r c = s.key r (c + 1) then originCol s r c else c + 1

/-- y offset of the first interior line of grid row `r` inside its region -/
def yOff (s : Sheet) (r c : Nat) : Nat :=
  let r0 := s.originRow r c
  ((List.range' r0 (r - r0)).map (fun r' => s.h r' + 1)).sum

/-- x offset of the first interior column of grid column `c` inside its region -/
def xOff (s : Sheet) (r c : Nat) : Nat :=
  let c0 := s.originCol r c
  ((List.range' c0 (c - c0)).map (fun c' => s.w c' + 1)).sum

end Sheet

def splitLines (t : Text) : List Text :=
  let rec go : Text → Text → List Text → List Text
    | [], cur, acc => (cur.reverse :: acc).reverse
    | c :: cs, cur, acc => if c = '\n' then go cs [] (cur.reverse :: acc) else go cs (c :: cur) acc
  go t [] []

def padTo (n : Nat) (t : Text) : Text := t.take n ++ List.replicate (n - t.length) ' '

/-- the characters `x .. x+len` of line `y` of a block of lines, completed with blanks -/
def slice (lines : List Text) (y x len : Nat) : Text := padTo len ((lines.getD y []).drop x)

def junction (up down left right vd hd : Bool) : Option Char :=
  match up, down, left, right with
  | false, false, false, false => none
  | true, true, false, false => some (if vd then '║' else '│')
  | false, false, true, true => some (if hd then '═' else '─')
  | false, true, false, true => some '┌'
  | false, true, true, false => some '┐'
  | true, false, false, true => some '└'
  | true, false, true, false => some '┘'
  | true, true, false, true => some (if vd && hd then '╠' else if vd then '╟' else if hd then '╞' else '├')
  | true, true, true, false => some (if vd && hd then '╣' else if vd then '╢' else if hd then '╡' else '┤')
  | false, true, true, true => some (if vd && hd then '╦' else if vd then '╥' else if hd then '╤' else '┬')
  | true, false, true, true => some (if vd && hd then '╩' else if vd then '╨' else if hd then '╧' else '┴')
  | true, true, true, true => some (if vd && hd then '╬' else if vd then '╫' else if hd then '╪' else '┼')
  | true, false, false, false => some (if vd then '║' else '│')
  | false, true, false, false => some (if vd then '║' else '│')
  | false, false, true, false => some (if hd then '═' else '─')
  | false, false, false, true => some (if hd then '═' else '─')

namespace Sheet

/-- the lines of the region owning grid cell `(r, c)` (clamped to the grid) -/
def linesAt (s : Sheet) (r c : Nat) : List Text := splitLines (s.text (s.key r c))

/-- One interior text line `l` of grid row `r`. -/
def textLine (s : Sheet) (r l : Nat) : Text :=
  (List.range s.ncols).flatMap (fun c =>
    let lines := s.linesAt r c
    let y := s.yOff r c + l
    let x := s.xOff r c
    (if s.vSeg r c then [if s.vDbl c then '║' else '│'] else slice lines y (x - 1) 1) ++
      slice lines y x (s.w c)) ++ [if s.vDbl s.ncols then '║' else '│']

/-- The character at the vertex of boundary row `br` and boundary column `bc`. -/
def vertex (s : Sheet) (br bc : Nat) : Text :=
  let up := decide (0 < br) && s.vSeg (br - 1) bc
  let down := decide (br < s.nrows) && s.vSeg br bc
  let left := decide (0 < bc) && s.hSeg br (bc - 1)
  let right := decide (bc < s.ncols) && s.hSeg br bc
  match junction up down left right (s.vDbl bc) (s.hDbl br) with
  | some ch => [ch]
  | none => slice (s.linesAt br bc) (s.yOff br bc - 1) (s.xOff br bc - 1) 1

/-- The line of boundary row `br`. -/
def borderLine (s : Sheet) (br : Nat) : Text :=
  (List.range s.ncols).flatMap (fun c =>
    s.vertex br c ++
      (if s.hSeg br c then List.replicate (s.w c) (if s.hDbl br then '═' else '─')
       else slice (s.linesAt br c) (s.yOff br c - 1) (s.xOff br c) (s.w c))) ++ s.vertex br s.ncols

def render (s : Sheet) : List Text :=
  (List.range s.nrows).flatMap (fun r =>
    s.borderLine r :: (List.range (s.h r)).map (fun l => s.textLine r l)) ++ [s.borderLine s.nrows]

end Sheet

/-- Adds the "up" arm of the information item box's right edge to a character of the top
border of the body. -/
def addUpArm (c : Char) : Char :=
  if c = '─' then '┴' else if c = '┬' then '┼' else if c = '┐' then '┤' else c

/-- The box-drawing text of the table. -/
def draw (d : Decor) (L : Layout) (t : TableSpec) : List Text :=
  let body := (sheetOf d L t).render
  match t.infoName with
  | none => body
  | some name =>
    let wbox := L.boxRight - 1
    let top := '┌' :: (List.replicate wbox '─' ++ ['┐'])
    let txt := (splitLines name).map (fun l => '│' :: (padTo wbox l ++ ['│']))
    match body with
    | [] => top :: txt
    | first :: rest =>
      let first' := (first.set 0 '├').modify L.boxRight addUpArm
      top :: (txt ++ first' :: rest)


/-! ## Region numbers of a drawing with merged cells

With merged input entry cells the number of regions per row varies; the region numbers are
then computed from the sheet itself: a region's number is the rank of its first grid cell in
row-major order (the order in which `canvas.rs:425` finds the top-left corners). -/

def keepFirst : List Key → List Key → List Key
  | [], acc => acc.reverse
  | k :: ks, acc => if acc.contains k then keepFirst ks acc else keepFirst ks (k :: acc)

def Sheet.keysInOrder (s : Sheet) : List Key :=
  keepFirst ((List.range s.nrows).flatMap fun r => (List.range s.ncols).map fun c => s.key r c) []

def idsOfSheet (d : Decor) (t : TableSpec) : Ids :=
  let s := sheetOf d ⟨[], [], 0⟩ t
  let keys := s.keysInOrder
  let o := b2n t.infoName.isSome
  let idOf := fun (k : Key) => o + keys.idxOf k
  { hp := idOf .hp, hpBlank := idOf .hpBlank, label := idOf .label,
    expr := fun j => idOf (.expr j), comp := fun j => idOf (.comp j),
    inVal := fun j => idOf (.inVal j), outVal := fun j => idOf (.outVal j),
    ann := fun j => idOf (.ann j), annBlank := fun j => idOf (.annBlank j),
    ruleNo := fun i => idOf (.ruleNo i),
    inE := fun i j => idOf (.inE (entryOwner d t i j) j),
    outE := fun i j => idOf (.outE i j), annE := fun i j => idOf (.annE i j) }

/-- The plane (and information item name) the scanner yields for a drawing of `t` in which
equal input entries of consecutive rules are merged (`d.merge`). -/
def planeOfMerged (d : Decor) (t : TableSpec) : Plane :=
  match t.orientation with
  | .ruleAsRow => ⟨t.infoName, planeRows (idsOfSheet d t) d t⟩
  | _ => ⟨t.infoName, planeCols (idsOfSheet d t) d t⟩

/-! ## Automatic layout (used by the correspondence only)

From a table with *logical* texts (unpadded lines separated by `\n`) computes column widths
and row heights that fit every region, adds the requested slack, pads every text into the
interior of its region (position chosen pseudo-randomly from `seed`), and returns the
decoration, table and layout to draw.  The padded texts are exactly what the recogniser
must read back. -/

structure Slack where
  colExtra : List Nat
  rowExtra : List Nat
  boxExtra : Nat
  seed : Nat
  deriving DecidableEq, Repr, Inhabited

def textW (t : Text) : Nat := ((splitLines t).map List.length).foldl max 0
def textH (t : Text) : Nat := (splitLines t).length

def rnd (seed : Nat) : Nat := ((seed + 1) * 2654435761 + 12345) / 65536 % 1000003

namespace Sheet

def endCol (s : Sheet) (r c : Nat) : Bool := c + 1 == s.ncols || s.key r c != s.key r (c + 1)
def endRow (s : Sheet) (r c : Nat) : Bool := r + 1 == s.nrows || s.key r c != s.key (r + 1) c

/-- Minimal column widths (left to right; a region's deficit goes to its last column). -/
def fitCols (s : Sheet) : List Nat :=
  (List.range s.ncols).foldl (fun ws c =>
    let need := (List.range s.nrows).foldl (fun acc r =>
      if s.endCol r c then
        let c0 := s.originCol r c
        let have_ := ((List.range' c0 (c - c0)).map (fun c' => ws.getD c' 1 + 1)).sum
        max acc (textW (s.text (s.key r c)) - have_)
      else acc) 1
    ws ++ [need]) []

def fitRows (s : Sheet) : List Nat :=
  (List.range s.nrows).foldl (fun hs r =>
    let need := (List.range s.ncols).foldl (fun acc c =>
      if s.endRow r c then
        let r0 := s.originRow r c
        let have_ := ((List.range' r0 (r - r0)).map (fun r' => hs.getD r' 1 + 1)).sum
        max acc (textH (s.text (s.key r c)) - have_)
      else acc) 1
    hs ++ [need]) []

/-- first grid cell (row-major) owned by `k` -/
def locate (s : Sheet) (k : Key) : Option (Nat × Nat) :=
  ((List.range s.nrows).flatMap fun r => (List.range s.ncols).map fun c => (r, c)).find?
    (fun p => s.key p.1 p.2 == k)

def lastCol (s : Sheet) (r : Nat) : Nat → Nat → Nat
  | 0, c => c
  | fuel + 1, c => if s.endCol r c then c else lastCol s r fuel (c + 1)

def lastRow (s : Sheet) (c : Nat) : Nat → Nat → Nat
  | 0, r => r
  | fuel + 1, r => if s.endRow r c then r else lastRow s c fuel (r + 1)

/-- interior size (width, height) of the region owned by `k` -/
def regionSize (s : Sheet) (k : Key) : Nat × Nat :=
  match s.locate k with
  | none => (1, 1)
  | some (r, c) =>
    let c1 := s.lastCol r s.ncols c
    let r1 := s.lastRow c s.nrows r
    (((List.range' c (c1 + 1 - c)).map (fun c' => s.w c' + 1)).sum - 1,
     ((List.range' r (r1 + 1 - r)).map (fun r' => s.h r' + 1)).sum - 1)

end Sheet

def joinLines : List Text → Text
  | [] => []
  | [l] => l
  | l :: ls => l ++ '\n' :: joinLines ls

/-- Pads a logical text into a `W × H` block. -/
def padBlock (W H seed : Nat) (t : Text) : Text :=
  let lines := splitLines t
  let top := rnd seed % (H - lines.length + 1)
  let body := lines.zipIdx.map (fun (l, i) =>
    let left := rnd (seed + 7 * i + 3) % (W - l.length + 1)
    padTo W (List.replicate left ' ' ++ l))
  let blank := List.replicate W ' '
  joinLines (List.replicate top blank ++ body ++ List.replicate (H - lines.length - top) blank)

def keySeed : Key → Nat
  | .hp => 1 | .hpBlank => 2 | .label => 3
  | .expr j => 10 + 13 * j | .comp j => 11 + 13 * j | .inVal j => 12 + 13 * j
  | .outVal j => 13 + 13 * j | .ann j => 14 + 13 * j | .annBlank j => 15 + 13 * j
  | .ruleNo i => 16 + 13 * i
  | .inE i j => 17 + 13 * j + 101 * i | .outE i j => 18 + 13 * j + 101 * i
  | .annE i j => 19 + 13 * j + 101 * i

def mapIdxFrom (f : Nat → α → β) : Nat → List α → List β
  | _, [] => []
  | i, a :: as => f i a :: mapIdxFrom f (i + 1) as

/-- Applies `f` to every text of a decoration and a table, telling it the cell's key. -/
def mapTexts (f : Key → Text → Text) (d : Decor) (t : TableSpec) : Decor × TableSpec :=
  ({ d with hp := f .hp d.hp, hpBlank := f .hpBlank d.hpBlank,
            ruleNos := mapIdxFrom (fun i x => f (.ruleNo i) x) 0 d.ruleNos,
            annBlanks := mapIdxFrom (fun j x => f (.annBlank j) x) 0 d.annBlanks,
            inBlanks := mapIdxFrom (fun j x => f (.inVal j) x) 0 d.inBlanks,
            outBlanks := mapIdxFrom (fun j x => f (.outVal j) x) 0 d.outBlanks },
   { t with
      inputs := mapIdxFrom (fun j (i : InputClause) =>
        ⟨f (.expr j) i.expr, i.values.map (f (.inVal j))⟩) 0 t.inputs,
      outputs := mapIdxFrom (fun j (o : OutputClause) =>
        ⟨o.name.map (f (.comp j)), o.values.map (f (.outVal j))⟩) 0 t.outputs,
      label := t.label.map (f .label),
      annotations := mapIdxFrom (fun j x => f (.ann j) x) 0 t.annotations,
      rules := mapIdxFrom (fun i (r : Rule) =>
        ⟨mapIdxFrom (fun j x => f (.inE i j) x) 0 r.ins,
         mapIdxFrom (fun j x => f (.outE i j) x) 0 r.outs,
         mapIdxFrom (fun j x => f (.annE i j) x) 0 r.anns⟩) 0 t.rules })

def addLists (a b : List Nat) : List Nat := mapIdxFrom (fun i x => x + b.getD i 0) 0 a

/-- x positions of the double vertical boundaries of a sheet -/
def Sheet.doubleXs (s : Sheet) : List Nat :=
  (List.range (s.ncols + 1)).filterMap fun b =>
    if s.vDbl b then some (((List.range b).map (fun c => s.w c + 1)).sum) else none

def autoLayout (d : Decor) (t : TableSpec) (k : Slack) : Decor × TableSpec × Layout :=
  let s0 := sheetOf d ⟨[], [], 0⟩ t
  let ws := addLists s0.fitCols k.colExtra
  let hs := addLists s0.fitRows k.rowExtra
  let s1 := { s0 with colW := ws, rowH := hs }
  -- the information item box
  let (ws, boxRight, name) :=
    match t.infoName with
    | none => (ws, 0, none)
    | some nm =>
      let wbox := max 1 (textW nm) + k.boxExtra
      let wbox := if s1.doubleXs.contains (wbox + 1) then wbox + 1 else wbox
      let total := (ws.map (· + 1)).sum
      let ws := if wbox + 1 > total then ws.modify (ws.length - 1) (· + (wbox + 1 - total)) else ws
      (ws, wbox + 1, some (padBlock wbox (textH nm) (k.seed + 5) nm))
  let s2 := { s1 with colW := ws }
  let (d', t') := mapTexts (fun key x =>
    let key := match key with
      | .inE i j => Key.inE (entryOwner d t i j) j
      | other => other
    let (W, H) := s2.regionSize key
    padBlock W H (k.seed + keySeed key) x) d t
  (d', { t' with infoName := name }, ⟨ws, hs, boxRight⟩)

end Dmn.Recog
