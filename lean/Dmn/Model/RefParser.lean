import Dmn.Gen.Prec

/-!
# C06 — reference parser and printers for the FEEL operator language

`feel-grammar/src/feel.y` resolves the ambiguity of its `expression` rule through the
`%precedence/%left/%right/%nonassoc` block; `feel-parser/src/lalr.rs` holds the LALR tables
bison generated from it and `parser.rs:155-316` drives them.  This file states *which tree
those declarations dictate* as a precedence-climbing parser (`Ref.parse`) over the token
alphabet of `lexer.rs`, driven by the table regenerated into `Dmn/Gen/Prec.lean`, together
with the two printers of the property (`Ref.print .full`, `Ref.print .minimal`) and
`needsParens`, all computed from the same table.

Trees are those `parser.rs` builds (`AstNode`): parentheses leave no node
(`LEFT_PAREN expression RIGHT_PAREN` has no action, feel.y:141).

The file imports only `Dmn/Gen/Prec.lean` (it is linked into the driver).
-/

namespace Dmn.Ref
open Dmn.Gen.Prec

/-- Binary operators of `textual_expression` (feel.y:117-131), `AstNode::{Or, And, Eq, Nq, Lt,
Le, Gt, Ge, In, Add, Sub, Mul, Div, Exp}` (parser.rs:320-577, 1013, 1202). -/
inductive BinOp where
  | or | and | eq | nq | lt | le | gt | ge | in_ | add | sub | mul | div | exp
  deriving DecidableEq, Repr, Inhabited

/-- Leaves: a (single-word, bound) name, a numeric literal, any other literal
(`true`, `false`, `null`, strings, `@"…"`), numbered by the harness. -/
inductive Atom where
  | name (n : Nat)
  | num (n : Nat)
  | lit (k : Nat)
  deriving DecidableEq, Repr, Inhabited

/-- Tokens of the operator language (`lalr.rs` `TokenType`, `lexer.rs:209-420`).
`band` is `BETWEEN_AND`: the `and` that the lexer returns while its `between` flag is set
(lexer.rs:276-284). -/
inductive Tok where
  | name (n : Nat) | num (n : Nat) | lit (k : Nat)
  | kor | kand | eq | nq | lt | le | gt | ge
  | between | band | kin
  | plus | minus | mul | div | exp
  | instance | kof
  | lparen | rparen | lbrack | rbrack | dot | comma
  deriving DecidableEq, Repr, Inhabited

mutual
/-- The operator skeleton of `AstNode` (feel/src/ast.rs:44). -/
inductive Tree where
  | atom (a : Atom)
  | bin (o : BinOp) (l r : Tree)
  /-- `AstNode::Neg` (parser.rs:1058) -/
  | neg (e : Tree)
  /-- `AstNode::Between(lhs, mhs, rhs)` (parser.rs:329) -/
  | between (e lo hi : Tree)
  /-- `AstNode::InstanceOf(e, QualifiedName [q, qs…])` (parser.rs:803, 1105-1125) -/
  | instOf (e : Tree) (q : Nat) (qs : List Nat)
  /-- `AstNode::Path(e, Name n)` (parser.rs:1067) -/
  | path (e : Tree) (n : Nat)
  /-- `AstNode::Filter(e, i)` (parser.rs:595) -/
  | filter (e i : Tree)
  /-- `AstNode::FunctionInvocation(f, PositionalParameters args)` (parser.rs:744-759) -/
  | call (f : Tree) (args : Args)
inductive Args where
  | nil
  | cons (a : Tree) (as : Args)
end

instance : Inhabited Tree := ⟨.atom (.name 0)⟩
instance : Inhabited Args := ⟨.nil⟩

/-! ## The table: levels of tokens and rules -/

def BinOp.sym : BinOp → Sym
  | .or => .OR | .and => .AND
  | .eq => .EQ | .nq => .NQ | .lt => .LT | .le => .LE | .gt => .GT | .ge => .GE
  | .in_ => .IN | .add => .PLUS | .sub => .MINUS | .mul => .MUL | .div => .DIV | .exp => .EXP

/-- The precedence symbol yacc gives the operator's rule (feel.y:117-131). -/
def BinOp.rulePrec : BinOp → Option Sym
  | .or => rulePrec_disjunction | .and => rulePrec_conjunction
  | .eq => rulePrec_comparison_eq | .nq => rulePrec_comparison_nq
  | .lt => rulePrec_comparison_lt | .le => rulePrec_comparison_le
  | .gt => rulePrec_comparison_gt | .ge => rulePrec_comparison_ge
  | .in_ => rulePrec_comparison_in_2
  | .add => rulePrec_addition | .sub => rulePrec_subtraction
  | .mul => rulePrec_multiplication | .div => rulePrec_division
  | .exp => rulePrec_exponentiation

def symLevel : Option Sym → Nat
  | some s => level s
  | none => 0

/-- Level of the operator's token: what a waiting rule is compared with. -/
def lvl (o : BinOp) : Nat := level o.sym

/-- The smallest token level the right operand of `o` may absorb: yacc, in the state
`e o e .` with an operator token ahead, shifts when the token's level is above the rule's,
reduces when it is below, and on a tie asks the associativity (`%left`: reduce,
`%right`: shift, `%nonassoc`: error — see `nextForbid`). -/
def rhsMin (o : BinOp) : Nat :=
  match assoc o.sym with
  | .left => symLevel o.rulePrec + 1
  | .nonassoc => symLevel o.rulePrec + 1
  | _ => symLevel o.rulePrec

def isNonassoc (o : BinOp) : Bool := assoc o.sym == .nonassoc

/-- After a `%nonassoc` operator a second operator of the same level is a syntax error. -/
def nextForbid (o : BinOp) : Option Nat := if isNonassoc o then some (lvl o) else none

/-- `MINUS expression %prec PREC_NEG` (feel.y:132). -/
def negMin : Nat := symLevel rulePrec_negation
/-- Third operand of `between`: the rule's precedence is that of `BETWEEN_AND` (its last
terminal, feel.y:116) and that line is `%precedence` (no token of the same level can follow). -/
def hiMin : Nat := symLevel rulePrec_between + 1
def betweenLvl : Nat := level .BETWEEN
def instLvl : Nat := level .INSTANCE
def dotLvl : Nat := level .DOT
def parenLvl : Nat := level .LEFT_PAREN
def brackLvl : Nat := level .LEFT_BRACKET

def tokOf : BinOp → Tok
  | .or => .kor | .and => .kand
  | .eq => .eq | .nq => .nq | .lt => .lt | .le => .le | .gt => .gt | .ge => .ge
  | .in_ => .kin | .add => .plus | .sub => .minus | .mul => .mul | .div => .div | .exp => .exp

def binOf : Tok → Option BinOp
  | .kor => some .or | .kand => some .and
  | .eq => some .eq | .nq => some .nq | .lt => some .lt | .le => some .le
  | .gt => some .gt | .ge => some .ge
  | .kin => some .in_ | .plus => some .add | .minus => some .sub
  | .mul => some .mul | .div => some .div | .exp => some .exp
  | _ => none

/-- Level of a token that can continue an expression (infix or postfix position). -/
def opLevel (t : Tok) : Option Nat :=
  match binOf t with
  | some o => some (lvl o)
  | none =>
    match t with
    | .between => some betweenLvl
    | .instance => some instLvl
    | .dot => some dotLvl
    | .lparen => some parenLvl
    | .lbrack => some brackLvl
    | _ => none

def atomTok : Atom → Tok
  | .name n => .name n
  | .num n => .num n
  | .lit k => .lit k

/-! ## The reference parser -/

/-- `qualified_name` after the first segment (feel.y:275-278): `DOT NAME` repeated, greedily
(`DOT` is above `NAME` in the table, so yacc shifts). -/
def parseQual : List Tok → List Nat × List Tok
  | .dot :: .name n :: rest =>
    let r := parseQual rest
    (n :: r.1, r.2)
  | toks => ([], toks)

mutual
/-- An expression all of whose infix/postfix operators at the top have a level ≥ `min`.
The length tests before every continuation always succeed (a sub-parse returns a suffix of
its input); they make the recursion visibly terminating. -/
def parseExpr (min : Nat) (toks : List Tok) : Option (Tree × List Tok) :=
  match toks with
  | .name n :: rest => parseLoop min none (.atom (.name n)) rest
  | .num n :: rest => parseLoop min none (.atom (.num n)) rest
  | .lit k :: rest => parseLoop min none (.atom (.lit k)) rest
  | .lparen :: rest =>
    match parseExpr 0 rest with
    | some (e, .rparen :: rest') =>
      if _h : rest'.length ≤ rest.length then parseLoop min none e rest' else none
    | _ => none
  | .minus :: rest =>
    match parseExpr negMin rest with
    | some (e, rest') =>
      if _h : rest'.length ≤ rest.length then parseLoop min none (.neg e) rest' else none
    | none => none
  | _ => none
termination_by (toks.length, 1)

/-- Extends `lhs` by the operators whose token level is ≥ `min`; `fb` is the level a
preceding `%nonassoc` operator forbids. -/
def parseLoop (min : Nat) (fb : Option Nat) (lhs : Tree) (toks : List Tok) : Option (Tree × List Tok) :=
  match toks with
  | [] => some (lhs, [])
  | t :: rest =>
    match opLevel t with
    | none => some (lhs, t :: rest)
    | some L =>
      if L < min then some (lhs, t :: rest)
      else
        match t with
        | .between =>
          match parseExpr 0 rest with
          | some (lo, .band :: rest1) =>
            if _h1 : rest1.length ≤ rest.length then
              match parseExpr hiMin rest1 with
              | some (hi, rest2) =>
                if _h2 : rest2.length ≤ rest.length then parseLoop min none (.between lhs lo hi) rest2 else none
              | none => none
            else none
          | _ => none
        | .instance =>
          match rest with
          | .kof :: .name q :: rest1 =>
            match parseQual rest1 with
            | (qs, rest2) =>
              if _h : rest2.length ≤ rest1.length then parseLoop min none (.instOf lhs q qs) rest2 else none
          | _ => none
        | .dot =>
          match rest with
          | .name n :: rest1 => parseLoop min none (.path lhs n) rest1
          | _ => none
        | .lbrack =>
          match parseExpr 0 rest with
          | some (i, .rbrack :: rest1) =>
            if _h : rest1.length ≤ rest.length then parseLoop min none (.filter lhs i) rest1 else none
          | _ => none
        | .lparen =>
          -- `parameters` (feel.y:247-251): `)` or a non-empty positional list
          match parseExpr 0 rest with
          | some (a, rest1) =>
            if _h1 : rest1.length ≤ rest.length then
              match parseArgsTail rest1 with
              | some (as, rest2) =>
                if _h2 : rest2.length ≤ rest.length then parseLoop min none (.call lhs (.cons a as)) rest2 else none
              | none => none
            else none
          | none =>
            match rest with
            | .rparen :: rest1 => parseLoop min none (.call lhs .nil) rest1
            | _ => none
        | _ =>
          match binOf t with
          | some o =>
            if fb = some L then none
            else
              match parseExpr (rhsMin o) rest with
              | some (r, rest') =>
                if _h : rest'.length ≤ rest.length then parseLoop min (nextForbid o) (.bin o lhs r) rest' else none
              | none => none
          | none => none
termination_by (toks.length, 0)

/-- `positional_parameters_tail` (feel.y:270-273). -/
def parseArgsTail (toks : List Tok) : Option (Args × List Tok) :=
  match toks with
  | .rparen :: rest => some (.nil, rest)
  | .comma :: rest =>
    match parseExpr 0 rest with
    | some (a, rest1) =>
      if _h : rest1.length ≤ rest.length then
        match parseArgsTail rest1 with
        | some (as, rest2) => some (.cons a as, rest2)
        | none => none
      else none
    | none => none
  | _ => none
termination_by (toks.length, 2)
end

/-- The whole token list is one expression. -/
def parse (toks : List Tok) : Option Tree :=
  match parseExpr 0 toks with
  | some (t, []) => some t
  | _ => none

/-! ## Printers -/

inductive Mode where
  | full | minimal
  deriving DecidableEq, Repr, Inhabited

def isAtom : Tree → Bool
  | .atom _ => true
  | _ => false

/-- Is the operand parenthesised: always when it must be, and in `full` mode whenever it is
not a leaf. -/
def wrapped (m : Mode) (needs : Bool) (c : Tree) : Bool :=
  needs || (m == .full && !isAtom c)

/-- The level the loop that built this tree forbids next. -/
def fbOf : Tree → Option Nat
  | .bin o _ _ => nextForbid o
  | _ => none

def levelGe (t : Tok) (k : Nat) : Bool :=
  match opLevel t with
  | some L => decide (k ≤ L)
  | none => false

mutual
/-- `absorbs m c t`: printed bare (in mode `m`) and followed by the token `t`, the tree `c`
would take `t` into itself: some operand loop left open along its bare right edge accepts
`t` (or, after `instance of`, the qualified name continues with `.`). -/
def absorbs (m : Mode) : Tree → Tok → Bool
  | .atom _, _ => false
  | .bin o _ r, t =>
    levelGe t (rhsMin o) || (!wrapped m (!startsOk m (rhsMin o) r) r && absorbs m r t)
  | .neg e, t =>
    levelGe t negMin || (!wrapped m (!startsOk m negMin e) e && absorbs m e t)
  | .between _ _ hi, t =>
    levelGe t hiMin || (!wrapped m (!startsOk m hiMin hi) hi && absorbs m hi t)
  | .instOf _ _ _, t => t == .dot
  | .path _ _, _ => false
  | .filter _ _, _ => false
  | .call _ _, _ => false

/-- `startsOk m min c`: printed bare, `c` is built completely by `parseExpr min`: every
operator down its bare left edge has a level ≥ `min`. -/
def startsOk (m : Mode) (min : Nat) : Tree → Bool
  | .atom _ => true
  | .neg _ => true
  | .bin o l _ =>
    decide (min ≤ lvl o) &&
      (wrapped m (absorbs m l (tokOf o) || fbOf l == some (lvl o)) l || startsOk m min l)
  | .between e _ _ =>
    decide (min ≤ betweenLvl) && (wrapped m (absorbs m e .between) e || startsOk m min e)
  | .instOf e _ _ =>
    decide (min ≤ instLvl) && (wrapped m (absorbs m e .instance) e || startsOk m min e)
  | .path e _ =>
    decide (min ≤ dotLvl) && (wrapped m (absorbs m e .dot) e || startsOk m min e)
  | .filter e _ =>
    decide (min ≤ brackLvl) && (wrapped m (absorbs m e .lbrack) e || startsOk m min e)
  | .call f _ =>
    decide (min ≤ parenLvl) && (wrapped m (absorbs m f .lparen) f || startsOk m min f)
end

/-- Operand positions. -/
inductive Pos where
  | binL (o : BinOp) | binR (o : BinOp) | negArg
  | betweenE | betweenLo | betweenHi
  | instE | pathE | filterE | filterI | callF | callArg
  deriving DecidableEq, Repr

/-- Must the child `c` at position `pos` be parenthesised (its siblings and itself being
printed in mode `m`)? -/
def needs (m : Mode) (pos : Pos) (c : Tree) : Bool :=
  match pos with
  | .binL o => absorbs m c (tokOf o) || fbOf c == some (lvl o)
  | .binR o => !startsOk m (rhsMin o) c
  | .negArg => !startsOk m negMin c
  | .betweenE => absorbs m c .between
  | .betweenLo => false
  | .betweenHi => !startsOk m hiMin c
  | .instE => absorbs m c .instance
  | .pathE => absorbs m c .dot
  | .filterE => absorbs m c .lbrack
  | .filterI => false
  | .callF => absorbs m c .lparen
  | .callArg => false

/-- `needsParens parent-position child`: the decision of the minimal printer. -/
def needsParens (pos : Pos) (c : Tree) : Bool := needs .minimal pos c

def par (w : Bool) (p : List Tok) : List Tok :=
  if w then .lparen :: p ++ [.rparen] else p

def prQual : List Nat → List Tok
  | [] => []
  | n :: ns => .dot :: .name n :: prQual ns

mutual
def pr (m : Mode) : Tree → List Tok
  | .atom a => [atomTok a]
  | .bin o l r =>
    par (wrapped m (needs m (.binL o) l) l) (pr m l) ++
      tokOf o :: par (wrapped m (needs m (.binR o) r) r) (pr m r)
  | .neg e => .minus :: par (wrapped m (needs m .negArg e) e) (pr m e)
  | .between e lo hi =>
    par (wrapped m (needs m .betweenE e) e) (pr m e) ++
      .between :: (par (wrapped m (needs m .betweenLo lo) lo) (pr m lo) ++
        .band :: par (wrapped m (needs m .betweenHi hi) hi) (pr m hi))
  | .instOf e q qs =>
    par (wrapped m (needs m .instE e) e) (pr m e) ++ .instance :: .kof :: .name q :: prQual qs
  | .path e n => par (wrapped m (needs m .pathE e) e) (pr m e) ++ [.dot, .name n]
  | .filter e i =>
    par (wrapped m (needs m .filterE e) e) (pr m e) ++
      .lbrack :: (par (wrapped m (needs m .filterI i) i) (pr m i) ++ [.rbrack])
  | .call f as =>
    par (wrapped m (needs m .callF f) f) (pr m f) ++ .lparen :: prArgs m as
/-- The parameters and the closing parenthesis. -/
def prArgs (m : Mode) : Args → List Tok
  | .nil => [.rparen]
  | .cons a as => par (wrapped m (needs m .callArg a) a) (pr m a) ++ prArgsTail m as
def prArgsTail (m : Mode) : Args → List Tok
  | .nil => [.rparen]
  | .cons a as => .comma :: (par (wrapped m (needs m .callArg a) a) (pr m a) ++ prArgsTail m as)
end

/-- The rendering of the property: `full` parenthesises every operand that is not a leaf,
`minimal` exactly those `needsParens` demands. -/
def print (m : Mode) (t : Tree) : List Tok := pr m t

/-- The `i`-th operand of the root (in print order) with its position. -/
def operand : Tree → Nat → Option (Pos × Tree)
  | .bin o l _, 0 => some (.binL o, l)
  | .bin o _ r, 1 => some (.binR o, r)
  | .neg e, 0 => some (.negArg, e)
  | .between e _ _, 0 => some (.betweenE, e)
  | .between _ lo _, 1 => some (.betweenLo, lo)
  | .between _ _ hi, 2 => some (.betweenHi, hi)
  | .instOf e _ _, 0 => some (.instE, e)
  | .path e _, 0 => some (.pathE, e)
  | .filter e _, 0 => some (.filterE, e)
  | .filter _ i, 1 => some (.filterI, i)
  | .call f _, 0 => some (.callF, f)
  | _, _ => none

/-- The minimal rendering with the `i`-th operand of the root left without parentheses
(the arguments of an invocation never have any). -/
def printWithout (t : Tree) (i : Nat) : List Tok :=
  let w := fun (j : Nat) (pos : Pos) (c : Tree) =>
    if j = i then false else wrapped .minimal (needs .minimal pos c) c
  match t with
  | .atom a => [atomTok a]
  | .bin o l r => par (w 0 (.binL o) l) (pr .minimal l) ++ tokOf o :: par (w 1 (.binR o) r) (pr .minimal r)
  | .neg e => .minus :: par (w 0 .negArg e) (pr .minimal e)
  | .between e lo hi =>
    par (w 0 .betweenE e) (pr .minimal e) ++
      .between :: (par (w 1 .betweenLo lo) (pr .minimal lo) ++
        .band :: par (w 2 .betweenHi hi) (pr .minimal hi))
  | .instOf e q qs => par (w 0 .instE e) (pr .minimal e) ++ .instance :: .kof :: .name q :: prQual qs
  | .path e n => par (w 0 .pathE e) (pr .minimal e) ++ [.dot, .name n]
  | .filter e i' =>
    par (w 0 .filterE e) (pr .minimal e) ++
      .lbrack :: (par (w 1 .filterI i') (pr .minimal i') ++ [.rbrack])
  | .call f as => par (w 0 .callF f) (pr .minimal f) ++ .lparen :: prArgs .minimal as

/-! ## The `between` flag of the lexer

`parser.rs:339` (`between_begin`, run right after `between` is shifted) sets the lexer's flag
`between`; `lexer.rs:276-284` returns the next `and` as `BETWEEN_AND` and clears the flag.
The flag is one boolean for the whole input — it knows nothing about nesting.  `relex`
replays that on a token list in which both kinds of `and` are written alike. -/
def relex (flag : Bool) : List Tok → List Tok
  | [] => []
  | .between :: ts => .between :: relex true ts
  | .kand :: ts => if flag then .band :: relex false ts else .kand :: relex false ts
  | .band :: ts => if flag then .band :: relex false ts else .kand :: relex false ts
  | t :: ts => t :: relex flag ts

mutual
/-- Neither `and` nor `between` occurs anywhere in the rendering of the tree. -/
def noAnd : Tree → Bool
  | .atom _ => true
  | .bin o l r => o != .and && noAnd l && noAnd r
  | .neg e => noAnd e
  | .between _ _ _ => false
  | .instOf e _ _ => noAnd e
  | .path e _ => noAnd e
  | .filter e i => noAnd e && noAnd i
  | .call f as => noAnd f && noAndArgs as
def noAndArgs : Args → Bool
  | .nil => true
  | .cons a as => noAnd a && noAndArgs as
end

mutual
/-- The one-boolean flag of the lexer is enough for this tree: no `between` has an `and` or
another `between` inside its middle operand. -/
def betweenSafe : Tree → Bool
  | .atom _ => true
  | .bin _ l r => betweenSafe l && betweenSafe r
  | .neg e => betweenSafe e
  | .between e lo hi => betweenSafe e && noAnd lo && betweenSafe hi
  | .instOf e _ _ => betweenSafe e
  | .path e _ => betweenSafe e
  | .filter e i => betweenSafe e && betweenSafe i
  | .call f as => betweenSafe f && betweenSafeArgs as
def betweenSafeArgs : Args → Bool
  | .nil => true
  | .cons a as => betweenSafe a && betweenSafeArgs as
end

/-! ## A path of three names right after an opening parenthesis

`interval_start: LEFT_PAREN endpoint ELLIPSIS` (feel.y:177) with `endpoint → qualified_name:
NAME DOT qualified_name | NAME` (feel.y:275-278) competes with `LEFT_PAREN expression
RIGHT_PAREN` where `expression → NAME DOT NAME` (`path_names`, feel.y:134).  After
`( NAME DOT NAME` with `DOT` ahead the generated tables shift (`DOT` is above `NAME`), which
commits the parser to the qualified name of an interval: `( a . b . c` can then only go on
as `( a.b.c .. x )`.  The operator language has no `..`, so such a token list is rejected. -/

/-- Ends an operand: a `(` after it is an invocation, not a grouping parenthesis. -/
def operandEnd : Tok → Bool
  | .name _ => true
  | .num _ => true
  | .lit _ => true
  | .rparen => true
  | .rbrack => true
  | _ => false

def startsThreeNames : List Tok → Bool
  | .name _ :: .dot :: .name _ :: .dot :: _ => true
  | _ => false

def pathQuirk (prevEnd : Bool) : List Tok → Bool
  | [] => false
  | t :: rest => (t == .lparen && !prevEnd && startsThreeNames rest) || pathQuirk (operandEnd t) rest

/-- What the implementation makes of the text of a token list: the lexer decides which
`and` is which, the tables refuse `( a . b . c`, otherwise the grammar applies. -/
def parseSurface (toks : List Tok) : Option Tree :=
  if pathQuirk false toks then none else parse (relex false toks)

end Dmn.Ref
